// Package load type-checks the repository under analysis, builds its SSA form
// and a VTA call graph. It never executes repository code and never writes
// into the repository directory (go.mod/go.sum are redirected with -modfile).
package load

import (
	"crypto/sha256"
	"fmt"
	"go/token"
	"go/types"
	"os"
	"path/filepath"
	"sort"
	"strings"

	"golang.org/x/tools/go/callgraph"
	"golang.org/x/tools/go/callgraph/cha"
	"golang.org/x/tools/go/callgraph/vta"
	"golang.org/x/tools/go/packages"
	"golang.org/x/tools/go/ssa"
	"golang.org/x/tools/go/ssa/ssautil"
)

const Module = "github.com/foxboron/go-uefi"

// Config selects the build configuration that is analysed.
type Config struct {
	Dir    string // repository root
	GOOS   string
	GOARCH string
	Tags   []string
}

func (c Config) String() string {
	t := "-"
	if len(c.Tags) > 0 {
		t = strings.Join(c.Tags, ",")
	}
	return fmt.Sprintf("%s/%s tags=%s", c.GOOS, c.GOARCH, t)
}

// Program is the resolved program all rules work on.
type Program struct {
	Cfg      Config
	Fset     *token.FileSet
	Pkgs     []*packages.Package // module packages (roots)
	ByPath   map[string]*packages.Package
	SSA      *ssa.Program
	SSAPkgs  map[string]*ssa.Package
	cg       *callgraph.Graph
	chaG     *callgraph.Graph
	allFuncs map[*ssa.Function]bool
	// Lib is the set of library packages (non-main, non-test, not asntest).
	Lib map[string]bool
	// Clients are module packages loaded but not judged (cmd/*, tests/*, asntest).
	Clients []string
}

// libExcluded lists module packages that are loaded (they must type-check) but
// are clients or test-suite helpers, not library code.
func libExcluded(path string) bool {
	rel := strings.TrimPrefix(path, Module)
	switch {
	case strings.HasPrefix(rel, "/cmd/"), strings.HasPrefix(rel, "/tests"):
		return true
	case rel == "/asntest", rel == "/efi/efitest":
		return true
	}
	return false
}

func hashFile(p string) string {
	b, err := os.ReadFile(p)
	if err != nil {
		return "missing"
	}
	return fmt.Sprintf("%x", sha256.Sum256(b))
}

// Load loads ./... of cfg.Dir. Every failure is an error: the caller must
// treat it as UNDECIDED, never as a pass.
func Load(cfg Config) (*Program, error) {
	if cfg.GOOS == "" {
		cfg.GOOS = "linux"
	}
	if cfg.GOARCH == "" {
		cfg.GOARCH = "amd64"
	}
	abs, err := filepath.Abs(cfg.Dir)
	if err != nil {
		return nil, err
	}
	cfg.Dir = abs
	tmp, err := os.MkdirTemp("", "vcheck-mod-")
	if err != nil {
		return nil, err
	}
	defer os.RemoveAll(tmp)
	for _, f := range []string{"go.mod", "go.sum"} {
		b, err := os.ReadFile(filepath.Join(cfg.Dir, f))
		if err != nil {
			return nil, fmt.Errorf("cannot read %s: %v", f, err)
		}
		if err := os.WriteFile(filepath.Join(tmp, f), b, 0o644); err != nil {
			return nil, err
		}
	}
	before := hashFile(filepath.Join(cfg.Dir, "go.mod")) + hashFile(filepath.Join(cfg.Dir, "go.sum"))

	env := []string{}
	for _, e := range os.Environ() {
		k := strings.SplitN(e, "=", 2)[0]
		switch k {
		case "GOFLAGS", "GOWORK", "GOOS", "GOARCH", "GOPROXY", "GOSUMDB", "GOTOOLCHAIN", "CGO_ENABLED":
			continue
		}
		env = append(env, e)
	}
	flags := "-mod=mod -modfile=" + filepath.Join(tmp, "go.mod")
	if len(cfg.Tags) > 0 {
		flags += " -tags=" + strings.Join(cfg.Tags, ",")
	}
	env = append(env, "GOFLAGS="+flags, "GOWORK=off", "GOOS="+cfg.GOOS, "GOARCH="+cfg.GOARCH,
		"GOPROXY=off", "GOSUMDB=off", "GOTOOLCHAIN=local", "CGO_ENABLED=0")

	pc := &packages.Config{
		Mode:  packages.LoadAllSyntax,
		Dir:   cfg.Dir,
		Env:   env,
		Tests: false,
	}
	pkgs, err := packages.Load(pc, "./...")
	if err != nil {
		return nil, fmt.Errorf("packages.Load: %v", err)
	}
	after := hashFile(filepath.Join(cfg.Dir, "go.mod")) + hashFile(filepath.Join(cfg.Dir, "go.sum"))
	if before != after {
		return nil, fmt.Errorf("loader self-check failed: go.mod/go.sum of %s changed during load", cfg.Dir)
	}
	if len(pkgs) == 0 {
		return nil, fmt.Errorf("no packages loaded from %s", cfg.Dir)
	}
	p := &Program{Cfg: cfg, ByPath: map[string]*packages.Package{}, SSAPkgs: map[string]*ssa.Package{}, Lib: map[string]bool{}}
	var errs []string
	for _, pk := range pkgs {
		if !strings.HasPrefix(pk.PkgPath, Module) {
			continue
		}
		for _, e := range pk.Errors {
			errs = append(errs, fmt.Sprintf("%s: %s", pk.PkgPath, e.Msg))
		}
		if pk.Types == nil || pk.IllTyped {
			errs = append(errs, fmt.Sprintf("%s: ill-typed", pk.PkgPath))
		}
		p.Pkgs = append(p.Pkgs, pk)
		p.ByPath[pk.PkgPath] = pk
		if pk.Name != "main" && !libExcluded(pk.PkgPath) {
			p.Lib[pk.PkgPath] = true
		} else {
			p.Clients = append(p.Clients, pk.PkgPath)
		}
	}
	if len(errs) > 0 {
		sort.Strings(errs)
		return nil, fmt.Errorf("type errors in module packages: %s", strings.Join(errs, "; "))
	}
	if len(p.Lib) == 0 {
		return nil, fmt.Errorf("no library packages found under %s", cfg.Dir)
	}
	p.Fset = pkgs[0].Fset
	prog, _ := ssautil.AllPackages(pkgs, ssa.InstantiateGenerics)
	prog.Build()
	p.SSA = prog
	for _, sp := range prog.AllPackages() {
		if sp != nil && sp.Pkg != nil {
			p.SSAPkgs[sp.Pkg.Path()] = sp
		}
	}
	sort.Strings(p.Clients)
	return p, nil
}

// AllFunctions returns every function of the program (cached).
func (p *Program) AllFunctions() map[*ssa.Function]bool {
	if p.allFuncs == nil {
		p.allFuncs = ssautil.AllFunctions(p.SSA)
	}
	return p.allFuncs
}

// CallGraph returns the VTA call graph (seeded with CHA), built once.
func (p *Program) CallGraph() *callgraph.Graph {
	if p.cg == nil {
		p.chaG = cha.CallGraph(p.SSA)
		p.cg = vta.CallGraph(p.AllFunctions(), p.chaG)
	}
	return p.cg
}

// InLib reports whether fn belongs to a library package of the module
// (closures and generic instances are attributed to their origin).
func (p *Program) InLib(fn *ssa.Function) bool {
	return p.Lib[FuncPkgPath(fn)]
}

// InModule reports whether fn belongs to any package of the module.
func (p *Program) InModule(fn *ssa.Function) bool {
	return strings.HasPrefix(FuncPkgPath(fn), Module)
}

// FuncPkgPath returns the import path of the package a function is declared in.
func FuncPkgPath(fn *ssa.Function) string {
	for fn != nil {
		if fn.Pkg != nil && fn.Pkg.Pkg != nil {
			return fn.Pkg.Pkg.Path()
		}
		if o := fn.Origin(); o != nil && o != fn {
			fn = o
			continue
		}
		if fn.Object() != nil && fn.Object().Pkg() != nil {
			return fn.Object().Pkg().Path()
		}
		fn = fn.Parent()
	}
	return ""
}

// Func resolves a package-level function or method by object, never by text
// match over source. spec is "pkgpath.Func", "pkgpath.(*T).M" or "pkgpath.(T).M".
func (p *Program) Func(spec string) *ssa.Function {
	i := strings.LastIndex(spec, ".(")
	if i < 0 {
		j := strings.LastIndex(spec, ".")
		pkg := p.SSAPkgs[spec[:j]]
		if pkg == nil {
			return nil
		}
		return pkg.Func(spec[j+1:])
	}
	pkgPath := spec[:i]
	rest := spec[i+2:]
	k := strings.Index(rest, ").")
	tname, mname := rest[:k], rest[k+2:]
	ptr := strings.HasPrefix(tname, "*")
	tname = strings.TrimPrefix(tname, "*")
	pkg := p.SSAPkgs[pkgPath]
	if pkg == nil {
		return nil
	}
	obj := pkg.Pkg.Scope().Lookup(tname)
	tn, ok := obj.(*types.TypeName)
	if !ok {
		return nil
	}
	var T types.Type = tn.Type()
	if ptr {
		T = types.NewPointer(T)
	}
	sel := p.SSA.MethodSets.MethodSet(T).Lookup(pkg.Pkg, mname)
	if sel == nil {
		// exported method lookup does not need the package
		sel = p.SSA.MethodSets.MethodSet(T).Lookup(nil, mname)
	}
	if sel == nil {
		return nil
	}
	return p.SSA.MethodValue(sel)
}

// Pos formats a position relative to the repository root.
func (p *Program) Pos(pos token.Pos) string {
	if !pos.IsValid() {
		return "-"
	}
	ps := p.Fset.Position(pos)
	rel, err := filepath.Rel(p.Cfg.Dir, ps.Filename)
	if err != nil || strings.HasPrefix(rel, "..") {
		rel = ps.Filename
	}
	return fmt.Sprintf("%s:%d", rel, ps.Line)
}

// LibFunctions returns all functions (including closures) declared in library
// packages, sorted by name for deterministic output.
func (p *Program) LibFunctions() []*ssa.Function {
	var out []*ssa.Function
	for fn := range p.AllFunctions() {
		if fn.Blocks == nil || fn.Synthetic != "" && !strings.Contains(fn.Synthetic, "instance") {
			if fn.Blocks == nil {
				continue
			}
		}
		if p.InLib(fn) {
			out = append(out, fn)
		}
	}
	sort.Slice(out, func(i, j int) bool { return FuncName(out[i]) < FuncName(out[j]) })
	return out
}

// FuncName is a stable, position-free name: pkg.(*T).M, pkg.F, pkg.F$1.
func FuncName(fn *ssa.Function) string {
	s := fn.String()
	s = strings.ReplaceAll(s, Module+"/", "")
	s = strings.ReplaceAll(s, Module, "go-uefi")
	return s
}
