package rules

import "golang.org/x/tools/go/ssa"

func init() {
	Registry["C13"] = checkC13
	Registry["C14"] = checkC14
}

var sinkKindsAll = map[string]bool{"T1": true, "T2": true, "T3": true, "T4": true, "T5": true}

func (c *Ctx) scope(pkgs ...string) (map[*ssa.Function]bool, func(*ssa.Function) string) {
	roots := c.ExportedAPI(pkgs...)
	reach, prev := c.Reachable(roots)
	return reach, func(fn *ssa.Function) string { return c.Chain(prev, fn) }
}

func checkC13(c *Ctx) {
	reach, chain := c.scope("authenticode", "pkcs7")
	inScope := func(fn *ssa.Function) bool { return reach[fn] && c.P.InLib(fn) }
	n := 0
	for fn := range reach {
		if c.P.InLib(fn) {
			n++
			c.R.Funcs[name(fn)] = true
		}
	}
	c.R.Extra["functions_in_scope"] = n
	c.RuleB("B.term", reach, chain, nil)
	c.RuleT("", inScope, sinkKindsAll)
	c.ruleWidthDecode("T8", inScope)
	c.ruleArrayConversion("T9", inScope)
	c.ruleDivisor("T10", inScope)
	c.ruleNilOnError("N2.onerror", inScope)
	c.ruleStaleNil("N3.stalenil", inScope)
	c.ruleNoGlobalGrowth("T11.retain", inScope)
	c.ruleAssert("B.assert", inScope)
	c.ruleLockPairing("R.lock", inScope)
	c.ruleHashAvailable("B.hash", inScope)
	c.ruleNoMaterialise("T1.stream", inScope)
	c.RuleN("N.nil", inScope)
	c.RuleR("R.loop", inScope)
	c.scopeGuard("scope", n, 25, "library functions reachable from the exported API of authenticode and pkcs7")
}

func checkC14(c *Ctx) {
	reach, _ := c.scope("efi/signature", "efi/device", "efi/util", "efivar", "efivarfs", "efivarfs/fswrapper", "efivarfs/testfs", "efi/attributes")
	inScope := func(fn *ssa.Function) bool { return reach[fn] && c.P.InLib(fn) }
	n := 0
	for fn := range reach {
		if c.P.InLib(fn) {
			n++
			c.R.Funcs[name(fn)] = true
		}
	}
	c.R.Extra["functions_in_scope"] = n
	// the property's static quantifier: every terminator site of the library
	c.RuleB("B.term", nil, nil, nil)
	c.RuleT("", inScope, sinkKindsAll)
	c.ruleWidthDecode("T8", inScope)
	c.ruleArrayConversion("T9", inScope)
	c.ruleDivisor("T10", inScope)
	c.ruleNilOnError("N2.onerror", inScope)
	c.ruleStaleNil("N3.stalenil", inScope)
	c.ruleNoGlobalGrowth("T11.retain", inScope)
	c.ruleAssert("B.assert", inScope)
	c.ruleLockPairing("R.lock", inScope)
	c.ruleHashAvailable("B.hash", inScope)
	c.RuleN("N.nil", inScope)
	c.RuleR("R.loop", inScope)
	c.scopeGuard("scope", n, 60, "library functions reachable from the exported decoders")
}
