package rules

import (
	"fmt"
	"go/token"
	"go/types"
	"strings"

	"golang.org/x/tools/go/ssa"

	"verif/checker/internal/ir"
)

func init() { Registry["C01"] = checkC01 }

const acPkg = M + "/authenticode"

// structOffset: byte offset of a field in encoding/binary's layout of struct T.
func structOffset(T types.Type, field string) (int64, bool) {
	st, ok := T.Underlying().(*types.Struct)
	if !ok {
		return 0, false
	}
	off := int64(0)
	for i := 0; i < st.NumFields(); i++ {
		if st.Field(i).Name() == field {
			return off, true
		}
		n := binarySize(st.Field(i).Type())
		if n < 0 {
			return 0, false
		}
		off += int64(n)
	}
	return 0, false
}

// sectionRange resolves a call that constructs a section reader over the image
// to its [start, end) as affine values. Accepted: io.NewSectionReader(r, off, n)
// and a repo closure/function whose body is io.NewSectionReader(p0, p1, p2-p1).
func (c *Ctx) sectionRange(call *ssa.Call) (src ssa.Value, start, end Affine, ok bool) {
	if ir.CallID(call) == "io.NewSectionReader" {
		off, n := affineOf(call.Call.Args[1], 0), affineOf(call.Call.Args[2], 0)
		return call.Call.Args[0], off, off.add(n, 1), true
	}
	callee := calleeOrClosure(call)
	if callee == nil || !c.P.InLib(callee) || len(callee.Params) != 3 {
		return nil, Affine{}, Affine{}, false
	}
	rets := ir.Returns(callee)
	if len(rets) != 1 || len(rets[0].Results) != 1 {
		return nil, Affine{}, Affine{}, false
	}
	inner, isC := rets[0].Results[0].(*ssa.Call)
	if !isC || ir.CallID(inner) != "io.NewSectionReader" {
		return nil, Affine{}, Affine{}, false
	}
	p := callee.Params
	if ir.StripIface(inner.Call.Args[0]) != ssa.Value(p[0]) || inner.Call.Args[1] != ssa.Value(p[1]) {
		return nil, Affine{}, Affine{}, false
	}
	n := affineOf(inner.Call.Args[2], 0)
	want := symAffine("param:"+p[2].Name(), nil).add(symAffine("param:"+p[1].Name(), nil), -1)
	if !n.equal(want) {
		return nil, Affine{}, Affine{}, false
	}
	return call.Call.Args[0], affineOf(call.Call.Args[1], 0), affineOf(call.Call.Args[2], 0), true
}

// multiReaderParts lists, in order, the values appended to the slice handed to
// newMultiReaderAt: header readers first, then per-section appends inside the
// loop, then the tail.
func (c *Ctx) multiReaderParts(fn *ssa.Function) (parts []ssa.Value, inLoop []bool, ok bool) {
	var mr *ssa.Call
	instrsOf(fn, func(i ssa.Instruction) {
		if call, isC := i.(*ssa.Call); isC && ir.CallID(call) == acPkg+".newMultiReaderAt" {
			mr = call
		}
	})
	if mr == nil {
		return nil, nil, false
	}
	// walk the append chain backwards
	var rev []ssa.Value
	var revLoop []bool
	seen := map[ssa.Value]bool{}
	var walk func(v ssa.Value)
	walk = func(v ssa.Value) {
		if v == nil || seen[v] {
			return
		}
		seen[v] = true
		switch x := v.(type) {
		case *ssa.Call:
			if ir.CallID(x) == "builtin.append" {
				elems, okE := variadicElems(x.Call.Args[1])
				if okE {
					for k := len(elems) - 1; k >= 0; k-- {
						rev = append(rev, ir.StripIface(elems[k]))
						revLoop = append(revLoop, inLoopBlock(fn, x.Block()))
					}
				}
				walk(x.Call.Args[0])
			}
		case *ssa.Phi:
			// loop-carried slice: first the loop edge(s), then the entry edge
			var entry ssa.Value
			for k, e := range x.Edges {
				if x.Block().Preds[k].Index < x.Block().Index {
					entry = e
				} else if e != ssa.Value(x) {
					walk(e)
				}
			}
			walk(entry)
		case *ssa.Slice:
			if a, isA := x.X.(*ssa.Alloc); isA {
				// slice literal
				var elems []ssa.Value
				for _, r := range *a.Referrers() {
					if ia, ok := r.(*ssa.IndexAddr); ok {
						for _, rr := range *ia.Referrers() {
							if st, ok := rr.(*ssa.Store); ok {
								elems = append(elems, ir.StripIface(st.Val))
							}
						}
					}
				}
				for k := len(elems) - 1; k >= 0; k-- {
					rev = append(rev, elems[k])
					revLoop = append(revLoop, false)
				}
			}
		}
	}
	walk(mr.Call.Args[0])
	for k := len(rev) - 1; k >= 0; k-- {
		parts = append(parts, rev[k])
		inLoop = append(inLoop, revLoop[k])
	}
	return parts, inLoop, len(parts) > 0
}

func inLoopBlock(fn *ssa.Function, b *ssa.BasicBlock) bool { return inLoop(fn, b) }

func checkC01(c *Ctx) {
	fn := c.Fn("J1.layout", "authenticode.Parse")
	if fn == nil {
		return
	}
	fname := name(fn)
	rP := fn.Params[0]
	// ---- the type switch over the optional header: case type -> block
	type swCase struct {
		T     types.Type // pointee struct type
		val   ssa.Value  // asserted value
		block *ssa.BasicBlock
	}
	var cases []swCase
	instrsOf(fn, func(i ssa.Instruction) {
		ta, ok := i.(*ssa.TypeAssert)
		if !ok || !ta.CommaOk {
			return
		}
		id := ir.NamedTypeID(ta.AssertedType)
		if id != "debug/pe.OptionalHeader32" && id != "debug/pe.OptionalHeader64" {
			return
		}
		var val ssa.Value
		var okv ssa.Value
		for _, r := range *ta.Referrers() {
			if ex, isEx := r.(*ssa.Extract); isEx {
				if ex.Index == 0 {
					val = ex
				} else {
					okv = ex
				}
			}
		}
		for _, ce := range ir.CondEdges(fn) {
			if ce.Cond == okv && ce.Truth {
				cases = append(cases, swCase{ta.AssertedType.(*types.Pointer).Elem(), val, fn.Blocks[ce.Edge.To]})
			}
		}
	})
	if len(cases) != 2 {
		c.R.Undecf("J1.layout", fname, "optional-header-switch", c.Pos(fn.Pos()), "Parse distinguishes PE32 and PE32+ optional headers by a type switch", fmt.Sprintf("%d cases found", len(cases)))
		return
	}
	parts, loopFlags, okP := c.multiReaderParts(fn)
	if !okP || len(parts) < 5 {
		c.R.Undecf("J1.layout", fname, "hashed-parts", c.Pos(fn.Pos()), "the hashed content is a multi-reader over a list of parts built by append", fmt.Sprintf("%d parts resolved", len(parts)))
		return
	}
	// header parts: the non-loop parts before the first loop part
	var hdr []*ssa.Call
	k := 0
	for ; k < len(parts) && !loopFlags[k]; k++ {
		if call, ok := parts[k].(*ssa.Call); ok {
			if _, _, _, isR := c.sectionRange(call); isR {
				hdr = append(hdr, call)
				continue
			}
		}
		break
	}
	if len(hdr) != 3 {
		c.R.Violf("J1.layout", fname, "header-ranges", c.Pos(fn.Pos()), "the headers are hashed as three ranges (before checksum, between checksum and certificate-table entry, after the entry)",
			fmt.Sprintf("%d header ranges found before the sections", len(hdr)))
		return
	}
	// phis merging the switch
	phis := map[*ssa.Phi]bool{}
	instrsOf(fn, func(i ssa.Instruction) {
		if ph, ok := i.(*ssa.Phi); ok {
			for _, cs := range cases {
				for _, p := range ph.Block().Preds {
					if p == cs.block || cs.block.Dominates(p) {
						phis[ph] = true
					}
				}
			}
		}
	})
	for _, cs := range cases {
		tname := ir.NamedTypeID(cs.T)
		env := map[*ssa.Phi]ssa.Value{}
		for ph := range phis {
			for j, p := range ph.Block().Preds {
				if p == cs.block || cs.block.Dominates(p) {
					env[ph] = ph.Edges[j]
				}
			}
		}
		affineEnv = env
		var bad []string
		offCk, ok1 := structOffset(cs.T, "CheckSum")
		offDD, ok2 := structOffset(cs.T, "DataDirectory")
		if !ok1 || !ok2 {
			bad = append(bad, "cannot compute the layout of "+tname)
		}
		// directory index used in this case
		kIdx := int64(-1)
		instrsOf(fn, func(i ssa.Instruction) {
			ia, ok := i.(*ssa.IndexAddr)
			if !ok || !(ia.Block() == cs.block || cs.block.Dominates(ia.Block())) {
				return
			}
			if fa, ok := ia.X.(*ssa.FieldAddr); ok && fa.X == cs.val && ir.FieldOf(fa).Name() == "DataDirectory" {
				if n, isK := ir.ConstInt(ia.Index); isK {
					kIdx = n
				}
			}
		})
		if kIdx != 4 {
			bad = append(bad, fmt.Sprintf("the certificate-table entry is read from DataDirectory[%d], want IMAGE_DIRECTORY_ENTRY_SECURITY = 4", kIdx))
		}
		// B = e_lfanew + sizeof(FileHeader) + 4
		_, s0, e0, _ := c.sectionRange(hdr[0])
		_, s1, e1, _ := c.sectionRange(hdr[1])
		_, s2, e2, _ := c.sectionRange(hdr[2])
		// find the e_lfanew symbol: the only symbol of e0
		var lfanew string
		var lfaVal ssa.Value
		for sym, v := range e0.Sym {
			if _, ok := e0.T[sym]; ok {
				lfanew, lfaVal = sym, v
			}
		}
		base := newAffine()
		if len(e0.T) != 1 || e0.T[lfanew] != 1 {
			bad = append(bad, "the end of the first range is not e_lfanew + constant: "+e0.String())
		} else {
			// e_lfanew is LittleEndian.Uint32 of the DOS header at 0x3c
			okL := false
			if call, ok := ir.StripConv(lfaVal).(*ssa.Call); ok && strings.HasSuffix(ir.CallID(call), "ittleEndian.Uint32") {
				args := ir.CallArgs(call)
				if sl, ok := args[len(args)-1].(*ssa.Slice); ok {
					if lo, isK := ir.ConstInt(sl.Low); isK && lo == 0x3c {
						okL = true
					}
				}
			}
			if !okL {
				bad = append(bad, "e_lfanew is not the little-endian uint32 at offset 0x3c of the DOS header")
			}
			base = symAffine(lfanew, lfaVal)
			base.K = int64(binarySize(peFileHeader(c))) + 4
		}
		exp := func(off int64) Affine { a := base.clone(); a.K += off; return a }
		if !s0.isConst() || s0.K != 0 {
			bad = append(bad, "the first range does not start at 0")
		}
		if !e0.equal(exp(offCk)) {
			bad = append(bad, fmt.Sprintf("the first range ends at %s, want the checksum field at optional-header offset %d (%s)", e0.String(), offCk, exp(offCk).String()))
		}
		if !s1.equal(exp(offCk + 4)) {
			bad = append(bad, fmt.Sprintf("the second range starts at %s, want just after the 4-byte checksum (%s)", s1.String(), exp(offCk+4).String()))
		}
		ddEntry := offDD + 8*4
		if !e1.equal(exp(ddEntry)) {
			bad = append(bad, fmt.Sprintf("the second range ends at %s, want the certificate-table directory entry of %s at %s", e1.String(), tname, exp(ddEntry).String()))
		}
		if !s2.equal(exp(ddEntry + 8)) {
			bad = append(bad, fmt.Sprintf("the third range starts at %s, want just after the 8-byte entry (%s)", s2.String(), exp(ddEntry+8).String()))
		}
		// third range ends at SizeOfHeaders of this header
		okSOH := false
		for sym := range e2.T {
			if strings.HasSuffix(sym, ".SizeOfHeaders") && e2.T[sym] == 1 && len(e2.T) == 1 && e2.K == 0 {
				okSOH = true
			}
		}
		if !okSOH {
			bad = append(bad, "the third range does not end at SizeOfHeaders: "+e2.String())
		}
		for _, h := range hdr {
			if src, _, _, _ := c.sectionRange(h); ir.StripIface(src) != ssa.Value(rP) {
				bad = append(bad, "a header range does not read from the image reader")
			}
		}
		affineEnv = nil
		c.R.Check(len(bad) == 0, "J1.layout", fname, "ranges:"+tname[strings.LastIndex(tname, ".")+1:], c.Pos(fn.Pos()),
			"for "+tname+" the hashed header ranges are [0,checksum) (checksum+4, certificate-table entry) (entry+8, SizeOfHeaders) with offsets from the debug/pe struct layout", strings.Join(bad, "; "))
	}
	affineEnv = nil

	// ---- J2: sorted by file offset, zero-size sections skipped, then the tail
	c.sectionOrder(fn, parts, loopFlags)
	c.tailData(fn, parts, loopFlags)
	// ---- J4: the digest is the hash over hashContent only
	if h := c.Fn("J4.hash", "authenticode.(*PECOFFBinary).Hash"); h != nil {
		var bad []string
		for _, r := range ir.Returns(h) {
			if ir.IsNilConst(r.Results[0]) {
				continue
			}
			sum, ok := r.Results[0].(*ssa.Call)
			if !ok || !sum.Call.IsInvoke() || sum.Call.Method.Name() != "Sum" || !ir.IsNilConst(sum.Call.Args[0]) {
				bad = append(bad, "the result is not hh.Sum(nil)")
				continue
			}
			hh := sum.Call.Value
			ctor, isC := hh.(*ssa.Call)
			if !isC || ir.CallID(ctor) != "crypto.Hash.New" || ctor.Call.Args[0] != ssa.Value(h.Params[1]) {
				bad = append(bad, "the hash is not constructed from the algorithm parameter")
			}
			ws, cps := hashInputs(h, hh)
			if len(ws) != 0 || len(cps) != 1 {
				bad = append(bad, "the hash is not fed by exactly one io.Copy")
			} else {
				sl := c.Slicer().Slice(cps[0])
				if !ir.HasField(sl, acPkg+".PECOFFBinary.hashContent") {
					bad = append(bad, "the data hashed is not the image's hashContent")
				}
			}
		}
		c.R.Check(len(bad) == 0, "J4.hash", name(h), "digest", c.Pos(h.Pos()), "the reported digest is Sum(nil) of the requested hash fed once with the hash content", strings.Join(bad, "; "))
	}
	c.R.Floor("J1.layout", 2)
	c.R.Floor("J2.order", 3)
	c.R.Floor("J3.tail", 1)
}

func peFileHeader(c *Ctx) types.Type {
	if sp := c.P.SSAPkgs["debug/pe"]; sp != nil {
		if tn, ok := sp.Pkg.Scope().Lookup("FileHeader").(*types.TypeName); ok {
			return tn.Type()
		}
	}
	return types.Typ[types.Invalid]
}

// sectionOrder (J2).
func (c *Ctx) sectionOrder(fn *ssa.Function, parts []ssa.Value, loopFlags []bool) {
	fname := name(fn)
	// the per-section part
	var secPart *ssa.Call
	for k, p := range parts {
		if loopFlags[k] {
			if call, ok := p.(*ssa.Call); ok {
				secPart = call
			}
		}
	}
	if secPart == nil {
		c.R.Violf("J2.order", fname, "section-parts", c.Pos(fn.Pos()), "each section with raw data contributes one part inside the section loop", "no part is appended inside a loop")
		return
	}
	// the section value and the slice it is taken from
	var secVal ssa.Value
	if len(secPart.Call.Args) > 0 {
		secVal = secPart.Call.Args[0]
	}
	var ranged ssa.Value
	if ld, ok := secVal.(*ssa.UnOp); ok {
		if ia, ok := ld.X.(*ssa.IndexAddr); ok {
			ranged = ia.X
		}
	}
	// the sort call
	var sortCall *ssa.Call
	instrsOf(fn, func(i ssa.Instruction) {
		if call, ok := i.(*ssa.Call); ok {
			id := ir.CallID(call)
			if strings.HasPrefix(id, "slices.SortFunc") || strings.HasPrefix(id, "slices.SortStableFunc") || id == "sort.Slice" || id == "sort.SliceStable" {
				sortCall = call
			}
		}
	})
	ok, det := false, ""
	switch {
	case sortCall == nil:
		det = "the sections are not sorted before they are hashed"
	case ranged == nil:
		det = "the loop does not take its sections from an indexed slice"
	case ir.StripIface(sortCall.Call.Args[0]) != ranged:
		det = "the slice that is sorted is not the slice the section loop ranges over (the sort has no effect on the hashing order)"
	case !sortCall.Block().Dominates(secPart.Block()):
		det = "the sort does not precede the section loop on every path"
	default:
		ok = true
	}
	c.R.Check(ok, "J2.order", fname, "sorted-slice-is-hashed", c.Pos(fn.Pos()), "the section table that is hashed is the one sorted before the loop", det)
	if sortCall != nil {
		okC, detC := c.ascendingByOffset(sortCall)
		c.R.Check(okC, "J2.order", fname, "comparator", c.IPos(sortCall), "sections are ordered ascending by their file offset (PointerToRawData)", detC)
	}
	// zero-size sections contribute nothing
	okZ, detZ := false, "the append of the section part is not guarded by SizeOfRawData != 0"
	for _, ce := range ir.DominatingConds(fn, secPart.Block()) {
		cmp, isB := ce.Cond.(*ssa.BinOp)
		if !isB {
			continue
		}
		if k, isK := ir.ConstInt(cmp.Y); !isK || k != 0 {
			continue
		}
		if ir.FieldID(ir.StripConv(cmp.X)) != "debug/pe.SectionHeader.Size" {
			continue
		}
		op := cmp.Op
		if !ce.Truth {
			op = negate(op)
		}
		if op == token.NEQ || op == token.GTR {
			okZ, detZ = true, ""
		}
	}
	c.R.Check(okZ, "J2.order", fname, "skip-empty", c.IPos(secPart), "sections without raw data are skipped", detZ)
	// the part reads the section's raw data with its SizeOfRawData
	if callee := ir.Callee(secPart); callee != nil && c.P.InLib(callee) {
		okS := false
		for _, r := range ir.Returns(callee) {
			sl := c.Slicer().Slice(r.Results[0])
			if sl[callee.Params[0]] && ir.HasField(sl, "debug/pe.SectionHeader.Size") && !ir.HasField(sl, "debug/pe.SectionHeader.VirtualSize") {
				okS = true
			}
		}
		c.R.Check(okS, "J2.order", name(callee), "section-extent", c.Pos(callee.Pos()), "a section part reads the section's raw data over SizeOfRawData bytes", "the part's size does not derive from SectionHeader.Size of the same section")
	}
}

// ascendingByOffset judges the comparator of the sort call over the ordering
// domain of (a.Offset, b.Offset).
func (c *Ctx) ascendingByOffset(sortCall *ssa.Call) (bool, string) {
	var cmpFn *ssa.Function
	switch x := ir.StripConv(sortCall.Call.Args[1]).(type) {
	case *ssa.Function:
		cmpFn = x
	case *ssa.MakeClosure:
		cmpFn, _ = x.Fn.(*ssa.Function)
	}
	if cmpFn == nil || len(cmpFn.Params) != 2 {
		return false, "comparator is not a function literal"
	}
	rets := ir.Returns(cmpFn)
	if len(rets) != 1 {
		return false, "comparator has several returns (only cmp.Compare / a<b forms are evaluated)"
	}
	offsetOf := func(v ssa.Value) int {
		v = ir.StripConv(v)
		if ir.FieldID(v) != "debug/pe.SectionHeader.Offset" {
			return -1
		}
		root := ir.RootOf(v)
		// slice-index form: s[i].Offset — root is the free slice; take the index parameter
		for k, p := range cmpFn.Params {
			if root == ssa.Value(p) {
				return k
			}
		}
		if ld, ok := v.(*ssa.UnOp); ok {
			var walk func(a ssa.Value) int
			walk = func(a ssa.Value) int {
				switch y := a.(type) {
				case *ssa.FieldAddr:
					return walk(y.X)
				case *ssa.UnOp:
					return walk(y.X)
				case *ssa.IndexAddr:
					for k, p := range cmpFn.Params {
						if ir.StripConv(y.Index) == ssa.Value(p) {
							return k
						}
					}
				}
				return -1
			}
			return walk(ld.X)
		}
		return -1
	}
	res := rets[0].Results[0]
	switch x := res.(type) {
	case *ssa.Call:
		if strings.HasPrefix(ir.CallID(x), "cmp.Compare") {
			a, b := offsetOf(x.Call.Args[0]), offsetOf(x.Call.Args[1])
			switch {
			case a == 0 && b == 1:
				return true, ""
			case a == 1 && b == 0:
				return false, "comparator orders sections descending by file offset"
			}
			return false, "comparator does not compare the Offset (PointerToRawData) fields of its two arguments"
		}
	case *ssa.BinOp:
		a, b := offsetOf(x.X), offsetOf(x.Y)
		if a < 0 || b < 0 {
			return false, "comparator does not compare the Offset (PointerToRawData) fields of its two arguments"
		}
		if x.Op == token.LSS && a == 0 && b == 1 || x.Op == token.GTR && a == 1 && b == 0 {
			return true, ""
		}
		return false, "comparator is not an ascending less-than on the file offset"
	}
	return false, "comparator form not recognised (accepted: cmp.Compare(a.Offset, b.Offset), a.Offset < b.Offset)"
}

// tailData (J3): data after the last section minus the certificate table, padded to 8.
func (c *Ctx) tailData(fn *ssa.Function, parts []ssa.Value, loopFlags []bool) {
	fname := name(fn)
	last := parts[len(parts)-1]
	var bad []string
	call, ok := last.(*ssa.Call)
	if !ok || loopFlags[len(parts)-1] {
		c.R.Violf("J3.tail", fname, "trailing-data", c.Pos(fn.Pos()), "the last hashed part is the data after the sections", "the last part is not a single reader built after the section loop")
		return
	}
	sl := c.Slicer().Slice(call)
	// the buffer
	var rest *ssa.Alloc
	for v := range sl {
		if a, ok := v.(*ssa.Alloc); ok && ir.NamedTypeID(a.Type()) == "bytes.Buffer" {
			rest = a
		}
	}
	if rest == nil {
		c.R.Violf("J3.tail", fname, "trailing-data", c.IPos(call), "the last hashed part is the data after the sections", "the last part does not come from a local buffer")
		return
	}
	var copyCall, trunc, padWrite *ssa.Call
	for _, r := range *rest.Referrers() {
		switch x := r.(type) {
		case *ssa.Call:
			switch ir.CallID(x) {
			case "bytes.Buffer.Truncate":
				trunc = x
			case "bytes.Buffer.Write":
				padWrite = x
			}
		case *ssa.MakeInterface:
			for _, rr := range *x.Referrers() {
				if cc, ok := rr.(*ssa.Call); ok && ir.CallID(cc) == "io.Copy" && cc.Call.Args[0] == ssa.Value(x) {
					copyCall = cc
				}
			}
		}
	}
	// (a) filled from sum-of-bytes-hashed to the end of the file
	if copyCall == nil {
		bad = append(bad, "the buffer is not filled by io.Copy from the image")
	} else if src, ok := ir.StripIface(copyCall.Call.Args[1]).(*ssa.Call); !ok || ir.CallID(src) != "io.NewSectionReader" {
		bad = append(bad, "the trailing data is not read through a section reader over the image")
	} else {
		start := src.Call.Args[1]
		// start = SizeOfHeaders + Σ Size of the hashed sections: a loop phi
		ph, isPhi := start.(*ssa.Phi)
		okSum := false
		if isPhi {
			entryOK, stepOK := false, false
			for j, e := range ph.Edges {
				if e == ssa.Value(ph) {
					continue
				}
				pred := ph.Block().Preds[j]
				if pred.Index < ph.Block().Index {
					a := affineOf(e, 0)
					_ = a
					if ph2, ok := e.(*ssa.Phi); ok {
						// SizeOfHeaders phi of the switch
						for _, e2 := range ph2.Edges {
							if strings.HasSuffix(ir.FieldID(ir.StripConv(e2)), ".SizeOfHeaders") {
								entryOK = true
							}
						}
					}
				} else if bo, ok := e.(*ssa.BinOp); ok && bo.Op == token.ADD && bo.X == ssa.Value(ph) && ir.FieldID(ir.StripConv(bo.Y)) == "debug/pe.SectionHeader.Size" {
					stepOK = true
				}
			}
			okSum = entryOK && stepOK
		}
		if !okSum {
			bad = append(bad, "the trailing data does not start at SizeOfHeaders plus the sizes of the hashed sections")
		}
		if n, isK := ir.ConstInt(src.Call.Args[2]); !isK || n < 1<<40 {
			bad = append(bad, "the trailing data is not read to the end of the file")
		}
	}
	// (b) minus the certificate table
	if trunc == nil {
		bad = append(bad, "the certificate table is not cut off the trailing data (Truncate)")
	} else {
		a := affineOf(trunc.Call.Args[1], 0)
		lenOK, sizeOK := false, false
		for sym, cf := range a.T {
			if strings.HasPrefix(sym, "len(") && cf == 1 {
				lenOK = true
			}
			if strings.HasSuffix(sym, ".Size") && cf == -1 {
				if ld, ok := ir.StripConv(a.Sym[sym]).(*ssa.UnOp); ok && ir.FieldID(ld.X) == "debug/pe.DataDirectory.Size" {
					sizeOK = true
				}
			}
		}
		if !lenOK || !sizeOK || len(a.T) != 2 || a.K != 0 {
			bad = append(bad, "the buffer is truncated to "+a.String()+", want its length minus the certificate-table size")
		}
	}
	// (c) zero padded to 8
	if padWrite == nil {
		bad = append(bad, "no padding is appended")
	} else {
		ex, ok := padWrite.Call.Args[1].(*ssa.Extract)
		pc, isCall := (*ssa.Call)(nil), false
		if ok {
			pc, isCall = ex.Tuple.(*ssa.Call)
		}
		if !ok || !isCall || ir.CallID(pc) != acPkg+".PaddingBytes" || ex.Index != 0 {
			bad = append(bad, "the padding does not come from PaddingBytes")
		} else if k, isK := ir.ConstInt(pc.Call.Args[1]); !isK || k != 8 {
			bad = append(bad, "the padding block size is not 8")
		}
		if trunc != nil && !precedesInCFG(fn, trunc, padWrite) {
			bad = append(bad, "the padding is written before the certificate table is cut off")
		}
	}
	c.R.Check(len(bad) == 0, "J3.tail", fname, "trailing-data", c.IPos(call), "after the sections the data up to the end of file minus the certificate table is hashed, zero padded to 8 bytes", strings.Join(bad, "; "))
}
