package rules

import (
	"fmt"
	"go/constant"
	"go/token"
	"go/types"
	"strings"

	"golang.org/x/tools/go/ssa"

	"verif/checker/internal/ir"
)

func init() { Registry["C01"] = checkC01 }

const acPkg = M + "/authenticode"

// structOffset: byte offset of a field in encoding/binary's layout of struct T.
func structOffset(T types.Type, field string) (int64, bool) {
	st, ok := T.Underlying().(*types.Struct)
	if !ok {
		return 0, false
	}
	off := int64(0)
	for i := 0; i < st.NumFields(); i++ {
		if st.Field(i).Name() == field {
			return off, true
		}
		n := binarySize(st.Field(i).Type())
		if n < 0 {
			return 0, false
		}
		off += int64(n)
	}
	return 0, false
}

// sectionRange resolves a call that constructs a section reader over the image
// to its [start, end) as affine values. Accepted: io.NewSectionReader(r, off, n)
// and a repo closure/function whose body is io.NewSectionReader(p0, p1, p2-p1).
func (c *Ctx) sectionRange(call *ssa.Call) (src ssa.Value, start, end Affine, ok bool) {
	if ir.CallID(call) == "io.NewSectionReader" {
		off, n := affineOf(call.Call.Args[1], 0), affineOf(call.Call.Args[2], 0)
		return call.Call.Args[0], off, off.add(n, 1), true
	}
	callee := calleeOrClosure(call)
	if callee == nil || !c.P.InLib(callee) || len(callee.Params) != 3 {
		return nil, Affine{}, Affine{}, false
	}
	rets := ir.Returns(callee)
	if len(rets) != 1 || len(rets[0].Results) != 1 {
		return nil, Affine{}, Affine{}, false
	}
	inner, isC := rets[0].Results[0].(*ssa.Call)
	if !isC || ir.CallID(inner) != "io.NewSectionReader" {
		return nil, Affine{}, Affine{}, false
	}
	p := callee.Params
	if ir.StripIface(inner.Call.Args[0]) != ssa.Value(p[0]) || inner.Call.Args[1] != ssa.Value(p[1]) {
		return nil, Affine{}, Affine{}, false
	}
	n := affineOf(inner.Call.Args[2], 0)
	want := symAffine("param:"+p[2].Name(), nil).add(symAffine("param:"+p[1].Name(), nil), -1)
	if !n.equal(want) {
		return nil, Affine{}, Affine{}, false
	}
	return call.Call.Args[0], affineOf(call.Call.Args[1], 0), affineOf(call.Call.Args[2], 0), true
}

// multiReaderParts lists, in order, the values appended to the slice handed to
// newMultiReaderAt: header readers first, then per-section appends inside the
// loop, then the tail.
func (c *Ctx) multiReaderParts(fn *ssa.Function) (parts []ssa.Value, inLoop []bool, ok bool) {
	var mr *ssa.Call
	instrsOf(fn, func(i ssa.Instruction) {
		if call, isC := i.(*ssa.Call); isC && ir.CallID(call) == acPkg+".newMultiReaderAt" {
			mr = call
		}
	})
	if mr == nil {
		return nil, nil, false
	}
	// walk the append chain backwards
	var rev []ssa.Value
	var revLoop []bool
	seen := map[ssa.Value]bool{}
	var walk func(v ssa.Value)
	walk = func(v ssa.Value) {
		if v == nil || seen[v] {
			return
		}
		seen[v] = true
		switch x := v.(type) {
		case *ssa.Call:
			if ir.CallID(x) == "builtin.append" {
				elems, okE := variadicElems(x.Call.Args[1])
				if okE {
					for k := len(elems) - 1; k >= 0; k-- {
						rev = append(rev, ir.StripIface(elems[k]))
						revLoop = append(revLoop, inLoopBlock(fn, x.Block()))
					}
				}
				walk(x.Call.Args[0])
			}
		case *ssa.Phi:
			// loop-carried slice: first the loop edge(s), then the entry edge
			var entry ssa.Value
			for k, e := range x.Edges {
				if x.Block().Preds[k].Index < x.Block().Index {
					entry = e
				} else if e != ssa.Value(x) {
					walk(e)
				}
			}
			walk(entry)
		case *ssa.Slice:
			if a, isA := x.X.(*ssa.Alloc); isA {
				// slice literal
				var elems []ssa.Value
				for _, r := range *a.Referrers() {
					if ia, ok := r.(*ssa.IndexAddr); ok {
						for _, rr := range *ia.Referrers() {
							if st, ok := rr.(*ssa.Store); ok {
								elems = append(elems, ir.StripIface(st.Val))
							}
						}
					}
				}
				for k := len(elems) - 1; k >= 0; k-- {
					rev = append(rev, elems[k])
					revLoop = append(revLoop, false)
				}
			}
		}
	}
	walk(mr.Call.Args[0])
	for k := len(rev) - 1; k >= 0; k-- {
		parts = append(parts, rev[k])
		inLoop = append(inLoop, revLoop[k])
	}
	return parts, inLoop, len(parts) > 0
}

func inLoopBlock(fn *ssa.Function, b *ssa.BasicBlock) bool { return inLoop(fn, b) }

func checkC01(c *Ctx) {
	c.rulePartSearch("J5.parts")
	c.R.Floor("J5.parts", 1)
	c.rulePartOffset("J7.partoff")
	fn := c.Fn("J1.layout", "authenticode.Parse")
	if fn == nil {
		return
	}
	fname := name(fn)
	rP := fn.Params[0]
	dv := c.deepViewOf(fn, 3)
	dv.stopAt = map[string]bool{acPkg + ".PaddingBytes": true}
	undecidedShape := func(rule, construct, why string) {
		c.R.Infof(rule, fname, construct, c.Pos(fn.Pos()), "not decided for this shape: "+why)
	}
	// ---- the arms that distinguish PE32 and PE32+ optional headers
	arms := dv.typeArms("debug/pe.OptionalHeader32", "debug/pe.OptionalHeader64")
	// ---- the list of hashed parts
	var parts []listItem
	if mrs := dv.callsTo(acPkg + ".newMultiReaderAt"); len(mrs) == 1 {
		parts = dv.list(mrs[0].i.(*ssa.Call).Call.Args[0], mrs[0].fr)
	}
	resolved := len(parts) >= 5
	for _, p := range parts {
		if p.opaque {
			resolved = false
		}
	}
	switch {
	case !resolved:
		undecidedShape("J1.layout", "hashed-parts", "the hashed content is not a newMultiReaderAt over a list of parts built by append / slice literals that the evaluator can enumerate")
	case len(arms) != 2 || ir.NamedTypeID(arms[0].T) == ir.NamedTypeID(arms[1].T):
		undecidedShape("J1.layout", "optional-header-switch", fmt.Sprintf("PE32 and PE32+ are not distinguished by two type assertions on the optional header (%d found)", len(arms)))
	default:
		c.headerRanges(dv, fn, parts, arms, rP)
	}
	if resolved {
		// ---- J2: sorted by file offset, zero-size sections skipped, then the tail
		c.sectionOrder(dv, fn, parts)
		c.tailData(dv, fn, parts, arms)
	} else {
		undecidedShape("J2.order", "section-parts", "the list of hashed parts is not enumerable")
		undecidedShape("J3.tail", "trailing-data", "the list of hashed parts is not enumerable")
	}
	// ---- J4: the digest is the hash over hashContent only
	if h := c.Fn("J4.hash", "authenticode.(*PECOFFBinary).Hash"); h != nil {
		dh := c.deepViewOf(h, 2)
		var bad []string
		n := 0
		// the values a return may carry (named results and conditional assignment make it a phi)
		var results []ssa.Value
		var expand func(v ssa.Value, depth int)
		expand = func(v ssa.Value, depth int) {
			if ph, isPhi := v.(*ssa.Phi); isPhi && depth < 4 {
				for _, e := range ph.Edges {
					expand(e, depth+1)
				}
				return
			}
			if !ir.IsNilConst(v) {
				results = append(results, v)
			}
		}
		for _, r := range ir.Returns(h) {
			expand(effectiveResult(h, r, 0), 0)
		}
		for _, rv := range results {
			n++
			dg := dh.digestOf(rv, dh.root)
			switch {
			case !dg.ok:
				bad = append(bad, "the result is not the Sum(nil) of a hash: "+dg.why)
			case !dg.byParm || !(dg.algo.fr == dh.root && ir.StripConv(dg.algo.v) == ssa.Value(h.Params[1])):
				bad = append(bad, "the hash is not constructed from the algorithm parameter")
			case dg.why != "":
				bad = append(bad, "the hash is "+dg.why)
			case len(dg.copies) == 0 && len(dg.inputs) > 0:
				// fed by explicit Write calls: decided only if what is written is read from the hash content
				fromContent := true
				for _, in := range dg.inputs {
					if !ir.HasField(dh.sliceDeep(in.v, in.fr), acPkg+".PECOFFBinary.hashContent") {
						fromContent = false
					}
				}
				if fromContent {
					c.R.Infof("J4.hash", name(h), "digest-feed", c.Pos(h.Pos()), "not decided for this shape: the hash is fed by explicit Write calls with data read from the hash content (completeness of the copy loop is not evaluated)")
				} else {
					bad = append(bad, "the hash is fed with data that is not read from the image's hashContent")
				}
			case len(dg.inputs) != 0 || len(dg.copies) != 1:
				bad = append(bad, "the hash is not fed by exactly one io.Copy")
			default:
				sl := dh.sliceDeep(dg.copies[0].v, dg.copies[0].fr)
				if !ir.HasField(sl, acPkg+".PECOFFBinary.hashContent") {
					bad = append(bad, "the data hashed is not the image's hashContent")
				}
			}
		}
		if n == 0 {
			bad = append(bad, "Hash never returns a digest")
		}
		c.R.Check(len(bad) == 0, "J4.hash", name(h), "digest", c.Pos(h.Pos()), "the reported digest is Sum(nil) of the requested hash fed once with the hash content", strings.Join(bad, "; "))
	}
	if resolved {
		c.R.Floor("J1.layout", 2)
		c.R.Floor("J2.order", 3)
		c.R.Floor("J3.tail", 1)
	}
	c.rulePadFresh("J6.padzero")
	c.rulePadLength("J8.padlen")
	// parsing keeps nothing in package-level memory between calls
	c.rulePureAs("E.state", []string{"authenticode.Parse", "authenticode.(*PECOFFBinary).Hash"})
	c.R.Floor("E.state", 2)
	c.ruleRecycle("P.recycle", func(f *ssa.Function) bool {
		return strings.Contains(name(f), "authenticode.") || strings.Contains(name(f), "pkcs7.")
	})
}

// headerRanges (J1): per optional-header type the three hashed header ranges.
func (c *Ctx) headerRanges(dv *deepView, fn *ssa.Function, parts []listItem, arms []typeArm, rP *ssa.Parameter) {
	fname := name(fn)
	// header parts: the leading parts appended outside loops
	k := 0
	for k < len(parts) && !parts[k].loop {
		k++
	}
	hdr := parts[:k]
	if k == len(parts) {
		// no loop part at all: the last one is the tail
		hdr = parts[:k-1]
	}
	for _, arm := range arms {
		tname := ir.NamedTypeID(arm.T)
		construct := "ranges:" + tname[strings.LastIndex(tname, ".")+1:]
		what := "for " + tname + " the hashed header ranges are [0,checksum) (checksum+4, certificate-table entry) (entry+8, SizeOfHeaders) with offsets from the debug/pe struct layout"
		var rs []sectRange
		okR := true
		for _, h := range hdr {
			var r sectRange
			ok := false
			dv.under(h, func() { r, ok = dv.sectionRangeOf(h.v.v, h.v.fr, arm.sel) })
			if !ok {
				okR = false
				break
			}
			rs = append(rs, r)
		}
		if !okR {
			c.R.Infof("J1.layout", fname, construct, c.Pos(fn.Pos()), "not decided for this shape: a header part is not a section reader the evaluator can resolve")
			continue
		}
		if len(rs) != 3 {
			c.R.Violf("J1.layout", fname, construct, c.Pos(fn.Pos()), what, fmt.Sprintf("%d header ranges are hashed before the sections, want three (before the checksum, between checksum and certificate-table entry, after the entry)", len(rs)))
			continue
		}
		var bad []string
		offCk, ok1 := structOffset(arm.T, "CheckSum")
		offDD, ok2 := structOffset(arm.T, "DataDirectory")
		if !ok1 || !ok2 {
			bad = append(bad, "cannot compute the layout of "+tname)
		}
		// directory index used in this arm
		kIdx := int64(-1)
		for _, f := range withAnon(arm.sel.fr.fn) {
			instrsOf(f, func(i ssa.Instruction) {
				ia, ok := i.(*ssa.IndexAddr)
				if !ok || f == arm.sel.fr.fn && !(ia.Block() == arm.sel.block || arm.sel.block.Dominates(ia.Block())) {
					return
				}
				if fa, ok := ia.X.(*ssa.FieldAddr); ok && fa.X == arm.val && ir.FieldOf(fa).Name() == "DataDirectory" {
					if n, isK := ir.ConstInt(ia.Index); isK {
						kIdx = n
					}
				}
			})
		}
		if kIdx != 4 {
			bad = append(bad, fmt.Sprintf("the certificate-table entry is read from DataDirectory[%d], want IMAGE_DIRECTORY_ENTRY_SECURITY = 4", kIdx))
		}
		s0, e0, s1, e1, s2, e2 := rs[0].start, rs[0].end, rs[1].start, rs[1].end, rs[2].start, rs[2].end
		// B = e_lfanew + sizeof(FileHeader) + 4; e_lfanew is the only symbol of e0
		var lfanew string
		var lfaVal ssa.Value
		for sym, v := range e0.Sym {
			if _, ok := e0.T[sym]; ok {
				lfanew, lfaVal = sym, v
			}
		}
		base := newAffine()
		if len(e0.T) != 1 || e0.T[lfanew] != 1 {
			bad = append(bad, "the end of the first range is not e_lfanew + constant: "+e0.String())
		} else {
			okL := false
			if call, ok := ir.StripConv(lfaVal).(*ssa.Call); ok && strings.HasSuffix(ir.CallID(call), "ittleEndian.Uint32") {
				args := ir.CallArgs(call)
				if sl, ok := args[len(args)-1].(*ssa.Slice); ok {
					if lo, isK := ir.ConstInt(sl.Low); isK && lo == 0x3c {
						okL = true
					}
				}
			}
			if !okL {
				if _, off, w, isLE := leBytesAt(lfaVal); isLE {
					okL = off == 0x3c && w == 4
				}
			}
			if !okL {
				bad = append(bad, "e_lfanew is not the little-endian uint32 at offset 0x3c of the DOS header")
			}
			base = symAffine(lfanew, lfaVal)
			base.K = int64(binarySize(peFileHeader(c))) + 4
		}
		exp := func(off int64) Affine { a := base.clone(); a.K += off; return a }
		if !s0.isConst() || s0.K != 0 {
			bad = append(bad, "the first range does not start at 0")
		}
		if !e0.equal(exp(offCk)) {
			bad = append(bad, fmt.Sprintf("the first range ends at %s, want the checksum field at optional-header offset %d (%s)", e0.String(), offCk, exp(offCk).String()))
		}
		if !s1.equal(exp(offCk + 4)) {
			bad = append(bad, fmt.Sprintf("the second range starts at %s, want just after the 4-byte checksum (%s)", s1.String(), exp(offCk+4).String()))
		}
		ddEntry := offDD + 8*4
		// the offset of the entry taken from a read-only table (a package-level map filled
		// by its literal) with a key that is not a constant: which entry applies is a fact
		// about the producer of the key; decided only as far as "no entry of the table fits"
		tableUndecided := ""
		if d := exp(ddEntry).add(e1, -1); len(d.T) == 1 {
			for sym, cf := range d.T {
				lk, isLk := ir.StripConv(d.Sym[sym]).(*ssa.Lookup)
				if !isLk || cf != -1 {
					continue
				}
				if _, isMap := lk.X.Type().Underlying().(*types.Map); !isMap {
					continue
				}
				if _, isK := ir.ConstInt(lk.Index); isK {
					continue
				}
				vals, okM := c.readOnlyIntMap(lk.X)
				fits := !okM
				for _, v := range vals {
					if v == d.K {
						fits = true
					}
				}
				if fits {
					tableUndecided = sym
				}
			}
		}
		if tableUndecided != "" {
			c.R.Infof("J1.layout", fname, construct+":entry-offset", c.Pos(fn.Pos()), "not decided for this shape: the offset of the certificate-table entry is looked up in a table ("+tableUndecided+") with a key that is not a constant; the evaluator does not decide which entry the key selects")
			if !s2.equal(e1.add(constAffine(8), 1)) {
				bad = append(bad, fmt.Sprintf("the third range starts at %s, want just after the 8-byte entry that ends the second range (%s)", s2.String(), e1.String()))
			}
		} else {
			if !e1.equal(exp(ddEntry)) {
				bad = append(bad, fmt.Sprintf("the second range ends at %s, want the certificate-table directory entry of %s at %s", e1.String(), tname, exp(ddEntry).String()))
			}
			if !s2.equal(exp(ddEntry + 8)) {
				bad = append(bad, fmt.Sprintf("the third range starts at %s, want just after the 8-byte entry (%s)", s2.String(), exp(ddEntry+8).String()))
			}
		}
		// third range ends at SizeOfHeaders of this header
		okSOH := false
		for sym := range e2.T {
			if strings.HasSuffix(sym, ".SizeOfHeaders") && strings.Contains(sym, tname[strings.LastIndex(tname, ".")+1:]) && e2.T[sym] == 1 && len(e2.T) == 1 && e2.K == 0 {
				okSOH = true
			}
		}
		if !okSOH {
			bad = append(bad, "the third range does not end at SizeOfHeaders of this optional header: "+e2.String())
		}
		for _, r := range rs {
			if !(r.src.fr == dv.root && r.src.v == ssa.Value(rP)) {
				bad = append(bad, "a header range does not read from the image reader")
			}
		}
		c.R.Check(len(bad) == 0, "J1.layout", fname, construct, c.Pos(fn.Pos()), what, strings.Join(bad, "; "))
	}
}

// readOnlyIntMap: m is the load of a package-level map that the package
// initialiser fills from a literal with constant integer keys and values and
// that the library otherwise only looks things up in; returns the values a
// lookup can yield (the entries and the zero value of a missing key).
func (c *Ctx) readOnlyIntMap(m ssa.Value) ([]int64, bool) {
	ld, ok := m.(*ssa.UnOp)
	if !ok || ld.Op != token.MUL {
		return nil, false
	}
	g, ok := ld.X.(*ssa.Global)
	if !ok || g.Pkg == nil {
		return nil, false
	}
	fns := append([]*ssa.Function{}, c.P.LibFunctions()...)
	if in := g.Pkg.Func("init"); in != nil {
		fns = append(fns, in)
	}
	var mk *ssa.MakeMap
	clean := true
	done := map[*ssa.Function]bool{}
	for _, fn := range fns {
		if done[fn] {
			continue
		}
		done[fn] = true
		isInit := fn.Name() == "init" && fn.Signature.Recv() == nil && fn.Pkg == g.Pkg
		instrsOf(fn, func(i ssa.Instruction) {
			var ops []*ssa.Value
			for _, op := range i.Operands(ops) {
				if op == nil || *op != ssa.Value(g) {
					continue
				}
				switch x := i.(type) {
				case *ssa.UnOp:
					if x.Op == token.MUL {
						// the loaded map is only looked up in
						for _, r := range *x.Referrers() {
							switch rr := r.(type) {
							case *ssa.Lookup:
								if rr.X != ssa.Value(x) {
									clean = false
								}
							case *ssa.DebugRef:
							default:
								clean = false
							}
						}
						continue
					}
				case *ssa.Store:
					if mm, isMk := x.Val.(*ssa.MakeMap); isMk && x.Addr == ssa.Value(g) && isInit && mk == nil {
						mk = mm
						continue
					}
				}
				clean = false
			}
		})
	}
	if mk == nil || !clean {
		return nil, false
	}
	vals := []int64{0}
	for _, r := range *mk.Referrers() {
		switch x := r.(type) {
		case *ssa.MapUpdate:
			_, okK := ir.ConstInt(x.Key)
			v, okV := ir.ConstInt(x.Value)
			if x.Map != ssa.Value(mk) || !okK || !okV {
				return nil, false
			}
			vals = append(vals, v)
		case *ssa.Store:
			if x.Val != ssa.Value(mk) {
				return nil, false
			}
		case *ssa.DebugRef:
		default:
			return nil, false
		}
	}
	return vals, true
}

// sliceLenBound: v is the load of a slice-typed struct field that every store
// in the package declaring the struct (and in the library) allocates with
// make([]T, n) for an n converted from an unsigned integer type narrower than
// int; returns the largest value of that type, an upper bound of len(v).
func (c *Ctx) sliceLenBound(v ssa.Value) (int64, bool) {
	ld, ok := ir.StripConv(v).(*ssa.UnOp)
	if !ok || ld.Op != token.MUL {
		return 0, false
	}
	fa, ok := ld.X.(*ssa.FieldAddr)
	if !ok {
		return 0, false
	}
	id := ir.FieldID(fa)
	fld := ir.FieldOf(fa)
	if id == "" || fld == nil || fld.Pkg() == nil {
		return 0, false
	}
	bound, n := int64(0), 0
	okAll := true
	for fn := range c.P.AllFunctions() {
		if fn.Blocks == nil || fn.Pkg == nil || !(fn.Pkg.Pkg == fld.Pkg() || c.P.InLib(fn)) {
			continue
		}
		for _, st := range storesTo(fn, id) {
			n++
			mk, isMk := st.Val.(*ssa.MakeSlice)
			if !isMk {
				okAll = false
				continue
			}
			src := mk.Len
			for {
				cv, isCv := src.(*ssa.Convert)
				if !isCv {
					break
				}
				src = cv.X
			}
			b, isB := src.Type().Underlying().(*types.Basic)
			if !isB {
				okAll = false
				continue
			}
			var max int64
			switch b.Kind() {
			case types.Uint8:
				max = 1<<8 - 1
			case types.Uint16:
				max = 1<<16 - 1
			case types.Uint32:
				max = 1<<32 - 1
			default:
				okAll = false
				continue
			}
			if max > bound {
				bound = max
			}
		}
	}
	return bound, okAll && n > 0
}

func peFileHeader(c *Ctx) types.Type {
	if sp := c.P.SSAPkgs["debug/pe"]; sp != nil {
		if tn, ok := sp.Pkg.Scope().Lookup("FileHeader").(*types.TypeName); ok {
			return tn.Type()
		}
	}
	return types.Typ[types.Invalid]
}

// seqOf: position of an instruction of a frame in the view's program order.
func (d *deepView) seqOf(i ssa.Instruction, fr *frame) int {
	for _, di := range d.order {
		if di.i == i && di.fr == fr {
			return di.seq
		}
	}
	return -1
}

// frameOfFn: the unique frame of fn in the view (nil if none or several).
func (d *deepView) frameOfFn(fn *ssa.Function) *frame {
	var out *frame
	for _, f := range d.frames {
		if f.fn == fn {
			if out != nil {
				return nil
			}
			out = f
		}
	}
	return out
}

// sectionOrder (J2).
func (c *Ctx) sectionOrder(dv *deepView, fn *ssa.Function, parts []listItem) {
	fname := name(fn)
	// the per-section part
	var sec *listItem
	for k := range parts {
		if parts[k].loop {
			if _, ok := ir.StripIface(parts[k].v.v).(*ssa.Call); ok {
				sec = &parts[k]
			}
		}
	}
	if sec == nil {
		// the list of parts filled by index stores instead of append: not enumerated by the list evaluator
		indexed := false
		for _, f := range withAnon(fn) {
			instrsOf(f, func(i ssa.Instruction) {
				if st, ok := i.(*ssa.Store); ok && inLoop(f, st.Block()) {
					if ia, isIA := st.Addr.(*ssa.IndexAddr); isIA {
						if _, isK := ir.ConstInt(ia.Index); !isK {
							switch st.Val.Type().Underlying().(type) {
							case *types.Interface, *types.Pointer, *types.Struct:
								indexed = true
							}
						}
					}
				}
			})
		}
		for k := range parts {
			if parts[k].loop {
				indexed = true // a per-section part of a shape the evaluator does not open (not a constructor call)
			}
		}
		if indexed {
			c.R.Infof("J2.order", fname, "section-parts", c.Pos(fn.Pos()), "not decided for this shape: the hashed parts are stored by index into a preallocated list (the list evaluator follows append)")
			c.R.Infof("J2.order", fname, "section-sort", c.Pos(fn.Pos()), "not decided for this shape (see section-parts)")
			c.R.Infof("J2.order", fname, "skip-empty", c.Pos(fn.Pos()), "not decided for this shape (see section-parts)")
			return
		}
		c.R.Violf("J2.order", fname, "section-parts", c.Pos(fn.Pos()), "each section with raw data contributes one part inside the section loop", "no part is appended inside a loop")
		return
	}
	secPart := ir.StripIface(sec.v.v).(*ssa.Call)
	sfr := sec.v.fr
	lf := sfr.fn
	// the section value and the slice it is taken from
	var secVal ssa.Value
	for _, a := range secPart.Call.Args {
		if ir.NamedTypeID(ir.StripIface(a).Type()) == "debug/pe.Section" {
			secVal = ir.StripIface(a)
			break
		}
	}
	var ranged dval
	haveRanged := false
	if ld, ok := secVal.(*ssa.UnOp); ok {
		if ia, ok := ld.X.(*ssa.IndexAddr); ok {
			ranged, haveRanged = dv.resolve(ia.X, sfr), true
		}
	}
	// a loop over s[:h] where h cannot cut s short (no bound, len(s), or min(len(s), K...)
	// with every K at least the largest length s is ever allocated with) ranges over s itself
	prefixUndecided := ""
	for k := 0; haveRanged && k < 4; k++ {
		sl, isSl := ranged.v.(*ssa.Slice)
		if !isSl {
			break
		}
		if _, isS := sl.X.Type().Underlying().(*types.Slice); !isS {
			break
		}
		if sl.Low != nil {
			if lo, isK := ir.ConstInt(sl.Low); !isK || lo != 0 {
				break
			}
		}
		inner := dv.resolve(sl.X, ranged.fr)
		isLenOfInner := func(v ssa.Value) bool {
			call, ok := ir.StripConv(v).(*ssa.Call)
			if !ok || ir.CallID(call) != "builtin.len" {
				return false
			}
			a := dv.resolve(call.Call.Args[0], ranged.fr)
			return a.same(inner) || dv.pathName(a.v, a.fr, 0) == dv.pathName(inner.v, inner.fr, 0)
		}
		whole := sl.High == nil || isLenOfInner(sl.High)
		if !whole {
			if mc, isC := ir.StripConv(sl.High).(*ssa.Call); isC && ir.CallID(mc) == "builtin.min" {
				bound, okB := c.sliceLenBound(inner.v)
				hasLen, allBig := false, true
				for _, a := range mc.Call.Args {
					if isLenOfInner(a) {
						hasLen = true
					} else if kk, isK := ir.ConstInt(a); !isK || !okB || kk < bound {
						allBig = false
					}
				}
				if hasLen && allBig {
					whole = true
				} else if hasLen {
					prefixUndecided = "the section loop ranges over the sorted table cut to min(len, ...) and the evaluator does not decide that the bound never cuts the table short"
				}
			}
		}
		if !whole {
			break
		}
		ranged = inner
	}
	// the loop ranges over a selection of another slice (a list filled, while that
	// slice is walked upwards, with elements of it): the order is that of the slice
	// selected from, and the conditions of the selecting append count as conditions
	// of the section loop
	var selAt ssa.Instruction
	var selFr *frame
	if haveRanged {
		if src, at, afr, isSel := dv.selectionOf(ranged); isSel {
			ranged, selAt, selFr = src, at, afr
		}
	}
	// the sort call
	var sortCall *ssa.Call
	var sortFr *frame
	for _, di := range dv.order {
		if call, ok := di.i.(*ssa.Call); ok {
			id := ir.CallID(call)
			if strings.HasPrefix(id, "slices.SortFunc") || strings.HasPrefix(id, "slices.SortStableFunc") || id == "sort.Slice" || id == "sort.SliceStable" {
				sortCall, sortFr = call, di.fr
			}
		}
	}
	ok, det := false, ""
	switch {
	case sortCall == nil:
		det = "the sections are not sorted before they are hashed"
	case !haveRanged:
		det = "the loop does not take its sections from an indexed slice"
	default:
		sorted := dv.resolve(ir.StripIface(sortCall.Call.Args[0]), sortFr)
		before := dv.seqOf(sortCall, sortFr) < dv.seqOf(secPart, sfr)
		if sortFr == sfr {
			before = sortCall.Block().Dominates(secPart.Block())
		}
		if selAt != nil {
			// the selection is taken from the sorted slice: the sort comes first
			before = before && dv.seqOf(sortCall, sortFr) < dv.seqOf(selAt, selFr)
			if sortFr == selFr {
				before = before && sortCall.Block().Dominates(selAt.Block())
			}
		}
		switch {
		case prefixUndecided != "":
			det = "not decided for this shape: " + prefixUndecided
		case !sorted.same(ranged) && dv.pathName(sorted.v, sorted.fr, 0) != dv.pathName(ranged.v, ranged.fr, 0):
			det = "the slice that is sorted is not the slice the section loop ranges over (the sort has no effect on the hashing order)"
		case !before:
			det = "the sort does not precede the section loop on every path"
		default:
			ok = true
		}
	}
	if !ok && strings.HasPrefix(det, "not decided") {
		c.R.Infof("J2.order", fname, "sorted-slice-is-hashed", c.Pos(fn.Pos()), det)
	} else {
		c.R.Check(ok, "J2.order", fname, "sorted-slice-is-hashed", c.Pos(fn.Pos()), "the section table that is hashed is the one sorted before the loop", det)
	}
	if sortCall != nil {
		okC, detC := c.ascendingByOffset(sortCall)
		if !okC && strings.HasPrefix(detC, "not decided") {
			c.R.Infof("J2.order", fname, "comparator", c.IPos(sortCall), detC)
		} else {
			c.R.Check(okC, "J2.order", fname, "comparator", c.IPos(sortCall), "sections are ordered ascending by their file offset (PointerToRawData)", detC)
		}
	}
	// zero-size sections contribute nothing
	okZ, detZ := false, "the append of the section part is not guarded by SizeOfRawData != 0"
	mentions := false
	at := secPart.Block()
	if ai, isI := sec.at.(ssa.Instruction); isI && ai != nil && ai.Parent() == lf {
		at = ai.Block()
	}
	type guardSite struct {
		fn *ssa.Function
		at *ssa.BasicBlock
		fr *frame
	}
	guardSites := []guardSite{{lf, at, sfr}}
	if selAt != nil {
		guardSites = append(guardSites, guardSite{selFr.fn, selAt.Block(), selFr})
	}
	var guardConds []ir.CondEdge
	guardFr := map[*ssa.If]*frame{}
	for _, gs := range guardSites {
		for _, ce := range ir.DominatingConds(gs.fn, gs.at) {
			guardConds = append(guardConds, ce)
			guardFr[ce.If] = gs.fr
		}
	}
	for _, ce := range guardConds {
		cmp, isB := ce.Cond.(*ssa.BinOp)
		if !isB {
			if ir.HasField(dv.sliceDeep(ce.Cond, guardFr[ce.If]), "debug/pe.SectionHeader.Size") {
				mentions = true
			}
			continue
		}
		x, y, op := cmp.X, cmp.Y, cmp.Op
		if k, isK := ir.ConstInt(x); isK && k == 0 {
			x, y, op = y, x, flip(op)
		}
		if k, isK := ir.ConstInt(y); !isK || k != 0 {
			continue
		}
		if ir.FieldID(ir.StripConv(x)) != "debug/pe.SectionHeader.Size" {
			continue
		}
		if !ce.Truth {
			op = negate(op)
		}
		if op == token.NEQ || op == token.GTR {
			okZ, detZ = true, ""
		}
	}
	if !okZ && mentions {
		c.R.Infof("J2.order", fname, "skip-empty", c.IPos(secPart), "not decided for this shape: the section part is guarded by a predicate over SizeOfRawData that is not a direct comparison with zero")
	} else {
		c.R.Check(okZ, "J2.order", fname, "skip-empty", c.IPos(secPart), "sections without raw data are skipped", detZ)
	}
	// nothing but an empty section is left out: any other condition on the section's
	// header inside the loop removes bytes the specification says are hashed
	var secLoop *natLoop
	for _, l := range naturalLoops(lf) {
		if l.body[at.Index] && (secLoop == nil || len(l.body) < len(secLoop.body)) {
			secLoop = l
		}
	}
	var selLoop *natLoop
	if selAt != nil {
		for _, l := range naturalLoops(selFr.fn) {
			if l.body[selAt.Block().Index] && (selLoop == nil || len(l.body) < len(selLoop.body)) {
				selLoop = l
			}
		}
	}
	if secLoop != nil {
		extra := ""
		for _, ce := range guardConds {
			inSec := guardFr[ce.If] == sfr && ce.If.Parent() == lf && secLoop.body[ce.Edge.From]
			inSel := selLoop != nil && guardFr[ce.If] == selFr && ce.If.Parent() == selFr.fn && selLoop.body[ce.Edge.From]
			if !inSec && !inSel {
				continue
			}
			for v := range dv.sliceDeep(ce.Cond, guardFr[ce.If]) {
				id := ir.FieldID(v)
				if ld, isLd := v.(*ssa.UnOp); isLd && ld.Op == token.MUL {
					id = ir.FieldID(ld.X)
				}
				if strings.HasPrefix(id, "debug/pe.SectionHeader.") && id != "debug/pe.SectionHeader.Size" {
					extra = strings.TrimPrefix(id, "debug/pe.") + " (condition at " + c.IPos(ce.If) + ")"
				}
			}
		}
		c.R.Check(extra == "", "J2.order", fname, "only-empty-skipped", c.IPos(secPart), "every section with raw data is hashed: only SizeOfRawData == 0 leaves a section out",
			"whether a section is hashed also depends on "+extra+": the raw data of such a section is in the file but not in the digest")
	}
	// the part reads the section's raw data with its SizeOfRawData
	owner := fname
	if callee := ir.Callee(secPart); callee != nil && c.P.InLib(callee) {
		owner = name(callee)
	}
	sl := dv.sliceDeep(secPart, sfr)
	okS := secVal != nil && sl[secVal] && ir.HasField(sl, "debug/pe.SectionHeader.Size") && !ir.HasField(sl, "debug/pe.SectionHeader.VirtualSize")
	c.R.Check(okS, "J2.order", owner, "section-extent", c.IPos(secPart), "a section part reads the section's raw data over SizeOfRawData bytes", "the part's size does not derive from SectionHeader.Size of the same section")
}

func flip(op token.Token) token.Token {
	switch op {
	case token.LSS:
		return token.GTR
	case token.GTR:
		return token.LSS
	case token.LEQ:
		return token.GEQ
	case token.GEQ:
		return token.LEQ
	}
	return op
}

// ascendingByOffset judges the comparator of the sort call over the ordering
// domain of (a.Offset, b.Offset).
func (c *Ctx) ascendingByOffset(sortCall *ssa.Call) (bool, string) {
	var cmpFn *ssa.Function
	switch x := ir.StripConv(sortCall.Call.Args[1]).(type) {
	case *ssa.Function:
		cmpFn = x
	case *ssa.MakeClosure:
		cmpFn, _ = x.Fn.(*ssa.Function)
	}
	if cmpFn == nil || len(cmpFn.Params) != 2 {
		return false, "comparator is not a function literal"
	}
	rets := ir.Returns(cmpFn)
	if len(rets) != 1 {
		return c.comparatorByCases(cmpFn)
	}
	offsetOf := func(v ssa.Value) int {
		v = ir.StripConv(v)
		if ir.FieldID(v) != "debug/pe.SectionHeader.Offset" {
			return -1
		}
		root := ir.RootOf(v)
		// slice-index form: s[i].Offset — root is the free slice; take the index parameter
		for k, p := range cmpFn.Params {
			if root == ssa.Value(p) {
				return k
			}
		}
		if ld, ok := v.(*ssa.UnOp); ok {
			var walk func(a ssa.Value) int
			walk = func(a ssa.Value) int {
				switch y := a.(type) {
				case *ssa.FieldAddr:
					return walk(y.X)
				case *ssa.UnOp:
					return walk(y.X)
				case *ssa.IndexAddr:
					for k, p := range cmpFn.Params {
						if ir.StripConv(y.Index) == ssa.Value(p) {
							return k
						}
					}
				}
				return -1
			}
			return walk(ld.X)
		}
		return -1
	}
	res := rets[0].Results[0]
	switch x := res.(type) {
	case *ssa.Call:
		if strings.HasPrefix(ir.CallID(x), "cmp.Compare") {
			a, b := offsetOf(x.Call.Args[0]), offsetOf(x.Call.Args[1])
			switch {
			case a == 0 && b == 1:
				return true, ""
			case a == 1 && b == 0:
				return false, "comparator orders sections descending by file offset"
			}
			return false, "comparator does not compare the Offset (PointerToRawData) fields of its two arguments"
		}
	case *ssa.BinOp:
		a, b := offsetOf(x.X), offsetOf(x.Y)
		if a < 0 || b < 0 {
			return false, "comparator does not compare the Offset (PointerToRawData) fields of its two arguments"
		}
		if x.Op == token.LSS && a == 0 && b == 1 || x.Op == token.GTR && a == 1 && b == 0 {
			return true, ""
		}
		return false, "comparator is not an ascending less-than on the file offset"
	}
	return false, "comparator form not recognised (accepted: cmp.Compare(a.Offset, b.Offset), a.Offset < b.Offset)"
}

// tailData (J3): data after the last section minus the certificate table, padded to 8.
func (c *Ctx) tailData(dv *deepView, fn *ssa.Function, parts []listItem, arms []typeArm) {
	fname := name(fn)
	last := parts[len(parts)-1]
	var bad []string
	call, ok := ir.StripIface(last.v.v).(*ssa.Call)
	if !ok || last.loop {
		c.R.Violf("J3.tail", fname, "trailing-data", c.Pos(fn.Pos()), "the last hashed part is the data after the sections", "the last part is not a single reader built after the section loop")
		return
	}
	sl := dv.sliceDeep(call, last.v.fr)
	// the buffer whose Bytes() become the last part
	var rest dval
	found, ambiguous := false, false
	for v := range sl {
		bc, ok := v.(*ssa.Call)
		if !ok || ir.CallID(bc) != "bytes.Buffer.Bytes" {
			continue
		}
		fr := dv.frameOfFn(bc.Parent())
		if fr == nil {
			continue
		}
		obj := dv.objectOf(bc.Call.Args[0], fr)
		if _, isA := obj.v.(*ssa.Alloc); !isA {
			continue
		}
		if found && !obj.same(rest) {
			ambiguous = true
		}
		rest, found = obj, true
	}
	if !found || ambiguous {
		c.R.Infof("J3.tail", fname, "trailing-data", c.IPos(call), "not decided for this shape: the last part is not the Bytes() of one local bytes.Buffer")
		return
	}
	var copyCall, trunc, padWrite *ssa.Call
	var copyFr, truncFr, padFr *frame
	for _, di := range dv.order {
		cc, ok := di.i.(*ssa.Call)
		if !ok {
			continue
		}
		switch ir.CallID(cc) {
		case "bytes.Buffer.Truncate":
			if dv.objectOf(cc.Call.Args[0], di.fr).same(rest) {
				trunc, truncFr = cc, di.fr
			}
		case "bytes.Buffer.Write":
			if dv.objectOf(cc.Call.Args[0], di.fr).same(rest) {
				padWrite, padFr = cc, di.fr
			}
		case "io.Copy", "bytes.Buffer.ReadFrom":
			if dv.objectOf(cc.Call.Args[0], di.fr).same(rest) {
				copyCall, copyFr = cc, di.fr
			}
		}
	}
	// what the buffer is cut to and what is appended behind it: Truncate(n) / Write(pad),
	// or the same two steps made on the bytes of the buffer with slice operations
	// (append(buf.Bytes()[:n], pad...))
	var truncVal, padVal ssa.Value
	var padAt ssa.Instruction
	cutBySlice := false
	if trunc != nil {
		truncVal = trunc.Call.Args[1]
	}
	if padWrite != nil {
		padVal, padAt = padWrite.Call.Args[1], padWrite
	}
	if trunc == nil && padWrite == nil {
		for v := range sl {
			ap, isAp := v.(*ssa.Call)
			if !isAp || ir.CallID(ap) != "builtin.append" || len(ap.Call.Args) != 2 {
				continue
			}
			afr := dv.frameOfFn(ap.Parent())
			if afr == nil {
				continue
			}
			base := dv.resolve(ap.Call.Args[0], afr)
			cut, isCut := base.v.(*ssa.Slice)
			if !isCut || cut.High == nil || cut.Max != nil {
				continue
			}
			if cut.Low != nil {
				if lo, isK := ir.ConstInt(cut.Low); !isK || lo != 0 {
					continue
				}
			}
			bc, isBytes := dv.resolve(cut.X, base.fr).v.(*ssa.Call)
			if !isBytes || ir.CallID(bc) != "bytes.Buffer.Bytes" || !dv.objectOfAny(bc, rest) {
				continue
			}
			if truncVal != nil {
				truncVal, padVal = nil, nil // more than one candidate: left undecided below
				ambiguous = true
				break
			}
			truncVal, truncFr = cut.High, base.fr
			padVal, padFr, padAt = ap.Call.Args[1], afr, ap
			cutBySlice = true
		}
		if ambiguous {
			c.R.Infof("J3.tail", fname, "trailing-data", c.IPos(call), "not decided for this shape: the bytes of the buffer are cut and extended by slice operations in more than one place")
			return
		}
	}
	// (a) filled from sum-of-bytes-hashed to the end of the file
	if copyCall == nil {
		bad = append(bad, "the buffer is not filled by io.Copy / ReadFrom from the image")
	} else if sr, ok := dv.sectionRangeOf(copyCall.Call.Args[1], copyFr, nil); !ok {
		bad = append(bad, "the trailing data is not read through a section reader over the image")
	} else {
		if !(sr.src.fr == dv.root && sr.src.v == ssa.Value(fn.Params[0])) {
			bad = append(bad, "the trailing data is not read from the image reader")
		}
		if n := dv.affine(sr.call.Call.Args[2], sr.fr, nil, 0); !n.isConst() || n.K < 1<<40 {
			bad = append(bad, "the trailing data is not read to the end of the file")
		}
		// start = SizeOfHeaders + Σ Size of the hashed sections, per optional-header type
		sels := []*caseSel{nil}
		if len(arms) == 2 {
			sels = []*caseSel{arms[0].sel, arms[1].sel}
		}
		for _, sel := range sels {
			a := dv.affine(sr.call.Call.Args[1], sr.fr, sel, 0)
			stepOK := false
			total := a.clone()
			for sym, v := range a.Sym {
				ph, isPhi := v.(*ssa.Phi)
				if !isPhi || a.T[sym] != 1 {
					continue
				}
				pfr := dv.frameOfFn(ph.Parent())
				if pfr == nil {
					continue
				}
				isSum := false
				entry := newAffine()
				nEntry := 0
				for j, e := range ph.Edges {
					if e == ssa.Value(ph) {
						continue
					}
					if ph.Block().Preds[j].Index < ph.Block().Index {
						entry = dv.affine(e, pfr, sel, 0)
						nEntry++
					} else if accumulates(e, ph, 0) {
						isSum = true
					}
				}
				if isSum && nEntry == 1 {
					stepOK = true
					delete(total.T, sym)
					total = total.add(entry, 1)
				}
			}
			okStart := stepOK && total.K == 0 && len(total.T) == 1
			for sym, cf := range total.T {
				if cf != 1 || !strings.HasSuffix(sym, ".SizeOfHeaders") {
					okStart = false
				}
			}
			if !okStart && sel == nil && len(arms) != 2 {
				c.R.Infof("J3.tail", fname, "trailing-data-start", c.IPos(call), "not decided for this shape: the start of the trailing data cannot be evaluated without the optional-header arms")
			} else if !okStart {
				bad = append(bad, "the trailing data does not start at SizeOfHeaders plus the sizes of the hashed sections (start is "+a.String()+")")
				break
			}
		}
	}
	// (b) minus the certificate table
	if truncVal == nil {
		bad = append(bad, "the certificate table is not cut off the trailing data (Truncate)")
	} else {
		a := dv.affine(truncVal, truncFr, nil, 0)
		lenOK, sizeOK := false, false
		for sym, cf := range a.T {
			if strings.HasPrefix(sym, "len(") && cf == 1 {
				if lc, ok := a.Sym[sym].(*ssa.Call); ok && dv.objectOfAny(lc, rest) {
					lenOK = true
				}
			}
			if strings.HasSuffix(sym, ".Size") && cf == -1 && fieldIDOf(a.Sym[sym]) == "debug/pe.DataDirectory.Size" {
				sizeOK = true
			}
		}
		if !lenOK || !sizeOK || len(a.T) != 2 || a.K != 0 {
			bad = append(bad, "the buffer is truncated to "+a.String()+", want its length minus the certificate-table size")
		}
	}
	// (c) zero padded to 8
	if padVal == nil {
		bad = append(bad, "no padding is appended")
	} else {
		pv := dv.resolve(padVal, padFr)
		ex, ok := pv.v.(*ssa.Extract)
		pc, isCall := (*ssa.Call)(nil), false
		if ok {
			pc, isCall = ex.Tuple.(*ssa.Call)
		}
		if !ok || !isCall || ir.CallID(pc) != acPkg+".PaddingBytes" || ex.Index != 0 {
			// judged by value: for every residue of the padded quantity modulo 8 the number of
			// bytes written is the distance to the next multiple of 8
			if sym := remOperand(pv.v, 0); sym == nil {
				c.R.Infof("J3.tail", fname, "trailing-data-pad", c.IPos(padAt), "not decided for this shape: the padding does not come from PaddingBytes and no remainder modulo 8 is found in what computes its length")
			} else if vals, okV := c.lenFunction(pv.v, func(v ssa.Value) bool { return v == sym }); !okV {
				c.R.Infof("J3.tail", fname, "trailing-data-pad", c.IPos(padAt), "not decided for this shape: the number of padding bytes is not evaluated")
			} else if vals != [8]int64{0, 7, 6, 5, 4, 3, 2, 1} {
				bad = append(bad, fmt.Sprintf("the padding numbers %v bytes for sizes = 0..7 (mod 8), want the distance to the next multiple of 8", vals))
			}
		} else if k, isK := ir.ConstInt(dv.resolve(pc.Call.Args[1], pv.fr).v); !isK || k != 8 {
			bad = append(bad, "the padding block size is not 8")
		}
		if trunc != nil && padWrite != nil && !cutBySlice {
			before := dv.seqOf(trunc, truncFr) < dv.seqOf(padWrite, padFr)
			if truncFr == padFr {
				before = precedesInCFG(truncFr.fn, trunc, padWrite)
			}
			if !before {
				bad = append(bad, "the padding is written before the certificate table is cut off")
			}
		}
	}
	c.R.Check(len(bad) == 0, "J3.tail", fname, "trailing-data", c.IPos(call), "after the sections the data up to the end of file minus the certificate table is hashed, zero padded to 8 bytes", strings.Join(bad, "; "))
}

// objectOfAny: some receiver/argument of the call denotes the object.
func (d *deepView) objectOfAny(call *ssa.Call, obj dval) bool {
	fr := d.frameOfFn(call.Parent())
	if fr == nil {
		return false
	}
	for _, a := range ir.CallArgs(call) {
		if d.objectOf(a, fr).same(obj) {
			return true
		}
	}
	return false
}

// accumulates: v is the loop-carried value ph after one iteration of a loop that
// adds the raw size of a section to it on some or all paths (ph itself, ph +
// Size, or a merge of such values), with at least one adding path.
func accumulates(v ssa.Value, ph *ssa.Phi, depth int) bool {
	adds := false
	var ok func(v ssa.Value, depth int) bool
	ok = func(v ssa.Value, depth int) bool {
		if depth > 6 {
			return false
		}
		if v == ssa.Value(ph) {
			return true
		}
		switch x := v.(type) {
		case *ssa.BinOp:
			if x.Op != token.ADD {
				return false
			}
			a, b := x.X, x.Y
			if ir.FieldID(ir.StripConv(a)) == "debug/pe.SectionHeader.Size" {
				a, b = b, a
			}
			if ir.FieldID(ir.StripConv(b)) == "debug/pe.SectionHeader.Size" && ok(a, depth+1) {
				adds = true
				return true
			}
		case *ssa.Phi:
			for _, e := range x.Edges {
				if e == ssa.Value(x) {
					continue
				}
				if !ok(e, depth+1) {
					return false
				}
			}
			return true
		}
		return false
	}
	return ok(v, depth) && adds
}

// leBytesAt recognises a little-endian integer assembled by hand from
// consecutive bytes of one buffer: b[k] | b[k+1]<<8 | ... ; returns the buffer,
// the offset of the lowest byte and the width.
func leBytesAt(v ssa.Value) (buf ssa.Value, off int64, width int, ok bool) {
	type part struct {
		buf   ssa.Value
		idx   int64
		shift int64
	}
	var parts []part
	var walk func(v ssa.Value, shift int64) bool
	walk = func(v ssa.Value, shift int64) bool {
		v = ir.StripConv(v)
		switch x := v.(type) {
		case *ssa.BinOp:
			switch x.Op {
			case token.OR, token.ADD, token.XOR:
				return walk(x.X, shift) && walk(x.Y, shift)
			case token.SHL:
				k, isK := ir.ConstInt(x.Y)
				if !isK {
					return false
				}
				return walk(x.X, shift+k)
			}
		case *ssa.UnOp:
			if x.Op == token.MUL {
				if ia, isIA := x.X.(*ssa.IndexAddr); isIA {
					if k, isK := ir.ConstInt(ia.Index); isK {
						parts = append(parts, part{ia.X, k, shift})
						return true
					}
				}
			}
		}
		return false
	}
	if !walk(v, 0) || len(parts) == 0 {
		return nil, 0, 0, false
	}
	base := parts[0].buf
	lo := int64(-1)
	for _, p := range parts {
		if p.buf != base || p.shift%8 != 0 {
			return nil, 0, 0, false
		}
		if p.shift == 0 {
			lo = p.idx
		}
	}
	if lo < 0 {
		return nil, 0, 0, false
	}
	seen := map[int64]bool{}
	for _, p := range parts {
		if p.idx-lo != p.shift/8 || seen[p.idx] {
			return nil, 0, 0, false
		}
		seen[p.idx] = true
	}
	// the bytes may be taken from a constant-offset window of the buffer
	for {
		sl, isSl := base.(*ssa.Slice)
		if !isSl {
			break
		}
		k := int64(0)
		if sl.Low != nil {
			n, isK := ir.ConstInt(sl.Low)
			if !isK {
				break
			}
			k = n
		}
		base, lo = sl.X, lo+k
	}
	return base, lo, len(parts), true
}

// rulePartSearch (J5): the concatenating reader starts a read at offset off in
// the first part whose end lies strictly beyond off. A search that also stops
// at a part ending exactly at off selects a part that contributes no byte; the
// read then returns (0, EOF) at a part boundary and a copy loop ends there, so
// the bytes behind that boundary are silently left out of the digest.
func (c *Ctx) rulePartSearch(rule string) {
	fn := c.Fn(rule, "authenticode.(*multi).ReadAt")
	if fn == nil {
		return
	}
	offP := paramByType(fn, "int64")
	what := "a read at offset off starts in the first part whose end is strictly greater than off"
	var search *ssa.Call
	for _, f := range withAnon(fn) {
		instrsOf(f, func(i ssa.Instruction) {
			if call, ok := i.(*ssa.Call); ok {
				switch id := ir.CallID(call); {
				case id == "sort.Search" || strings.HasPrefix(id, "slices.BinarySearchFunc") || strings.HasPrefix(id, "slices.BinarySearch") || strings.HasPrefix(id, "slices.IndexFunc"):
					search = call
				}
			}
		})
	}
	if search == nil || offP == nil {
		c.R.Infof(rule, name(fn), "part-search", c.Pos(fn.Pos()), "not decided for this shape: the part for an offset is not located with sort.Search / slices.BinarySearchFunc")
		return
	}
	// the closure handed to the search
	var pred *ssa.Function
	for _, a := range search.Call.Args {
		switch x := ir.StripConv(a).(type) {
		case *ssa.MakeClosure:
			pred, _ = x.Fn.(*ssa.Function)
		case *ssa.Function:
			pred = x
		}
	}
	rets := []*ssa.Return{}
	if pred != nil {
		rets = ir.Returns(pred)
	}
	if pred == nil || len(rets) != 1 || len(rets[0].Results) != 1 {
		c.R.Infof(rule, name(fn), "part-search", c.IPos(search), "not decided for this shape: the search predicate is not a single-expression function literal")
		return
	}
	res := rets[0].Results[0]
	// end := part.off + part.Size(); the other operand is the offset (parameter or free variable bound to it)
	isOff := func(v ssa.Value) bool {
		v = ir.StripConv(v)
		if v == ssa.Value(offP) {
			return true
		}
		if fv, ok := v.(*ssa.FreeVar); ok {
			b := ir.FreeVarBinding(fv)
			if b == ssa.Value(offP) {
				return true
			}
			// captured by reference: the cell the parameter was spilled to
			if a, isA := b.(*ssa.Alloc); isA {
				for _, r := range *a.Referrers() {
					if st, isSt := r.(*ssa.Store); isSt && st.Val == ssa.Value(offP) {
						return true
					}
				}
			}
		}
		if ld, ok := v.(*ssa.UnOp); ok && ld.Op == token.MUL {
			if fv, isFV := ld.X.(*ssa.FreeVar); isFV {
				if a, isA := ir.FreeVarBinding(fv).(*ssa.Alloc); isA {
					for _, r := range *a.Referrers() {
						if st, isSt := r.(*ssa.Store); isSt && st.Val == ssa.Value(offP) {
							return true
						}
					}
				}
			}
		}
		if p, ok := v.(*ssa.Parameter); ok && p.Parent() == pred && types.Identical(p.Type(), offP.Type()) {
			return true // the target handed through the search (BinarySearchFunc)
		}
		return false
	}
	isEnd := func(v ssa.Value) bool {
		bo, ok := ir.StripConv(v).(*ssa.BinOp)
		if !ok || bo.Op != token.ADD {
			return false
		}
		hasOff, hasSize := false, false
		for _, side := range []ssa.Value{bo.X, bo.Y} {
			if strings.HasSuffix(ir.FieldID(side), ".off") {
				hasOff = true
			}
			if call, isC := ir.StripConv(side).(ssa.CallInstruction); isC && call.Common().IsInvoke() && call.Common().Method.Name() == "Size" {
				hasSize = true
			}
		}
		return hasOff && hasSize
	}
	id := ir.CallID(search)
	switch {
	case id == "sort.Search":
		bo, ok := res.(*ssa.BinOp)
		// a search over the parts' start offsets, stepped back by one afterwards
		if ok {
			isStart := func(v ssa.Value) bool {
				v = ir.StripConv(v)
				id := ir.FieldID(v)
				if ld, isLd := v.(*ssa.UnOp); isLd && ld.Op == token.MUL {
					id = ir.FieldID(ld.X)
				}
				return strings.HasSuffix(id, "offsetAndSource.off")
			}
			op := bo.Op
			startLeft := isStart(bo.X) && isOff(bo.Y)
			if isOff(bo.X) && isStart(bo.Y) {
				startLeft = true
				op = flip(op)
			}
			if startLeft && (op == token.GTR || op == token.GEQ) {
				stepsBack := false
				if search.Referrers() != nil {
					var walk func(v ssa.Value, depth int)
					walk = func(v ssa.Value, depth int) {
						if v.Referrers() == nil || depth > 3 {
							return
						}
						for _, r := range *v.Referrers() {
							switch x := r.(type) {
							case *ssa.BinOp:
								if k, isK := ir.ConstInt(x.Y); isK && k == 1 && x.Op == token.SUB {
									stepsBack = true
								}
							case *ssa.Phi:
								walk(x, depth+1)
							}
						}
					}
					walk(search, 0)
				}
				switch {
				case op == token.GTR && stepsBack:
					c.R.Okf(rule, name(fn), "part-search", c.IPos(search), what+" (search over start offsets: first part starting beyond off, stepped back by one)")
				case op == token.GEQ && stepsBack:
					c.R.Violf(rule, name(fn), "part-search", c.IPos(search), what, "the search finds the first part that starts at or after off and steps back by one: a read that starts exactly at a part boundary selects the part before it, which contributes no byte — the read returns 0 bytes and EOF there and the rest of the image is not hashed")
				default:
					c.R.Infof(rule, name(fn), "part-search", c.IPos(search), "not decided for this shape: a search over the parts' start offsets whose result is not stepped back by one")
				}
				return
			}
		}
		switch {
		case ok && bo.Op == token.GTR && isEnd(bo.X) && isOff(bo.Y), ok && bo.Op == token.LSS && isOff(bo.X) && isEnd(bo.Y):
			c.R.Okf(rule, name(fn), "part-search", c.IPos(search), what)
		case ok && (bo.Op == token.GEQ && isEnd(bo.X) && isOff(bo.Y) || bo.Op == token.LEQ && isOff(bo.X) && isEnd(bo.Y)):
			c.R.Violf(rule, name(fn), "part-search", c.IPos(search), what, "the predicate is end >= off: a part that ends exactly at off is selected although it contributes no byte, the read returns 0 bytes and EOF at that boundary and the rest of the image is not hashed")
		default:
			c.R.Infof(rule, name(fn), "part-search", c.IPos(search), "not decided for this shape: the search predicate is not a comparison of part.off+part.Size() with the offset")
		}
	case strings.HasPrefix(id, "slices.BinarySearchFunc"):
		// finds the first element e with cmp(e, target) >= 0
		call, ok := res.(*ssa.Call)
		if ok && strings.HasPrefix(ir.CallID(call), "cmp.Compare") && isEnd(call.Call.Args[0]) && isOff(call.Call.Args[1]) {
			// target off: first part with end >= off — the non-strict form
			tgt := search.Call.Args[1]
			if ir.StripConv(tgt) == ssa.Value(offP) {
				c.R.Violf(rule, name(fn), "part-search", c.IPos(search), what, "the binary search returns the first part with end >= off: a part that ends exactly at off is selected although it contributes no byte, the read returns 0 bytes and EOF at that boundary and the rest of the image is not hashed")
				return
			}
		}
		c.R.Infof(rule, name(fn), "part-search", c.IPos(search), "not decided for this shape: the comparison function of the binary search is not evaluated")
	default:
		c.R.Infof(rule, name(fn), "part-search", c.IPos(search), "not decided for this shape: "+id)
	}
}

// rulePartOffset (J7.partoff): a part of the concatenating reader is read at an
// offset relative to the part. The offset of the whole stream, handed to a
// part unchanged, addresses the right bytes only in the first part.
func (c *Ctx) rulePartOffset(rule string) {
	fn := c.Fn(rule, "authenticode.(*multi).ReadAt")
	if fn == nil {
		return
	}
	offP := paramByType(fn, "int64")
	n := 0
	bad := ""
	for _, f := range withAnon(fn) {
		instrsOf(f, func(i ssa.Instruction) {
			call, ok := i.(ssa.CallInstruction)
			if !ok {
				return
			}
			cc := call.Common()
			var args []ssa.Value
			switch {
			case cc.IsInvoke() && cc.Method.Name() == "ReadAt":
				args = cc.Args
			case !cc.IsInvoke() && strings.HasSuffix(ir.CallID(call), ".ReadAt") && ir.Callee(call) != fn:
				args = cc.Args[1:]
			default:
				return
			}
			if len(args) != 2 {
				return
			}
			n++
			offArg := ir.StripConv(args[1])
			// the parameter spilled to a cell because a function literal captures it
			if ld, isLd := offArg.(*ssa.UnOp); isLd && ld.Op == token.MUL {
				if cell, isA := ld.X.(*ssa.Alloc); isA {
					var stored []ssa.Value
					for _, r := range *cell.Referrers() {
						if st, ok := r.(*ssa.Store); ok && st.Addr == ssa.Value(cell) {
							stored = append(stored, st.Val)
						}
					}
					if len(stored) == 1 {
						offArg = ir.StripConv(stored[0])
					}
				}
			}
			if offP != nil && offArg == ssa.Value(offP) {
				// allowed only where the part is known to start at 0
				zeroStart := false
				for _, ce := range ir.DominatingConds(f, call.Block()) {
					bo, isB := ce.Cond.(*ssa.BinOp)
					if !isB || !(bo.Op == token.EQL && ce.Truth || bo.Op == token.NEQ && !ce.Truth) {
						continue
					}
					x, y := ir.StripConv(bo.X), ir.StripConv(bo.Y)
					if k, isK := ir.ConstInt(x); isK && k == 0 {
						x, y = y, x
					}
					if k, isK := ir.ConstInt(y); !isK || k != 0 {
						continue
					}
					id := ir.FieldID(x)
					if ld, isLd := x.(*ssa.UnOp); isLd && ld.Op == token.MUL {
						id = ir.FieldID(ld.X)
					}
					if id == M+"/authenticode.offsetAndSource.off" {
						zeroStart = true
					}
				}
				if !zeroStart {
					bad = c.IPos(i)
				}
			}
		})
	}
	if n == 0 {
		c.R.Infof(rule, name(fn), "part-relative", c.Pos(fn.Pos()), "not decided for this shape: no ReadAt on a part found in the concatenating reader")
		return
	}
	c.R.Check(bad == "", rule, name(fn), "part-relative", c.Pos(fn.Pos()), "parts are read at offsets relative to the part",
		"the part read at "+bad+" is given the offset of the whole stream unchanged: for every part but the first this addresses other bytes of the part (or none)")
}

// comparatorByCases runs a branching comparator over the three orderings of
// (a.Offset, b.Offset): every condition on the way must be a comparison of
// those two fields, every result a constant, cmp.Compare of them, or a<b.
func (c *Ctx) comparatorByCases(cmpFn *ssa.Function) (bool, string) {
	side := func(v ssa.Value) int {
		v = ir.StripConv(v)
		id := ir.FieldID(v)
		if ld, ok := v.(*ssa.UnOp); ok && ld.Op == token.MUL {
			id = ir.FieldID(ld.X)
		}
		if id != "debug/pe.SectionHeader.Offset" {
			return -1
		}
		for k, p := range cmpFn.Params {
			if ir.RootOf(v) == ssa.Value(p) {
				return k
			}
			if ld, ok := v.(*ssa.UnOp); ok && ir.RootOf(ld.X) == ssa.Value(p) {
				return k
			}
		}
		return -1
	}
	rel := func(op token.Token, ord int) (bool, bool) { // ord = sign(x - y)
		switch op {
		case token.LSS:
			return ord < 0, true
		case token.LEQ:
			return ord <= 0, true
		case token.GTR:
			return ord > 0, true
		case token.GEQ:
			return ord >= 0, true
		case token.EQL:
			return ord == 0, true
		case token.NEQ:
			return ord != 0, true
		}
		return false, false
	}
	evalBool := func(v ssa.Value, ord int) (bool, bool) {
		bo, ok := v.(*ssa.BinOp)
		if !ok {
			return false, false
		}
		x, y := side(bo.X), side(bo.Y)
		switch {
		case x == 0 && y == 1:
			return rel(bo.Op, ord)
		case x == 1 && y == 0:
			return rel(bo.Op, -ord)
		}
		return false, false
	}
	isBool := isBoolType(cmpFn.Signature.Results().At(0).Type())
	for _, ord := range []int{-1, 0, 1} {
		b, pred := cmpFn.Blocks[0], (*ssa.BasicBlock)(nil)
		var got int
		decided := false
		for steps := 0; steps < 40 && !decided; steps++ {
			switch last := b.Instrs[len(b.Instrs)-1].(type) {
			case *ssa.If:
				t, ok := evalBool(last.Cond, ord)
				if !ok {
					return false, "not decided for this shape: the comparator branches on something other than the two file offsets"
				}
				pred = b
				if t {
					b = b.Succs[0]
				} else {
					b = b.Succs[1]
				}
			case *ssa.Jump:
				pred, b = b, b.Succs[0]
			case *ssa.Return:
				res := last.Results[0]
				if ph, isPhi := res.(*ssa.Phi); isPhi && ph.Block() == b && pred != nil {
					for k, p := range b.Preds {
						if p == pred {
							res = ph.Edges[k]
						}
					}
				}
				switch x := res.(type) {
				case *ssa.Const:
					if isBool {
						if constant.BoolVal(x.Value) {
							got = -1
						} else {
							got = 1
						}
					} else if k, ok := ir.ConstInt(x); ok {
						got = int(k)
					}
					decided = true
				case *ssa.BinOp:
					t, ok := evalBool(x, ord)
					if !ok {
						return false, "not decided for this shape: the comparator's result is not a comparison of the two file offsets"
					}
					if t {
						got = -1
					} else {
						got = 1
					}
					decided = true
				case *ssa.Call:
					if strings.HasPrefix(ir.CallID(x), "cmp.Compare") {
						a0, a1 := side(x.Call.Args[0]), side(x.Call.Args[1])
						switch {
						case a0 == 0 && a1 == 1:
							got = ord
						case a0 == 1 && a1 == 0:
							got = -ord
						default:
							return false, "not decided for this shape: cmp.Compare of other values than the two file offsets"
						}
						decided = true
					}
				}
				if !decided {
					return false, "not decided for this shape: the comparator's result is not evaluated"
				}
			default:
				return false, "not decided for this shape: the comparator's control flow is not evaluated"
			}
		}
		if !decided {
			return false, "not decided for this shape: the comparator's control flow is not evaluated"
		}
		sign := 0
		if got < 0 {
			sign = -1
		} else if got > 0 {
			sign = 1
		}
		if isBool {
			// less(a, b) must be true exactly for a < b
			if (sign < 0) != (ord < 0) {
				return false, fmt.Sprintf("the comparator reports a<b = %v when the offsets compare %d", sign < 0, ord)
			}
			continue
		}
		if sign != ord {
			return false, fmt.Sprintf("the comparator returns %d when a.Offset compares %d to b.Offset: the order is not ascending by file offset", got, ord)
		}
	}
	return true, ""
}

// rulePadLength (J8.padlen): the number of zero bytes hashed behind the image
// is computed from the size of the whole file (the distance of FILE_SIZE to the
// next multiple of 8), not from the length of one of its parts. Decided by
// provenance: what is handed to PaddingBytes in Parse derives from the header
// size (the running total that starts at SizeOfHeaders) or from a size of the
// whole input (a full read from offset 0, a Size() of the reader).
func (c *Ctx) rulePadLength(rule string) {
	fn := c.FnOpt("authenticode.Parse")
	if fn == nil {
		return
	}
	var pad *ssa.Call
	for _, f := range withAnon(fn) {
		instrsOf(f, func(i ssa.Instruction) {
			if call, ok := i.(*ssa.Call); ok && ir.CallID(call) == acPkg+".PaddingBytes" {
				pad = call
			}
		})
	}
	if pad == nil {
		c.R.Infof(rule, name(fn), "pad-length", c.Pos(fn.Pos()), "not decided for this shape: Parse does not compute the padding with PaddingBytes itself")
		return
	}
	// by value: a sum that consists of nothing but lengths of buffers is the size
	// of parts of the file; the file size carries the running total (headers and
	// sections) or a size of the whole input besides
	a := affineOf(pad.Call.Args[0], 0)
	onlyLens := len(a.T) > 0
	for sym := range a.T {
		if !strings.HasPrefix(sym, "len(") {
			onlyLens = false
		}
	}
	if onlyLens {
		c.R.Violf(rule, name(fn), "pad-length", c.IPos(pad), "the zero padding behind the image is the distance of the file size to the next multiple of 8",
			"the length handed to PaddingBytes is "+a.String()+": the length of a part of the file, not the size of the file (header size and section sizes do not enter): for an image whose headers and sections do not add up to a multiple of 8 the wrong number of zero bytes is hashed")
		return
	}
	c.R.Okf(rule, name(fn), "pad-length", c.IPos(pad), "the length the padding is computed from is not just the length of one part of the file")
}

// remOperand: the quantity whose remainder modulo 8 enters the computation of v
// (the length of a pad slice, a pad length): searched backwards through
// allocations, arithmetic and conversions.
func remOperand(v ssa.Value, depth int) ssa.Value {
	if depth > 10 || v == nil {
		return nil
	}
	switch x := v.(type) {
	case *ssa.BinOp:
		if x.Op == token.REM {
			if k, ok := ir.ConstInt(x.Y); ok && k == 8 {
				if inner := remOperand(x.X, depth+1); inner != nil {
					return inner
				}
				return x.X
			}
		}
		if x.Op == token.AND {
			if k, ok := ir.ConstInt(x.Y); ok && k == 7 {
				if inner := remOperand(x.X, depth+1); inner != nil {
					return inner
				}
				return x.X
			}
		}
		if r := remOperand(x.X, depth+1); r != nil {
			return r
		}
		return remOperand(x.Y, depth+1)
	case *ssa.UnOp:
		if x.Op == token.SUB || x.Op == token.XOR {
			return remOperand(x.X, depth+1)
		}
	case *ssa.Convert:
		return remOperand(x.X, depth+1)
	case *ssa.ChangeType:
		return remOperand(x.X, depth+1)
	case *ssa.MakeSlice:
		return remOperand(x.Len, depth+1)
	case *ssa.Slice:
		if x.High != nil {
			if r := remOperand(x.High, depth+1); r != nil {
				return r
			}
		}
		return remOperand(x.X, depth+1)
	}
	return nil
}
