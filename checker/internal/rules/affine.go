package rules

import (
	"go/token"
	"go/types"
	"sort"
	"strconv"
	"strings"

	"golang.org/x/tools/go/ssa"

	"verif/checker/internal/ir"
)

// Affine is k + Σ coeff·symbol over opaque symbols (access paths, len(path)).
// It is a closed-form abstract value, evaluated syntactically over SSA; no
// solver is involved. Integer conversions are treated as identity and machine
// wrap-around is ignored (stated in the evidence of every rule that uses it).
type Affine struct {
	K   int64
	T   map[string]int64
	Sym map[string]ssa.Value // representative value of each symbol
}

func newAffine() Affine { return Affine{T: map[string]int64{}, Sym: map[string]ssa.Value{}} }

func (a Affine) clone() Affine {
	b := newAffine()
	b.K = a.K
	for k, v := range a.T {
		b.T[k] = v
	}
	for k, v := range a.Sym {
		b.Sym[k] = v
	}
	return b
}

func (a Affine) add(b Affine, sign int64) Affine {
	r := a.clone()
	r.K += sign * b.K
	for k, v := range b.T {
		r.T[k] += sign * v
		if r.T[k] == 0 {
			delete(r.T, k)
		}
		if _, ok := r.Sym[k]; !ok {
			r.Sym[k] = b.Sym[k]
		}
	}
	return r
}

func (a Affine) scale(n int64) Affine {
	r := newAffine()
	r.K = a.K * n
	for k, v := range a.T {
		if v*n != 0 {
			r.T[k] = v * n
			r.Sym[k] = a.Sym[k]
		}
	}
	return r
}

func (a Affine) isConst() bool { return len(a.T) == 0 }

func (a Affine) String() string {
	var keys []string
	for k := range a.T {
		keys = append(keys, k)
	}
	sort.Strings(keys)
	var parts []string
	for _, k := range keys {
		parts = append(parts, strconv.FormatInt(a.T[k], 10)+"*"+k)
	}
	parts = append(parts, strconv.FormatInt(a.K, 10))
	return strings.Join(parts, " + ")
}

func (a Affine) equal(b Affine) bool {
	if a.K != b.K || len(a.T) != len(b.T) {
		return false
	}
	for k, v := range a.T {
		if b.T[k] != v {
			return false
		}
	}
	return true
}

func symAffine(name string, v ssa.Value) Affine {
	a := newAffine()
	a.T[name] = 1
	a.Sym[name] = v
	return a
}

// affineEnv optionally maps phis to the incoming value of the case under
// evaluation (per-case evaluation of a type switch); nil outside such scopes.
var affineEnv map[*ssa.Phi]ssa.Value

// affineOf evaluates an integer SSA value.
func affineOf(v ssa.Value, depth int) Affine {
	if v == nil {
		return newAffine()
	}
	if ph, ok := v.(*ssa.Phi); ok && affineEnv != nil {
		if sub, ok := affineEnv[ph]; ok && depth < 10 {
			return affineOf(sub, depth+1)
		}
	}
	if depth > 10 {
		return symAffine(resolvedPath(v), v)
	}
	if n, ok := ir.ConstInt(v); ok {
		a := newAffine()
		a.K = n
		return a
	}
	switch x := v.(type) {
	case *ssa.Convert:
		if isNumeric(x.X.Type()) {
			return affineOf(x.X, depth+1)
		}
	case *ssa.ChangeType:
		return affineOf(x.X, depth+1)
	case *ssa.BinOp:
		switch x.Op {
		case token.ADD:
			return affineOf(x.X, depth+1).add(affineOf(x.Y, depth+1), 1)
		case token.SUB:
			return affineOf(x.X, depth+1).add(affineOf(x.Y, depth+1), -1)
		case token.MUL:
			l, r := affineOf(x.X, depth+1), affineOf(x.Y, depth+1)
			if l.isConst() {
				return r.scale(l.K)
			}
			if r.isConst() {
				return l.scale(r.K)
			}
		case token.SHL:
			r := affineOf(x.Y, depth+1)
			if r.isConst() && r.K >= 0 && r.K < 62 {
				return affineOf(x.X, depth+1).scale(1 << uint(r.K))
			}
		}
	case *ssa.Call:
		id := ir.CallID(x)
		if id == "builtin.len" || id == "builtin.cap" {
			return symAffine("len("+resolvedPath(x.Call.Args[0])+")", x)
		}
		if id == "encoding/binary.Size" {
			if n := binarySize(ir.StripIface(x.Call.Args[0]).Type()); n >= 0 {
				a := newAffine()
				a.K = int64(n)
				return a
			}
		}
		if strings.HasSuffix(id, ".Len") || strings.HasSuffix(id, ".Size") {
			args := ir.CallArgs(x)
			if len(args) == 1 {
				return symAffine("len("+resolvedPath(args[0])+")", x)
			}
		}
	case *ssa.UnOp:
		if x.Op == token.SUB {
			return affineOf(x.X, depth+1).scale(-1)
		}
	}
	return symAffine(resolvedPath(v), v)
}

// nonNegSym: the symbol denotes a quantity that is never negative (a length,
// or a value of unsigned type).
func nonNegSym(name string, v ssa.Value) bool {
	if strings.HasPrefix(name, "len(") {
		return true
	}
	if v == nil {
		return false
	}
	t := ir.StripConv(v).Type()
	if b, ok := t.Underlying().(*types.Basic); ok && b.Info()&types.IsUnsigned != 0 {
		return true
	}
	return false
}

// nonNegCombination: e is a sum of non-negative symbols with non-negative
// coefficients and a non-negative constant.
func nonNegCombination(e Affine) bool {
	if e.K < 0 {
		return false
	}
	for k, c := range e.T {
		if c < 0 || !nonNegSym(k, e.Sym[k]) {
			return false
		}
	}
	return true
}

// factsOf converts the dominating comparisons into affine facts F >= 0.
func affineFacts(gs []guardFact) []Affine {
	var out []Affine
	for _, g := range gs {
		op := g.cmp.Op
		if !g.truth {
			op = negate(op)
		}
		if !isNumeric(g.cmp.X.Type()) {
			continue
		}
		x, y := affineOf(g.cmp.X, 0), affineOf(g.cmp.Y, 0)
		d := x.add(y, -1) // X - Y
		switch op {
		case token.GEQ:
			out = append(out, d)
		case token.GTR:
			e := d.clone()
			e.K--
			out = append(out, e)
		case token.LEQ:
			out = append(out, d.scale(-1))
		case token.LSS:
			e := d.scale(-1)
			e.K--
			out = append(out, e)
		case token.EQL:
			out = append(out, d, d.scale(-1))
		case token.NEQ:
			// X != 0 with X non-negative  =>  X - 1 >= 0
			if y.isConst() && y.K == 0 && nonNegCombination(x) {
				e := x.clone()
				e.K--
				out = append(out, e)
			} else if x.isConst() && x.K == 0 && nonNegCombination(y) {
				e := y.clone()
				e.K--
				out = append(out, e)
			}
		}
	}
	return out
}

// entails: required >= 0 follows from at most two facts plus non-negativity
// of lengths and unsigned symbols.
func entails(required Affine, facts []Affine) bool {
	if nonNegCombination(required) {
		return true
	}
	for i, f := range facts {
		r1 := required.add(f, -1)
		if nonNegCombination(r1) {
			return true
		}
		for j, g := range facts {
			if j <= i {
				continue
			}
			if nonNegCombination(r1.add(g, -1)) {
				return true
			}
		}
	}
	return false
}
