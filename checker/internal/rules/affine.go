package rules

import (
	"go/token"
	"go/types"
	"sort"
	"strconv"
	"strings"

	"golang.org/x/tools/go/ssa"

	"verif/checker/internal/ir"
)

// Affine is k + Σ coeff·symbol over opaque symbols (access paths, len(path)).
// It is a closed-form abstract value, evaluated syntactically over SSA; no
// solver is involved. Integer conversions are treated as identity and machine
// wrap-around is ignored (stated in the evidence of every rule that uses it).
type Affine struct {
	K   int64
	T   map[string]int64
	Sym map[string]ssa.Value // representative value of each symbol
}

func newAffine() Affine { return Affine{T: map[string]int64{}, Sym: map[string]ssa.Value{}} }

func (a Affine) clone() Affine {
	b := newAffine()
	b.K = a.K
	for k, v := range a.T {
		b.T[k] = v
	}
	for k, v := range a.Sym {
		b.Sym[k] = v
	}
	return b
}

func (a Affine) add(b Affine, sign int64) Affine {
	r := a.clone()
	r.K += sign * b.K
	for k, v := range b.T {
		r.T[k] += sign * v
		if r.T[k] == 0 {
			delete(r.T, k)
		}
		if _, ok := r.Sym[k]; !ok {
			r.Sym[k] = b.Sym[k]
		}
	}
	return r
}

func (a Affine) scale(n int64) Affine {
	r := newAffine()
	r.K = a.K * n
	for k, v := range a.T {
		if v*n != 0 {
			r.T[k] = v * n
			r.Sym[k] = a.Sym[k]
		}
	}
	return r
}

func (a Affine) isConst() bool { return len(a.T) == 0 }

func (a Affine) String() string {
	var keys []string
	for k := range a.T {
		keys = append(keys, k)
	}
	sort.Strings(keys)
	var parts []string
	for _, k := range keys {
		parts = append(parts, strconv.FormatInt(a.T[k], 10)+"*"+k)
	}
	parts = append(parts, strconv.FormatInt(a.K, 10))
	return strings.Join(parts, " + ")
}

func (a Affine) equal(b Affine) bool {
	if a.K != b.K || len(a.T) != len(b.T) {
		return false
	}
	for k, v := range a.T {
		if b.T[k] != v {
			return false
		}
	}
	return true
}

func symAffine(name string, v ssa.Value) Affine {
	a := newAffine()
	a.T[name] = 1
	a.Sym[name] = v
	return a
}

// affineEnv optionally maps phis to the incoming value of the case under
// evaluation (per-case evaluation of a type switch); nil outside such scopes.
var affineEnv map[*ssa.Phi]ssa.Value

// affineGlobal resolves a package-level integer variable to the value stored
// by its initialiser when nothing else in the library touches the variable
// (installGlobalValues); nil otherwise.
var affineGlobal func(g *ssa.Global) ssa.Value

// installGlobalValues: a package-level variable of integer type counts as a
// named constant when the only store to it is the one of the package
// initialiser and every other use in the library is a plain load.
func (c *Ctx) installGlobalValues() {
	type info struct {
		val   ssa.Value
		dirty bool
	}
	var tab map[*ssa.Global]*info
	build := func() {
		tab = map[*ssa.Global]*info{}
		get := func(g *ssa.Global) *info {
			if tab[g] == nil {
				tab[g] = &info{}
			}
			return tab[g]
		}
		var fns []*ssa.Function
		fns = append(fns, c.P.LibFunctions()...)
		seenInit := map[*ssa.Function]bool{}
		for _, fn := range c.P.LibFunctions() {
			if fn.Pkg != nil {
				if in := fn.Pkg.Func("init"); in != nil && !seenInit[in] {
					seenInit[in] = true
					fns = append(fns, in)
				}
			}
		}
		done := map[*ssa.Function]bool{}
		for _, fn := range fns {
			if done[fn] {
				continue
			}
			done[fn] = true
			isInit := fn.Name() == "init" && fn.Signature.Recv() == nil
			instrsOf(fn, func(i ssa.Instruction) {
				var ops []*ssa.Value
				for _, op := range i.Operands(ops) {
					if op == nil || *op == nil {
						continue
					}
					g, ok := (*op).(*ssa.Global)
					if !ok {
						continue
					}
					in := get(g)
					switch x := i.(type) {
					case *ssa.UnOp:
						if x.Op == token.MUL {
							continue // plain load
						}
					case *ssa.Store:
						if x.Addr == ssa.Value(g) && isInit && in.val == nil && x.Val != ssa.Value(g) {
							in.val = x.Val
							continue
						}
					}
					in.dirty = true
				}
			})
		}
	}
	affineGlobal = func(g *ssa.Global) ssa.Value {
		if tab == nil {
			build()
		}
		if in := tab[g]; in != nil && !in.dirty && in.val != nil && isNumeric(in.val.Type()) {
			return in.val
		}
		return nil
	}
}

// affineOf evaluates an integer SSA value.
func affineOf(v ssa.Value, depth int) Affine {
	if v == nil {
		return newAffine()
	}
	if ph, ok := v.(*ssa.Phi); ok && affineEnv != nil {
		if sub, ok := affineEnv[ph]; ok && depth < 10 {
			return affineOf(sub, depth+1)
		}
	}
	if depth > 10 {
		return symAffine(resolvedPath(v), v)
	}
	if n, ok := ir.ConstInt(v); ok {
		a := newAffine()
		a.K = n
		return a
	}
	switch x := v.(type) {
	case *ssa.Convert:
		if isNumeric(x.X.Type()) {
			return affineOf(x.X, depth+1)
		}
	case *ssa.ChangeType:
		return affineOf(x.X, depth+1)
	case *ssa.BinOp:
		switch x.Op {
		case token.ADD:
			return affineOf(x.X, depth+1).add(affineOf(x.Y, depth+1), 1)
		case token.SUB:
			return affineOf(x.X, depth+1).add(affineOf(x.Y, depth+1), -1)
		case token.MUL:
			l, r := affineOf(x.X, depth+1), affineOf(x.Y, depth+1)
			if l.isConst() {
				return r.scale(l.K)
			}
			if r.isConst() {
				return l.scale(r.K)
			}
		case token.SHL:
			r := affineOf(x.Y, depth+1)
			if r.isConst() && r.K >= 0 && r.K < 62 {
				return affineOf(x.X, depth+1).scale(1 << uint(r.K))
			}
		}
	case *ssa.Call:
		id := ir.CallID(x)
		if id == "builtin.len" || id == "builtin.cap" {
			return symAffine("len("+resolvedPath(x.Call.Args[0])+")", x)
		}
		if id == "encoding/binary.Size" {
			if n := binarySize(ir.StripIface(x.Call.Args[0]).Type()); n >= 0 {
				a := newAffine()
				a.K = int64(n)
				return a
			}
		}
		if strings.HasSuffix(id, ".Len") || strings.HasSuffix(id, ".Size") {
			args := ir.CallArgs(x)
			if len(args) == 1 {
				return symAffine("len("+resolvedPath(args[0])+")", x)
			}
		}
	case *ssa.UnOp:
		if x.Op == token.SUB {
			return affineOf(x.X, depth+1).scale(-1)
		}
		if g, isG := x.X.(*ssa.Global); isG && x.Op == token.MUL && affineGlobal != nil {
			if iv := affineGlobal(g); iv != nil {
				if a := affineOf(iv, depth+1); a.isConst() {
					return a
				}
			}
		}
	case *ssa.Extract:
		if madeNonNeg(x) {
			return symAffine("len(made:"+resolvedPath(v)+")", v)
		}
		if a, ok := helperResultAffine(x, depth); ok {
			return a
		}
	}
	return symAffine(resolvedPath(v), v)
}

// madeNonNeg: v is a result of a library function which, on every return,
// hands back at that position the very value it has just used as the length
// or capacity of a make: had it been negative the make would have panicked
// (and that make is judged on its own by T1), so here it is not.
func madeNonNeg(v *ssa.Extract) bool {
	call, ok := v.Tuple.(*ssa.Call)
	if !ok {
		return false
	}
	callee := call.Call.StaticCallee()
	if callee == nil || callee.Blocks == nil {
		return false
	}
	rets := 0
	for _, b := range callee.Blocks {
		ret, isRet := b.Instrs[len(b.Instrs)-1].(*ssa.Return)
		if !isRet {
			continue
		}
		rets++
		if v.Index >= len(ret.Results) {
			return false
		}
		res := ir.StripConv(ret.Results[v.Index])
		if k, isK := ir.ConstInt(res); isK && k >= 0 {
			continue
		}
		found := false
		instrsOf(callee, func(i ssa.Instruction) {
			m, isM := i.(*ssa.MakeSlice)
			if !isM || !(ir.StripConv(m.Len) == res || ir.StripConv(m.Cap) == res) {
				return
			}
			if m.Block() == b || m.Block().Dominates(b) {
				found = true
			}
		})
		if !found {
			return false
		}
	}
	return rets > 0
}

// helperResultAffine: the value is a result of a library helper all of whose
// successful returns (nil error) hand back, at that position, the same
// expression over the helper's parameters: that expression over the arguments.
func helperResultAffine(x *ssa.Extract, depth int) (Affine, bool) {
	call, ok := x.Tuple.(*ssa.Call)
	if !ok || depth > 6 {
		return Affine{}, false
	}
	callee := call.Call.StaticCallee()
	if callee == nil || callee.Blocks == nil || callee.Pkg == nil || !strings.HasPrefix(callee.Pkg.Pkg.Path(), M) {
		return Affine{}, false
	}
	rs := callee.Signature.Results()
	errIdx := -1
	if rs.Len() > 0 && isErrorType(rs.At(rs.Len()-1).Type()) {
		errIdx = rs.Len() - 1
	}
	if x.Index == errIdx || !isNumeric(rs.At(x.Index).Type()) {
		return Affine{}, false
	}
	args := ir.CallArgs(call)
	var out Affine
	have := false
	for _, b := range callee.Blocks {
		ret, isRet := b.Instrs[len(b.Instrs)-1].(*ssa.Return)
		if !isRet || x.Index >= len(ret.Results) {
			continue
		}
		if errIdx >= 0 && !ir.IsNilConst(ret.Results[errIdx]) {
			continue // a failing return: the value is not used behind the error test
		}
		a := affineOf(ret.Results[x.Index], depth+1)
		sub := newAffine()
		sub.K = a.K
		for sym, cf := range a.T {
			p, isP := ir.StripConv(a.Sym[sym]).(*ssa.Parameter)
			if !isP || p.Parent() != callee {
				return Affine{}, false
			}
			idx := -1
			for k, q := range callee.Params {
				if q == p {
					idx = k
				}
			}
			if idx < 0 || idx >= len(args) {
				return Affine{}, false
			}
			sub = sub.add(affineOf(args[idx], depth+1).scale(cf), 1)
		}
		if have && !sub.equal(out) {
			return Affine{}, false
		}
		out, have = sub, true
	}
	return out, have
}

// nonNegSym: the symbol denotes a quantity that is never negative (a length,
// or a value of unsigned type).
func nonNegSym(name string, v ssa.Value) bool {
	if strings.HasPrefix(name, "len(") {
		return true
	}
	if v == nil {
		return false
	}
	t := ir.StripConv(v).Type()
	if b, ok := t.Underlying().(*types.Basic); ok && b.Info()&types.IsUnsigned != 0 {
		return true
	}
	if ph, ok := ir.StripConv(v).(*ssa.Phi); ok {
		return phiNonNeg(ph)
	}
	return false
}

// phiNonNeg: induction over a loop variable — every incoming value is a
// non-negative combination of non-negative quantities, where the phis under
// examination count as non-negative themselves (the hypothesis; some incoming
// value of each must not depend on them, or nothing would ever flow in).
var phiAssumed = map[*ssa.Phi]bool{}

func phiNonNeg(ph *ssa.Phi) bool {
	if phiAssumed[ph] {
		return true
	}
	if len(phiAssumed) > 6 {
		return false
	}
	phiAssumed[ph] = true
	defer delete(phiAssumed, ph)
	for _, e := range ph.Edges {
		if !nonNegCombination(affineOf(e, 0)) {
			return false
		}
	}
	return true
}

// nonNegCombination: e is a sum of non-negative symbols with non-negative
// coefficients and a non-negative constant.
func nonNegCombination(e Affine) bool {
	if e.K < 0 {
		return false
	}
	for k, c := range e.T {
		if c < 0 || !nonNegSym(k, e.Sym[k]) {
			return false
		}
	}
	return true
}

// factsOf converts the dominating comparisons into affine facts F >= 0.
func affineFacts(gs []guardFact) []Affine {
	var out []Affine
	for _, g := range gs {
		op := g.cmp.Op
		if !g.truth {
			op = negate(op)
		}
		if !isNumeric(g.cmp.X.Type()) {
			continue
		}
		x, y := affineOf(g.cmp.X, 0), affineOf(g.cmp.Y, 0)
		d := x.add(y, -1) // X - Y
		switch op {
		case token.GEQ:
			out = append(out, d)
		case token.GTR:
			e := d.clone()
			e.K--
			out = append(out, e)
		case token.LEQ:
			out = append(out, d.scale(-1))
		case token.LSS:
			e := d.scale(-1)
			e.K--
			out = append(out, e)
		case token.EQL:
			out = append(out, d, d.scale(-1))
		case token.NEQ:
			// X != 0 with X non-negative  =>  X - 1 >= 0
			if y.isConst() && y.K == 0 && nonNegCombination(x) {
				e := x.clone()
				e.K--
				out = append(out, e)
			} else if x.isConst() && x.K == 0 && nonNegCombination(y) {
				e := y.clone()
				e.K--
				out = append(out, e)
			}
		}
	}
	return out
}

// entails: required >= 0 follows from at most two facts plus non-negativity
// of lengths and unsigned symbols.
func entails(required Affine, facts []Affine) bool {
	if nonNegCombination(required) {
		return true
	}
	for i, f := range facts {
		r1 := required.add(f, -1)
		if nonNegCombination(r1) {
			return true
		}
		for j, g := range facts {
			if j <= i {
				continue
			}
			if nonNegCombination(r1.add(g, -1)) {
				return true
			}
		}
	}
	return false
}
