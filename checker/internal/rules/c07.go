package rules

import (
	"fmt"
	"go/constant"
	"go/token"
	"go/types"
	"os"
	"strings"

	"golang.org/x/tools/go/ssa"

	"verif/checker/internal/ir"
)

func init() {
	Registry["C07"] = checkC07
	Registry["C08"] = checkC08
	Registry["C10"] = checkC10
}

const sigPkg = M + "/efi/signature"

// pairRule compares the flattened tables of a reader/writer pair.
func (c *Ctx) pairRule(rule, reader, writer string, skip map[string]bool) (r, w *ssa.Function) {
	r, w = c.Fn(rule, reader), c.Fn(rule, writer)
	if r == nil || w == nil {
		return
	}
	rl, whyR := c.wireLeaves(r, true)
	wl, whyW := c.wireLeaves(w, false)
	if whyR != "" {
		c.R.Infof(rule, name(r), "pair:"+shortID(name(w)), c.Pos(r.Pos()), "not decided for this shape: the reader's wire sequence cannot be extracted ("+whyR+")")
		return
	}
	if whyW != "" {
		c.R.Infof(rule, name(r), "pair:"+shortID(name(w)), c.Pos(r.Pos()), "not decided for this shape: the writer's wire sequence cannot be extracted ("+whyW+")")
		return
	}
	if skip["@uefi-body"] {
		rl, wl = normaliseUEFIBody(rl, false), normaliseUEFIBody(wl, true)
	}
	rl = collapseUnnamedRuns(rl) // alternative read paths; a writer emits what it emits
	ok, det := sameLeaves(rl, wl, skip)
	if !ok {
		if why := unattributedBytes(rl, wl); why != "" {
			c.R.Infof(rule, name(r), "pair:"+shortID(name(w)), c.Pos(r.Pos()), "not decided for this shape: "+why)
			return
		}
	}
	c.R.Check(ok, rule, name(r), "pair:"+shortID(name(w)), c.Pos(r.Pos()),
		"reader and writer agree on fields, order, widths and byte order ("+fmt.Sprint(len(rl))+" wire positions)", det)
	return
}

// layoutRule compares a reader's flattened table with a frozen wire layout:
// (leaf field name suffix, width) in order; width -1 = variable run.
type layoutField struct {
	name  string
	width int
}

func (c *Ctx) layoutRule(rule string, fn *ssa.Function, isRead bool, filter func(leaf) bool, want []layoutField, specName string) {
	if fn == nil {
		return
	}
	ls, why := c.wireLeaves(fn, isRead)
	if why != "" {
		c.R.Infof(rule, name(fn), "layout:"+specName, c.Pos(fn.Pos()), "not decided for this shape: the wire sequence cannot be extracted ("+why+")")
		return
	}
	dbgI("layoutRule %s %s: %s\n", name(fn), specName, leavesString(ls))
	if isRead {
		ls = collapseUnnamedRuns(ls)
	}
	var got []leaf
	for _, l := range ls {
		if l.alias && isRead {
			continue
		}
		if filter == nil || filter(l) {
			got = append(got, l)
		}
	}
	if strings.HasSuffix(specName, " header") && len(got) > len(want) {
		got = got[:len(want)] // a header layout: what follows the header is judged elsewhere
	}
	ok, det := len(got) == len(want), ""
	if !ok {
		det = fmt.Sprintf("%d wire positions, %s has %d: %s", len(got), specName, len(want), leavesString(got))
	}
	for k := 0; ok && k < len(want); k++ {
		if want[k].width < 0 && got[k].width < 0 {
			continue // a variable-length run: its length is judged by the tail rules
		}
		nameOK := strings.HasSuffix(got[k].id, "."+want[k].name) || got[k].id == want[k].name || lastComponent(got[k].id) == lastComponent(want[k].name) ||
			plainLocalLeaf(got[k])
		if got[k].id == "(skipped)" || got[k].id == "value" || got[k].id == "bytes" {
			nameOK = true
		}
		if !nameOK || got[k].width != want[k].width || (got[k].order != "LE" && got[k].order != "-" && got[k].width != 1) {
			ok = false
			det = fmt.Sprintf("position %d is %s, %s has %s (%d bytes, little endian)", k+1, got[k], specName, want[k].name, want[k].width)
		}
	}
	if !ok {
		if why := unattributedBytes(got, nil); why != "" {
			c.R.Infof(rule, name(fn), "layout:"+specName, c.Pos(fn.Pos()), "not decided for this shape: "+why)
			return
		}
	}
	c.R.Check(ok, rule, name(fn), "layout:"+specName, c.Pos(fn.Pos()), "wire layout equals "+specName, det)
}

// unattributedBytes: the extracted sequence contains a run of bytes that the
// extractor could not attribute to fields — a fixed buffer that is read or
// written as a whole and decoded/filled by code it does not follow (a helper
// that receives a sub-slice, a generic function). A comparison that fails on
// such a sequence says nothing about the code.
func unattributedBytes(a, b []leaf) string {
	for _, ls := range [][]leaf{a, b} {
		for _, l := range ls {
			if l.id == "(unattributed)" || l.id == "(skipped)" && l.width >= 4 {
				return fmt.Sprintf("a run of %d bytes is packed or unpacked by code the wire extractor does not attribute to fields", l.width)
			}
		}
	}
	return ""
}

// collapseUnnamedRuns drops an unnamed variable-length run next to a named one:
// alternative ways of reading the same bytes (a fast path and a general path on
// exclusive branches) appear twice in program order.
func collapseUnnamedRuns(ls []leaf) []leaf {
	var out []leaf
	for k, l := range ls {
		if l.width < 0 && (l.id == "bytes" || l.id == "value") {
			if k+1 < len(ls) && ls[k+1].width < 0 && ls[k+1].id != "bytes" && ls[k+1].id != "value" {
				continue
			}
			if k > 0 && ls[k-1].width < 0 && ls[k-1].id != "bytes" && ls[k-1].id != "value" {
				continue
			}
		}
		out = append(out, l)
	}
	return out
}

// usedResults (G2): the value result of every sub-decoder call reaches the
// decoder's result (not blank-assigned, not dead).
func (c *Ctx) usedResults(rule string, fn *ssa.Function, anchored ...*ssa.Function) {
	c.usedResultsIn(rule, fn)
	// helpers the decoder was split into (not the separately anchored decoders)
	outer := func(g *ssa.Function) *ssa.Function {
		for g.Parent() != nil {
			g = g.Parent()
		}
		return g
	}
	done := map[*ssa.Function]bool{fn: true}
	for _, a := range anchored {
		if a != nil {
			done[a] = true
		}
	}
	for _, fr := range c.deepViewOf(fn, 4).framesInOrder() {
		g := outer(fr.fn)
		if done[g] || !c.P.InLib(g) || g.Synthetic != "" {
			continue
		}
		done[g] = true
		c.usedResultsIn(rule, g)
	}
}

func (c *Ctx) usedResultsIn(rule string, fn *ssa.Function) {
	counts := map[string]int{}
	for _, f := range withAnon(fn) {
		instrsOf(f, func(i ssa.Instruction) {
			call, ok := i.(*ssa.Call)
			if !ok {
				return
			}
			callee := calleeOrClosure(call)
			if callee == nil || !c.P.InLib(callee) || !c.readCone()[callee] {
				return
			}
			rs := callee.Signature.Results()
			if rs.Len() != 2 || !isErrorType(rs.At(1).Type()) {
				return
			}
			key := ordinalKey(counts, name(f)+":"+name(callee))
			used := false
			for _, r := range *call.Referrers() {
				if ex, ok := r.(*ssa.Extract); ok && ex.Index == 0 && ex.Referrers() != nil && len(*ex.Referrers()) > 0 {
					used = true
				}
			}
			construct := strings.TrimPrefix(key, name(f)+":")
			if !used {
				// a discard is identified by what is dropped, not by the helper that read it
				dk := ordinalKey(counts, name(fn)+":discard:"+strings.ReplaceAll(rs.At(0).Type().String(), M+"/", ""))
				construct = strings.TrimPrefix(dk, name(fn)+":")
			}
			c.R.Check(used, rule, name(fn), construct, c.IPos(call),
				"data consumed by a sub-decoder must be kept (its value result is used)",
				"the decoded value is discarded: the bytes were consumed from the stream but are dropped from the result, so re-encoding cannot reproduce the input")
			// in a loop: kept on every iteration that decoded something (no filter between
			// the successful decode and the place the value is put into the result)
			if used && inLoop(f, call.Block()) {
				c.keptOnEveryIteration(rule, fn, f, call, construct)
			}
		})
	}
}

// keptOnEveryIteration: from the edge on which the sub-decoder's error is nil,
// control does not get back to the head of the loop (or to a successful
// return) without passing an instruction that puts the decoded value
// somewhere (an append, a store, a call that is handed the value).
func (c *Ctx) keptOnEveryIteration(rule string, fn, f *ssa.Function, call *ssa.Call, construct string) {
	e, kept := errValue(call)
	if !kept || e == nil {
		return
	}
	var val ssa.Value
	for _, r := range *call.Referrers() {
		if ex, ok := r.(*ssa.Extract); ok && ex.Index == 0 {
			val = ex
		}
	}
	if val == nil {
		return
	}
	// what the value flows into directly, or after a dereference / conversion
	keep := map[int]bool{}
	mutators := map[ssa.CallInstruction]bool{}
	for _, m := range c.mutatorCalls(f) {
		mutators[m] = true
	}
	var mark func(v ssa.Value, depth int)
	mark = func(v ssa.Value, depth int) {
		if depth > 3 || v.Referrers() == nil {
			return
		}
		for _, r := range *v.Referrers() {
			switch x := r.(type) {
			case *ssa.Store:
				if x.Val == v {
					keep[x.Block().Index] = true
				}
			case ssa.CallInstruction:
				// an append, or a library call that changes what it is called on; a
				// query that only looks at the value keeps nothing
				if ir.CallID(x) == "builtin.append" || mutators[x] {
					keep[x.Block().Index] = true
				}
			case *ssa.UnOp, *ssa.MakeInterface, *ssa.ChangeType, *ssa.Convert, *ssa.Slice:
				mark(x.(ssa.Value), depth+1)
			case *ssa.Return:
				keep[x.Block().Index] = true
			}
		}
	}
	mark(val, 0)
	if len(keep) == 0 {
		return
	}
	var header *ssa.BasicBlock
	for _, l := range naturalLoops(f) {
		if l.body[call.Block().Index] && (header == nil || l.body[header.Index]) {
			header = l.header
		}
	}
	if header == nil {
		return
	}
	cut := map[ir.Edge]bool{}
	for bi := range keep {
		for _, s := range f.Blocks[bi].Succs {
			cut[ir.Edge{From: bi, To: s.Index}] = true
		}
	}
	skipped := ""
	// a test of the same error variable that cannot run after the call (the variable
	// is shared with an earlier read, tested before the loop) says nothing about this decode
	afterCall, _ := ir.Reach(f, call.Block(), nil)
	for _, ce := range ir.CondEdges(f) {
		v, isNil := errIsNil(ce.RawCond, ce.RawTruth)
		if v == nil || !isNil || !sameErrValue(v, e) || ce.If == nil || !afterCall[ce.Edge.From] {
			continue
		}
		start := f.Blocks[ce.Edge.To]
		if keep[start.Index] {
			continue
		}
		seen, _ := ir.Reach(f, start, cut)
		if seen[header.Index] && start != header {
			skipped = c.IPos(ce.If)
		}
	}
	c.R.Check(skipped == "", rule, name(fn), construct+":every", c.IPos(call),
		"every value a sub-decoder handed back in the loop is put into the result",
		"after a successful decode (tested at "+skipped+") the loop can go on to its next iteration without putting the decoded value anywhere: a filter drops input that was consumed, so re-encoding cannot reproduce it")
}

// ruleUncappedCount (G10.count): the loop that reads the entries of a list runs
// as long as the header says. A bound that can be a positive constant (a cap
// put on the announced count "for the allocation" and then used for the loop
// as well) ends the list early: the rest of it is read as the next list.
func (c *Ctx) ruleUncappedCount(rule string, rl, rd *ssa.Function) {
	n := 0
	for _, g := range c.cone(rl) {
		for _, f := range withAnon(g) {
			for _, l := range naturalLoops(f) {
				reads := false
				for bi := range l.body {
					for _, in := range f.Blocks[bi].Instrs {
						if call, ok := in.(*ssa.Call); ok && ir.Callee(call) == rd {
							reads = true
						}
					}
				}
				if !reads {
					continue
				}
				n++
				capped, where := int64(0), ""
				for bi := range l.body {
					b := f.Blocks[bi]
					iff, ok := b.Instrs[len(b.Instrs)-1].(*ssa.If)
					if !ok {
						continue
					}
					leaves := false
					for _, s := range b.Succs {
						if !l.body[s.Index] {
							leaves = true
						}
					}
					cmp, isCmp := iff.Cond.(*ssa.BinOp)
					if !leaves || !isCmp {
						continue
					}
					for _, op := range []ssa.Value{cmp.X, cmp.Y} {
						if _, isK := ir.ConstInt(op); isK {
							continue
						}
						if ph, isPhi := ir.StripConv(op).(*ssa.Phi); isPhi && l.body[ph.Block().Index] && ph.Block() == l.header {
							continue // the running counter itself
						}
						if k, ok := constantAlternative(resolveCell(ir.StripConv(op)), 0); ok && k > 1 {
							capped, where = k, c.IPos(iff)
						}
					}
				}
				c.R.Check(where == "", rule, name(rl), "entry-loop", c.Pos(f.Pos()), "the entries of a list are read as long as the header says, whatever their number",
					fmt.Sprintf("the bound of the loop that reads the entries (tested at %s) can be the constant %d: a list with more entries is cut off there and the rest of it is taken for the next list", where, capped))
			}
		}
	}
	if n == 0 {
		c.R.Infof(rule, name(rl), "entry-loop", c.Pos(rl.Pos()), "not decided for this shape: no loop around the entry decoder found in the list decoder")
	}
}

// constantInDecoded: the receiver of an Unmarshal is assigned a composite
// literal one of whose fields is a package-level constant value, while nothing
// in the decoder's call tree compares that field with that value (so other
// values are accepted on the wire and then silently replaced). "" if none.
func (c *Ctx) constantInDecoded(dv *deepView, recv *ssa.Parameter) string {
	// literals stored as a whole into the receiver
	var lits []*ssa.Alloc
	for _, di := range dv.order {
		st, ok := di.i.(*ssa.Store)
		if !ok || di.fr != dv.root || st.Addr != ssa.Value(recv) {
			continue
		}
		if ld, isLd := st.Val.(*ssa.UnOp); isLd && ld.Op == token.MUL {
			if a, isA := ld.X.(*ssa.Alloc); isA && a.Comment == "complit" {
				lits = append(lits, a)
			}
		}
	}
	globalOf := func(v ssa.Value) *ssa.Global {
		if ld, ok := ir.StripConv(v).(*ssa.UnOp); ok && ld.Op == token.MUL {
			g, _ := ld.X.(*ssa.Global)
			return g
		}
		return nil
	}
	// ... or built right in the receiver (the compiler stores the fields of
	// `*e = T{...}` in place)
	roots := []ssa.Value{recv}
	for _, l := range lits {
		roots = append(roots, l)
	}
	for _, lit := range roots {
		why := ""
		instrsOf(dv.root.fn, func(i ssa.Instruction) {
			st, ok := i.(*ssa.Store)
			if !ok || why != "" || ir.RootOf(st.Addr) != lit || st.Addr == lit {
				return
			}
			fid := ir.FieldID(st.Addr)
			g := globalOf(st.Val)
			if fid == "" || g == nil {
				return
			}
			// is the field compared with this value anywhere in the decoder's call tree?
			enforced := false
			seen := map[*ssa.Function]bool{}
			for _, fr := range dv.framesInOrder() {
				if seen[fr.fn] {
					continue
				}
				seen[fr.fn] = true
				instrsOf(fr.fn, func(j ssa.Instruction) {
					var x, y ssa.Value
					switch cmp := j.(type) {
					case *ssa.BinOp:
						if cmp.Op != token.EQL && cmp.Op != token.NEQ {
							return
						}
						x, y = cmp.X, cmp.Y
					case *ssa.Call:
						if id := ir.CallID(cmp); id != M+"/efi/util.CmpEFIGUID" && id != "bytes.Equal" {
							return
						}
						x, y = cmp.Call.Args[0], cmp.Call.Args[1]
					default:
						return
					}
					for _, p := range [][2]ssa.Value{{x, y}, {y, x}} {
						if globalOf(p[1]) == g && lastComponent(ir.FieldID(ir.StripConv(p[0]))) == lastComponent(fid) {
							enforced = true
						}
					}
				})
			}
			if !enforced {
				why = "field " + shortID(fid) + " of the value given to the receiver is the constant " + g.Name() + " (" + c.IPos(st) + "), not what was decoded, and the decoder accepts other values there: they are replaced without an error, so re-encoding does not reproduce the input"
			}
		})
		if why != "" {
			return why
		}
	}
	return ""
}

// calleeOrClosure resolves static callees and direct calls of a local closure value.
func calleeOrClosure(call *ssa.Call) *ssa.Function {
	if f := ir.Callee(call); f != nil {
		return f
	}
	if mc, ok := call.Call.Value.(*ssa.MakeClosure); ok {
		if f, ok := mc.Fn.(*ssa.Function); ok {
			return f
		}
	}
	return nil
}

// everyIteration: in fn, the loop over `over` performs a call to callee on every
// iteration (no conditional skip).
func (c *Ctx) everyIteration(rule string, fn *ssa.Function, calleeID, elemTypeID string, what string) {
	if fn == nil {
		return
	}
	// Wherever in the encoder's call cone the loop over the collection lives: a
	// loop that indexes elements of the element type with its running index and
	// hands the element to a call (the per-element encoder, under any name).
	dv := c.deepViewOf(fn, 4)
	construct := "each:" + shortID(calleeID)
	type emitLoop struct {
		fr    *frame
		l     *natLoop
		emits map[int]bool
		at    ssa.Instruction
	}
	var loops []emitLoop
	doneFn := map[*ssa.Function]bool{}
	for _, fr := range dv.framesInOrder() {
		if doneFn[fr.fn] {
			continue
		}
		doneFn[fr.fn] = true
		for _, l := range naturalLoops(fr.fn) {
			// element accesses of the collection inside this loop
			elems := map[ssa.Value]bool{}
			for bi := range l.body {
				for _, in := range fr.fn.Blocks[bi].Instrs {
					var et types.Type
					var idx ssa.Value
					switch x := in.(type) {
					case *ssa.IndexAddr:
						if p, ok := x.Type().Underlying().(*types.Pointer); ok {
							et, idx = p.Elem(), x.Index
						}
					case *ssa.Index:
						et, idx = x.Type(), x.Index
					}
					if et == nil {
						continue
					}
					if p, ok := et.Underlying().(*types.Pointer); ok {
						et = p.Elem()
					}
					if ir.NamedTypeID(et) != elemTypeID {
						continue
					}
					if _, isK := ir.ConstInt(idx); isK {
						continue
					}
					elems[in.(ssa.Value)] = true
				}
			}
			if len(elems) == 0 {
				continue
			}
			el := emitLoop{fr: fr, l: l, emits: map[int]bool{}}
			for bi := range l.body {
				for _, in := range fr.fn.Blocks[bi].Instrs {
					call, ok := in.(*ssa.Call)
					if !ok {
						continue
					}
					callee := calleeOrClosure2(call)
					id := ir.CallID(call)
					if !(callee != nil && c.P.InLib(callee)) && id != "encoding/binary.Write" {
						continue
					}
					uses := false
					for _, a := range ir.CallArgs(call) {
						for v := range c.sliceOf(a) {
							if elems[v] {
								uses = true
							}
						}
					}
					if uses {
						el.emits[bi] = true
						el.at = call
					}
				}
			}
			if len(el.emits) > 0 {
				loops = append(loops, el)
			}
		}
	}
	if len(loops) == 0 {
		c.R.Undecf(rule, name(fn), construct, c.Pos(fn.Pos()), what, "no loop that hands each element of the collection ("+shortID(elemTypeID)+") to an encoder call found in the call cone")
		return
	}
	ok, det := true, ""
	var at ssa.Instruction
	for _, el := range loops {
		at = el.at
		if !bodyAlwaysPasses(el.fr.fn, el.l, el.emits) {
			ok, det = false, "an iteration of the loop in "+name(el.fr.fn)+" can skip the call (conditional continue/filter)"
		}
	}
	c.R.Check(ok, rule, name(fn), construct, c.IPos(at), what, det)
}

func checkC07(c *Ctx) {
	// G1 pairs
	// SignatureHeader is writer-only; permitted because every accepted reader branch requires HeaderSize == 0
	rl, _ := c.pairRule("G1.pair", "efi/signature.ReadSignatureList", "efi/signature.WriteSignatureList", map[string]bool{sigPkg + ".SignatureList.SignatureHeader": true})
	c.pairRule("G1.pair", "efi/signature.ReadSignatureData", "efi/signature.WriteSignatureData", nil)
	if rl != nil {
		e := c.accept()
		e.Require("G1.header", rl, []*fact{factHeaderSizeZero})
		c.usedResults("G2.kept", rl, c.FnOpt("efi/signature.ReadSignatureDatabase"))
		c.layoutRule("G5.layout", rl, true, nil, []layoutField{
			{"SignatureType.Data1", 4}, {"SignatureType.Data2", 2}, {"SignatureType.Data3", 2}, {"SignatureType.Data4", 8},
			{"ListSize", 4}, {"HeaderSize", 4}, {"Size", 4}}, "EFI_SIGNATURE_LIST header")
	}
	if rd := c.Fn("G5.layout", "efi/signature.ReadSignatureData"); rd != nil {
		c.layoutRule("G5.layout", rd, true, nil, []layoutField{{"Owner.Data1", 4}, {"Owner.Data2", 2}, {"Owner.Data3", 2}, {"Owner.Data4", 8}, {"Data", -1}}, "EFI_SIGNATURE_DATA")
		// the data length is SignatureSize - 16 with SignatureSize the list's Size field
		ls, whyL := c.wireLeaves(rd, true)
		ok, det := false, "no variable-length data entry"
		undecidedTail := whyL != ""
		tailCarrier := ""
		for _, l := range ls {
			if l.width >= 0 {
				continue
			}
			if l.src == nil || l.src.lenAff == nil {
				undecidedTail = true
				continue
			}
			want := symAffine("param:size", nil)
			want.K = -16
			if l.src.lenAff.equal(want) {
				ok = true
			} else {
				det = "data length is " + l.src.lenAff.String() + ", want size-16"
			}
		}
		// and the size argument is the list's Size field at the call sites
		if ok && rl != nil {
			dv := c.deepViewOf(rl, 3)
			for _, di := range dv.order {
				call, isC := di.i.(*ssa.Call)
				if !isC || ir.Callee(call) != rd {
					continue
				}
				switch dv.fieldOrigin(call.Call.Args[1], di.fr, 0) {
				case sigPkg + ".SignatureList.Size":
				case "":
					sl := c.sliceOf(call.Call.Args[1])
					if !ir.HasField(sl, sigPkg+".SignatureList.Size") || ir.HasField(sl, sigPkg+".SignatureList.ListSize") || ir.HasField(sl, sigPkg+".SignatureList.HeaderSize") {
						ok, det = false, "the size passed to the entry decoder at "+c.IPos(call)+" is not the list's SignatureSize field"
					}
				default:
					if o := dv.fieldOrigin(call.Call.Args[1], di.fr, 0); strings.HasPrefix(o, M+"/") && !strings.Contains(o, ".SignatureList.") {
						// a field of a reader/decoder state object: what was stored there is not traced
						tailCarrier = "the size passed to the entry decoder at " + c.IPos(call) + " is the field " + shortID(o) + " of a state object"
						continue
					}
					ok, det = false, "the size passed to the entry decoder at "+c.IPos(call)+" is not the list's SignatureSize field"
				}
			}
		}
		if tailCarrier != "" && (ok || !undecidedTail) && det != "" || tailCarrier != "" && ok {
			c.R.Infof("G1.tail", name(rd), "Data.len", c.Pos(rd.Pos()), "not decided for this shape: "+tailCarrier)
		} else if !ok && undecidedTail {
			c.R.Infof("G1.tail", name(rd), "Data.len", c.Pos(rd.Pos()), "not decided for this shape: the length of the signature data cannot be evaluated")
		} else {
			c.R.Check(ok, "G1.tail", name(rd), "Data.len", c.Pos(rd.Pos()), "signature data is SignatureSize-16 bytes", det)
		}
	}
	// every list / entry is written and every decoded list is kept
	c.everyIteration("G8.all", c.Fn("G8.all", "efi/signature.WriteSignatureDatabase"), sigPkg+".WriteSignatureList", sigPkg+".SignatureList", "the database encoder writes every list, in order")
	c.everyIteration("G8.all", c.Fn("G8.all", "efi/signature.WriteSignatureList"), sigPkg+".WriteSignatureData", sigPkg+".SignatureData", "the list encoder writes every entry, in order")
	if db := c.Fn("G2.kept", "efi/signature.ReadSignatureDatabase"); db != nil {
		c.usedResults("G2.kept", db, rl)
	}
	if rdf := c.FnOpt("efi/signature.ReadSignatureData"); rl != nil && rdf != nil {
		c.ruleUncappedCount("G10.count", rl, rdf)
	}
	// K2/K4 keep library-built databases well-formed (shared with C09)
	c.ruleSizeEquations("K")
	if ab := c.Fn("K", "efi/signature.(*SignatureList).AppendBytes"); ab != nil {
		c.ruleUniformSize(ab)
		c.sameDataChecked(ab)
		c.sha256Len(ab)
	}
	// an edit that is refused leaves the database as it was (otherwise the next encoding
	// carries a half-made list that the decoder rejects); shared with C09
	if ap := c.FnOpt("efi/signature.(*SignatureDatabase).Append"); ap != nil {
		c.ruleErrorChangesNothing(ap)
	}
	c.ruleNoAlias("G9.copy")
	c.ruleDecodeReplaces("G14.replace", func(f *ssa.Function) bool { return strings.Contains(name(f), "efi/signature.") })
	c.R.Floor("G14.replace", 2)
	c.R.Floor("G1.pair", 2)
	c.R.Floor("G2.kept", 1)
	c.R.Floor("G5.layout", 2)
	c.R.Floor("G8.all", 2)
	// the codecs keep nothing in package-level memory between calls
	c.rulePureAs("E.state", []string{"efi/signature.ReadSignatureDatabase", "efi/signature.ReadSignatureList", "efi/signature.ReadSignatureData",
		"efi/signature.WriteSignatureDatabase", "efi/signature.WriteSignatureList", "efi/signature.WriteSignatureData",
		"efi/signature.(*SignatureList).Bytes", "efi/signature.(*SignatureDatabase).Bytes"})
	c.R.Floor("E.state", 8)
	c.ruleRecycle("P.recycle", func(f *ssa.Function) bool { return strings.Contains(name(f), "efi/signature.") })
}

var factHeaderSizeZero = &fact{id: "HeaderSize==0", what: "the list is accepted only with HeaderSize == 0 (so the writer-only SignatureHeader field is empty for every decoded list)",
	subject: []string{sigPkg + ".SignatureList.HeaderSize"},
	direct: func(c *Ctx, fn *ssa.Function, ce ir.CondEdge) bool {
		cmp, ok := ce.Cond.(*ssa.BinOp)
		if !ok {
			return false
		}
		// HeaderSize == 0 in any spelling (0 == x, and for the unsigned field x <= 0, x < 1, !(x > 0), ...)
		x, zero := unsignedZeroOnEdge(cmp, ce.Truth)
		// the field itself, or a parameter of a checking helper that was handed the field
		// (or the field of the decoder's own header value that the result's field is copied from)
		return zero && c.plainCopyVia(x, sigPkg+".SignatureList.HeaderSize")
	}}

// ruleNoAlias (G9): decoded data must be copied out of the caller's buffer:
// no Buffer.Next / Buffer.Bytes result of a stream parameter may flow into a
// returned or stored value in the signature decoders.
func (c *Ctx) ruleNoAlias(rule string) {
	n := 0
	for _, fn := range c.P.LibFunctions() {
		if load := fn.Pkg; load == nil || fn.Pkg.Pkg.Path() != sigPkg || !c.readCone()[fn] {
			continue
		}
		fn := fn
		instrsOf(fn, func(i ssa.Instruction) {
			call, ok := i.(*ssa.Call)
			if !ok {
				return
			}
			id := ir.CallID(call)
			if id != "bytes.Buffer.Next" && id != "bytes.Buffer.Bytes" {
				return
			}
			recv := ir.StripIface(call.Call.Args[0])
			root := ir.RootOf(recv)
			_, isParam := root.(*ssa.Parameter)
			if ex, isEx := recv.(*ssa.Extract); isEx {
				recv = ex.Tuple
			}
			if ta, isTA := recv.(*ssa.TypeAssert); isTA {
				_, isParam = ir.StripIface(ta.X).(*ssa.Parameter)
			}
			if !isParam {
				return
			}
			n++
			escapes := false
			for _, r := range *call.Referrers() {
				switch x := r.(type) {
				case *ssa.Return, *ssa.Store:
					escapes = true
					_ = x
				case *ssa.Phi, *ssa.Slice:
					escapes = true
				}
			}
			c.R.Check(!escapes, rule, name(fn), "alias:"+id, c.IPos(call), "decoded data must not alias the caller's buffer",
				"the result of "+id+" on the input stream is returned/stored: later writes to the buffer change the decoded value")
		})
	}
	c.R.Infof(rule, "-", "scan", "-", fmt.Sprintf("scanned signature decoders for buffer-aliasing results: %d candidate call(s)", n))
}

// ---------------------------------------------------------------- C08

func checkC08(c *Ctx) {
	rl := c.Fn("C08", "efi/signature.ReadSignatureList")
	rd := c.Fn("C08", "efi/signature.ReadSignatureData")
	db := c.Fn("C08", "efi/signature.ReadSignatureDatabase")
	if rl == nil || rd == nil || db == nil {
		return
	}
	c.ruleLoopAlias("G13.distinct", func(f *ssa.Function) bool { return strings.Contains(name(f), "efi/signature.") })
	c.R.Floor("G13.distinct", 2)
	c.ruleExactConsumption("G12.exact", "efi/signature.ReadSignatureList", "efi/signature.ReadSignatureData")
	c.R.Floor("G12.exact", 2)
	scope := map[*ssa.Function]bool{}
	reach, _ := c.Reachable([]*ssa.Function{db})
	for f := range reach {
		if c.P.InLib(f) {
			scope[f] = true
		}
	}
	in := func(fn *ssa.Function) bool { return scope[fn] }
	c.RuleT("", in, map[string]bool{"T1": true, "T2": true})
	c.ruleBareRead("G10.fullread", in)
	// a rejected list is rejected with an error (not one that is nil at that point)
	c.ruleStaleNil("N3.stalenil", in)
	e := c.accept()
	e.Require("A-d", rl, []*fact{factKnownType, factWholeEntries, factHeaderSizeZero})
	// A-d2: SHA-256 lists only with Size == 48
	c.sha256Gate(rl)
	// database decoder: the only success exit is the clean end
	e.Require("G4", db, []*fact{factCleanEnd})
	c.eofProvenance(db, rl)
	c.ruleEOFNotSuccess("G4.eofok", rl, db)
	c.R.Floor("G4.eofok", 1)
	// the clean end of the database is the end of the caller's stream: a bounded view
	// (io.LimitReader) in between ends "cleanly" wherever its limit falls on a list boundary
	{
		bad := ""
		instrsOf(db, func(i ssa.Instruction) {
			call, ok := i.(*ssa.Call)
			if !ok {
				return
			}
			callee := ir.Callee(call)
			if callee == nil || !c.readCone()[callee] {
				return
			}
			for _, a := range ir.CallArgs(call) {
				if !isStreamType(ir.StripIface(a).Type()) && !isIfaceType(a.Type()) {
					continue
				}
				// what the list decoder (and what it calls) does with the stream it was handed is
				// not what it was handed: only values outside the callee's own cone count (the deep
				// slice of the thorough tier otherwise walks into the decoder's body readers)
				inCallee, _ := c.Reachable([]*ssa.Function{callee})
				for v := range c.sliceOf(a) {
					if vi, isI := v.(ssa.Instruction); isI && vi.Parent() != nil && vi.Parent() != db && inCallee[topFn(vi.Parent())] {
						// ... unless the bounded view is itself handed to a decoder of the library
						// (the entries of a list read through a view of the list's declared size)
						if vv, isV := v.(ssa.Value); !isV || !c.handedToLibrary(vv, 0) {
							continue
						}
					}
					if lc, isC := v.(*ssa.Call); isC && (ir.CallID(lc) == "io.LimitReader" || ir.CallID(lc) == "io.NewSectionReader") {
						bad = c.IPos(lc)
					}
					if fa, isFA := v.(*ssa.FieldAddr); isFA && ir.FieldID(fa) == "io.LimitedReader.N" {
						bad = c.IPos(fa)
					}
				}
			}
		})
		c.R.Check(bad == "", "G4.limit", name(db), "unbounded-view", c.Pos(db.Pos()), "the list decoder reads from the caller's stream itself, not from a bounded view of it",
			"the stream handed to the list decoder is bounded at "+bad+": when the bound falls on a list boundary the decoder sees a clean end, and the lists (or garbage) behind it are dropped without an error")
	}
	c.usedResults("G2.kept", db, rl)
	c.ruleUncappedCount("G10.count", rl, rd)
	c.scopeGuard("scope", len(scope), 4, "library functions reachable from the database decoder")
	c.R.Floor("A-d.known-type", 1)
	c.R.Floor("G4.clean-end", 1)
	c.R.Floor("G4.eof", 1)
}

// factWholeEntries: the list size is the header plus a whole number of entries,
// (ListSize - 28) % Size == 0 or 28 + ((ListSize-28)/Size)*Size == ListSize.
var factWholeEntries = &fact{id: "whole-entries", what: "the list size is 28 plus a whole number of signatures of the list's signature size",
	direct: func(c *Ctx, fn *ssa.Function, ce ir.CondEdge) bool {
		cmp, ok := ce.Cond.(*ssa.BinOp)
		if !ok {
			return false
		}
		// the remainder compared with zero in an unsigned spelling (rem > 0 not taken, rem < 1, 0 >= rem ...)
		remZero := ssa.Value(nil)
		if x, zero := unsignedZeroOnEdge(cmp, ce.Truth); zero {
			remZero = x
		}
		if ((cmp.Op != token.EQL && cmp.Op != token.NEQ) || ce.Truth != (cmp.Op == token.EQL)) && remZero == nil {
			return false
		}
		// the ListSize field, or a parameter of a checking helper that was handed it
		isListSizeSym := func(sym string, v ssa.Value) bool {
			return strings.HasSuffix(sym, ".ListSize") || v != nil && c.plainCopyOf(v, sigPkg+".SignatureList.ListSize")
		}
		isBody := func(v ssa.Value) bool { // ListSize - 28
			a := affineOf(v, 0)
			if a.K != -28 || len(a.T) != 1 {
				return false
			}
			for sym, cf := range a.T {
				if cf != 1 || !isListSizeSym(sym, a.Sym[sym]) {
					return false
				}
			}
			return true
		}
		isSize := func(v ssa.Value) bool {
			return ir.FieldID(ir.StripConv(v)) == sigPkg+".SignatureList.Size" || copiedIntoField(fn, v, sigPkg+".SignatureList.Size") ||
				c.plainCopyOf(v, sigPkg+".SignatureList.Size")
		}
		// (ListSize-28) % Size == 0
		if remZero != nil {
			// (the body may have been kept in a variable that a function literal captures and
			// changes only later: resolveCellAt
			// - only for a remainder taken in unsigned arithmetic: a signed body may be negative,
			// and a negative multiple of the size also leaves no remainder)
			if rem, isB := ir.StripConv(remZero).(*ssa.BinOp); isB && rem.Op == token.REM && (isBody(rem.X) || isUnsignedInt(rem.Type()) && isBody(resolveCellAt(ir.StripConv(rem.X)))) && isSize(rem.Y) {
				return true
			}
		}
		if (cmp.Op != token.EQL && cmp.Op != token.NEQ) || ce.Truth != (cmp.Op == token.EQL) {
			return false
		}
		// 28 + ((ListSize-28)/Size)*Size == ListSize, in any arrangement of the sum
		var mul *ssa.BinOp
		var find func(v ssa.Value, depth int)
		find = func(v ssa.Value, depth int) {
			if depth > 6 {
				return
			}
			switch x := ir.StripConv(resolveCellAt(ir.StripConv(v))).(type) {
			case *ssa.BinOp:
				if x.Op == token.MUL {
					for _, p := range [][2]ssa.Value{{x.X, x.Y}, {x.Y, x.X}} {
						// the quotient may have been kept in a variable a function literal captures
						// (also one the literal changes later: resolveCellAt)
						if q, isQ := ir.StripConv(resolveCellAt(ir.StripConv(p[0]))).(*ssa.BinOp); isQ && q.Op == token.QUO && isBody(resolveCellAt(ir.StripConv(q.X))) && isSize(q.Y) && isSize(p[1]) {
							mul = x
						}
					}
				}
				find(x.X, depth+1)
				find(x.Y, depth+1)
			}
		}
		find(cmp.X, 0)
		find(cmp.Y, 0)
		if os.Getenv("VCHECK_DEBUG") == "whole" {
			fmt.Fprintf(os.Stderr, "whole-entries %s: %s vs %s mul=%v\n", name(fn), affineOf(cmp.X, 0), affineOf(cmp.Y, 0), mul != nil)
		}
		if mul == nil {
			return false
		}
		d := affineOf(resolveCellAt(ir.StripConv(cmp.X)), 0).add(affineOf(resolveCellAt(ir.StripConv(cmp.Y)), 0), -1)
		// d must be ±(m + 28 - ListSize) with m the product's symbol
		m := affineOf(mul, 0)
		if len(m.T) != 1 {
			return false
		}
		want := m.clone()
		want.K = 28
		for sym := range d.T {
			if isListSizeSym(sym, d.Sym[sym]) {
				want.T[sym] = -1
				want.Sym[sym] = d.Sym[sym]
			}
		}
		return d.equal(want) || d.equal(want.scale(-1))
	}}

// copiedIntoField: v is a load of a field of a local header structure, and the
// function stores a load of that same field (same structure) into the named
// field: the two are one number read once (hdr.Size tested, s.Size = hdr.Size).
func copiedIntoField(fn *ssa.Function, v ssa.Value, target string) bool {
	src := ir.StripConv(v)
	id := ir.FieldID(src)
	if id == "" {
		return false
	}
	addrOf := func(x ssa.Value) ssa.Value {
		if ld, ok := ir.StripConv(x).(*ssa.UnOp); ok && ld.Op == token.MUL {
			return ld.X
		}
		return nil
	}
	sa := addrOf(src)
	if sa == nil {
		return false
	}
	if _, isLocal := ir.RootOf(sa).(*ssa.Alloc); !isLocal {
		return false
	}
	found := false
	for _, f := range withAnon(fn) {
		instrsOf(f, func(i ssa.Instruction) {
			st, ok := i.(*ssa.Store)
			if !ok || ir.FieldID(st.Addr) != target {
				return
			}
			if va := addrOf(st.Val); va != nil && ir.FieldID(ir.StripConv(st.Val)) == id && ir.RootOf(va) == ir.RootOf(sa) {
				found = true
			}
		})
	}
	return found
}

var factKnownType = &fact{id: "known-type", what: "the list's signature type is one of the handled types (unsupported types are errors)",
	direct: func(c *Ctx, fn *ssa.Function, ce ir.CondEdge) bool {
		cmp, ok := ce.Cond.(*ssa.BinOp)
		if !ok || cmp.Op != token.EQL || !ce.Truth {
			return false
		}
		k, isK := cmp.Y.(*ssa.Const)
		x := cmp.X
		if !isK {
			k, isK = cmp.X.(*ssa.Const)
			x = cmp.Y
		}
		if isK && k.Value != nil && k.Value.Kind() == constant.String {
			sl := c.sliceOf(x)
			return ir.HasField(sl, sigPkg+".SignatureList.SignatureType")
		}
		return false
	}}

// also accept a GUID comparison (util.CmpEFIGUID / ==) with a package-level CERT_*_GUID
func init() {
	prev := factKnownType.direct
	factKnownType.direct = func(c *Ctx, fn *ssa.Function, ce ir.CondEdge) bool {
		if prev(c, fn, ce) {
			return true
		}
		// table-driven: `layout, ok := table[scheme]` with ok on this edge
		if ex, ok := ce.Cond.(*ssa.Extract); ok && ex.Index == 1 && ce.Truth {
			if lk, ok := ex.Tuple.(*ssa.Lookup); ok && lk.CommaOk {
				if _, isGlobal := ir.RootOf(lk.X).(*ssa.Global); isGlobal || func() bool { ld, ok := lk.X.(*ssa.UnOp); _, g := ld.X.(*ssa.Global); return ok && g }() {
					if ir.HasField(c.sliceOf(lk.Index), sigPkg+".SignatureList.SignatureType") {
						return true
					}
				}
			}
		}
		if call, ok := ce.Cond.(*ssa.Call); ok && ce.Truth && ir.CallID(call) == M+"/efi/util.CmpEFIGUID" {
			a, b := c.sliceOf(call.Call.Args[0]), c.sliceOf(call.Call.Args[1])
			typ := func(s map[ssa.Value]bool) bool { return ir.HasField(s, sigPkg+".SignatureList.SignatureType") }
			guid := func(s map[ssa.Value]bool) bool {
				for v := range s {
					if g, ok := v.(*ssa.Global); ok && strings.HasPrefix(g.Name(), "CERT_") {
						return true
					}
				}
				return false
			}
			return typ(a) && guid(b) || typ(b) && guid(a)
		}
		return false
	}
}

// sha256Gate: from the edge selecting the SHA-256 list type, the success return
// is reachable only through Size == 48.
func (c *Ctx) sha256Gate(rl *ssa.Function) {
	var starts []*ssa.BasicBlock
	var startCond []ssa.Value
	for _, ce := range ir.CondEdges(rl) {
		cmp, ok := ce.Cond.(*ssa.BinOp)
		if !ok || cmp.Op != token.EQL || !ce.Truth {
			continue
		}
		if k, isK := cmp.Y.(*ssa.Const); isK && k.Value != nil && k.Value.Kind() == constant.String && constant.StringVal(k.Value) == "SHA256" {
			starts = append(starts, rl.Blocks[ce.Edge.To])
			startCond = append(startCond, ce.Cond)
		}
	}
	if len(starts) == 0 {
		c.R.Infof("A-d.sha256-size", name(rl), "Size==48", c.Pos(rl.Pos()), "not decided for this shape: the decoder does not select the SHA-256 branch by a comparison the rule recognises (e.g. it is table driven)")
		return
	}
	cut := map[ir.Edge]bool{}
	for _, ce := range ir.CondEdges(rl) {
		cmp, ok := ce.Cond.(*ssa.BinOp)
		if !ok || (cmp.Op != token.EQL && cmp.Op != token.NEQ) {
			continue
		}
		if k, isK := ir.ConstInt(cmp.Y); !isK || k != 48 {
			continue
		}
		if ir.FieldID(ir.StripConv(cmp.X)) == sigPkg+".SignatureList.Size" && ce.Truth == (cmp.Op == token.EQL) {
			cut[ce.Edge] = true
		}
	}
	ok, where := true, ""
	for k, st := range starts {
		// the comparison kept in a variable and tested again (isSHA256 := sig == "SHA256"):
		// one value has one outcome, so its other edges cannot be taken from here
		// (unless it is computed inside a loop, where it is a new value every time round)
		cutk := cut
		if def, isI := startCond[k].(ssa.Instruction); isI && !inAnyLoop(rl, def.Block()) {
			cutk = map[ir.Edge]bool{}
			for ed := range cut {
				cutk[ed] = true
			}
			for _, ce := range ir.CondEdges(rl) {
				if ce.Cond == startCond[k] && !ce.Truth {
					cutk[ce.Edge] = true
				}
			}
		}
		seen, _ := ir.Reach(rl, st, cutk)
		for _, r := range acceptingReturns(rl) {
			if seen[r.Block().Index] {
				ok, where = false, c.IPos(r)
			}
		}
	}
	// the cut must not trivially disconnect the other branches: only the SHA-256 branch is started from
	c.R.Check(ok, "A-d.sha256-size", name(rl), "Size==48", c.Pos(rl.Pos()), "a SHA-256 list is accepted only with SignatureSize == 48",
		"success return at "+where+" is reachable from the SHA-256 branch without crossing Size == 48")
}

var factCleanEnd = &fact{id: "clean-end", what: "the database decoder succeeds only at a clean end of input (EOF before the first byte of a list, or zero remaining bytes)",
	direct: func(c *Ctx, fn *ssa.Function, ce ir.CondEdge) bool {
		if ce.If == nil {
			return false
		}
		// (i) EOF test on the list decoder's error, EOF edge
		if v, ok := isEOFTest(ce.RawCond); ok {
			_, neg := ir.Peel(ce.RawCond)
			core, _ := ir.Peel(ce.RawCond)
			isEq := true
			if bo, ok := core.(*ssa.BinOp); ok && bo.Op == token.NEQ {
				isEq = false
			}
			eofOnTrue := isEq != neg
			succTrue := ce.RawTruth
			if eofOnTrue == succTrue {
				for _, oc := range errorOrigins(v, map[ssa.Value]bool{}) {
					if callee := ir.Callee(oc); callee != nil && c.P.InLib(callee) && c.readCone()[callee] {
						return true
					}
				}
			}
		}
		// (ii) remaining length == 0
		if cmp, ok := ce.Cond.(*ssa.BinOp); ok {
			if lc, ok := ir.StripConv(cmp.X).(*ssa.Call); ok {
				id := ir.CallID(lc)
				if id == "bytes.Buffer.Len" || id == "bytes.Reader.Len" || id == "builtin.len" {
					if k, isK := ir.ConstInt(cmp.Y); isK && k == 0 {
						op := cmp.Op
						if !ce.Truth {
							op = negate(op)
						}
						return op == token.EQL || op == token.LEQ
					}
				}
			}
		}
		return false
	}}

// eofProvenance (G4): if the database decoder treats io.EOF of the list decoder
// as the clean end, every error the list decoder may return that still matches
// io.EOF must come from a read that is the first input-consuming call on every
// path (nothing of the list was consumed yet).
func (c *Ctx) eofProvenance(db, rl *ssa.Function) {
	usesEOF := false
	for _, ce := range ir.CondEdges(db) {
		if _, ok := isEOFTest(ce.RawCond); ok {
			usesEOF = true
		}
	}
	if !usesEOF {
		c.R.Okf("G4.eof", name(db), "eof-as-end", c.Pos(db.Pos()), "the database decoder does not turn a list-decoder error into success (clean end detected otherwise)")
		return
	}
	consumers := c.consumerFuncs()
	counts := map[string]int{}
	for _, r := range ir.Returns(rl) {
		if len(r.Results) < 2 {
			continue
		}
		for _, origin := range c.eofOrigins(rl, r, r.Results[len(r.Results)-1], nil, 0) {
			key := ordinalKey(counts, name(rl)+":eof<-"+shortID(ir.CallID(origin)))
			// first-consuming: no consuming call can precede origin
			firstIter := c.firstIterationOnly(rl, r)
			cut := map[ir.Edge]bool{}
			if firstIter {
				for _, l := range naturalLoops(rl) {
					if l.body[origin.Block().Index] {
						for _, p := range l.header.Preds {
							if l.body[p.Index] {
								cut[ir.Edge{From: p.Index, To: l.header.Index}] = true
							}
						}
					}
				}
			}
			seen, _ := ir.Reach(rl, rl.Blocks[0], cut)
			// blocks that can reach origin
			canReach := map[int]bool{}
			for _, b := range rl.Blocks {
				if !seen[b.Index] {
					continue
				}
				s2, _ := ir.Reach(rl, b, cut)
				if s2[origin.Block().Index] {
					canReach[b.Index] = true
				}
			}
			ok, det := true, ""
			for _, b := range rl.Blocks {
				if !canReach[b.Index] {
					continue
				}
				for _, i := range b.Instrs {
					call, isC := i.(ssa.CallInstruction)
					if !isC || !c.isConsumingCall(call, consumers) {
						continue
					}
					if i == ssa.Instruction(origin) {
						if !firstIter && inLoop(rl, origin.Block()) {
							ok, det = false, "the read at "+c.IPos(origin)+" is inside a loop: on later iterations earlier fields of the list were already consumed, yet its io.EOF is returned unchanged at "+c.IPos(r)
						}
						continue
					}
					if b == origin.Block() && !precedes(i, origin) {
						continue
					}
					ok, det = false, "an io.EOF from "+c.IPos(origin)+" reaches the return at "+c.IPos(r)+" although "+c.IPos(i)+" may already have consumed input: a truncated list would be taken for the clean end of the database"
				}
			}
			// the origin is a library helper that reads several times: inside it, too, an
			// io.EOF may only come back from the first read
			if ok {
				if callee := ir.Callee(origin); callee != nil && c.P.InLib(callee) && callee.Blocks != nil {
					if why := c.eofAfterConsumption(callee, consumers, 0); why != "" {
						ok, det = false, "the helper "+name(callee)+" hands back an io.EOF after it consumed input ("+why+"), and the list decoder returns it unchanged at "+c.IPos(r)+": a list cut short inside its header would be taken for the clean end of the database"
					}
				}
			}
			c.R.Check(ok, "G4.eof", name(rl), strings.TrimPrefix(key, name(rl)+":"), c.IPos(r),
				"an error still matching io.EOF is returned only when nothing of the list was consumed", det)
		}
	}
	c.R.Okf("G4.eof", name(rl), "scan", c.Pos(rl.Pos()), "all returns of the list decoder examined for EOF-transparent errors")
}

// eofAfterConsumption: some return of the helper hands back, unchanged, the
// error of a consuming read that is not the helper's first read (it is
// preceded by another consuming call, or sits in a loop). "" if none.
func (c *Ctx) eofAfterConsumption(fn *ssa.Function, consumers map[*ssa.Function]bool, depth int) string {
	if depth > 3 {
		return ""
	}
	for _, r := range ir.Returns(fn) {
		if len(r.Results) == 0 {
			continue
		}
		for _, origin := range c.eofOrigins(fn, r, r.Results[len(r.Results)-1], nil, 0) {
			if inLoop(fn, origin.Block()) && !c.firstIterationOnly(fn, r) {
				return "the read at " + c.IPos(origin) + " is inside a loop"
			}
			why := ""
			instrsOf(fn, func(i ssa.Instruction) {
				call, isC := i.(ssa.CallInstruction)
				if !isC || i == ssa.Instruction(origin) || !c.isConsumingCall(call, consumers) {
					return
				}
				if i.Block() == origin.Block() && precedes(i, origin) || i.Block() != origin.Block() && reachableFrom(fn, i.Block(), origin.Block()) {
					why = c.IPos(i) + " reads before " + c.IPos(origin)
				}
			})
			if why != "" {
				return why
			}
			if callee := ir.Callee(origin); callee != nil && c.P.InLib(callee) && callee.Blocks != nil {
				if w := c.eofAfterConsumption(callee, consumers, depth+1); w != "" {
					return w
				}
			}
		}
	}
	return ""
}

func inLoop(fn *ssa.Function, b *ssa.BasicBlock) bool {
	for _, l := range naturalLoops(fn) {
		if l.body[b.Index] {
			return true
		}
	}
	return false
}

func precedes(a ssa.Instruction, b ssa.Instruction) bool {
	for _, i := range a.Block().Instrs {
		if i == a {
			return true
		}
		if i == b {
			return false
		}
	}
	return false
}

// firstIterationOnly: return r is control dependent on `rangeindex == 0`.
func (c *Ctx) firstIterationOnly(fn *ssa.Function, r *ssa.Return) bool {
	for _, ce := range ir.DominatingConds(fn, r.Block()) {
		cmp, ok := ce.Cond.(*ssa.BinOp)
		if !ok {
			continue
		}
		// index == 0 in any spelling: the index counts up from 0, so index < 1, index <= 0,
		// 1 > index ... say the same
		cx, atMostZero := atMostZeroOnEdge(cmp, ce.Truth)
		if !atMostZero {
			continue
		}
		// X is the loop index: phi+1 of a header phi starting at -1, or a phi starting at 0
		x := ir.StripConv(cx)
		if bo, ok := x.(*ssa.BinOp); ok && bo.Op == token.ADD {
			x = bo.X
		}
		if ph, ok := x.(*ssa.Phi); ok {
			// an inequality says "first iteration" only for a counter that goes up
			if cmp.Op != token.EQL && cmp.Op != token.NEQ && !countsUp(ph) {
				continue
			}
			for _, e := range ph.Edges {
				if k, isK := ir.ConstInt(e); isK && (k == -1 || k == 0) {
					return true
				}
			}
		}
	}
	return false
}

// eofOrigins traces an error operand back to the read calls whose error may be
// returned while still matching io.EOF. Edges on which the error is known not
// to be io.EOF (false edge of an EOF test) and replacements by fresh errors are
// excluded.
func (c *Ctx) eofOrigins(fn *ssa.Function, r *ssa.Return, v ssa.Value, seen map[ssa.Value]bool, depth int) []*ssa.Call {
	if seen == nil {
		seen = map[ssa.Value]bool{}
	}
	if v == nil || seen[v] || depth > 8 {
		return nil
	}
	seen[v] = true
	switch x := v.(type) {
	case *ssa.Const:
		return nil
	case *ssa.Phi:
		var out []*ssa.Call
		for k, e := range x.Edges {
			pred := x.Block().Preds[k]
			if c.edgeExcludesEOF(fn, pred, x.Block(), e) {
				continue
			}
			out = append(out, c.eofOrigins(fn, r, e, seen, depth+1)...)
		}
		return out
	case *ssa.Extract:
		if call, ok := x.Tuple.(*ssa.Call); ok {
			return c.eofOriginsOfCall(fn, r, call, seen, depth)
		}
	case *ssa.Call:
		id := ir.CallID(x)
		switch id {
		case "github.com/pkg/errors.Wrap", "github.com/pkg/errors.Wrapf", "github.com/pkg/errors.WithMessage", "github.com/pkg/errors.WithMessagef", "github.com/pkg/errors.WithStack":
			return c.eofOrigins(fn, r, x.Call.Args[0], seen, depth+1)
		case "fmt.Errorf":
			// %w keeps the chain
			if k, ok := x.Call.Args[0].(*ssa.Const); ok && k.Value != nil && strings.Contains(constant.StringVal(k.Value), "%w") {
				if args, ok := variadicArgs(x.Call.Args[1]); ok {
					var out []*ssa.Call
					for _, a := range args {
						// an error handed to the variadic ...any parameter is an
						// interface-to-interface conversion (ChangeInterface), not a
						// MakeInterface: look at the operand below it
						if ci, isCI := a.(*ssa.ChangeInterface); isCI {
							a = ci.X
						}
						if isErrorType(a.Type()) {
							out = append(out, c.eofOrigins(fn, r, a, seen, depth+1)...)
						}
					}
					return out
				}
			}
			return nil
		case "errors.New", "github.com/pkg/errors.New", "github.com/pkg/errors.Errorf":
			return nil
		}
		return c.eofOriginsOfCall(fn, r, x, seen, depth)
	case *ssa.UnOp:
		if x.Op == token.MUL {
			if g, ok := x.X.(*ssa.Global); ok {
				if g.Pkg != nil && g.Pkg.Pkg.Path() == "io" && g.Name() == "EOF" {
					// returning io.EOF itself deliberately: treated as the clean-end signal; origin-less
					return nil
				}
				return nil
			}
			if a, ok := x.X.(*ssa.Alloc); ok {
				var out []*ssa.Call
				for _, ref := range *a.Referrers() {
					if st, ok := ref.(*ssa.Store); ok && st.Addr == a {
						if c.blockExcludesEOF(fn, st.Block(), st.Val) {
							continue
						}
						out = append(out, c.eofOrigins(fn, r, st.Val, seen, depth+1)...)
					}
				}
				return out
			}
			if fv, ok := x.X.(*ssa.FreeVar); ok {
				_ = fv
			}
		}
	case *ssa.MakeInterface, *ssa.ChangeInterface:
		return nil
	}
	return nil
}

// eofOriginsOfCall: the error result of a call. For reads of the input it is an
// origin itself; for repo callees their own EOF-transparent returns count, with
// the call as the origin seen from this function.
func (c *Ctx) eofOriginsOfCall(fn *ssa.Function, r *ssa.Return, call *ssa.Call, seen map[ssa.Value]bool, depth int) []*ssa.Call {
	// is the return reachable with this error while it may still be EOF?
	if e, kept := errValue(call); kept && e != nil && c.returnExcludesEOF(fn, r, e) {
		return nil
	}
	id := ir.CallID(call)
	switch id {
	case "encoding/binary.Read", "io.ReadFull", "io.ReadAtLeast":
		return []*ssa.Call{call}
	case "io.ReadAll", "io.Copy", "io.CopyN":
		if id == "io.ReadAll" || id == "io.Copy" {
			return nil // never return io.EOF by contract
		}
		return []*ssa.Call{call}
	}
	if call.Call.IsInvoke() && (call.Call.Method.Name() == "Read" || call.Call.Method.Name() == "ReadByte") {
		return []*ssa.Call{call}
	}
	callee := calleeOrClosure(call)
	if callee != nil && c.P.InLib(callee) && callee.Blocks != nil && deferMapsEOF(callee) {
		return nil // a deferred function replaces an io.EOF in the callee's error result
	}
	if callee != nil && c.P.InLib(callee) && callee.Blocks != nil && depth < 6 {
		for _, rr := range ir.Returns(callee) {
			if len(rr.Results) == 0 {
				continue
			}
			if len(c.eofOrigins(callee, rr, rr.Results[len(rr.Results)-1], map[ssa.Value]bool{}, depth+1)) > 0 {
				return []*ssa.Call{call}
			}
		}
	}
	return nil
}

// deferMapsEOF: fn defers a function literal that, when the named error result
// matches io.EOF, assigns it something else (io.ErrUnexpectedEOF, wrapped or
// not): whatever fn returns no longer matches io.EOF.
func deferMapsEOF(fn *ssa.Function) bool {
	found := false
	instrsOf(fn, func(i ssa.Instruction) {
		d, ok := i.(*ssa.Defer)
		if !ok || found {
			return
		}
		mc, ok := d.Call.Value.(*ssa.MakeClosure)
		if !ok {
			return
		}
		g, ok := mc.Fn.(*ssa.Function)
		if !ok || g.Blocks == nil {
			return
		}
		for _, ce := range ir.CondEdges(g) {
			ev, isT := isEOFTest(ce.Cond)
			if !isT || ce.If == nil {
				continue
			}
			matches := ce.Truth
			if bo, isB := ce.Cond.(*ssa.BinOp); isB && bo.Op == token.NEQ {
				matches = !matches
			}
			ld, isLd := ev.(*ssa.UnOp)
			if !matches || !isLd {
				continue
			}
			fv, isFV := ld.X.(*ssa.FreeVar)
			if !isFV || !readBackAfterDefers(fv) {
				continue
			}
			start := g.Blocks[ce.Edge.To]
			for _, b := range g.Blocks {
				if b != start && !start.Dominates(b) {
					continue
				}
				for _, in := range b.Instrs {
					st, isSt := in.(*ssa.Store)
					if !isSt || st.Addr != ssa.Value(fv) {
						continue
					}
					if l2, same := st.Val.(*ssa.UnOp); same && l2.X == ssa.Value(fv) {
						continue
					}
					if isGlobalLoad(st.Val, "io.EOF") {
						continue
					}
					found = true
				}
			}
		}
	})
	return found
}

// edgeExcludesEOF: the CFG edge pred->blk lies behind the false edge of an EOF
// test of value e (or of the value e was copied from).
func (c *Ctx) edgeExcludesEOF(fn *ssa.Function, pred, blk *ssa.BasicBlock, e ssa.Value) bool {
	return c.blockExcludesEOF(fn, pred, e) || c.directEdgeExcludes(fn, pred, blk, e)
}

func (c *Ctx) directEdgeExcludes(fn *ssa.Function, pred, blk *ssa.BasicBlock, e ssa.Value) bool {
	if len(pred.Succs) != 2 {
		return false
	}
	ifi, ok := pred.Instrs[len(pred.Instrs)-1].(*ssa.If)
	if !ok {
		return false
	}
	v, ok := isEOFTest(ifi.Cond)
	if !ok || !sameErrValue(v, e) && v != e {
		return false
	}
	_, neg := ir.Peel(ifi.Cond)
	core, _ := ir.Peel(ifi.Cond)
	isEq := true
	if bo, ok := core.(*ssa.BinOp); ok && bo.Op == token.NEQ {
		isEq = false
	}
	eofOnTrue := isEq != neg
	succTrue := pred.Succs[0] == blk
	return eofOnTrue != succTrue
}

// blockExcludesEOF: block b is dominated by the non-EOF edge of an EOF test on e.
func (c *Ctx) blockExcludesEOF(fn *ssa.Function, b *ssa.BasicBlock, e ssa.Value) bool {
	for _, ce := range ir.DominatingConds(fn, b) {
		v, ok := isEOFTest(ce.RawCond)
		if !ok || !(sameErrValue(v, e) || v == e) {
			continue
		}
		_, neg := ir.Peel(ce.RawCond)
		core, _ := ir.Peel(ce.RawCond)
		isEq := true
		if bo, ok := core.(*ssa.BinOp); ok && bo.Op == token.NEQ {
			isEq = false
		}
		eofOnTrue := isEq != neg
		succTrue := ce.RawTruth
		if eofOnTrue != succTrue {
			return true
		}
	}
	return false
}

func (c *Ctx) returnExcludesEOF(fn *ssa.Function, r *ssa.Return, e ssa.Value) bool {
	return c.blockExcludesEOF(fn, r.Block(), e)
}

// normaliseUEFIBody: in the WIN_CERTIFICATE_UEFI_GUID codecs the reader consumes
// the certificate body as one run (and re-parses it), while the writer emits it
// as type GUID + data (with the header's own body emptied or not written at
// all). Both are reduced to one BODY run after the three header fields.
func normaliseUEFIBody(ls []leaf, isWriter bool) []leaf {
	var out []leaf
	inBody := false
	for _, l := range ls {
		if l.alias {
			continue
		}
		last := lastComponent(l.id)
		isHdrBody := strings.HasSuffix(l.id, ".WINCertificate.Certificate") || last == "Certificate"
		isGUID := (strings.Contains(l.id, ".CertType.Data") || strings.Contains(l.id, "EFIGUID.Data")) && l.width > 0 && (last == "Data1" || last == "Data2" || last == "Data3" || last == "Data4")
		isData := last == "CertData"
		if isHdrBody || isWriter && (isGUID || isData) {
			if isGUID && l.order != "LE" && !(last == "Data4" && l.order == "-") {
				out = append(out, l) // a wrong byte order must stay visible
				continue
			}
			if !inBody {
				out = append(out, leaf{id: "BODY", width: -1, order: "-", src: l.src})
				inBody = true
			}
			continue
		}
		inBody = false
		out = append(out, l)
	}
	return out
}

// wireLeaves: the wire leaves of a codec function: from the encoding/binary
// tables and the packing idiom when they model the whole function, otherwise
// from the deep wire extraction; why != "" if neither can describe it.
func (c *Ctx) wireLeaves(fn *ssa.Function, isRead bool) ([]leaf, string) {
	if os.Getenv("VCHECK_WIRE") != "table" {
		ls, ok, why := c.deepLeaves(fn, isRead)
		if ok {
			return ls, ""
		}
		if why == whyPerItemHelper {
			return nil, why // the tables do not model that loop either
		}
	}
	opaque := c.codecOpaque(fn, 0)
	if opaque == "" {
		if ls := c.leavesOf(fn, isRead, 0); len(ls) > 0 {
			if isRead {
				renameScratchLeaves(fn, ls)
			}
			return ls, ""
		}
	}
	_, _, why := c.deepLeaves(fn, isRead)
	if opaque == "" {
		opaque = why
	} else {
		opaque += "; deep extraction: " + why
	}
	return nil, opaque
}

// ruleDecodeReplaces (G14): an Unmarshal method overwrites its receiver with
// what it decoded. A store into the receiver whose value derives from the
// receiver's previous content (append to itself) makes a second decode into the
// same value accumulate, so decode(encode(x)) into a used value is not x.
func (c *Ctx) ruleDecodeReplaces(rule string, in func(*ssa.Function) bool) int {
	n := 0
	for _, fn := range c.P.LibFunctions() {
		if fn.Name() != "Unmarshal" || fn.Signature.Recv() == nil || len(fn.Params) == 0 || (in != nil && !in(fn)) {
			continue
		}
		recv := fn.Params[0]
		if _, isPtr := recv.Type().Underlying().(*types.Pointer); !isPtr {
			continue
		}
		n++
		dv := c.deepViewOf(fn, 3)
		accum, reset := "", false
		stores := 0
		for _, di := range dv.order {
			st, ok := di.i.(*ssa.Store)
			if !ok {
				continue
			}
			// a store to the receiver object itself (not to one of its fields)
			if r := dv.resolve(st.Addr, di.fr); r.fr != dv.root || r.v != ssa.Value(recv) {
				continue
			}
			stores++
			self := false
			for v := range c.sliceOf(st.Val) {
				if ld, isLd := v.(*ssa.UnOp); isLd && ld.Op == token.MUL {
					if r := dv.resolve(ld.X, di.fr); r.fr == dv.root && r.v == ssa.Value(recv) {
						self = true
					}
				}
			}
			if self {
				accum = c.IPos(st)
			} else {
				reset = true
			}
		}
		// what is stored is a literal built in place: a wire field of it that is set to a
		// constant (instead of what was decoded) must be one the decoder admits no
		// other value for, or decode(encode(v)) is not v for the other values
		if why := c.constantInDecoded(dv, recv); why != "" {
			c.R.Violf(rule, name(fn), "decoded-fields", c.Pos(fn.Pos()), "the receiver is given the decoded value, field for field", why)
		}
		if stores == 0 {
			// field by field: a field whose new value is built from its own previous
			// content (append to itself) accumulates across decodes
			fieldAccum := ""
			nf := 0
			for _, di := range dv.order {
				st, ok := di.i.(*ssa.Store)
				if !ok {
					continue
				}
				fa, isFA := st.Addr.(*ssa.FieldAddr)
				if !isFA {
					continue
				}
				if r := dv.resolve(fa.X, di.fr); r.fr != dv.root || r.v != ssa.Value(recv) {
					continue
				}
				nf++
				for v := range c.sliceOf(st.Val) {
					ld, isLd := v.(*ssa.UnOp)
					if !isLd || ld.Op != token.MUL {
						continue
					}
					if fb, ok := ld.X.(*ssa.FieldAddr); ok && fb.Field == fa.Field {
						if r := dv.resolve(fb.X, di.fr); r.fr == dv.root && r.v == ssa.Value(recv) {
							fieldAccum = ir.FieldID(fa) + " at " + c.IPos(st)
						}
					}
				}
			}
			if fieldAccum != "" {
				c.R.Violf(rule, name(fn), "receiver", c.Pos(fn.Pos()), "the decoder replaces the receiver's value with what it decoded", "the value stored into field "+fieldAccum+" is built from the field's previous content: decoding into a value that is already in use appends instead of replacing")
				continue
			}
			c.R.Infof(rule, name(fn), "receiver", c.Pos(fn.Pos()), "the decoder fills the fields of its receiver one by one (no whole-value store): fields it does not assign keep their previous content, which this rule does not judge")
			continue
		}
		c.R.Check(accum == "" || reset, rule, name(fn), "receiver", c.Pos(fn.Pos()),
			"the decoder replaces the receiver's value with what it decoded", "the value stored into the receiver at "+accum+" is built from the receiver's previous content: decoding into a value that is already in use appends instead of replacing")
	}
	return n
}

// ruleEOFNotSuccess (G4.eofok): inside the decoder of one list (everything the
// list decoder calls, function literals included) an end of input met while
// reading from the caller's stream never turns into a successful return: the
// list header announced the bytes, so running out of them is a truncated list.
// An EOF of an in-memory reader over bytes that were read in full is the end
// of that buffer and is not judged.
func (c *Ctx) ruleEOFNotSuccess(rule string, rl *ssa.Function, skip ...*ssa.Function) {
	consumers := c.consumerFuncs()
	skipped := map[*ssa.Function]bool{}
	for _, s := range skip {
		skipped[s] = true
	}
	var fns []*ssa.Function
	for _, g := range c.cone(rl) {
		if skipped[g] {
			continue
		}
		fns = append(fns, withAnon(g)...)
	}
	// where a reader value comes from: "input" (a reader parameter / captured reader,
	// possibly wrapped), "memory" (a reader over local bytes), "" unknown
	var origin func(v ssa.Value, depth int) string
	origin = func(v ssa.Value, depth int) string {
		if depth > 10 || v == nil {
			return ""
		}
		switch x := ir.StripIface(v).(type) {
		case *ssa.Parameter, *ssa.FreeVar:
			if isStreamType(x.Type()) || isIfaceType(x.Type()) {
				return "input"
			}
		case *ssa.Call:
			switch ir.CallID(x) {
			case "io.LimitReader", "bufio.NewReader", "io.TeeReader", "bufio.NewReaderSize", "io.NewSectionReader":
				return origin(x.Call.Args[0], depth+1)
			case "bytes.NewReader", "bytes.NewBuffer", "bytes.NewBufferString", "strings.NewReader":
				return "memory"
			}
		case *ssa.UnOp:
			if x.Op == token.MUL {
				if a, ok := x.X.(*ssa.Alloc); ok {
					out := ""
					for _, r := range *a.Referrers() {
						if st, ok := r.(*ssa.Store); ok && st.Addr == ssa.Value(a) {
							o := origin(st.Val, depth+1)
							if out == "" || o == "input" {
								out = o
							}
						}
					}
					return out
				}
				return origin(x.X, depth+1)
			}
		case *ssa.Phi:
			out := ""
			for _, e := range x.Edges {
				if o := origin(e, depth+1); o == "input" || out == "" {
					out = o
				}
			}
			return out
		case *ssa.MakeInterface:
			return origin(x.X, depth+1)
		case *ssa.Alloc:
			if ir.NamedTypeID(x.Type()) == "bytes.Buffer" || ir.NamedTypeID(x.Type()) == "bytes.Reader" {
				return "memory"
			}
		}
		return ""
	}
	counts := map[string]int{}
	seenIf := map[*ssa.If]bool{}
	n := 0
	for _, g := range fns {
		for _, ce := range ir.CondEdges(g) {
			ev, ok := isEOFTest(ce.Cond)
			if !ok || ce.If == nil || seenIf[ce.If] {
				continue
			}
			// the edge on which the error matches io.EOF
			matches := ce.Truth
			if bo, isB := ce.Cond.(*ssa.BinOp); isB && bo.Op == token.NEQ {
				matches = !matches
			}
			if !matches {
				continue
			}
			seenIf[ce.If] = true
			n++
			key := ordinalKey(counts, name(g)+":eof-branch")
			construct := strings.TrimPrefix(key, name(g)+":")
			succeeds := ""
			for r, cl := range retClassesFrom(g, g.Blocks[ce.Edge.To], ce.Edge.From) {
				if cl == "success" {
					succeeds = c.IPos(r)
				}
			}
			if succeeds == "" {
				c.R.Okf(rule, name(g), construct, c.IPos(ce.If), "no successful return is reachable on the branch where the error matches io.EOF")
				continue
			}
			// which read produced the error
			src := ""
			for v := range c.sliceOf(ev) {
				call, isC := v.(*ssa.Call)
				if !isC || !c.isConsumingCall(call, consumers) {
					continue
				}
				for _, a := range ir.CallArgs(call) {
					if isStreamType(ir.StripIface(a).Type()) || isIfaceType(a.Type()) {
						if o := origin(a, 0); o == "input" || src == "" {
							src = o
						}
					}
				}
			}
			// the end of input before the first byte of a list is not "inside a list":
			// the read whose error is tested is the first one of the function, and the
			// function is the list reader itself or is entered before anything was read
			if src == "input" {
				var first func(g *ssa.Function, at ssa.Instruction, depth int) bool
				first = func(g *ssa.Function, at ssa.Instruction, depth int) bool {
					if depth > 3 {
						return false
					}
					clean := true
					instrsOf(g, func(i ssa.Instruction) {
						call, isC := i.(*ssa.Call)
						if !isC || i == at || !c.isConsumingCall(call, consumers) {
							return
						}
						if call.Block() == at.Block() && precedes(call, at) || call.Block() != at.Block() && reachableFrom(g, call.Block(), at.Block()) {
							clean = false
						}
					})
					if !clean {
						return false
					}
					if g == rl {
						return true
					}
					sites := 0
					ok := true
					for _, h := range fns {
						instrsOf(h, func(i ssa.Instruction) {
							if call, isC := i.(*ssa.Call); isC && ir.Callee(call) == g {
								sites++
								if !first(h, call, depth+1) {
									ok = false
								}
							}
						})
					}
					return ok && sites > 0
				}
				var reads []*ssa.Call
				for v := range c.sliceOf(ev) {
					if call, isC := v.(*ssa.Call); isC && call.Parent() == g && c.isConsumingCall(call, consumers) {
						reads = append(reads, call)
					}
				}
				if len(reads) == 1 && first(g, reads[0], 0) {
					c.R.Okf(rule, name(g), construct, c.IPos(ce.If), "the io.EOF tested belongs to the first read of a list: the end of input between lists")
					continue
				}
			}
			switch src {
			case "input":
				c.R.Violf(rule, name(g), construct, c.IPos(ce.If), "an end of input inside a list is an error", "on the branch where the error of a read from the caller's stream matches io.EOF the function returns successfully at "+succeeds+": a list cut short at that point is accepted with what was read so far")
			case "memory":
				c.R.Okf(rule, name(g), construct, c.IPos(ce.If), "the io.EOF tested is the end of an in-memory reader over bytes already read")
			default:
				c.R.Infof(rule, name(g), construct, c.IPos(ce.If), "not decided for this shape: a successful return follows an io.EOF whose reader is not identified")
			}
		}
	}
	if n == 0 {
		c.R.Okf(rule, name(rl), "scan", c.Pos(rl.Pos()), "the list decoder and its helpers contain no test for io.EOF")
	}
}

// reachableFrom: block to can be reached from block from (from != to).
func reachableFrom(fn *ssa.Function, from, to *ssa.BasicBlock) bool {
	seen, _ := ir.Reach(fn, from, nil)
	return seen[to.Index]
}

// renameScratchLeaves: a structure decoded as a whole into a local scratch
// value whose fields are then copied, one by one, into fields of the result is
// named by where each field ends up (raw.TimeLow -> EFIGUID.Data1).
func renameScratchLeaves(fn *ssa.Function, ls []leaf) {
	for k := range ls {
		l := &ls[k]
		if l.src == nil || l.src.val == nil {
			continue
		}
		a, isA := ir.StripIface(l.src.val).(*ssa.Alloc)
		if !isA {
			continue
		}
		st, isStruct := a.Type().Underlying().(*types.Pointer).Elem().Underlying().(*types.Struct)
		if !isStruct {
			continue
		}
		for i := 0; i < st.NumFields(); i++ {
			nm := "." + st.Field(i).Name()
			cut := -1
			if strings.HasSuffix(l.id, nm) {
				cut = len(l.id) - len(nm)
			} else if j := strings.Index(l.id, nm+"."); j >= 0 {
				cut = j
			}
			if cut < 0 {
				continue
			}
			rest := l.id[cut+len(nm):]
			dest := ""
			for _, f := range withAnon(fn) {
				instrsOf(f, func(in ssa.Instruction) {
					s, ok := in.(*ssa.Store)
					if !ok || ir.FieldID(s.Addr) == "" {
						return
					}
					ld, ok := ir.StripConv(s.Val).(*ssa.UnOp)
					if !ok || ld.Op != token.MUL {
						return
					}
					if fa, ok := ld.X.(*ssa.FieldAddr); ok && fa.X == ssa.Value(a) && fa.Field == i {
						if dest == "" {
							dest = ir.FieldID(s.Addr)
						} else if dest != ir.FieldID(s.Addr) {
							dest = "-"
						}
					}
				})
			}
			if dest != "" && dest != "-" {
				l.id = dest + rest
			}
			break
		}
	}
}

// handedToLibrary: the value (through interface conversions, cells and phis) is an
// argument of a call of a library function.
func (c *Ctx) handedToLibrary(v ssa.Value, depth int) bool {
	if depth > 4 || v == nil || v.Referrers() == nil {
		return false
	}
	for _, u := range *v.Referrers() {
		switch x := u.(type) {
		case ssa.CallInstruction:
			if callee := ir.Callee(x); callee != nil && c.P.InLib(callee) {
				for _, a := range ir.CallArgs(x) {
					if a == v {
						return true
					}
				}
			}
		case *ssa.MakeInterface:
			if c.handedToLibrary(x, depth+1) {
				return true
			}
		case *ssa.ChangeInterface:
			if c.handedToLibrary(x, depth+1) {
				return true
			}
		case *ssa.Phi:
			if c.handedToLibrary(x, depth+1) {
				return true
			}
		case *ssa.Store:
			if x.Val == v {
				if a, ok := x.Addr.(*ssa.Alloc); ok && a.Referrers() != nil {
					for _, r := range *a.Referrers() {
						if ld, isLd := r.(*ssa.UnOp); isLd && ld.Op == token.MUL && c.handedToLibrary(ld, depth+1) {
							return true
						}
						if mk, isMk := r.(*ssa.MakeClosure); isMk {
							// captured by a function literal: look at its loads of the free variable
							if cf, okF := mk.Fn.(*ssa.Function); okF {
								for k, bnd := range mk.Bindings {
									if bnd == ssa.Value(a) && k < len(cf.FreeVars) && cf.FreeVars[k].Referrers() != nil {
										for _, fr := range *cf.FreeVars[k].Referrers() {
											if ld, isLd := fr.(*ssa.UnOp); isLd && ld.Op == token.MUL && c.handedToLibrary(ld, depth+1) {
												return true
											}
										}
									}
								}
							}
						}
					}
				}
			}
		}
	}
	return false
}
