package rules

import (
	"go/token"
	"go/types"
	"sort"
	"strings"

	"golang.org/x/tools/go/ssa"

	"verif/checker/internal/ir"
)

// The wire sequence of a codec function on the deep view: every consumption of
// (reader) or emission to (writer) the function's stream, in program order,
// through helpers, methods of small decoder/encoder types that carry the
// stream in a field, closures, range-over-literal loops and the byte packing
// idioms. It is the fallback of the table extraction of codec.go: used when the
// tables are empty or report an idiom they do not model.

func isStreamType(t types.Type) bool {
	switch ir.NamedTypeID(t) {
	case "io.Reader", "io.Writer", "bytes.Buffer", "io.ReadWriter", "io.WriteCloser", "io.ReadCloser", "bytes.Reader", "bufio.Reader", "bufio.Writer":
		return true
	}
	return false
}

// fieldNameOf: "pkg.Type.Field" for an address / value that denotes a struct
// field after resolution ("" otherwise).
func (d *deepView) fieldNameOf(v ssa.Value, fr *frame) string {
	r := d.resolve(ir.StripConv(v), fr)
	if id := fieldIDOf(r.v); id != "" {
		return id
	}
	if id := ir.FieldID(r.v); id != "" {
		return id
	}
	return ""
}

// deepLeaves extracts the wire leaves of fn's stream. ok=false (with a reason)
// if some consumption/emission of the stream is not modelled.
func (c *Ctx) deepLeaves(fn *ssa.Function, isRead bool) (out []leaf, ok bool, why string) {
	var stream *ssa.Parameter
	for _, p := range fn.Params {
		if isStreamType(p.Type()) {
			stream = p
			break
		}
	}
	if stream == nil {
		return nil, false, "no stream parameter"
	}
	d := c.deepViewOf(fn, 4)
	d.throughFields = true
	defer func() { d.throughFields = false }()
	isStream := func(v ssa.Value, fr *frame) bool {
		r := d.objectOf(v, fr)
		return r.fr == d.root && r.v == ssa.Value(stream)
	}
	ok = true
	fail := func(reason string) {
		if ok {
			ok, why = false, reason
		}
	}
	addDatum := func(id string, t types.Type, order string, src *codecEntry) {
		if _, isStruct := t.Underlying().(*types.Struct); isStruct {
			structLeaves(id, t, order, false, src, &out)
			return
		}
		if arr, isArr := t.Underlying().(*types.Array); isArr && binarySize(arr.Elem()) == 1 {
			out = append(out, leaf{id: id, width: int(arr.Len()), order: order, src: src})
			return
		}
		out = append(out, leaf{id: id, width: binarySize(t), order: order, src: src})
	}
	// one binary.Read / binary.Write datum
	datum := func(call *ssa.Call, fr *frame, data ssa.Value, order string) {
		r := d.resolveAll(data, fr)
		t := r.v.Type()
		if k, isK := r.v.(*ssa.Const); isK && k.Value == nil && !isRead {
			if _, isSl := t.Underlying().(*types.Slice); isSl {
				return // a nil slice encodes to nothing
			}
		}
		id := d.fieldNameOf(r.v, r.fr)
		if isRead && id != "" {
			// read into a field of a local scratch structure and copied from there
			// into a field of the result: the position is named by where it ends up
			if dest := d.copyDest(r); dest != "" {
				id = dest
			}
		}
		if isRead && id == "" {
			// read into a plain local whose content is put into a field of the result
			// afterwards: the position is named by that field as well
			if a, isA := r.v.(*ssa.Alloc); isA {
				id = d.loadedIntoField(a, r.fr)
			}
		}
		if isRead {
			p, isPtr := t.Underlying().(*types.Pointer)
			if !isPtr {
				// a slice read in place
				if isByteSlice(t) {
					e := &codecEntry{call: call, what: "bytes", width: -1, order: order}
					if mk, isMk := r.v.(*ssa.MakeSlice); isMk {
						a := d.affine(mk.Len, r.fr, nil, 0)
						e.lenAff, e.lenOf = &a, a.String()
					}
					out = append(out, leaf{id: firstNonEmpty(d.storedInField(r), "bytes"), width: -1, order: "-", src: e})
					return
				}
				fail("binary.Read into a non-pointer")
				return
			}
			t = p.Elem()
			if isByteSlice(t) {
				// *[]byte: the slice the cell holds
				e := &codecEntry{call: call, what: "bytes", width: -1, order: order}
				name := "bytes"
				if a, isA := r.v.(*ssa.Alloc); isA {
					var buf dval
					n := 0
					d.eachStoreTo(a, r.fr, func(st *ssa.Store, f *frame) { buf, n = d.resolve(st.Val, f), n+1 })
					if mk, isMk := buf.v.(*ssa.MakeSlice); n == 1 && isMk {
						la := d.affine(mk.Len, buf.fr, nil, 0)
						e.lenAff, e.lenOf = &la, la.String()
						name = firstNonEmpty(d.storedInField(buf), d.loadedIntoField(a, r.fr), name)
					}
				} else if id != "" {
					name = id
				}
				out = append(out, leaf{id: name, width: -1, order: "-", src: e})
				return
			}
		} else if isByteSlice(t) {
			e := &codecEntry{call: call, what: "bytes", width: -1, order: order}
			out = append(out, leaf{id: firstNonEmpty(id, "bytes"), width: -1, order: "-", src: e})
			return
		}
		if p, isPtr := t.Underlying().(*types.Pointer); isPtr && !isRead && binarySize(p.Elem()) >= 0 {
			// binary.Write of a pointer encodes the fixed-size value it points to
			t = p.Elem()
		}
		if binarySize(t) < 0 {
			fail("a datum of variable size (" + t.String() + ")")
			return
		}
		e := &codecEntry{call: call, what: "field:" + id, width: binarySize(t), order: order, typ: t}
		if id == "" {
			if call.Block() != nil && inLoop(fr.fn, call.Block()) {
				// which datum this is depends on the iteration, and the loop is not one
				// the evaluator unrolls: no layout is claimed
				fail("a datum selected by a loop that is not unrolled")
				return
			}
			e.what = "type:" + ir.TypeString(t)
			id = "value"
			// a local of a named struct type: its leaves are named by the type
			if _, isStruct := t.Underlying().(*types.Struct); isStruct {
				if tn := ir.NamedTypeID(t); tn != "" {
					id = tn
				}
			}
		}
		addDatum(id, t, order, e)
	}
	// the same helper called on mutually exclusive branches (switch arms) is one
	// wire position: only the first activation is followed
	firstSite := map[string]*ssa.Call{}
	skipFrame := map[*frame]bool{}
	excluded := func(fr *frame) bool {
		for f := fr; f != nil && f.parent != nil; f = f.parent {
			if skipFrame[f] {
				return true
			}
			site, isC := f.site.(*ssa.Call)
			if !isC {
				continue
			}
			key := f.parent.id + "|" + name(f.fn)
			if first, seen := firstSite[key]; !seen {
				firstSite[key] = site
			} else if first != site && exclusiveCalls(first, site) && d.sameDestinations(first, site, f.parent) {
				skipFrame[f] = true
				return true
			}
		}
		return false
	}
	// boundedRun: the bytes read through a bounded view (io.LimitReader call or
	// io.LimitedReader literal) of the stream are one variable-length run of n
	// bytes, named by the field the bytes end up in
	boundedRun := func(view dval, at *ssa.Call, n Affine) {
		e := &codecEntry{call: at, what: "bytes", width: -1, order: "-", lenAff: &n, lenOf: n.String()}
		name := "bytes"
		for _, dj := range d.order {
			rc, isC := dj.i.(*ssa.Call)
			if !isC {
				continue
			}
			rid := ir.CallID(rc)
			if rid != "io.ReadAll" && rid != "bytes.Buffer.ReadFrom" && rid != "io.Copy" && rid != "io.CopyN" {
				continue
			}
			rargs := ir.CallArgs(rc)
			for _, a := range rargs {
				if !d.objectOf(a, dj.fr).same(view) {
					continue
				}
				if e.call == nil {
					e.call = rc
				}
				if f := d.fieldSink(dval{rc, dj.fr}, 0); f != "" {
					name = f
				}
				// ReadFrom / Copy into a buffer: the bytes are what the buffer's Bytes() hands out
				if rid != "io.ReadAll" && len(rargs) > 0 {
					dst := d.objectOf(rargs[0], dj.fr)
					for _, dk := range d.order {
						bc, isB := dk.i.(*ssa.Call)
						if isB && ir.CallID(bc) == "bytes.Buffer.Bytes" && d.objectOf(bc.Call.Args[0], dk.fr).same(dst) {
							if f := d.fieldSink(dval{bc, dk.fr}, 0); f != "" {
								name = f
							}
						}
					}
				}
			}
		}
		out = append(out, leaf{id: name, width: -1, order: "-", src: e})
	}
	// unrollAt: the datum is the running element of a literal list ranged over in
	// this frame or in a calling frame (the per-item work moved into a helper)
	unrollAt := func(v ssa.Value, fr *frame) (ssa.Value, int64, bool) {
		cands := []dval{{v, fr}, d.resolveAll(v, fr)}
		for _, cd := range cands {
			in, isI := cd.v.(ssa.Instruction)
			if !isI || in.Block() == nil || !inLoop(cd.fr.fn, in.Block()) {
				continue
			}
			if iv, n, ok := d.rangeLiteralDeep(cd.v, cd.fr); ok && n <= 64 {
				return iv, n, true
			}
		}
		return nil, 0, false
	}
	for _, di := range d.order {
		if st, isSt := di.i.(*ssa.Store); isSt && isRead && !excluded(di.fr) {
			// io.LimitedReader{R: stream, N: n}
			if fa, isFA := st.Addr.(*ssa.FieldAddr); isFA && ir.FieldID(fa) == "io.LimitedReader.R" && isStream(st.Val, di.fr) {
				obj := d.objectOf(fa.X, di.fr)
				var nv dval
				cnt := 0
				for _, dj := range d.order {
					if s2, ok := dj.i.(*ssa.Store); ok {
						if f2, ok := s2.Addr.(*ssa.FieldAddr); ok && ir.FieldID(f2) == "io.LimitedReader.N" && d.objectOf(f2.X, dj.fr).same(obj) {
							nv, cnt = dval{s2.Val, dj.fr}, cnt+1
						}
					}
				}
				if cnt != 1 {
					fail("a LimitedReader over the stream whose limit is not set exactly once")
					continue
				}
				boundedRun(obj, nil, d.affine(nv.v, nv.fr, nil, 0))
			}
			continue
		}
		call, isCall := di.i.(*ssa.Call)
		if !isCall {
			continue
		}
		if excluded(di.fr) {
			continue
		}
		args := ir.CallArgs(call)
		si := -1
		for k, a := range args {
			if (isStreamType(a.Type()) || isIfaceType(a.Type())) && isStream(a, di.fr) {
				si = k
				break
			}
		}
		if si < 0 {
			continue
		}
		id := ir.CallID(call)
		switch {
		case (id == "encoding/binary.Read" && isRead || id == "encoding/binary.Write" && !isRead) && si == 0:
			order := byteOrderOf(d.resolve(args[1], di.fr).v)
			if o := byteOrderOf(args[1]); o != "?" {
				order = o
			}
			if iv, n, isLit := unrollAt(args[2], di.fr); isLit {
				for k := int64(0); k < n; k++ {
					d.under(listItem{idx: map[ssa.Value]int64{iv: k}}, func() { datum(call, di.fr, args[2], order) })
				}
				continue
			}
			datum(call, di.fr, args[2], order)
		case (id == "io.ReadFull" || id == "io.ReadAtLeast") && isRead && si == 0:
			if iv, n, isLit := unrollAt(args[1], di.fr); isLit {
				for k := int64(0); k < n; k++ {
					d.under(listItem{idx: map[ssa.Value]int64{iv: k}}, func() { c.packedRead(d, call, di.fr, args[1], &out, fail) })
				}
				continue
			}
			before := len(out)
			c.packedRead(d, call, di.fr, args[1], &out, fail)
			// the read sits in a helper that a loop calls once per item and what it decodes
			// has no name of its own: which datum this is depends on the iteration, and
			// the loop is not one the evaluator unrolls - no layout is claimed (as for a
			// binary.Read of a datum selected by a loop)
			for f := di.fr; f != nil && f.parent != nil && f.site != nil; f = f.parent {
				if f.site.Block() == nil || !inLoop(f.parent.fn, f.site.Block()) {
					continue
				}
				for _, lf := range out[before:] {
					if lf.id == "value" {
						fail(whyPerItemHelper)
					}
				}
			}
		case !isRead && si == 0 && (call.Call.IsInvoke() && call.Call.Method.Name() == "Write" || id == "bytes.Buffer.Write"):
			var segs []bseg
			okSeq := true
			unrolled := false
			{
				if iv, n, isLit := unrollAt(args[1], di.fr); isLit {
					unrolled = true
					for k := int64(0); k < n && okSeq; k++ {
						d.under(listItem{idx: map[ssa.Value]int64{iv: k}}, func() {
							part, okP := d.byteSeq(args[1], di.fr, 0)
							okSeq = okSeq && okP
							segs = append(segs, part...)
						})
					}
				}
			}
			if !unrolled {
				segs, okSeq = d.byteSeq(args[1], di.fr, 0)
			}
			if !okSeq {
				fail("bytes handed to Write are not built by a modelled idiom")
				continue
			}
			if why := d.segLeaves(segs, &out); why != "" {
				fail(why)
			}
		case id == "io.LimitReader" && isRead && si == 0:
			boundedRun(dval{call, di.fr}, call, d.affine(args[1], di.fr, nil, 0))
		case isRead && call.Call.IsInvoke() && call.Call.Method.Name() == "Read" && si == 0:
			// a plain Read on the stream (a scan loop): a run of bytes of unknown length
			out = append(out, leaf{id: firstNonEmpty(d.fieldSink(d.objectOf(call.Call.Args[0], di.fr), 0), "bytes"), width: -1, order: "-", src: &codecEntry{call: call, what: "bytes", width: -1, order: "-"}})
		case id == "builtin.len" || id == "builtin.cap" || strings.HasSuffix(id, ".Len") || strings.HasSuffix(id, ".Bytes") || strings.HasSuffix(id, ".String") || id == "bytes.Buffer.Grow" || id == "bytes.Buffer.Cap" || id == "bytes.Buffer.Available":
			continue
		case id == "bytes.Buffer.WriteByte" && !isRead:
			out = append(out, leaf{id: "value", width: 1, order: "-"})
		default:
			// a library helper that receives the stream is part of the view
			if callee := calleeOrClosure2(call); callee != nil && d.inlinable(callee) && d.frameOfCall(di.fr, call) != nil {
				continue
			}
			// an interface method of the datum itself (Marshal/Unmarshal of a sub-structure)
			fail("the stream is handed to " + id)
		}
	}
	if len(out) == 0 && ok {
		return nil, false, "no consumption of the stream found"
	}
	return out, ok, why
}

func isIfaceType(t types.Type) bool {
	_, ok := t.Underlying().(*types.Interface)
	return ok
}

func firstNonEmpty(ss ...string) string {
	for _, s := range ss {
		if s != "" {
			return s
		}
	}
	return ""
}

// fieldSink follows a value forward to the struct field it is stored in:
// through tuple extraction, conversions, and returns to the caller's frame.
func (d *deepView) fieldSink(v dval, depth int) string {
	if depth > 8 || v.v == nil || v.v.Referrers() == nil {
		return ""
	}
	if id := d.storedInField(v); id != "" {
		return id
	}
	for _, r := range *v.v.Referrers() {
		switch x := r.(type) {
		case *ssa.Extract:
			if x.Index == 0 {
				if id := d.fieldSink(dval{x, v.fr}, depth+1); id != "" {
					return id
				}
			}
		case *ssa.Slice:
			if id := d.fieldSink(dval{x, v.fr}, depth+1); id != "" {
				return id
			}
		case *ssa.Return:
			if v.fr.site == nil || v.fr.parent == nil {
				continue
			}
			idx := -1
			for k, res := range x.Results {
				if res == v.v {
					idx = k
				}
			}
			site, isVal := v.fr.site.(ssa.Value)
			if idx < 0 || !isVal {
				continue
			}
			if len(x.Results) == 1 {
				if id := d.fieldSink(dval{site, v.fr.parent}, depth+1); id != "" {
					return id
				}
				continue
			}
			if site.Referrers() != nil {
				for _, rr := range *site.Referrers() {
					if ex, ok := rr.(*ssa.Extract); ok && ex.Index == idx {
						if id := d.fieldSink(dval{ex, v.fr.parent}, depth+1); id != "" {
							return id
						}
					}
				}
			}
		case *ssa.Store:
			// stored into a local cell: follow its loads
			if a, ok := x.Addr.(*ssa.Alloc); ok && x.Val == v.v {
				if id := d.loadedIntoField(a, v.fr); id != "" {
					return id
				}
			}
		}
	}
	return ""
}

// storedInField: the struct field a value ends up in (a store of it, possibly
// converted or wrapped by append of a dereference), "" if none.
func (d *deepView) storedInField(v dval) string {
	if v.v == nil || v.v.Referrers() == nil {
		return ""
	}
	for _, r := range *v.v.Referrers() {
		switch x := r.(type) {
		case *ssa.Store:
			if x.Val == v.v {
				if id := ir.FieldID(x.Addr); id != "" {
					return id
				}
				// an element of a small array field (Device [1]byte)
				if ia, ok := x.Addr.(*ssa.IndexAddr); ok {
					if id := ir.FieldID(ia.X); id != "" {
						return id
					}
				}
			}
		case *ssa.Convert:
			if id := d.storedInField(dval{x, v.fr}); id != "" {
				return id
			}
		case *ssa.ChangeType:
			if id := d.storedInField(dval{x, v.fr}); id != "" {
				return id
			}
		}
	}
	return ""
}

// copyDest: r is the address of a field of a local structure; the field of
// another structure that a load of it is stored into somewhere in the view
// ("" if there is none, or more than one).
func (d *deepView) copyDest(r dval) string {
	fa, ok := r.v.(*ssa.FieldAddr)
	if !ok {
		return ""
	}
	obj := d.objectOf(fa.X, r.fr)
	if _, isLocal := obj.v.(*ssa.Alloc); !isLocal {
		return ""
	}
	own := ir.FieldID(fa)
	// not a scratch structure: it is what the anchor function hands back (by address or
	// by value); a copy of one of its fields kept elsewhere does not rename the position
	if d.returnedByRoot(obj) {
		return ""
	}
	dest := ""
	for _, di := range d.order {
		st, isSt := di.i.(*ssa.Store)
		if !isSt {
			continue
		}
		matched := false
		switch x := ir.StripConv(st.Val).(type) {
		case *ssa.UnOp:
			if fb, isFB := x.X.(*ssa.FieldAddr); x.Op == token.MUL && isFB && fb.Field == fa.Field && ir.FieldID(fb) == own {
				o := d.objectOf(fb.X, di.fr)
				if o.same(obj) || d.wholeCopyOf(o, obj) {
					matched = true
				}
			}
		case *ssa.Field:
			// the structure was handed back by value: field of (a copy of) the whole
			if x.Field == fa.Field && ir.FieldID(x) == own {
				base := d.resolve(x.X, di.fr)
				if whole, isLd := base.v.(*ssa.UnOp); isLd && whole.Op == token.MUL {
					if d.objectOf(whole.X, base.fr).same(obj) {
						matched = true
					}
				}
				// a result of a helper with several exits: the exit that hands back the object
				var call *ssa.Call
				idx := 0
				switch b := base.v.(type) {
				case *ssa.Extract:
					call, _ = b.Tuple.(*ssa.Call)
					idx = b.Index
				case *ssa.Call:
					call = b
				}
				if call != nil && !matched {
					if child := d.frameOfCall(base.fr, call); child != nil {
						for _, ret := range ir.Returns(child.fn) {
							if idx < len(ret.Results) {
								if whole, isLd := ret.Results[idx].(*ssa.UnOp); isLd && whole.Op == token.MUL && d.objectOf(whole.X, child).same(obj) {
									matched = true
								}
							}
						}
					}
				}
			}
		}
		if !matched {
			continue
		}
		id := ir.FieldID(st.Addr)
		if id == "" || id == own {
			continue
		}
		if dest != "" && dest != id {
			return ""
		}
		dest = id
	}
	return dest
}

// wholeCopyOf: the local structure o is assigned exactly once, as a whole, and
// what is assigned is the content of obj — loaded directly, or handed back by
// value from the helper in which obj lives (one of its exits returns it).
func (d *deepView) wholeCopyOf(o, obj dval) bool {
	a, isA := o.v.(*ssa.Alloc)
	if !isA {
		return false
	}
	var val ssa.Value
	var vfr *frame
	n := 0
	d.eachStoreTo(a, o.fr, func(st *ssa.Store, f *frame) { val, vfr, n = st.Val, f, n+1 })
	if n != 1 {
		return false
	}
	base := d.resolve(val, vfr)
	if whole, isLd := base.v.(*ssa.UnOp); isLd && whole.Op == token.MUL && d.objectOf(whole.X, base.fr).same(obj) {
		return true
	}
	var call *ssa.Call
	idx := 0
	switch b := base.v.(type) {
	case *ssa.Extract:
		call, _ = b.Tuple.(*ssa.Call)
		idx = b.Index
	case *ssa.Call:
		call = b
	}
	if call == nil {
		return false
	}
	child := d.frameOfCall(base.fr, call)
	if child == nil {
		return false
	}
	for _, ret := range ir.Returns(child.fn) {
		if idx < len(ret.Results) {
			if whole, isLd := ret.Results[idx].(*ssa.UnOp); isLd && whole.Op == token.MUL && d.objectOf(whole.X, child).same(obj) {
				return true
			}
		}
	}
	return false
}

// loadedIntoField: the field the content of a local cell is stored into later.
func (d *deepView) loadedIntoField(a *ssa.Alloc, fr *frame) string {
	for _, r := range *a.Referrers() {
		if ld, ok := r.(*ssa.UnOp); ok && ld.Op == token.MUL {
			if id := d.storedInField(dval{ld, fr}); id != "" {
				return id
			}
		}
	}
	return ""
}

// packedRead: io.ReadFull(stream, buf) followed by decodes of buf.
func (c *Ctx) packedRead(d *deepView, call *ssa.Call, fr *frame, bufArg ssa.Value, out *[]leaf, fail func(string)) {
	b := d.resolveAll(bufArg, fr)
	var obj dval
	total := newAffine()
	lo := int64(0) // the region of the buffer that is filled: [lo, lo+total)
	switch x := b.v.(type) {
	case *ssa.MakeSlice:
		obj, total = b, d.affine(x.Len, b.fr, nil, 0)
	case *ssa.Slice:
		a, isA := x.X.(*ssa.Alloc)
		n, okLen := int64(0), false
		if isA {
			n, okLen = byteLen(a)
		}
		if !isA || !okLen {
			// a re-slice of a made buffer: buf[:n]
			if base := d.resolve(x.X, b.fr); x.Low == nil && x.High != nil {
				if _, isMk := base.v.(*ssa.MakeSlice); isMk {
					obj, total = base, d.affine(x.High, b.fr, nil, 0)
					break
				}
			}
			fail("io.ReadFull into a buffer that is not a local array or make")
			return
		}
		hi := n
		if x.Low != nil {
			k, isK := d.indexOf(x.Low)
			if !isK {
				fail("io.ReadFull into a region with a variable start")
				return
			}
			lo = k
		}
		if x.High != nil {
			k, isK := d.indexOf(x.High)
			if !isK {
				fail("io.ReadFull into a region with a variable end")
				return
			}
			hi = k
		}
		obj, total = dval{a, b.fr}, constAffine(hi-lo)
	default:
		fail("io.ReadFull into a buffer the evaluator cannot resolve")
		return
	}
	if !total.isConst() {
		// a variable run: the bytes themselves are the datum
		e := &codecEntry{call: call, what: "bytes", width: -1, order: "-", lenAff: &total, lenOf: total.String()}
		*out = append(*out, leaf{id: firstNonEmpty(d.storedInField(obj), "bytes"), width: -1, order: "-", src: e})
		return
	}
	// decodes of the buffer, anywhere in the view
	type dec struct {
		off   int64
		width int
		order string
		id    string
		typ   types.Type
	}
	var decs []dec
	for _, di := range d.order {
		switch x := di.i.(type) {
		case *ssa.Call:
			id := ir.CallID(x)
			args := ir.CallArgs(x)
			if w, order, put, isU := uintCallWidth(id); isU && !put {
				off, isBuf := d.sliceBaseObj(args[len(args)-1], di.fr, obj)
				if !isBuf || !off.isConst() {
					continue
				}
				decs = append(decs, dec{off.K, w, order, firstNonEmpty(d.storedInField(dval{x, di.fr}), "value"), nil})
				continue
			}
			if id == "builtin.copy" {
				off, isBuf := d.sliceBaseObj(x.Call.Args[1], di.fr, obj)
				if !isBuf || !off.isConst() {
					continue
				}
				w := total.K - off.K
				if sl, isSl := d.resolve(x.Call.Args[1], di.fr).v.(*ssa.Slice); isSl && sl.High != nil {
					if hi := d.affine(sl.High, di.fr, nil, 0); hi.isConst() {
						w = hi.K - off.K
					}
				}
				if n, okN := byteLen(rootAddrOfSlice(x.Call.Args[0])); okN && n < w {
					w = n
				}
				name := firstNonEmpty(d.fieldNameOf(rootAddrOfSlice(x.Call.Args[0]), di.fr), "bytes")
				decs = append(decs, dec{off.K, int(w), "-", name, nil})
				continue
			}
			// the buffer decoded by a library helper: its frame is in the view
		case *ssa.UnOp:
			if ia, isIA := x.X.(*ssa.IndexAddr); isIA && x.Op == token.MUL {
				if off, isBuf := d.sliceBaseObj(ia.X, di.fr, obj); isBuf && off.isConst() {
					if k, isK := d.indexOf(ia.Index); isK {
						decs = append(decs, dec{off.K + k, 1, "-", firstNonEmpty(d.storedInField(dval{x, di.fr}), "value"), nil})
					}
				} else if a, isA := obj.v.(*ssa.Alloc); isA && d.resolve(ia.X, di.fr).v == ssa.Value(a) {
					if k, isK := d.indexOf(ia.Index); isK {
						decs = append(decs, dec{k, 1, "-", firstNonEmpty(d.storedInField(dval{x, di.fr}), "value"), nil})
					}
				}
			}
		}
	}
	// the buffer (or a part of it) handed to code that may decode it out of sight
	gap := "(skipped)"
	for _, di := range d.order {
		call, isC := di.i.(*ssa.Call)
		if !isC {
			continue
		}
		id := ir.CallID(call)
		if _, _, _, isU := uintCallWidth(id); isU || id == "builtin.copy" || id == "builtin.len" || id == "builtin.cap" || id == "io.ReadFull" || id == "io.ReadAtLeast" {
			continue
		}
		for _, a := range ir.CallArgs(call) {
			if !isByteSlice(a.Type()) {
				continue
			}
			if _, isBuf := d.sliceBaseObj(a, di.fr, obj); isBuf {
				gap = "(unattributed)"
			}
		}
	}
	sort.SliceStable(decs, func(i, j int) bool { return decs[i].off < decs[j].off })
	pos := lo
	end := lo + total.K
	for _, dc := range decs {
		if dc.off < pos || dc.off >= end {
			continue // outside this region, or an overlapping second look at the same bytes
		}
		if dc.off > pos {
			*out = append(*out, leaf{id: gap, width: int(dc.off - pos), order: "-"})
		}
		*out = append(*out, leaf{id: dc.id, width: dc.width, order: dc.order})
		pos = dc.off + int64(dc.width)
	}
	if pos < end {
		*out = append(*out, leaf{id: gap, width: int(end - pos), order: "-"})
	}
}

// segLeaves turns a resolved byte sequence into wire leaves.
func (d *deepView) segLeaves(segs []bseg, out *[]leaf) string {
	for _, sg := range segs {
		switch sg.kind {
		case "enc":
			t := ir.StripConv(sg.v.v).Type()
			w := int(sg.width.K)
			name := firstNonEmpty(d.fieldNameOf(sg.v.v, sg.v.fr), "value")
			if _, isStruct := t.Underlying().(*types.Struct); isStruct && binarySize(t) == w {
				structLeaves(name, t, sg.order, false, nil, out)
			} else {
				*out = append(*out, leaf{id: name, width: w, order: sg.order})
			}
		case "bytes", "stream":
			if sg.width.isConst() {
				*out = append(*out, leaf{id: firstNonEmpty(d.fieldNameOf(rootOfSlice(sg.v.v), sg.v.fr), "bytes"), width: int(sg.width.K), order: "-"})
			} else {
				*out = append(*out, leaf{id: firstNonEmpty(d.fieldNameOf(sg.v.v, sg.v.fr), "bytes"), width: -1, order: "-"})
			}
		case "zero", "lit":
			if sg.width.isConst() {
				id := "(skipped)"
				if sg.unk {
					id = "(unattributed)"
				}
				*out = append(*out, leaf{id: id, width: int(sg.width.K), order: "-"})
			} else {
				return "a run of constant bytes of variable length"
			}
		}
	}
	return ""
}

// bytesLeaves: the wire leaves of the byte slice a function without a stream
// parameter returns (built with append / AppendUint / a local buffer, possibly
// in helpers). ok=false if the bytes are not built by a modelled idiom.
func (c *Ctx) bytesLeaves(fn *ssa.Function) ([]leaf, bool) {
	rets := ir.Returns(fn)
	if len(rets) != 1 || len(rets[0].Results) == 0 {
		return nil, false
	}
	d := c.deepViewOf(fn, 4)
	d.throughFields = true
	defer func() { d.throughFields = false }()
	segs, ok := d.byteSeq(rets[0].Results[0], d.root, 0)
	if !ok {
		return nil, false
	}
	var out []leaf
	if why := d.segLeaves(segs, &out); why != "" {
		return nil, false
	}
	return out, true
}
