package rules

import (
	"go/token"
	"go/types"
	"strings"

	"golang.org/x/tools/go/ssa"

	"verif/checker/internal/ir"
)

// J10.eofdata (C01, C02, C03). The image is hashed through a ReaderAt of the
// library that reads from the caller's ReaderAt part by part. io.ReaderAt allows
// an implementation to return io.EOF together with a read that reached the end
// of its data (n == len(p)). A reader that hands on such an error without
// looking at it drops those bytes: the copy into the hash ends there, cleanly,
// and the digest of a well-formed image whose last part ends with the file is
// wrong. Decided on the CFG: in a ReadAt method of the library, from a read of a
// part (an invoked ReadAt) no return that hands on the part's error is reachable
// without crossing a test of that error against io.EOF or of the count against
// the length asked for.

func init() {
	for _, id := range []string{"C01", "C02", "C03"} {
		Extras[id] = append(Extras[id], func(c *Ctx) {
			c.ruleEOFWithData("J10.eofdata")
			c.R.Floor("J10.eofdata", 1)
		})
	}
}

func (c *Ctx) ruleEOFWithData(rule string) {
	what := "a part of the concatenating reader that reports io.EOF together with all the bytes asked for (which io.ReaderAt allows at the end of its data) has its bytes counted: the error is compared with io.EOF, or the count with the length, before it is handed on"
	n := 0
	for _, fn := range c.P.LibFunctions() {
		if fn.Pkg == nil || !strings.HasSuffix(fn.Pkg.Pkg.Path(), "/authenticode") || fn.Name() != "ReadAt" || fn.Signature.Recv() == nil {
			continue
		}
		for _, b := range fn.Blocks {
			for _, i := range b.Instrs {
				call, ok := i.(*ssa.Call)
				if !ok || !call.Call.IsInvoke() || call.Call.Method.Name() != "ReadAt" {
					continue
				}
				n++
				var cnt, errv ssa.Value
				if refs := call.Referrers(); refs != nil {
					for _, u := range *refs {
						if ex, ok := u.(*ssa.Extract); ok {
							if ex.Index == 0 {
								cnt = ex
							} else {
								errv = ex
							}
						}
					}
				}
				construct := "part-read"
				if errv == nil {
					c.R.Infof(rule, name(fn), construct, c.IPos(call), "not decided for this shape: the error of the part's ReadAt is not taken")
					continue
				}
				// blocks that test the error against io.EOF or the count against a length
				cut := map[ir.Edge]bool{}
				for _, bb := range fn.Blocks {
					ifi, ok := lastIf(bb)
					if !ok {
						continue
					}
					if mentionsEOFTest(ifi.Cond, errv, 0) || cnt != nil && mentionsCountTest(ifi.Cond, cnt, 0) {
						for _, s := range bb.Succs {
							cut[ir.Edge{From: bb.Index, To: s.Index}] = true
						}
					}
				}
				seen, _ := ir.Reach(fn, b, cut)
				bad := ""
				for _, r := range ir.Returns(fn) {
					if !seen[r.Block().Index] || len(r.Results) == 0 {
						continue
					}
					if derivesFromErr(r.Results[len(r.Results)-1], errv, 0) {
						bad = c.IPos(r)
					}
				}
				// the test may sit in the read's own block, in front of the branch
				if ifi, ok := lastIf(b); ok && (mentionsEOFTest(ifi.Cond, errv, 0) || cnt != nil && mentionsCountTest(ifi.Cond, cnt, 0)) {
					bad = ""
				}
				c.R.Check(bad == "", rule, name(fn), construct, c.IPos(call), what,
					"the return at "+bad+" hands on the part's error without any test of it against io.EOF or of the count against the length: a part that returns its last bytes together with io.EOF loses them, the copy into the hash ends there without an error and the digest is wrong")
			}
		}
	}
	if n == 0 {
		c.R.Infof(rule, "authenticode", "part-read", "-", "not decided for this shape: no ReadAt method of package authenticode reads from a part through an interface")
	}
}

func lastIf(b *ssa.BasicBlock) (*ssa.If, bool) {
	if len(b.Instrs) == 0 {
		return nil, false
	}
	ifi, ok := b.Instrs[len(b.Instrs)-1].(*ssa.If)
	return ifi, ok
}

// mentionsEOFTest: the condition compares the error with io.EOF (==, !=, errors.Is).
func mentionsEOFTest(v, errv ssa.Value, depth int) bool {
	if depth > 6 || v == nil {
		return false
	}
	isEOF := func(x ssa.Value) bool {
		x = ir.StripIface(x)
		ld, ok := x.(*ssa.UnOp)
		if !ok || ld.Op != token.MUL {
			return false
		}
		g, ok := ld.X.(*ssa.Global)
		return ok && g.Pkg != nil && g.Pkg.Pkg.Path() == "io" && g.Name() == "EOF"
	}
	switch x := v.(type) {
	case *ssa.BinOp:
		if x.Op == token.EQL || x.Op == token.NEQ {
			if (x.X == errv && isEOF(x.Y)) || (x.Y == errv && isEOF(x.X)) {
				return true
			}
		}
		return mentionsEOFTest(x.X, errv, depth+1) || mentionsEOFTest(x.Y, errv, depth+1)
	case *ssa.UnOp:
		return mentionsEOFTest(x.X, errv, depth+1)
	case *ssa.Call:
		if ir.CallID(x) == "errors.Is" && len(x.Call.Args) == 2 && x.Call.Args[0] == errv && isEOF(x.Call.Args[1]) {
			return true
		}
	case *ssa.Phi:
		for _, e := range x.Edges {
			if mentionsEOFTest(e, errv, depth+1) {
				return true
			}
		}
	}
	return false
}

// mentionsCountTest: the condition compares the count with a length (len(x), or a
// value of integer type that is not a constant zero).
func mentionsCountTest(v, cnt ssa.Value, depth int) bool {
	if depth > 6 || v == nil {
		return false
	}
	isCnt := func(x ssa.Value) bool { return ir.StripConv(x) == cnt }
	switch x := v.(type) {
	case *ssa.BinOp:
		switch x.Op {
		case token.EQL, token.NEQ, token.LSS, token.LEQ, token.GTR, token.GEQ:
			other := ssa.Value(nil)
			if isCnt(x.X) {
				other = x.Y
			} else if isCnt(x.Y) {
				other = x.X
			}
			if other != nil {
				if k, isK := ir.ConstInt(other); isK && k == 0 {
					return false
				}
				if _, isInt := other.Type().Underlying().(*types.Basic); isInt {
					return true
				}
			}
		}
		return mentionsCountTest(x.X, cnt, depth+1) || mentionsCountTest(x.Y, cnt, depth+1)
	case *ssa.UnOp:
		return mentionsCountTest(x.X, cnt, depth+1)
	case *ssa.Phi:
		for _, e := range x.Edges {
			if mentionsCountTest(e, cnt, depth+1) {
				return true
			}
		}
	}
	return false
}
