package rules

import "golang.org/x/tools/go/ssa"

func (c *Ctx) ruleR(rule string, in func(*ssa.Function) bool) int { return 0 }
