package rules

import (
	"fmt"
	"go/token"
	"go/types"
	"strings"

	"golang.org/x/tools/go/ssa"

	"verif/checker/internal/ir"
)

// Rule R (loop progress): every natural loop in decoder-reachable library code
// is (i) a range loop, (ii) a counted loop, or (iii) an input-consuming loop in
// which every cycle passes a consuming call whose failure / zero count leaves
// the loop. Anything else is UNDECIDED.

type natLoop struct {
	header *ssa.BasicBlock
	body   map[int]bool // block indices incl. header
}

func naturalLoops(fn *ssa.Function) []*natLoop {
	byHeader := map[int]*natLoop{}
	var order []*natLoop
	for _, b := range fn.Blocks {
		for _, s := range b.Succs {
			if s.Dominates(b) { // back edge b -> s
				l := byHeader[s.Index]
				if l == nil {
					l = &natLoop{header: s, body: map[int]bool{s.Index: true}}
					byHeader[s.Index] = l
					order = append(order, l)
				}
				// nodes that reach b without passing the header
				stack := []*ssa.BasicBlock{b}
				for len(stack) > 0 {
					x := stack[len(stack)-1]
					stack = stack[:len(stack)-1]
					if l.body[x.Index] {
						continue
					}
					l.body[x.Index] = true
					for _, p := range x.Preds {
						stack = append(stack, p)
					}
				}
			}
		}
	}
	return order
}

var consumingIDs = map[string]bool{
	"encoding/binary.Read": true, "io.ReadFull": true, "io.ReadAtLeast": true, "io.ReadAll": true, "io.CopyN": true,
	"io.Reader.Read": true, "io.ReaderAt.ReadAt": true, "bytes.Buffer.Read": true, "bytes.Reader.Read": true,
	"bytes.Buffer.ReadByte": true, "bytes.Reader.ReadByte": true, "bytes.Buffer.Next": true, "bytes.Buffer.ReadBytes": true,
	"github.com/spf13/afero.File.Read": true, M + "/authenticode.SizeReaderAt.ReadAt": true,
}

// consumers: repo functions all of whose successful returns passed a consuming
// call (fix-point), i.e. a nil-error return implies input was consumed.
func (c *Ctx) consumerFuncs() map[*ssa.Function]bool {
	if c.consumerCache != nil {
		return c.consumerCache
	}
	out := map[*ssa.Function]bool{}
	fns := c.P.LibFunctions()
	for changed := true; changed; {
		changed = false
		for _, fn := range fns {
			if out[fn] || len(fn.Blocks) == 0 {
				continue
			}
			// cut the blocks containing consuming calls; if a successful return is
			// still reachable from entry, the function may succeed without consuming
			cutBlocks := map[int]bool{}
			for _, b := range fn.Blocks {
				for _, i := range b.Instrs {
					if call, ok := i.(ssa.CallInstruction); ok && c.isConsumingCall(call, out) {
						cutBlocks[b.Index] = true
					}
				}
			}
			if len(cutBlocks) == 0 {
				continue
			}
			cut := map[ir.Edge]bool{}
			for _, b := range fn.Blocks {
				if cutBlocks[b.Index] {
					for _, s := range b.Succs {
						cut[ir.Edge{From: b.Index, To: s.Index}] = true
					}
				}
			}
			if cutBlocks[0] {
				out[fn] = true
				changed = true
				continue
			}
			// a range over a non-empty literal runs its body at least once: when the
			// body always consumes, the loop's exit edge is only taken after consuming
			for _, l := range naturalLoops(fn) {
				if n, ok := constRangeLen(l); ok && n >= 1 && bodyAlwaysPasses(fn, l, cutBlocks) {
					for _, sct := range l.header.Succs {
						if !l.body[sct.Index] {
							cut[ir.Edge{From: l.header.Index, To: sct.Index}] = true
						}
					}
				}
			}
			seen, _ := ir.Reach(fn, fn.Blocks[0], cut)
			ok := true
			for _, r := range ir.Returns(fn) {
				if !seen[r.Block().Index] || cutBlocks[r.Block().Index] {
					continue
				}
				if hasErrorResult(fn) && retClass(fn, r) == "fail" {
					continue
				}
				if boolFalseReturn(r) {
					continue
				}
				ok = false
			}
			if ok {
				out[fn] = true
				changed = true
			}
		}
	}
	c.consumerCache = out
	return out
}

func boolFalseReturn(r *ssa.Return) bool {
	if len(r.Results) == 0 {
		return false
	}
	k, ok := r.Results[0].(*ssa.Const)
	return ok && k.Value != nil && k.Value.String() == "false"
}

func (c *Ctx) isConsumingCall(call ssa.CallInstruction, consumers map[*ssa.Function]bool) bool {
	id := ir.CallID(call)
	if consumingIDs[id] {
		return true
	}
	if strings.HasPrefix(id, "golang.org/x/crypto/cryptobyte.String.Read") || strings.HasPrefix(id, "golang.org/x/crypto/cryptobyte.String.Skip") {
		return true
	}
	if call.Common().IsInvoke() && (call.Common().Method.Name() == "Read" || call.Common().Method.Name() == "ReadAt") {
		return true
	}
	if callee := ir.Callee(call); callee != nil && consumers[callee] {
		return true
	}
	return false
}

// failureExits: for a consuming call, the edges that signal "nothing consumed /
// failed" must leave the loop.
func (c *Ctx) failureExits(fn *ssa.Function, l *natLoop, call ssa.CallInstruction) (bool, string) {
	v, isVal := call.(*ssa.Call)
	if !isVal {
		return false, "consuming call in defer/go"
	}
	var results []ssa.Value
	if v.Referrers() != nil {
		for _, r := range *v.Referrers() {
			if ex, ok := r.(*ssa.Extract); ok {
				results = append(results, ex)
			}
		}
	}
	results = append(results, v)
	// with an error result the error is the failure channel: further boolean or
	// numeric results are data (e.g. "reached the end of this part")
	hasErrResult := false
	for _, res := range results {
		if isErrorType(res.Type()) {
			hasErrResult = true
		}
	}
	tested := false
	for _, b := range fn.Blocks {
		if !l.body[b.Index] || len(b.Succs) != 2 {
			continue
		}
		ifi, ok := b.Instrs[len(b.Instrs)-1].(*ssa.If)
		if !ok {
			continue
		}
		for _, res := range results {
			var failSucc *ssa.BasicBlock
			switch {
			case isErrorType(res.Type()):
				if e, nilWhenTrue, ok := ir.NilCheck(ifi.Cond); ok && sameErrValue(e, res) {
					failSucc = b.Succs[0]
					if nilWhenTrue {
						failSucc = b.Succs[1]
					}
				} else if e2, ok := isEOFTest(ifi.Cond); ok && sameErrValue(e2, res) {
					// an EOF test: the EOF edge must leave the loop too
					_, neg := ir.Peel(ifi.Cond)
					core, _ := ir.Peel(ifi.Cond)
					isEq := true
					if bo, ok := core.(*ssa.BinOp); ok && bo.Op == token.NEQ {
						isEq = false
					}
					if isEq != neg {
						failSucc = b.Succs[0]
					} else {
						failSucc = b.Succs[1]
					}
					// (does not count as the error test itself)
					// an io.EOF that came with a full read is progress (io.ReaderAt allows it at the
					// end of the data): the EOF edge may go round only through the true edge of a
					// comparison "count == length asked for"
					full := fullReadEdges(fn, l, results)
					behindFull := false
					for e := range full {
						if ir.EdgeDominates(fn, e, b) {
							behindFull = true // the EOF test itself sits behind "count == length"
						}
					}
					if !behindFull && c.staysInLoopEOF(fn, l, b, failSucc, res, full) {
						return false, "the io.EOF outcome of " + ir.CallID(call) + " continues the loop at " + c.Pos(ir.BlockPos(failSucc))
					}
					continue
				}
			case res.Type().String() == "bool" && !hasErrResult:
				core, neg := ir.Peel(ifi.Cond)
				if core == res {
					failSucc = b.Succs[1]
					if neg {
						failSucc = b.Succs[0]
					}
				}
			case isNumeric(res.Type()):
				// count result compared with 0
				// ... directly, or as the value the loop variable takes on the way round
				// (for n, _ := f.Read(b); n != 0; n, _ = f.Read(b))
				viaPhi := false
				if cmp, ok := ifi.Cond.(*ssa.BinOp); ok {
					if ph, isPhi := ir.StripConv(cmp.X).(*ssa.Phi); isPhi {
						for _, ed := range ph.Edges {
							if ir.StripConv(ed) == res {
								viaPhi = true
							}
						}
					}
				}
				if cmp, ok := ifi.Cond.(*ssa.BinOp); ok && (ir.StripConv(cmp.X) == res || viaPhi) {
					if k, isK := ir.ConstInt(cmp.Y); isK && k == 0 {
						switch cmp.Op {
						case token.EQL, token.LEQ:
							failSucc = b.Succs[0]
						case token.NEQ, token.GTR:
							failSucc = b.Succs[1]
						}
					}
				}
			}
			if failSucc == nil {
				continue
			}
			tested = true
			if c.staysInLoopOnEdge(fn, l, b, failSucc, ifi.Cond, failSucc == b.Succs[0]) {
				return false, "a failure outcome of " + ir.CallID(call) + " continues the loop at " + c.Pos(ir.BlockPos(failSucc))
			}
		}
	}
	if !tested {
		return false, "no result of " + ir.CallID(call) + " is tested inside the loop"
	}
	return true, ""
}

// staysInLoop: from block b the loop header is reachable without leaving the loop.
func (c *Ctx) staysInLoop(fn *ssa.Function, l *natLoop, b *ssa.BasicBlock) bool {
	if !l.body[b.Index] {
		return false
	}
	seen := map[int]bool{b.Index: true}
	stack := []*ssa.BasicBlock{b}
	for len(stack) > 0 {
		x := stack[len(stack)-1]
		stack = stack[:len(stack)-1]
		if x == l.header {
			return true
		}
		for _, s := range x.Succs {
			if l.body[s.Index] && !seen[s.Index] {
				seen[s.Index] = true
				stack = append(stack, s)
			}
		}
	}
	return false
}

// staysInLoopOnEdge: staysInLoop for the edge from -> to on which cond has the
// given truth, followed path by path with what is known about boolean values on
// the way: tests of the same comparison take the branch already decided, phis take
// the value of the edge they are entered through, and a path that arrives at the
// header with the loop condition decided to "leave" does not stay in the loop (a
// loop driven by a flag that the failure branch clears). Anything not decided
// counts as staying.
func (c *Ctx) staysInLoopOnEdge(fn *ssa.Function, l *natLoop, from, to *ssa.BasicBlock, cond ssa.Value, truth bool) bool {
	if !c.staysInLoop(fn, l, to) {
		return false
	}
	negOp := map[token.Token]token.Token{token.EQL: token.NEQ, token.NEQ: token.EQL, token.LSS: token.GEQ, token.GEQ: token.LSS, token.GTR: token.LEQ, token.LEQ: token.GTR}
	sameOperand := func(a, b ssa.Value) bool {
		a, b = ir.StripConv(a), ir.StripConv(b)
		if a == b {
			return true
		}
		ka, okA := ir.ConstInt(a)
		kb, okB := ir.ConstInt(b)
		return okA && okB && ka == kb
	}
	var eval func(v ssa.Value, env map[ssa.Value]bool, depth int) (bool, bool)
	eval = func(v ssa.Value, env map[ssa.Value]bool, depth int) (bool, bool) {
		if depth > 6 || v == nil {
			return false, false
		}
		if k, isK := v.(*ssa.Const); isK && k.Value != nil && isBoolType(k.Type()) {
			return k.Value.String() == "true", true
		}
		if val, known := env[v]; known {
			return val, true
		}
		switch x := v.(type) {
		case *ssa.UnOp:
			if x.Op == token.NOT {
				val, known := eval(x.X, env, depth+1)
				return !val, known
			}
		case *ssa.BinOp:
			for kv, val := range env {
				kb, isB := kv.(*ssa.BinOp)
				if !isB || !sameOperand(kb.X, x.X) || !sameOperand(kb.Y, x.Y) {
					continue
				}
				if kb.Op == x.Op {
					return val, true
				}
				if negOp[kb.Op] == x.Op && negOp[kb.Op] != token.ILLEGAL {
					return !val, true
				}
			}
		}
		return false, false
	}
	budget := 400
	var walk func(prev, b *ssa.BasicBlock, env map[ssa.Value]bool, onPath map[int]bool) bool
	walk = func(prev, b *ssa.BasicBlock, env map[ssa.Value]bool, onPath map[int]bool) bool {
		budget--
		if budget < 0 || !l.body[b.Index] {
			return budget < 0
		}
		env2 := map[ssa.Value]bool{}
		for k, v := range env {
			env2[k] = v
		}
		for _, i := range b.Instrs {
			ph, isPhi := i.(*ssa.Phi)
			if !isPhi {
				break
			}
			delete(env2, ph)
			for k, p := range b.Preds {
				if p == prev {
					if val, known := eval(ph.Edges[k], env, 0); known {
						env2[ph] = val
					}
				}
			}
		}
		var next []*ssa.BasicBlock
		if ifi, isIf := b.Instrs[len(b.Instrs)-1].(*ssa.If); isIf && len(b.Succs) == 2 {
			if val, known := eval(ifi.Cond, env2, 0); known {
				if val {
					next = []*ssa.BasicBlock{b.Succs[0]}
				} else {
					next = []*ssa.BasicBlock{b.Succs[1]}
				}
			}
		}
		if b == l.header {
			// arrived for the next round: does the loop condition let it begin?
			return !(len(next) == 1 && !l.body[next[0].Index])
		}
		if onPath[b.Index] {
			return true // an inner cycle: not followed
		}
		if next == nil {
			next = b.Succs
		}
		onPath[b.Index] = true
		defer delete(onPath, b.Index)
		for _, s := range next {
			if l.body[s.Index] && walk(b, s, env2, onPath) {
				return true
			}
		}
		return false
	}
	return walk(from, to, map[ssa.Value]bool{cond: truth}, map[int]bool{})
}

func (c *Ctx) classifyLoop(fn *ssa.Function, l *natLoop) (class string, ok bool, detail string) {
	// (i) range loops: a Next instruction or the rangeindex idiom (phi i = [-1, i+1], i+1 < len)
	for _, b := range fn.Blocks {
		if !l.body[b.Index] {
			continue
		}
		for _, i := range b.Instrs {
			if _, isNext := i.(*ssa.Next); isNext {
				return "range", true, ""
			}
		}
	}
	// counted loop: header (or a body block) ends in If on a comparison one side of
	// which is/derives from a header phi whose back-edge value is phi +/- positive const
	for _, i := range l.header.Instrs {
		phi, isPhi := i.(*ssa.Phi)
		if !isPhi || !isNumeric(phi.Type()) {
			continue
		}
		step := int64(0)
		for k, e := range phi.Edges {
			if !l.body[l.header.Preds[k].Index] {
				continue
			}
			if bo, ok := ir.StripConv(e).(*ssa.BinOp); ok && (bo.Op == token.ADD || bo.Op == token.SUB) && ir.StripConv(bo.X) == ssa.Value(phi) {
				if n, isK := ir.ConstInt(bo.Y); isK && n != 0 {
					step = n
					if bo.Op == token.SUB {
						step = -n
					}
				}
			} else {
				step = 0
				break
			}
		}
		if step == 0 {
			continue
		}
		// some exit test of the loop compares (a value derived from) phi
		for _, b := range fn.Blocks {
			if !l.body[b.Index] || len(b.Succs) != 2 {
				continue
			}
			exits := !l.body[b.Succs[0].Index] || !l.body[b.Succs[1].Index]
			ifi, isIf := b.Instrs[len(b.Instrs)-1].(*ssa.If)
			if !exits || !isIf {
				continue
			}
			if cmp, ok := ifi.Cond.(*ssa.BinOp); ok {
				lx, ly := leafSet(cmp.X), leafSet(cmp.Y)
				_, inX := lx[resolvedPath(phi)]
				_, inY := ly[resolvedPath(phi)]
				bo, _ := phiNext(phi, l)
				if bo != nil {
					_, nx := lx[resolvedPath(bo)]
					_, ny := ly[resolvedPath(bo)]
					inX, inY = inX || nx, inY || ny
				}
				if inX || inY {
					return "counted", true, ""
				}
			}
		}
	}
	// (iii) consuming loop
	consumers := c.consumerFuncs()
	var calls []ssa.CallInstruction
	cutBlocks := map[int]bool{}
	for _, b := range fn.Blocks {
		if !l.body[b.Index] {
			continue
		}
		for _, i := range b.Instrs {
			if call, ok := i.(ssa.CallInstruction); ok && c.isConsumingCall(call, consumers) {
				calls = append(calls, call)
				cutBlocks[b.Index] = true
			}
		}
	}
	if len(calls) == 0 {
		if cls, ok, why, is := c.shrinkingSliceLoop(fn, l); is {
			return cls, ok, why
		}
		// loop over a buffer length: for x.Len() != 0 { x.Read(...) } handled above as consuming; nothing here
		return "unknown", false, "loop is neither a range loop, a counted loop nor an input-consuming loop"
	}
	// every cycle passes a consuming block: removing them leaves no path header -> header
	if !cutBlocks[l.header.Index] {
		seen := map[int]bool{}
		stack := []*ssa.BasicBlock{}
		for _, s := range l.header.Succs {
			if l.body[s.Index] && !cutBlocks[s.Index] {
				stack = append(stack, s)
			}
		}
		for len(stack) > 0 {
			x := stack[len(stack)-1]
			stack = stack[:len(stack)-1]
			if seen[x.Index] {
				continue
			}
			seen[x.Index] = true
			if x == l.header {
				return "consuming", false, "a cycle of the loop passes no input-consuming call"
			}
			for _, s := range x.Succs {
				if l.body[s.Index] && !cutBlocks[s.Index] {
					stack = append(stack, s)
				}
			}
		}
	}
	// progress by a length test on the same buffer: for b.Len() != 0 { b.Read(..) }
	if c.lenGuardedBufferLoop(fn, l, calls) {
		return "consuming(len-guarded)", true, ""
	}
	// it suffices that every cycle passes a consuming call whose failure leaves the
	// loop; other consuming calls whose results are ignored (padding skips) do not matter
	good := map[int]bool{}
	why := ""
	for _, call := range calls {
		if ok, w := c.failureExits(fn, l, call); ok {
			good[call.Block().Index] = true
		} else if why == "" || strings.Contains(w, "continues the loop") {
			why = w
		}
	}
	if len(good) > 0 && bodyAlwaysPasses(fn, l, good) {
		// but an outcome that is *tested* and continues the loop on failure is a stall
		if strings.Contains(why, "continues the loop") {
			return "consuming", false, why
		}
		return "consuming", true, ""
	}
	if why == "" {
		why = "no cycle-covering consuming call whose failure leaves the loop"
	}
	return "consuming", false, why
}

func phiNext(phi *ssa.Phi, l *natLoop) (*ssa.BinOp, bool) {
	for k, e := range phi.Edges {
		if l.body[phi.Block().Preds[k].Index] {
			if bo, ok := ir.StripConv(e).(*ssa.BinOp); ok {
				return bo, true
			}
		}
	}
	return nil, false
}

// lenGuardedBufferLoop: the loop's exit test is x.Len() != 0 / > 0 (or Empty())
// on an in-memory buffer x, and a consuming method on the same x is called on
// every cycle (bytes.Buffer/bytes.Reader/cryptobyte reads consume when Len() > 0).
func (c *Ctx) lenGuardedBufferLoop(fn *ssa.Function, l *natLoop, calls []ssa.CallInstruction) bool {
	for _, b := range fn.Blocks {
		if !l.body[b.Index] || len(b.Succs) != 2 {
			continue
		}
		ifi, isIf := b.Instrs[len(b.Instrs)-1].(*ssa.If)
		if !isIf {
			continue
		}
		var lenCall *ssa.Call
		if cmp, ok := ifi.Cond.(*ssa.BinOp); ok {
			if lc, ok := ir.StripConv(cmp.X).(*ssa.Call); ok {
				lenCall = lc
			}
		}
		if lenCall == nil {
			continue
		}
		id := ir.CallID(lenCall)
		if id != "bytes.Buffer.Len" && id != "bytes.Reader.Len" {
			continue
		}
		recv := resolvedPath(lenCall.Call.Args[0])
		for _, call := range calls {
			cid := ir.CallID(call)
			if strings.HasPrefix(cid, "bytes.Buffer.Read") || strings.HasPrefix(cid, "bytes.Reader.Read") || cid == "bytes.Buffer.Next" {
				if resolvedPath(call.Common().Args[0]) == recv {
					return true
				}
			}
			// a library helper that consumes from the same buffer on every call
			if callee := ir.Callee(call); callee != nil && c.P.InLib(callee) && c.consumerFuncs()[callee] {
				for _, a := range call.Common().Args {
					if resolvedPath(a) == recv {
						return true
					}
				}
			}
		}
	}
	return false
}

func (c *Ctx) ruleR(rule string, in func(*ssa.Function) bool) int {
	n := 0
	counts := map[string]int{}
	for _, fn := range c.P.LibFunctions() {
		if in != nil && !in(fn) {
			continue
		}
		for _, l := range naturalLoops(fn) {
			n++
			class, ok, detail := c.classifyLoop(fn, l)
			key := ordinalKey(counts, name(fn)+":loop")
			construct := strings.TrimPrefix(key, name(fn)+":")
			pos := c.Pos(ir.BlockPos(l.header))
			what := fmt.Sprintf("loop must make progress on every iteration (class: %s)", class)
			o := reportObl(rule, name(fn), construct, pos, what, "ok")
			o.Trivial = class == "range" || class == "counted"
			switch {
			case ok:
			case class == "unknown":
				// termination of an arbitrary loop is not decided by this rule
				o.Status, o.What = "info", "not decided for this shape: "+detail
			default:
				o.Status, o.Detail = "violation", detail
			}
			c.R.Add(o)
		}
	}
	return n
}

// constRangeLen recognises the lowered `for range <literal of N elements>` loop
// and returns N.
func constRangeLen(l *natLoop) (int64, bool) {
	if len(l.header.Instrs) == 0 {
		return 0, false
	}
	ifi, ok := l.header.Instrs[len(l.header.Instrs)-1].(*ssa.If)
	if !ok {
		return 0, false
	}
	cmp, ok := ifi.Cond.(*ssa.BinOp)
	if !ok || cmp.Op != token.LSS {
		return 0, false
	}
	// left side: phi + 1 where phi starts at -1
	inc, ok := cmp.X.(*ssa.BinOp)
	if !ok || inc.Op != token.ADD {
		return 0, false
	}
	phi, ok := inc.X.(*ssa.Phi)
	if !ok || phi.Block() != l.header {
		return 0, false
	}
	start := false
	for k, e := range phi.Edges {
		if !l.body[l.header.Preds[k].Index] {
			if n, isK := ir.ConstInt(e); isK && n == -1 {
				start = true
			}
		}
	}
	if !start {
		return 0, false
	}
	if n, isK := ir.ConstInt(cmp.Y); isK {
		return n, true
	}
	if lc, ok := cmp.Y.(*ssa.Call); ok && ir.CallID(lc) == "builtin.len" {
		if n, ok := byteLen(lc.Call.Args[0]); ok {
			return n, true
		}
		if sl, ok := lc.Call.Args[0].(*ssa.Slice); ok && sl.Low == nil && sl.High == nil {
			if n, ok := byteLenAny(sl.X); ok {
				return n, true
			}
		}
	}
	return 0, false
}

// bodyAlwaysPasses: every path header -> header inside the loop passes a block of set.
func bodyAlwaysPasses(fn *ssa.Function, l *natLoop, set map[int]bool) bool {
	if set[l.header.Index] {
		return true
	}
	seen := map[int]bool{}
	var stack []*ssa.BasicBlock
	for _, s := range l.header.Succs {
		if l.body[s.Index] && !set[s.Index] {
			stack = append(stack, s)
		}
	}
	for len(stack) > 0 {
		x := stack[len(stack)-1]
		stack = stack[:len(stack)-1]
		if seen[x.Index] {
			continue
		}
		seen[x.Index] = true
		if x == l.header {
			return false
		}
		for _, s := range x.Succs {
			if l.body[s.Index] && !set[s.Index] {
				stack = append(stack, s)
			}
		}
	}
	return true
}

// ruleLoopAlias: inside a loop, the address of a variable that lives outside
// the loop is retained (stored into a collection, a field or another cell)
// while the variable is reassigned on every iteration. All retained pointers
// then denote one object: every element of the result equals the last one.
func (c *Ctx) ruleLoopAlias(rule string, in func(*ssa.Function) bool) int {
	n := 0
	counts := map[string]int{}
	for _, fn := range c.P.LibFunctions() {
		if in != nil && !in(fn) {
			continue
		}
		loops := naturalLoops(fn)
		if len(loops) == 0 {
			continue
		}
		for _, l := range loops {
			n++
			bad := ""
			for bi := range l.body {
				for _, ins := range fn.Blocks[bi].Instrs {
					st, ok := ins.(*ssa.Store)
					if !ok {
						continue
					}
					a, isA := st.Val.(*ssa.Alloc)
					if !isA || a.Block() == nil || l.body[a.Block().Index] {
						continue // not an address, or a per-iteration variable
					}
					if _, isPtrToStruct := a.Type().Underlying().(*types.Pointer); !isPtrToStruct {
						continue
					}
					// the variable is written inside the loop
					written := false
					for _, r := range *a.Referrers() {
						if ws, isSt := r.(*ssa.Store); isSt && ws.Addr == ssa.Value(a) && l.body[ws.Block().Index] {
							written = true
						}
					}
					if written {
						bad = "the address of " + a.Comment + " (declared outside the loop, assigned on every iteration) is retained at " + c.IPos(st)
					}
				}
			}
			// a function literal made in the loop that captures such a variable and is kept
			// for later (stored, appended) instead of being called or handed on at once sees
			// the variable's last value when it finally runs
			for bi := range l.body {
				for _, ins := range fn.Blocks[bi].Instrs {
					mk, ok := ins.(*ssa.MakeClosure)
					if !ok || mk.Referrers() == nil {
						continue
					}
					kept := false
					for _, r := range *mk.Referrers() {
						switch y := r.(type) {
						case *ssa.Store:
							if y.Val == ssa.Value(mk) {
								kept = true
							}
						case *ssa.MakeInterface:
							kept = true
						}
					}
					if !kept {
						continue
					}
					for _, bnd := range mk.Bindings {
						a, isA := bnd.(*ssa.Alloc)
						if !isA || a.Block() == nil || l.body[a.Block().Index] {
							continue
						}
						for _, r := range *a.Referrers() {
							if ws, isSt := r.(*ssa.Store); isSt && ws.Addr == ssa.Value(a) && l.body[ws.Block().Index] {
								bad = "the function literal kept at " + c.IPos(mk) + " captures " + a.Comment + " (one variable for the whole loop, assigned on every iteration)"
							}
						}
					}
				}
			}
			key := ordinalKey(counts, name(fn)+":loop")
			c.R.Check(bad == "", rule, name(fn), strings.TrimPrefix(key, name(fn)+":"), c.Pos(ir.BlockPos(l.header)),
				"pointers collected in a loop denote distinct objects", bad+": every retained pointer aliases the same object, so all collected elements equal the last one")
		}
	}
	return n
}

// shrinkingSliceLoop: for len(x) > 0 { ...; x = rest }. The loop makes progress
// if every value carried back into x is a strictly shorter suffix of x. A suffix
// cut at a positive constant is; the "rest" result of encoding/pem.Decode is only
// when a block was found (without one it is the whole input), so the back edge
// must lie behind block != nil.
func (c *Ctx) shrinkingSliceLoop(fn *ssa.Function, l *natLoop) (class string, ok bool, why string, is bool) {
	for _, in := range l.header.Instrs {
		phi, isPhi := in.(*ssa.Phi)
		if !isPhi {
			break
		}
		if _, isSlice := phi.Type().Underlying().(*types.Slice); !isSlice {
			continue
		}
		// the exit test is on len(phi)
		tested := false
		for bi := range l.body {
			b := fn.Blocks[bi]
			if len(b.Succs) != 2 {
				continue
			}
			ifi, isIf := b.Instrs[len(b.Instrs)-1].(*ssa.If)
			if !isIf || l.body[b.Succs[0].Index] && l.body[b.Succs[1].Index] {
				continue
			}
			if cmp, isCmp := ifi.Cond.(*ssa.BinOp); isCmp {
				for _, side := range []ssa.Value{cmp.X, cmp.Y} {
					if lc, isC := ir.StripConv(side).(*ssa.Call); isC && ir.CallID(lc) == "builtin.len" && lc.Call.Args[0] == ssa.Value(phi) {
						tested = true
					}
				}
			}
		}
		if !tested {
			continue
		}
		for k, e := range phi.Edges {
			pred := phi.Block().Preds[k]
			if !l.body[pred.Index] {
				continue
			}
			switch x := e.(type) {
			case *ssa.Slice:
				if x.X == ssa.Value(phi) && x.Low != nil {
					if n, isK := ir.ConstInt(x.Low); isK && n > 0 {
						continue
					}
				}
				return "unknown", false, "", false
			case *ssa.Extract:
				call, isC := x.Tuple.(*ssa.Call)
				if !isC || ir.CallID(call) != "encoding/pem.Decode" || x.Index != 1 || call.Call.Args[0] != ssa.Value(phi) {
					return "unknown", false, "", false
				}
				// the edge must be taken only when a block was found
				guarded := false
				for _, ce := range ir.DominatingConds(fn, pred) {
					if v, nilWhenTrue, isNC := ir.NilCheck(ce.RawCond); isNC && ce.RawTruth != nilWhenTrue {
						if bx, isE := v.(*ssa.Extract); isE && bx.Tuple == ssa.Value(call) && bx.Index == 0 {
							guarded = true
						}
					}
				}
				if !guarded {
					return "shrinking", false, "the loop continues with the rest returned by encoding/pem.Decode also when no block was found: then the rest is the whole input and the loop never ends", true
				}
			default:
				return "unknown", false, "", false
			}
		}
		return "shrinking", true, "", true
	}
	return "", false, "", false
}

// ruleLockPairing (R.lock): every path from a Lock to an exit of the function
// releases the lock (directly or by a deferred Unlock). A return taken with
// the mutex held blocks every later operation on the object for ever.
func (c *Ctx) ruleLockPairing(rule string, in func(*ssa.Function) bool) int {
	n := 0
	counts := map[string]int{}
	lockOf := func(call ssa.CallInstruction) (kind, obj string) {
		id := ir.CallID(call)
		switch id {
		case "sync.Mutex.Lock", "sync.RWMutex.Lock", "sync.RWMutex.RLock":
			kind = "lock"
		case "sync.Mutex.Unlock", "sync.RWMutex.Unlock", "sync.RWMutex.RUnlock":
			kind = "unlock"
		default:
			return "", ""
		}
		args := ir.CallArgs(call)
		if len(args) == 0 {
			return "", ""
		}
		return kind, lockKey(ir.StripConv(args[0]), 0)
	}
	for _, fn := range c.P.LibFunctions() {
		if in != nil && !in(fn) || fn.Blocks == nil {
			continue
		}
		deferred := map[string]bool{}
		instrsOf(fn, func(i ssa.Instruction) {
			if d, ok := i.(*ssa.Defer); ok {
				if k, o := lockOf(d); k == "unlock" {
					deferred[o] = true
				}
				// defer func() { mu.Unlock() }()
				if mc, ok := d.Call.Value.(*ssa.MakeClosure); ok {
					if lit, ok := mc.Fn.(*ssa.Function); ok {
						instrsOf(lit, func(j ssa.Instruction) {
							if cj, ok := j.(ssa.CallInstruction); ok {
								if k, _ := lockOf(cj); k == "unlock" {
									deferred["*"] = true
								}
							}
						})
					}
				}
			}
		})
		for _, b := range fn.Blocks {
			for idx, i := range b.Instrs {
				call, ok := i.(*ssa.Call)
				if !ok {
					continue
				}
				k, obj := lockOf(call)
				if k != "lock" {
					continue
				}
				n++
				key := ordinalKey(counts, name(fn)+":lock:"+obj)
				construct := strings.TrimPrefix(key, name(fn)+":")
				if deferred[obj] || deferred["*"] {
					c.R.Okf(rule, name(fn), construct, c.IPos(call), "the lock is released by a deferred Unlock")
					continue
				}
				unlocksIn := func(bb *ssa.BasicBlock, from int) bool {
					for _, j := range bb.Instrs[from:] {
						if cj, ok := j.(ssa.CallInstruction); ok {
							if _, isDefer := j.(*ssa.Defer); isDefer {
								continue
							}
							if kk, oo := lockOf(cj); kk == "unlock" && oo == obj {
								return true
							}
						}
					}
					return false
				}
				bad := ""
				if !unlocksIn(b, idx+1) {
					seen := map[int]bool{b.Index: true}
					q := []*ssa.BasicBlock{}
					if _, isRet := b.Instrs[len(b.Instrs)-1].(*ssa.Return); isRet {
						bad = c.IPos(b.Instrs[len(b.Instrs)-1])
					}
					q = append(q, b.Succs...)
					for len(q) > 0 && bad == "" {
						cur := q[0]
						q = q[1:]
						if seen[cur.Index] {
							continue
						}
						seen[cur.Index] = true
						if unlocksIn(cur, 0) {
							continue
						}
						if r, isRet := cur.Instrs[len(cur.Instrs)-1].(*ssa.Return); isRet {
							bad = c.IPos(r)
							break
						}
						q = append(q, cur.Succs...)
					}
				}
				c.R.Check(bad == "", rule, name(fn), construct, c.IPos(call), "every path from Lock to a return releases the lock",
					"the return at "+bad+" is reachable from the Lock without an Unlock of "+obj+": the next operation that takes the lock blocks for ever")
			}
		}
	}
	return n
}

// lockKey names the object a mutex address denotes by its access path from a
// parameter, global or local (two FieldAddr instructions of the same field of
// the same object get the same key).
func lockKey(v ssa.Value, depth int) string {
	if depth > 8 {
		return v.Name()
	}
	switch x := v.(type) {
	case *ssa.FieldAddr:
		f := ir.FieldOf(x)
		nm := "?"
		if f != nil {
			nm = f.Name()
		}
		return lockKey(x.X, depth+1) + "." + nm
	case *ssa.UnOp:
		return lockKey(x.X, depth+1)
	case *ssa.Parameter:
		return x.Name()
	case *ssa.FreeVar:
		return x.Name()
	case *ssa.Global:
		return x.Name()
	case *ssa.Alloc:
		return x.Comment + ":" + x.Name()
	}
	return v.Name()
}

// fullReadEdges: the edges inside the loop on which the count result of the call
// equals a length (count == len(buf), count >= len(buf), count == n with n an
// integer that is not a constant).
func fullReadEdges(fn *ssa.Function, l *natLoop, results []ssa.Value) map[ir.Edge]bool {
	out := map[ir.Edge]bool{}
	var cnt ssa.Value
	for _, r := range results {
		if ex, ok := r.(*ssa.Extract); ok && isNumeric(ex.Type()) {
			cnt = ex
		}
	}
	if cnt == nil {
		return out
	}
	for _, b := range fn.Blocks {
		if !l.body[b.Index] || len(b.Succs) != 2 {
			continue
		}
		ifi, ok := b.Instrs[len(b.Instrs)-1].(*ssa.If)
		if !ok {
			continue
		}
		cmp, ok := ifi.Cond.(*ssa.BinOp)
		if !ok {
			continue
		}
		x, y := ir.StripConv(cmp.X), ir.StripConv(cmp.Y)
		op := cmp.Op
		if y == cnt {
			x, y = y, x
			switch op {
			case token.LSS:
				op = token.GTR
			case token.GTR:
				op = token.LSS
			case token.LEQ:
				op = token.GEQ
			case token.GEQ:
				op = token.LEQ
			}
		}
		if x != cnt {
			continue
		}
		if _, isK := ir.ConstInt(y); isK {
			continue
		}
		switch op {
		case token.EQL, token.GEQ:
			out[ir.Edge{From: b.Index, To: b.Succs[0].Index}] = true
		case token.NEQ, token.LSS:
			out[ir.Edge{From: b.Index, To: b.Succs[1].Index}] = true
		}
	}
	return out
}

// staysInLoopCut: staysInLoop with the given edges taken out.
func (c *Ctx) staysInLoopCut(fn *ssa.Function, l *natLoop, b *ssa.BasicBlock, cut map[ir.Edge]bool) bool {
	if !l.body[b.Index] {
		return false
	}
	seen := map[int]bool{b.Index: true}
	stack := []*ssa.BasicBlock{b}
	for len(stack) > 0 {
		x := stack[len(stack)-1]
		stack = stack[:len(stack)-1]
		if x == l.header {
			return true
		}
		for _, s := range x.Succs {
			if cut[ir.Edge{From: x.Index, To: s.Index}] {
				continue
			}
			if l.body[s.Index] && !seen[s.Index] {
				seen[s.Index] = true
				stack = append(stack, s)
			}
		}
	}
	return false
}

// staysInLoopEOF: can the loop go round from the edge from->to on which the error
// errv is known to be io.EOF (non-nil), without crossing one of the cut edges?
// Followed path by path: a nil test of the error - directly or through a phi that
// takes the error's value on the edge it is entered by - can only take its non-nil
// branch; where the phi takes the constant nil (the error was cleared on that
// path) only the nil branch.
func (c *Ctx) staysInLoopEOF(fn *ssa.Function, l *natLoop, from, to *ssa.BasicBlock, errv ssa.Value, cut map[ir.Edge]bool) bool {
	type st struct{ b, pred int }
	seen := map[st]bool{}
	var walk func(b, pred *ssa.BasicBlock) bool
	walk = func(b, pred *ssa.BasicBlock) bool {
		if !l.body[b.Index] {
			return false
		}
		if b == l.header {
			return true
		}
		k := st{b.Index, pred.Index}
		if seen[k] {
			return false
		}
		seen[k] = true
		succs := b.Succs
		if len(b.Succs) == 2 {
			if ifi, ok := b.Instrs[len(b.Instrs)-1].(*ssa.If); ok {
				if e, nilWhenTrue, ok := ir.NilCheck(ifi.Cond); ok {
					val := e
					if ph, isPhi := e.(*ssa.Phi); isPhi && ph.Block() == b {
						for i, p := range b.Preds {
							if p == pred && i < len(ph.Edges) {
								val = ph.Edges[i]
							}
						}
					}
					nonNil, isNil := sameErrValue(val, errv), ir.IsNilConst(val)
					switch {
					case nonNil && nilWhenTrue, isNil && !nilWhenTrue:
						succs = []*ssa.BasicBlock{b.Succs[1]}
					case nonNil && !nilWhenTrue, isNil && nilWhenTrue:
						succs = []*ssa.BasicBlock{b.Succs[0]}
					}
				}
			}
		}
		for _, s := range succs {
			if cut[ir.Edge{From: b.Index, To: s.Index}] {
				continue
			}
			if walk(s, b) {
				return true
			}
		}
		return false
	}
	if cut[ir.Edge{From: from.Index, To: to.Index}] {
		return false
	}
	return walk(to, from)
}
