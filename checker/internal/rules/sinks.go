package rules

import (
	"fmt"
	"go/token"
	"go/types"
	"strings"

	"golang.org/x/tools/go/ssa"

	"verif/checker/internal/ir"
)

// Rule family T: input-derived values reaching allocation / unsigned
// subtraction / range-checked library call / index sinks need a dominating
// check. This is a missing-check rule: it proves that a check relating the
// value to its bound dominates the sink on every path; it does not prove the
// check's arithmetic adequate.

type sink struct {
	kind     string // T1 make, T2 usub, T3 rangecall, T3 slice, T4 lastindex, T5 index
	fn       *ssa.Function
	instr    ssa.Instruction
	subjects []ssa.Value // values that must be related by a guard
	desc     string
	role     string // construct role used in the key
	dir      string // "upper" (subject must be bounded above), "rel" (any relation among subjects/const), "nonempty"
}

// resolvedPath is AccessPath with closure free variables resolved to the
// captured cell of the parent, so guards in the parent match uses in the closure.
func resolvedPath(v ssa.Value) string {
	p := ir.AccessPath(v)
	v0 := ir.StripConv(v)
	// rewrite a leading free:<name> to the binding's path
	root := ir.RootOf(v0)
	if fv, ok := root.(*ssa.FreeVar); ok {
		if cell := cellOf(fv); cell != nil && cell != ssa.Value(fv) {
			old := "free:" + fv.Name()
			var neu string
			switch c := cell.(type) {
			case *ssa.Alloc:
				neu = "alloc:" + fnReg(c)
			case *ssa.Global:
				neu = "global:" + c.String()
			default:
				neu = old
			}
			p = strings.Replace(p, old, neu, 1)
		}
	}
	return p
}

func fnReg(v ssa.Value) string {
	fn := ""
	if v.Parent() != nil {
		fn = v.Parent().Name()
	}
	return fmt.Sprintf("%s/%s", fn, v.Name())
}

// arithLeaves returns the access paths of the leaves of the arithmetic
// expression v (through + - * / % << >> & | conversions and phis of depth 1).
func arithLeaves(v ssa.Value, out map[string]ssa.Value, depth int) {
	if v == nil || depth > 8 {
		return
	}
	v = ir.StripConv(v)
	out[resolvedPath(v)] = v
	switch x := v.(type) {
	case *ssa.BinOp:
		switch x.Op {
		case token.EQL, token.NEQ, token.LSS, token.LEQ, token.GTR, token.GEQ:
			return
		}
		arithLeaves(x.X, out, depth+1)
		arithLeaves(x.Y, out, depth+1)
	case *ssa.UnOp:
		if x.Op == token.SUB || x.Op == token.XOR {
			arithLeaves(x.X, out, depth+1)
		}
	case *ssa.Call:
		// len(x), x.Len(), x.Size(): identify by receiver path
		id := ir.CallID(x)
		if id == "builtin.len" || id == "builtin.cap" {
			out["len("+resolvedPath(x.Call.Args[0])+")"] = x
		} else if strings.HasSuffix(id, ".Len") || strings.HasSuffix(id, ".Size") {
			args := ir.CallArgs(x)
			if len(args) > 0 {
				out["len("+resolvedPath(args[0])+")"] = x
			}
		}
	}
}

func leafSet(v ssa.Value) map[string]ssa.Value {
	m := map[string]ssa.Value{}
	arithLeaves(v, m, 0)
	return m
}

func intersects(a, b map[string]ssa.Value) bool {
	for k := range a {
		if strings.HasPrefix(k, "const:") {
			continue
		}
		if _, ok := b[k]; ok {
			return true
		}
	}
	return false
}

// guardFacts collects the comparison conditions that hold at instruction i:
// those dominating it inside its function, and — for a closure — those
// dominating every MakeClosure/call site of it in the enclosing functions.
type guardFact struct {
	cmp   *ssa.BinOp
	truth bool // the comparison's value on the dominating edge
	where string
}

func (c *Ctx) guardFacts(fn *ssa.Function, b *ssa.BasicBlock) []guardFact {
	var out []guardFact
	for _, ce := range ir.DominatingConds(fn, b) {
		if cmp, ok := ce.Cond.(*ssa.BinOp); ok {
			switch cmp.Op {
			case token.EQL, token.NEQ, token.LSS, token.LEQ, token.GTR, token.GEQ:
				out = append(out, guardFact{cmp, ce.Truth, name(fn)})
			}
		}
	}
	if parent := fn.Parent(); parent != nil {
		// closure: the facts that hold where it is created hold inside it as
		// long as they concern captured cells that are not reassigned later;
		// we require them to dominate the MakeClosure instruction.
		for _, f := range withAnon(topFn(fn)) {
			instrsOf(f, func(i ssa.Instruction) {
				if mc, ok := i.(*ssa.MakeClosure); ok && mc.Fn == fn {
					out = append(out, c.guardFacts(f, mc.Block())...)
				}
			})
		}
	}
	return out
}

// callSiteFacts: for a parameter subject, facts that hold at every in-repo
// call site about the corresponding argument. Returns per call site the facts
// with the argument's leaves.
func (c *Ctx) paramGuarded(fn *ssa.Function, p *ssa.Parameter, pred func(g guardFact, subj map[string]ssa.Value) bool) (bool, string) {
	n := c.P.CallGraph().Nodes[fn]
	if n == nil || len(n.In) == 0 {
		return false, ""
	}
	idx := -1
	for i, q := range fn.Params {
		if q == p {
			idx = i
		}
	}
	sites := 0
	for _, e := range n.In {
		if e.Site == nil || !c.P.InModule(e.Caller.Func) {
			continue
		}
		// only library callers count; cmd/ and tests are clients
		if !c.P.InLib(e.Caller.Func) {
			continue
		}
		args := ir.CallArgs(e.Site)
		if idx < 0 || idx >= len(args) {
			return false, ""
		}
		sites++
		subj := leafSet(args[idx])
		// a constant argument needs no guard
		if _, isConst := ir.StripConv(args[idx]).(*ssa.Const); isConst {
			continue
		}
		if c.taint().Why(args[idx]) == "" {
			continue
		}
		ok := false
		for _, g := range c.guardFacts(e.Caller.Func, e.Site.Block()) {
			if pred(g, subj) {
				ok = true
				break
			}
		}
		if !ok {
			return false, fmt.Sprintf("call site %s in %s passes an unchecked input-derived value", c.IPos(e.Site), name(e.Caller.Func))
		}
	}
	return sites > 0, ""
}

// upperBounded: on the taken edge the subject is bounded from above (or fixed).
func upperBound(g guardFact, subj map[string]ssa.Value) bool {
	lx, ly := leafSet(g.cmp.X), leafSet(g.cmp.Y)
	onX, onY := intersects(lx, subj), intersects(ly, subj)
	if !onX && !onY {
		return false
	}
	op := g.cmp.Op
	if !g.truth {
		op = negate(op)
	}
	switch op {
	case token.EQL:
		return true
	case token.LSS, token.LEQ:
		return onX // subj < bound
	case token.GTR, token.GEQ:
		return onY // bound > subj
	}
	return false
}

func negate(op token.Token) token.Token {
	switch op {
	case token.EQL:
		return token.NEQ
	case token.NEQ:
		return token.EQL
	case token.LSS:
		return token.GEQ
	case token.LEQ:
		return token.GTR
	case token.GTR:
		return token.LEQ
	case token.GEQ:
		return token.LSS
	}
	return op
}

// relates: the comparison mentions the subject at all, and if it is exactly
// "a OP b" for the two operands of a subtraction a-b, its direction is a>=b.
func relatesSub(a, b ssa.Value) func(g guardFact, subj map[string]ssa.Value) bool {
	la, lb := leafSet(a), leafSet(b)
	_, bConst := ir.ConstInt(ir.StripConv(b))
	return func(g guardFact, subj map[string]ssa.Value) bool {
		lx, ly := leafSet(g.cmp.X), leafSet(g.cmp.Y)
		op := g.cmp.Op
		if !g.truth {
			op = negate(op)
		}
		aX, aY := intersects(lx, la), intersects(ly, la)
		bX, bY := intersects(lx, lb), intersects(ly, lb)
		_, yConst := ir.ConstInt(ir.StripConv(g.cmp.Y))
		_, xConst := ir.ConstInt(ir.StripConv(g.cmp.X))
		if bConst {
			bX, bY = xConst, yConst
		}
		switch {
		case aX && bY: // a OP b
			return op == token.GEQ || op == token.GTR || op == token.EQL || op == token.NEQ && yConst
		case aY && bX: // b OP a
			return op == token.LEQ || op == token.LSS || op == token.EQL || op == token.NEQ && xConst
		case aX && yConst || aY && xConst:
			// a compared with some constant: accept lower bounds and equalities
			if aX {
				return op == token.GEQ || op == token.GTR || op == token.EQL || op == token.NEQ
			}
			return op == token.LEQ || op == token.LSS || op == token.EQL || op == token.NEQ
		}
		return false
	}
}

func mentions(g guardFact, subj map[string]ssa.Value) bool {
	return intersects(leafSet(g.cmp.X), subj) || intersects(leafSet(g.cmp.Y), subj)
}

// collectSinks enumerates sinks in library functions.
func (c *Ctx) collectSinks() []*sink {
	t := c.taint()
	var out []*sink
	for _, fn := range c.P.LibFunctions() {
		fn := fn
		instrsOf(fn, func(i ssa.Instruction) {
			switch x := i.(type) {
			case *ssa.MakeSlice:
				out = append(out, &sink{kind: "T1", fn: fn, instr: i, subjects: []ssa.Value{x.Len, x.Cap}, role: "make", dir: "upper",
					desc: "allocation size must be constant, proportional to data held, or input-derived with a dominating upper bound"})
			case *ssa.BinOp:
				if x.Op == token.SUB && isUnsigned(x.Type()) && !isRoundUp(x) && c.readCone()[fn] {
					if t.Why(x.X) != "" || t.Why(x.Y) != "" {
						out = append(out, &sink{kind: "T2", fn: fn, instr: i, subjects: []ssa.Value{x.X, x.Y}, role: "usub", dir: "rel",
							desc: "unsigned subtraction with an input-derived operand needs a dominating check that it cannot wrap"})
					}
				}
			case *ssa.Slice:
				for _, bnd := range []ssa.Value{x.Low, x.High, x.Max} {
					if bnd != nil && t.Why(bnd) != "" {
						out = append(out, &sink{kind: "T3", fn: fn, instr: i, subjects: []ssa.Value{bnd}, role: "slice", dir: "upper",
							desc: "slice bound derived from input needs a dominating range check"})
					}
				}
			case *ssa.IndexAddr, *ssa.Index:
				var base, idx ssa.Value
				if ia, ok := x.(*ssa.IndexAddr); ok {
					base, idx = ia.X, ia.Index
				} else {
					ix := x.(*ssa.Index)
					base, idx = ix.X, ix.Index
				}
				c.indexSink(fn, i, base, idx, &out)
			case ssa.CallInstruction:
				id := ir.CallID(x)
				switch id {
				case "bytes.Buffer.Truncate", "bytes.Buffer.Next", "bytes.Buffer.Grow":
					args := x.Common().Args
					if len(args) == 2 {
						if _, isConst := ir.StripConv(args[1]).(*ssa.Const); !isConst {
							out = append(out, &sink{kind: "T3", fn: fn, instr: i, subjects: []ssa.Value{args[1]}, role: strings.TrimPrefix(id, "bytes."), dir: "range",
								desc: id + " panics when its argument is out of range; an argument computed from input needs a dominating range check"})
						}
					}
				case "bytes.Repeat", "strings.Repeat":
					args := x.Common().Args
					if len(args) == 2 && t.Why(args[1]) != "" {
						out = append(out, &sink{kind: "T1", fn: fn, instr: i, subjects: []ssa.Value{args[1]}, role: "repeat", dir: "upper",
							desc: "repeat count derived from input needs an upper bound"})
					}
				}
			}
		})
	}
	return out
}

func isUnsigned(T types.Type) bool {
	b, ok := T.Underlying().(*types.Basic)
	return ok && b.Info()&types.IsUnsigned != 0
}

// indexSink adds T4 (x[len(x)-c]) and T5 (x[tainted]) sinks.
func (c *Ctx) indexSink(fn *ssa.Function, i ssa.Instruction, base, idx ssa.Value, out *[]*sink) {
	t := c.taint()
	bt := base.Type().Underlying()
	if p, ok := bt.(*types.Pointer); ok {
		bt = p.Elem().Underlying()
	}
	switch bt.(type) {
	case *types.Slice, *types.Array, *types.Basic:
	default:
		return
	}
	idx0 := ir.StripConv(idx)
	if b, ok := idx0.(*ssa.BinOp); ok && b.Op == token.SUB {
		if call, ok := ir.StripConv(b.X).(*ssa.Call); ok && ir.CallID(call) == "builtin.len" {
			if _, isConst := ir.ConstInt(ir.StripConv(b.Y)); isConst {
				*out = append(*out, &sink{kind: "T4", fn: fn, instr: i, subjects: []ssa.Value{call}, role: "lastindex", dir: "nonempty",
					desc: "x[len(x)-c] needs a dominating check that len(x) >= c"})
				return
			}
		}
	}
	if t.Why(idx) != "" {
		*out = append(*out, &sink{kind: "T5", fn: fn, instr: i, subjects: []ssa.Value{idx}, role: "index", dir: "upper",
			desc: "index derived from input needs a dominating bound check"})
	}
}

// proportional reports whether v is a size proportional to data already held:
// len/cap of a value, Len() of a buffer/reader, FileInfo.Size().
func (c *Ctx) proportional(v ssa.Value) bool {
	v = ir.StripConv(v)
	switch x := v.(type) {
	case *ssa.Const:
		return true
	case *ssa.Call:
		id := ir.CallID(x)
		switch id {
		case "builtin.len", "builtin.cap", "bytes.Buffer.Len", "bytes.Reader.Len", "bytes.Buffer.Cap", "strings.Reader.Len",
			"io/fs.FileInfo.Size", "os.FileInfo.Size", "io/fs.(interface).Size", "builtin.min":
			return c.taint().Why(v) == ""
		}
	case *ssa.BinOp:
		switch x.Op {
		case token.ADD, token.MUL, token.SUB, token.QUO, token.SHL, token.SHR, token.AND, token.REM:
			return c.proportional(x.X) && c.proportional(x.Y)
		}
	case *ssa.Phi:
		for _, e := range x.Edges {
			if !c.proportional(e) {
				return false
			}
		}
		return true
	}
	return false
}

// judgeSink decides one sink. Returns status ok/violation/undecided and detail.
func (c *Ctx) judgeSink(s *sink) (ok bool, trivial bool, detail string) {
	t := c.taint()
	facts := c.guardFacts(s.fn, s.instr.Block())
	switch s.kind {
	case "T1", "T5":
		allTrivial := true
		for _, subj := range s.subjects {
			if subj == nil {
				continue
			}
			if _, isConst := ir.StripConv(subj).(*ssa.Const); isConst {
				continue
			}
			allTrivial = false
			why := t.Why(subj)
			if why == "" {
				// not input-derived: proportional or internal arithmetic
				continue
			}
			ls := leafSet(subj)
			guarded := false
			for _, g := range facts {
				if upperBound(g, ls) {
					guarded = true
					break
				}
			}
			if !guarded {
				if p, isParam := ir.StripConv(subj).(*ssa.Parameter); isParam {
					if okAll, why2 := c.paramGuarded(s.fn, p, upperBound); okAll {
						continue
					} else if why2 != "" {
						return false, false, "size " + why + "; " + why2
					}
				}
				return false, false, "operand is input-derived (" + why + ") and no dominating comparison bounds it from above"
			}
		}
		return true, allTrivial, ""
	case "T2":
		a, b := s.subjects[0], s.subjects[1]
		pred := relatesSub(a, b)
		for _, g := range facts {
			if pred(g, nil) {
				return true, false, ""
			}
		}
		// operands that are parameters: every library call site must guard
		if p, isParam := ir.StripConv(a).(*ssa.Parameter); isParam {
			okAll, why := c.paramGuarded(s.fn, p, func(g guardFact, subj map[string]ssa.Value) bool {
				// at the call site the argument plays the role of a
				op := g.cmp.Op
				if !g.truth {
					op = negate(op)
				}
				lx, ly := leafSet(g.cmp.X), leafSet(g.cmp.Y)
				if intersects(lx, subj) {
					return op == token.GEQ || op == token.GTR || op == token.EQL || op == token.NEQ
				}
				if intersects(ly, subj) {
					return op == token.LEQ || op == token.LSS || op == token.EQL || op == token.NEQ
				}
				return false
			})
			if okAll {
				return true, false, ""
			}
			if why != "" {
				return false, false, why
			}
		}
		return false, false, fmt.Sprintf("no dominating comparison relates the operands (%s; %s)", t.Why(a), t.Why(b))
	case "T3":
		subj := s.subjects[0]
		if t.Why(subj) == "" {
			// computed from non-input values only
			if c.proportional(subj) {
				return true, true, ""
			}
			// Len() - x with clean x etc.: still require a relation if it is a subtraction
		}
		ls := leafSet(subj)
		for _, g := range facts {
			if mentions(g, ls) {
				return true, false, ""
			}
		}
		if t.Why(subj) == "" {
			if _, isSub := ir.StripConv(subj).(*ssa.BinOp); !isSub {
				return true, false, ""
			}
		}
		return false, false, "argument is computed from input (" + t.Why(subj) + ") and no dominating comparison checks its range"
	case "T4":
		lenCall := s.subjects[0].(*ssa.Call)
		want := "len(" + resolvedPath(lenCall.Call.Args[0]) + ")"
		for _, g := range facts {
			lx, ly := leafSet(g.cmp.X), leafSet(g.cmp.Y)
			_, inX := lx[want]
			_, inY := ly[want]
			if !inX && !inY {
				continue
			}
			op := g.cmp.Op
			if !g.truth {
				op = negate(op)
			}
			if inX && (op == token.GTR || op == token.GEQ || op == token.NEQ) || inY && (op == token.LSS || op == token.LEQ || op == token.NEQ) {
				return true, false, ""
			}
		}
		return false, false, "no dominating check that the slice is non-empty"
	}
	return false, false, "unknown sink kind"
}

// RuleT judges the sinks selected by `in` (by function) and kinds.
func (c *Ctx) RuleT(rulePrefix string, in func(*ssa.Function) bool, kinds map[string]bool) int {
	counts := map[string]int{}
	n := 0
	for _, s := range c.collectSinks() {
		if !kinds[s.kind] || (in != nil && !in(s.fn)) {
			continue
		}
		n++
		rule := rulePrefix + s.kind
		key := ordinalKey(counts, name(s.fn)+":"+s.role)
		construct := strings.TrimPrefix(key, name(s.fn)+":")
		ok, trivial, detail := c.judgeSink(s)
		o := reportObl(rule, name(s.fn), construct, c.IPos(s.instr), s.desc, "ok")
		o.Trivial = trivial
		if !ok {
			o.Status = "violation"
			o.Detail = detail
		}
		c.R.Add(o)
	}
	return n
}

var inputPrimitives = map[string]bool{
	"encoding/binary.Read": true, "io.ReadFull": true, "io.ReadAll": true, "io.ReadAtLeast": true, "io.Copy": true, "io.CopyN": true,
	"io.Reader.Read": true, "io.ReaderAt.ReadAt": true, "bytes.Buffer.Read": true, "bytes.Reader.Read": true, "bytes.Buffer.ReadFrom": true,
	"bytes.Buffer.ReadByte": true, "bytes.Reader.ReadByte": true, "bytes.Buffer.Next": true, "debug/pe.NewFile": true,
}

// readCone: library functions from which a call that consumes caller input is
// reachable through library callees (closures included). T2 (wrap of a
// declared size) is a decoding concern and is judged only there.
func (c *Ctx) readCone() map[*ssa.Function]bool {
	if c.readConeCache != nil {
		return c.readConeCache
	}
	cone := map[*ssa.Function]bool{}
	fns := c.P.LibFunctions()
	direct := func(fn *ssa.Function) bool {
		found := false
		instrsOf(fn, func(i ssa.Instruction) {
			if call, ok := i.(ssa.CallInstruction); ok {
				id := ir.CallID(call)
				if inputPrimitives[id] || strings.HasPrefix(id, "golang.org/x/crypto/cryptobyte.String.Read") {
					found = true
				}
			}
		})
		return found
	}
	for _, fn := range fns {
		if direct(fn) {
			cone[fn] = true
		}
	}
	cg := c.P.CallGraph()
	for changed := true; changed; {
		changed = false
		for _, fn := range fns {
			if cone[fn] {
				continue
			}
			hit := false
			if n := cg.Nodes[fn]; n != nil {
				for _, e := range n.Out {
					if cone[e.Callee.Func] && c.P.InLib(e.Callee.Func) {
						hit = true
					}
				}
			}
			for _, a := range fn.AnonFuncs {
				if cone[a] {
					hit = true
				}
			}
			if p := fn.Parent(); p != nil && cone[p] {
				hit = true
			}
			if hit {
				cone[fn] = true
				changed = true
			}
		}
	}
	c.readConeCache = cone
	return cone
}
