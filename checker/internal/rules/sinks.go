package rules

import (
	"fmt"
	"go/token"
	"go/types"
	"strconv"
	"strings"

	"golang.org/x/tools/go/ssa"

	"verif/checker/internal/ir"
)

// Rule family T: input-derived values reaching allocation / unsigned
// subtraction / range-checked library call / index sinks need a dominating
// check. This is a missing-check rule: it proves that a check relating the
// value to its bound dominates the sink on every path; it does not prove the
// check's arithmetic adequate.

type sink struct {
	kind     string // T1 make, T2 usub, T3 rangecall, T3 slice, T4 lastindex, T5 index
	fn       *ssa.Function
	instr    ssa.Instruction
	subjects []ssa.Value // values that must be related by a guard
	desc     string
	role     string // construct role used in the key
	dir      string // "upper" (subject must be bounded above), "rel" (any relation among subjects/const), "nonempty"
}

// resolvedPath is AccessPath with closure free variables resolved to the
// captured cell of the parent, so guards in the parent match uses in the closure.
func resolvedPath(v ssa.Value) string {
	p := ir.AccessPath(v)
	v0 := ir.StripConv(v)
	// rewrite a leading free:<name> to the binding's path
	root := ir.RootOf(v0)
	if fv, ok := root.(*ssa.FreeVar); ok {
		if cell := cellOf(fv); cell != nil && cell != ssa.Value(fv) {
			old := "free:" + fv.Name()
			var neu string
			switch c := cell.(type) {
			case *ssa.Alloc:
				neu = "alloc:" + fnReg(c)
			case *ssa.Global:
				neu = "global:" + c.String()
			default:
				neu = old
			}
			p = strings.Replace(p, old, neu, 1)
		}
	}
	return p
}

func fnReg(v ssa.Value) string {
	fn := ""
	if v.Parent() != nil {
		fn = v.Parent().Name()
	}
	return fmt.Sprintf("%s/%s", fn, v.Name())
}

// arithLeaves returns the access paths of the leaves of the arithmetic
// expression v (through + - * / % << >> & | conversions and phis of depth 1).
func arithLeaves(v ssa.Value, out map[string]ssa.Value, depth int) {
	if v == nil || depth > 8 {
		return
	}
	v = ir.StripConv(v)
	out[resolvedPath(v)] = v
	switch x := v.(type) {
	case *ssa.BinOp:
		switch x.Op {
		case token.EQL, token.NEQ, token.LSS, token.LEQ, token.GTR, token.GEQ:
			return
		}
		arithLeaves(x.X, out, depth+1)
		arithLeaves(x.Y, out, depth+1)
	case *ssa.UnOp:
		if x.Op == token.SUB || x.Op == token.XOR {
			arithLeaves(x.X, out, depth+1)
		}
	case *ssa.Call:
		// len(x), x.Len(), x.Size(): identify by receiver path
		id := ir.CallID(x)
		if id == "builtin.len" || id == "builtin.cap" {
			out["len("+resolvedPath(x.Call.Args[0])+")"] = x
		} else if strings.HasSuffix(id, ".Len") || strings.HasSuffix(id, ".Size") {
			args := ir.CallArgs(x)
			if len(args) > 0 {
				out["len("+resolvedPath(args[0])+")"] = x
			}
		}
	}
}

func leafSet(v ssa.Value) map[string]ssa.Value {
	m := map[string]ssa.Value{}
	arithLeaves(v, m, 0)
	return m
}

func intersects(a, b map[string]ssa.Value) bool {
	for k := range a {
		if strings.HasPrefix(k, "const:") {
			continue
		}
		if _, ok := b[k]; ok {
			return true
		}
	}
	return false
}

// guardFacts collects the comparison conditions that hold at instruction i:
// those dominating it inside its function, and — for a closure — those
// dominating every MakeClosure/call site of it in the enclosing functions.
type guardFact struct {
	cmp   *ssa.BinOp
	truth bool // the comparison's value on the dominating edge
	where string
}

func (c *Ctx) guardFacts(fn *ssa.Function, b *ssa.BasicBlock) []guardFact {
	var out []guardFact
	for _, ce := range ir.DominatingConds(fn, b) {
		if cmp, ok := ce.Cond.(*ssa.BinOp); ok {
			switch cmp.Op {
			case token.EQL, token.NEQ, token.LSS, token.LEQ, token.GTR, token.GEQ:
				out = append(out, guardFact{cmp, ce.Truth, name(fn)})
			}
		}
	}
	if parent := fn.Parent(); parent != nil {
		// closure: the facts that hold where it is created hold inside it as
		// long as they concern captured cells that are not reassigned later;
		// we require them to dominate the MakeClosure instruction.
		for _, f := range withAnon(topFn(fn)) {
			instrsOf(f, func(i ssa.Instruction) {
				if mc, ok := i.(*ssa.MakeClosure); ok && mc.Fn == fn {
					out = append(out, c.guardFacts(f, mc.Block())...)
				}
			})
		}
	}
	return out
}

// callSiteFacts: for a parameter subject, facts that hold at every in-repo
// call site about the corresponding argument. Returns per call site the facts
// with the argument's leaves.
func (c *Ctx) paramGuarded(fn *ssa.Function, p *ssa.Parameter, pred func(g guardFact, subj map[string]ssa.Value) bool) (bool, string) {
	n := c.P.CallGraph().Nodes[fn]
	if n == nil || len(n.In) == 0 {
		return false, ""
	}
	idx := -1
	for i, q := range fn.Params {
		if q == p {
			idx = i
		}
	}
	sites := 0
	for _, e := range n.In {
		if e.Site == nil || !c.P.InModule(e.Caller.Func) {
			continue
		}
		// only library callers count; cmd/ and tests are clients
		if !c.P.InLib(e.Caller.Func) {
			continue
		}
		args := ir.CallArgs(e.Site)
		if idx < 0 || idx >= len(args) {
			return false, ""
		}
		sites++
		subj := leafSet(args[idx])
		// a constant argument needs no guard
		if _, isConst := ir.StripConv(args[idx]).(*ssa.Const); isConst {
			continue
		}
		if c.taint().Why(args[idx]) == "" {
			continue
		}
		ok := false
		for _, g := range c.guardFacts(e.Caller.Func, e.Site.Block()) {
			if pred(g, subj) {
				ok = true
				break
			}
		}
		if !ok {
			return false, fmt.Sprintf("call site %s in %s passes an unchecked input-derived value", c.IPos(e.Site), name(e.Caller.Func))
		}
	}
	return sites > 0, ""
}

// upperBounded: on the taken edge the subject is bounded from above (or fixed).
func upperBound(g guardFact, subj map[string]ssa.Value) bool {
	lx, ly := leafSet(g.cmp.X), leafSet(g.cmp.Y)
	onX, onY := intersects(lx, subj), intersects(ly, subj)
	if !onX && !onY {
		return false
	}
	op := g.cmp.Op
	if !g.truth {
		op = negate(op)
	}
	switch op {
	case token.EQL:
		return true
	case token.LSS, token.LEQ:
		return onX // subj < bound
	case token.GTR, token.GEQ:
		return onY // bound > subj
	}
	return false
}

func negate(op token.Token) token.Token {
	switch op {
	case token.EQL:
		return token.NEQ
	case token.NEQ:
		return token.EQL
	case token.LSS:
		return token.GEQ
	case token.LEQ:
		return token.GTR
	case token.GTR:
		return token.LEQ
	case token.GEQ:
		return token.LSS
	}
	return op
}

// relates: the comparison mentions the subject at all, and if it is exactly
// "a OP b" for the two operands of a subtraction a-b, its direction is a>=b.
func relatesSub(a, b ssa.Value) func(g guardFact, subj map[string]ssa.Value) bool {
	la, lb := leafSet(a), leafSet(b)
	_, bConst := ir.ConstInt(ir.StripConv(b))
	return func(g guardFact, subj map[string]ssa.Value) bool {
		lx, ly := leafSet(g.cmp.X), leafSet(g.cmp.Y)
		op := g.cmp.Op
		if !g.truth {
			op = negate(op)
		}
		aX, aY := intersects(lx, la), intersects(ly, la)
		bX, bY := intersects(lx, lb), intersects(ly, lb)
		_, yConst := ir.ConstInt(ir.StripConv(g.cmp.Y))
		_, xConst := ir.ConstInt(ir.StripConv(g.cmp.X))
		if bConst {
			bX, bY = xConst, yConst
		}
		switch {
		case aX && bY: // a OP b
			return op == token.GEQ || op == token.GTR || op == token.EQL || op == token.NEQ && yConst
		case aY && bX: // b OP a
			return op == token.LEQ || op == token.LSS || op == token.EQL || op == token.NEQ && xConst
		case aX && yConst || aY && xConst:
			// a compared with some constant: accept lower bounds and equalities
			if aX {
				return op == token.GEQ || op == token.GTR || op == token.EQL || op == token.NEQ
			}
			return op == token.LEQ || op == token.LSS || op == token.EQL || op == token.NEQ
		}
		return false
	}
}

func mentions(g guardFact, subj map[string]ssa.Value) bool {
	return intersects(leafSet(g.cmp.X), subj) || intersects(leafSet(g.cmp.Y), subj)
}

// collectSinks enumerates sinks in library functions.
func (c *Ctx) collectSinks() []*sink {
	t := c.taint()
	var out []*sink
	for _, fn := range c.P.LibFunctions() {
		fn := fn
		instrsOf(fn, func(i ssa.Instruction) {
			switch x := i.(type) {
			case *ssa.MakeSlice:
				out = append(out, &sink{kind: "T1", fn: fn, instr: i, subjects: []ssa.Value{x.Len, x.Cap}, role: "make", dir: "upper",
					desc: "allocation size must be constant, proportional to data held, or input-derived with a dominating upper bound"})
			case *ssa.BinOp:
				if x.Op == token.SUB && isUnsigned(x.Type()) && !isRoundUp(x) && c.readCone()[fn] {
					if t.Why(x.X) != "" || t.Why(x.Y) != "" {
						out = append(out, &sink{kind: "T2", fn: fn, instr: i, subjects: []ssa.Value{x.X, x.Y}, role: "usub", dir: "rel",
							desc: "unsigned subtraction with an input-derived operand needs a dominating check that it cannot wrap"})
					}
				}
			case *ssa.Slice:
				for _, bnd := range []ssa.Value{x.Low, x.High, x.Max} {
					if bnd != nil && t.Why(bnd) != "" {
						out = append(out, &sink{kind: "T3", fn: fn, instr: i, subjects: []ssa.Value{bnd}, role: "slice", dir: "upper",
							desc: "slice bound derived from input needs a dominating range check"})
					}
				}
			case *ssa.IndexAddr, *ssa.Index:
				var base, idx ssa.Value
				if ia, ok := x.(*ssa.IndexAddr); ok {
					base, idx = ia.X, ia.Index
				} else {
					ix := x.(*ssa.Index)
					base, idx = ix.X, ix.Index
				}
				c.indexSink(fn, i, base, idx, &out)
			case ssa.CallInstruction:
				id := ir.CallID(x)
				switch id {
				case "bytes.Buffer.Truncate", "bytes.Buffer.Next", "bytes.Buffer.Grow":
					args := x.Common().Args
					if len(args) == 2 {
						if _, isConst := ir.StripConv(args[1]).(*ssa.Const); !isConst {
							out = append(out, &sink{kind: "T3", fn: fn, instr: i, subjects: []ssa.Value{args[1]}, role: strings.TrimPrefix(id, "bytes."), dir: "range",
								desc: id + " panics when its argument is out of range; an argument computed from input needs a dominating range check"})
						}
					}
				case "bytes.Repeat", "strings.Repeat":
					args := x.Common().Args
					if len(args) == 2 && t.Why(args[1]) != "" {
						out = append(out, &sink{kind: "T1", fn: fn, instr: i, subjects: []ssa.Value{args[1]}, role: "repeat", dir: "upper",
							desc: "repeat count derived from input needs an upper bound"})
					}
				}
			}
		})
	}
	return out
}

func isUnsigned(T types.Type) bool {
	b, ok := T.Underlying().(*types.Basic)
	return ok && b.Info()&types.IsUnsigned != 0
}

// indexSink adds T4 (x[len(x)-c]) and T5 (x[tainted]) sinks.
func (c *Ctx) indexSink(fn *ssa.Function, i ssa.Instruction, base, idx ssa.Value, out *[]*sink) {
	t := c.taint()
	bt := base.Type().Underlying()
	if p, ok := bt.(*types.Pointer); ok {
		bt = p.Elem().Underlying()
	}
	switch bt.(type) {
	case *types.Slice, *types.Array, *types.Basic:
	default:
		return
	}
	idx0 := ir.StripConv(idx)
	if b, ok := idx0.(*ssa.BinOp); ok && b.Op == token.SUB {
		if call, ok := ir.StripConv(b.X).(*ssa.Call); ok && ir.CallID(call) == "builtin.len" {
			if _, isConst := ir.ConstInt(ir.StripConv(b.Y)); isConst {
				*out = append(*out, &sink{kind: "T4", fn: fn, instr: i, subjects: []ssa.Value{call}, role: "lastindex", dir: "nonempty",
					desc: "x[len(x)-c] needs a dominating check that len(x) >= c"})
				return
			}
		}
	}
	if t.Why(idx) != "" {
		*out = append(*out, &sink{kind: "T5", fn: fn, instr: i, subjects: []ssa.Value{idx}, role: "index", dir: "upper",
			desc: "index derived from input needs a dominating bound check"})
	}
}

// proportional reports whether v is a size proportional to data already held:
// len/cap of a value, Len() of a buffer/reader, FileInfo.Size().
func (c *Ctx) proportional(v ssa.Value) bool {
	v = ir.StripConv(v)
	switch x := v.(type) {
	case *ssa.Const:
		return true
	case *ssa.Call:
		id := ir.CallID(x)
		switch id {
		case "builtin.len", "builtin.cap", "bytes.Buffer.Len", "bytes.Reader.Len", "bytes.Buffer.Cap", "strings.Reader.Len",
			"io/fs.FileInfo.Size", "os.FileInfo.Size", "io/fs.(interface).Size", "builtin.min":
			return c.taint().Why(v) == ""
		}
	case *ssa.BinOp:
		switch x.Op {
		case token.ADD, token.MUL, token.SUB, token.QUO, token.SHL, token.SHR, token.AND, token.REM:
			return c.proportional(x.X) && c.proportional(x.Y)
		}
	case *ssa.Phi:
		for _, e := range x.Edges {
			if !c.proportional(e) {
				return false
			}
		}
		return true
	}
	return false
}

// taintedSyms returns the symbols of a whose representative value is input-derived.
func (c *Ctx) taintedSyms(a Affine) map[string]bool {
	out := map[string]bool{}
	t := c.taint()
	for k, v := range a.Sym {
		if _, ok := a.T[k]; !ok || v == nil {
			continue
		}
		if t.Why(v) != "" || t.Why(ir.StripConv(v)) != "" {
			out[k] = true
		}
	}
	return out
}

// entailedHere: required >= 0 follows from the facts dominating the sink; if
// required mentions parameters of fn, it is enough that it follows at every
// library call site with the arguments substituted.
func (c *Ctx) entailedHere(fn *ssa.Function, blk *ssa.BasicBlock, required Affine) (bool, string) {
	return c.entailedAt(fn, blk, nil, required)
}

// untouchedBefore: nothing in fn is done with parameter p (no call takes it, it
// is not stored or copied anywhere) on a path from the entry to instruction at,
// so the object behind p is at `at` what it was at the call site.
func untouchedBefore(fn *ssa.Function, p *ssa.Parameter, at ssa.Instruction) bool {
	if at == nil || p.Referrers() == nil {
		return false
	}
	var toAt map[int]bool // blocks from which at's block is reachable
	for _, r := range *p.Referrers() {
		if r == at {
			continue
		}
		if _, isDbg := r.(*ssa.DebugRef); isDbg {
			continue
		}
		rb := r.Block()
		if rb == at.Block() {
			for _, in := range rb.Instrs {
				if in == r {
					return false
				}
				if in == at {
					break
				}
			}
			// r comes after at in the same block: matters only if the block is in a cycle
			seen, _ := ir.Reach(fn, rb, nil)
			for _, pb := range rb.Preds {
				if seen[pb.Index] {
					return false
				}
			}
			continue
		}
		if toAt == nil {
			toAt = map[int]bool{}
			for _, b := range fn.Blocks {
				if seen, _ := ir.Reach(fn, b, nil); seen[at.Block().Index] {
					toAt[b.Index] = true
				}
			}
		}
		if toAt[rb.Index] {
			return false
		}
	}
	return true
}

// entailedAt is entailedHere for a requirement at instruction at (nil: not
// known): a length symbol len(p) of a parameter p that fn leaves alone before
// at is the length of the argument at the call site.
func (c *Ctx) entailedAt(fn *ssa.Function, blk *ssa.BasicBlock, at ssa.Instruction, required Affine) (bool, string) {
	facts := c.factsAt(fn, blk)
	if entails(required, facts) {
		return true, ""
	}
	// parameter substitution at call sites
	var params []*ssa.Parameter
	for k, v := range required.Sym {
		if _, ok := required.T[k]; !ok {
			continue
		}
		if p, ok := ir.StripConv(v).(*ssa.Parameter); ok && p.Parent() == fn {
			params = append(params, p)
		}
	}
	// len(p) of an object handed in by the caller and not touched before the sink
	lenParams := map[string]int{}
	if at != nil {
		for i, q := range fn.Params {
			sym := "len(" + resolvedPath(q) + ")"
			if _, ok := required.T[sym]; ok && untouchedBefore(fn, q, at) {
				lenParams[sym] = i
			}
		}
	}
	if len(params) == 0 && len(lenParams) == 0 {
		return false, "not implied by the dominating comparisons (required: " + required.String() + " >= 0)"
	}
	n := c.P.CallGraph().Nodes[fn]
	if n == nil {
		return false, "no call sites"
	}
	sites := 0
	for _, e := range n.In {
		if e.Site == nil || !c.P.InLib(e.Caller.Func) {
			continue
		}
		args := ir.CallArgs(e.Site)
		req := required.clone()
		for _, p := range params {
			idx := -1
			for i, q := range fn.Params {
				if q == p {
					idx = i
				}
			}
			if idx < 0 || idx >= len(args) {
				return false, "cannot map parameter"
			}
			sym := resolvedPath(p)
			coeff := req.T[sym]
			delete(req.T, sym)
			req = req.add(affineOf(args[idx], 0).scale(coeff), 1)
		}
		for sym, idx := range lenParams {
			if idx >= len(args) {
				return false, "cannot map parameter"
			}
			coeff := req.T[sym]
			delete(req.T, sym)
			req = req.add(symAffine("len("+resolvedPath(args[idx])+")", nil).scale(coeff), 1)
		}
		sites++
		siteFacts := c.factsAt(e.Caller.Func, e.Site.Block())
		if !entails(req, siteFacts) {
			return false, "call site " + c.IPos(e.Site) + " in " + name(e.Caller.Func) + " does not establish " + req.String() + " >= 0"
		}
	}
	if sites == 0 {
		return false, "not implied by the dominating comparisons (required: " + required.String() + " >= 0) and no library call site to check"
	}
	return true, ""
}

// remFact: P % Q == 0 is known (Q named by its access path).
type remFact struct {
	P Affine
	Q string
}

func remFactsOf(gs []guardFact) []remFact {
	var out []remFact
	for _, g := range gs {
		op := g.cmp.Op
		if !g.truth {
			op = negate(op)
		}
		if op != token.EQL {
			// the remainder is unsigned: rem > 0 not taken, rem < 1, 0 >= rem ... say rem == 0
			if x, zero := unsignedZeroOnEdge(g.cmp, g.truth); zero {
				if rem, isRem := ir.StripConv(x).(*ssa.BinOp); isRem && rem.Op == token.REM {
					out = append(out, remFact{affineOf(rem.X, 0), resolvedPath(rem.Y)})
				}
			}
			continue
		}
		// (P / Q) * Q == P says the same as P % Q == 0
		divMul := false
		for _, side := range [][2]ssa.Value{{g.cmp.X, g.cmp.Y}, {g.cmp.Y, g.cmp.X}} {
			mul, isMul := ir.StripConv(side[0]).(*ssa.BinOp)
			if !isMul || mul.Op != token.MUL {
				continue
			}
			for _, fs := range [][2]ssa.Value{{mul.X, mul.Y}, {mul.Y, mul.X}} {
				quo, isQ := ir.StripConv(fs[0]).(*ssa.BinOp)
				if !isQ || quo.Op != token.QUO || resolvedPath(quo.Y) != resolvedPath(fs[1]) {
					continue
				}
				if affineOf(quo.X, 0).equal(affineOf(side[1], 0)) {
					out = append(out, remFact{affineOf(quo.X, 0), resolvedPath(quo.Y)})
					divMul = true
				}
			}
		}
		if divMul {
			continue
		}
		rem, ok := ir.StripConv(g.cmp.X).(*ssa.BinOp)
		z := g.cmp.Y
		if !ok || rem.Op != token.REM {
			rem, ok = ir.StripConv(g.cmp.Y).(*ssa.BinOp)
			z = g.cmp.X
		}
		if !ok || rem.Op != token.REM {
			continue
		}
		if k, isK := ir.ConstInt(z); !isK || k != 0 {
			continue
		}
		out = append(out, remFact{affineOf(rem.X, 0), resolvedPath(rem.Y)})
	}
	return out
}

// remFactsAt: divisibility facts at blk of fn, including those established by
// library helpers whose success is observed on a dominating edge.
func (c *Ctx) remFactsAt(fn *ssa.Function, blk *ssa.BasicBlock, depth int) []remFact {
	out := remFactsOf(c.guardFacts(fn, blk))
	if depth > 3 {
		return out
	}
	e := c.accept()
	conds := ir.DominatingConds(fn, blk)
	if fn.Parent() != nil {
		for _, f := range withAnon(topFn(fn)) {
			instrsOf(f, func(i ssa.Instruction) {
				if mc, ok := i.(*ssa.MakeClosure); ok && mc.Fn == fn && f != fn {
					out = append(out, c.remFactsAt(f, mc.Block(), depth+1)...)
				}
			})
		}
	}
	for _, ce := range conds {
		call, em := e.observe(fn, ce)
		if call == nil {
			continue
		}
		callee := ir.Callee(call)
		if callee == nil || !c.P.InLib(callee) {
			continue
		}
		acc := acceptingReturnsMode(callee, em)
		var common []remFact
		for k, r := range acc {
			fs := c.remFactsAt(callee, r.Block(), depth+1)
			if k == 0 {
				common = fs
				continue
			}
			var keep []remFact
			for _, a := range common {
				for _, b := range fs {
					if a.P.equal(b.P) && a.Q == b.Q {
						keep = append(keep, a)
						break
					}
				}
			}
			common = keep
		}
		args := ir.CallArgs(call)
		for _, rf := range common {
			P, ok1 := substParams(rf.P, callee, args)
			q := symAffine(rf.Q, nil)
			Q, ok2 := substParams(q, callee, args)
			if !ok1 || !ok2 || len(Q.T) != 1 {
				continue
			}
			for sym := range Q.T {
				out = append(out, remFact{P, sym})
			}
		}
	}
	return out
}

// remLoopIdiom: a -= b inside a loop that exits at a == 0, where the code that
// produced the initial a established init(a) % b == 0 (then a stays a multiple
// of b, and a != 0 implies a >= b). a may be a captured cell (closure) or a
// loop phi whose initial value is a parameter (named helper).
func (c *Ctx) remLoopIdiom(s *sink, a, b ssa.Value) bool {
	aA := affineOf(a, 0)
	one := aA.clone()
	one.K--
	if !entails(one, c.factsAt(s.fn, s.instr.Block())) { // a >= 1
		return false
	}
	hasRem := func(fn *ssa.Function, blk *ssa.BasicBlock, init Affine, bPath string) bool {
		for _, rf := range c.remFactsAt(fn, blk, 0) {
			if rf.Q == bPath && rf.P.equal(init) {
				return true
			}
		}
		return false
	}
	paramIdx := func(fn *ssa.Function, v ssa.Value) int {
		for k, p := range fn.Params {
			if ir.StripConv(v) == ssa.Value(p) {
				return k
			}
		}
		return -1
	}
	// the initial value(s) of a
	type initV struct {
		v   ssa.Value
		fn  *ssa.Function
		blk *ssa.BasicBlock
	}
	var inits []initV
	switch x := ir.StripConv(a).(type) {
	case *ssa.UnOp:
		if x.Op != token.MUL {
			return false
		}
		cell := cellOf(x.X)
		if cell == nil {
			return false
		}
		for _, f := range withAnon(topFn(s.fn)) {
			f := f
			instrsOf(f, func(i ssa.Instruction) {
				if st, ok := i.(*ssa.Store); ok && cellOf(st.Addr) == cell {
					if sv, isV := s.instr.(ssa.Value); isV && st.Val == sv {
						return // the decrement itself
					}
					inits = append(inits, initV{st.Val, f, st.Block()})
				}
			})
		}
	case *ssa.Phi:
		for k, e := range x.Edges {
			if sv, isV := s.instr.(ssa.Value); isV && ir.StripConv(e) == sv {
				continue
			}
			inits = append(inits, initV{e, s.fn, x.Block().Preds[k]})
		}
	default:
		return false
	}
	if len(inits) == 0 {
		return false
	}
	for _, in := range inits {
		if k := paramIdx(in.fn, in.v); k >= 0 && in.fn == s.fn {
			// initial value is a parameter: every library call site must have established the divisibility
			n := c.P.CallGraph().Nodes[in.fn]
			if n == nil {
				return false
			}
			sites := 0
			kb := paramIdx(in.fn, b)
			for _, e := range n.In {
				if e.Site == nil || !c.P.InLib(e.Caller.Func) {
					continue
				}
				args := ir.CallArgs(e.Site)
				if _, isClosure := e.Site.Common().Value.(*ssa.MakeClosure); isClosure {
					args = e.Site.Common().Args
				}
				if k >= len(args) {
					return false
				}
				bPath := resolvedPath(b)
				if kb >= 0 && kb < len(args) {
					bPath = resolvedPath(args[kb])
				}
				sites++
				if !hasRem(e.Caller.Func, e.Site.Block(), affineOf(args[k], 0), bPath) {
					return false
				}
			}
			if sites == 0 {
				return false
			}
			continue
		}
		if !hasRem(in.fn, in.blk, affineOf(in.v, 0), resolvedPath(b)) {
			// the divisibility was tested on the variable itself, after it got its initial
			// value and before the loop: the fact reads the cell where it still holds that value
			viaCell := false
			for _, rf := range c.remFactsAt(s.fn, s.instr.Block(), 0) {
				if rf.Q != resolvedPath(b) || rf.P.K != 0 || len(rf.P.T) != 1 {
					continue
				}
				for sym, cf := range rf.P.T {
					if iv := cellInitAt(ir.StripConv(rf.P.Sym[sym])); cf == 1 && iv != nil && iv == in.v {
						viaCell = true
					}
				}
			}
			if !viaCell {
				return false
			}
		}
	}
	return true
}

// judgeSink decides one sink: (ok, trivial, detail).
func (c *Ctx) judgeSink(s *sink) (ok bool, trivial bool, detail string) {
	t := c.taint()
	blk := s.instr.Block()
	switch s.kind {
	case "T1":
		allTrivial := true
		for _, subj := range s.subjects {
			if subj == nil {
				continue
			}
			if _, isConst := ir.StripConv(subj).(*ssa.Const); isConst {
				continue
			}
			allTrivial = false
			if t.Why(subj) == "" {
				continue // proportional to data held / internal arithmetic
			}
			a := affineOf(subj, 0)
			ts := c.taintedSyms(a)
			if len(ts) == 0 {
				// tainted as a whole but no tainted leaf: treat the value itself as the symbol
				a = symAffine(resolvedPath(subj), subj)
				ts = map[string]bool{resolvedPath(subj): true}
			}
			facts := c.factsAt(s.fn, blk)
			neg := false
			for sym := range ts {
				if a.T[sym] < 0 {
					neg = true
					continue
				}
				bounded := false
				for _, f := range facts {
					if f.T[sym] >= 0 {
						continue
					}
					// every positive symbol of the fact must be untainted (a constant bound or data held)
					clean := true
					for k, cf := range f.T {
						if cf > 0 && (t.Why(f.Sym[k]) != "" || f.Sym[k] != nil && t.Why(ir.StripConv(f.Sym[k])) != "") {
							clean = false
						}
					}
					if clean {
						bounded = true
					}
				}
				if !bounded {
					// parameter: every library call site must bound the argument
					if p, isParam := ir.StripConv(a.Sym[sym]).(*ssa.Parameter); isParam && p.Parent() == s.fn {
						if okAll, why2 := c.paramGuarded(s.fn, p, upperBound); okAll {
							continue
						} else if why2 != "" {
							return false, false, "size is input-derived (" + t.Why(subj) + "); " + why2
						}
					}
					return false, false, "size is input-derived (" + t.Why(subj) + ") and no dominating comparison bounds " + sym + " from above by a constant or by data already held"
				}
			}
			if neg {
				if ok2, why := c.entailedHere(s.fn, blk, a); !ok2 {
					return false, false, "size subtracts an input-derived value and may be negative: " + why
				}
			}
		}
		return true, allTrivial, ""
	case "T2":
		a, b := s.subjects[0], s.subjects[1]
		req := affineOf(a, 0).add(affineOf(b, 0), -1)
		if ok2, why := c.entailedHere(s.fn, blk, req); ok2 {
			return true, false, ""
		} else if c.remLoopIdiom(s, a, b) {
			return true, false, ""
		} else if c.readOnlyWhereEntailed(s, req) {
			// computed ahead of the check, read only behind it: a wrapped value is never looked at
			return true, false, ""
		} else {
			return false, false, "the subtraction may wrap: " + why
		}
	case "T3":
		subj := s.subjects[0]
		a := affineOf(subj, 0)
		if t.Why(subj) == "" && len(c.taintedSyms(a)) == 0 {
			return true, true, ""
		}
		if ok2, why := c.entailedHere(s.fn, blk, a); !ok2 {
			return false, false, "argument computed from input (" + t.Why(subj) + ") may be negative: " + why
		}
		// upper bound against the receiver's length (Truncate/Next) or the sliced operand
		var lenSym Affine
		haveLen := false
		switch x := s.instr.(type) {
		case ssa.CallInstruction:
			if s.role == "Buffer.Truncate" || s.role == "Buffer.Next" {
				lenSym = symAffine("len("+resolvedPath(x.Common().Args[0])+")", nil)
				haveLen = true
			}
		case *ssa.Slice:
			lenSym = symAffine("len("+resolvedPath(x.X)+")", nil)
			// the bytes of a buffer are as long as the buffer: buf.Bytes()[:n] is bounded
			// like buf.Truncate(n), by what buf.Len() reports
			if bc, isC := ir.StripConv(x.X).(*ssa.Call); isC && ir.CallID(bc) == "bytes.Buffer.Bytes" && len(bc.Call.Args) == 1 {
				lenSym = symAffine("len("+resolvedPath(bc.Call.Args[0])+")", nil)
			}
			haveLen = true
		}
		if haveLen {
			if ok2, why := c.entailedAt(s.fn, blk, s.instr, lenSym.add(a, -1)); !ok2 {
				return false, false, "argument computed from input (" + t.Why(subj) + ") may exceed the length: " + why
			}
		}
		return true, false, ""
	case "T4":
		lenCall := s.subjects[0].(*ssa.Call)
		idx := s.instr.Operands(nil)
		_ = idx
		var cst int64 = 1
		switch x := s.instr.(type) {
		case *ssa.IndexAddr:
			if b, ok := ir.StripConv(x.Index).(*ssa.BinOp); ok {
				cst, _ = ir.ConstInt(ir.StripConv(b.Y))
			}
		case *ssa.Index:
			if b, ok := ir.StripConv(x.Index).(*ssa.BinOp); ok {
				cst, _ = ir.ConstInt(ir.StripConv(b.Y))
			}
		}
		req := affineOf(lenCall, 0)
		req.K -= cst
		// the slice was just extended: len(append(x, e1..ek)) >= k
		if ap, isAp := ir.StripConv(lenCall.Call.Args[0]).(*ssa.Call); isAp && ir.CallID(ap) == "builtin.append" && len(ap.Call.Args) == 2 {
			if elems, isLit := variadicElems(ap.Call.Args[1]); isLit && int64(len(elems)) >= cst {
				return true, false, ""
			}
		}
		if ok2, why := c.entailedHere(s.fn, blk, req); !ok2 {
			return false, false, "no dominating check establishes len >= " + strconv.FormatInt(cst, 10) + ": " + why
		}
		return true, false, ""
	case "T5":
		idx := s.subjects[0]
		a := affineOf(idx, 0)
		if ok2, why := c.entailedHere(s.fn, blk, a); !ok2 {
			return false, false, "input-derived index may be negative: " + why
		}
		var base ssa.Value
		switch x := s.instr.(type) {
		case *ssa.IndexAddr:
			base = x.X
		case *ssa.Index:
			base = x.X
		}
		var lenA Affine
		if n, ok := byteLenAny(base); ok {
			lenA = newAffine()
			lenA.K = n
		} else {
			lenA = symAffine("len("+resolvedPath(base)+")", nil)
		}
		req := lenA.add(a, -1)
		req.K--
		if ok2, why := c.entailedHere(s.fn, blk, req); !ok2 {
			// the index cannot exceed what its own arithmetic allows (a narrow unsigned value
			// shifted right, masked, reduced modulo a constant) and that is below a length
			// known from the type or the constant indexed
			if ub, isB := staticUpperBound(idx, 0); isB {
				if n, isN := staticLen(base); isN && ub < n {
					return true, false, ""
				}
			}
			return false, false, "input-derived index (" + t.Why(idx) + ") is not bounded by the length: " + why
		}
		return true, false, ""
	}
	return false, false, "unknown sink kind"
}

// byteLenAny returns the static length of an array (or pointer to array) operand.
func byteLenAny(v ssa.Value) (int64, bool) {
	t := v.Type().Underlying()
	if p, ok := t.(*types.Pointer); ok {
		t = p.Elem().Underlying()
	}
	if a, ok := t.(*types.Array); ok {
		return a.Len(), true
	}
	return 0, false
}

// RuleT judges the sinks selected by `in` (by function) and kinds.
func (c *Ctx) RuleT(rulePrefix string, in func(*ssa.Function) bool, kinds map[string]bool) int {
	counts := map[string]int{}
	n := 0
	for _, s := range c.collectSinks() {
		if !kinds[s.kind] || (in != nil && !in(s.fn)) {
			continue
		}
		n++
		rule := rulePrefix + s.kind
		key := ordinalKey(counts, name(s.fn)+":"+s.role)
		construct := strings.TrimPrefix(key, name(s.fn)+":")
		ok, trivial, detail := c.judgeSink(s)
		if !ok {
			why := c.stateObjectSink(s)
			if why == "" {
				why = c.checkThroughFuncValue(s)
			}
			if why != "" {
				c.R.Infof(rule, name(s.fn), construct, c.IPos(s.instr), "not decided for this shape: "+s.desc+" — "+why)
				continue
			}
		}
		o := reportObl(rule, name(s.fn), construct, c.IPos(s.instr), s.desc, "ok")
		o.Trivial = trivial
		if !ok {
			o.Status = "violation"
			o.Detail = detail
		}
		c.R.Add(o)
	}
	return n
}

var inputPrimitives = map[string]bool{
	"encoding/binary.Read": true, "io.ReadFull": true, "io.ReadAll": true, "io.ReadAtLeast": true, "io.Copy": true, "io.CopyN": true,
	"io.Reader.Read": true, "io.ReaderAt.ReadAt": true, "bytes.Buffer.Read": true, "bytes.Reader.Read": true, "bytes.Buffer.ReadFrom": true,
	"bytes.Buffer.ReadByte": true, "bytes.Reader.ReadByte": true, "bytes.Buffer.Next": true, "debug/pe.NewFile": true,
}

// readCone: library functions from which a call that consumes caller input is
// reachable through library callees (closures included). T2 (wrap of a
// declared size) is a decoding concern and is judged only there.
func (c *Ctx) readCone() map[*ssa.Function]bool {
	if c.readConeCache != nil {
		return c.readConeCache
	}
	cone := map[*ssa.Function]bool{}
	fns := c.P.LibFunctions()
	direct := func(fn *ssa.Function) bool {
		found := false
		instrsOf(fn, func(i ssa.Instruction) {
			if call, ok := i.(ssa.CallInstruction); ok {
				id := ir.CallID(call)
				if inputPrimitives[id] || strings.HasPrefix(id, "golang.org/x/crypto/cryptobyte.String.Read") {
					found = true
				}
			}
		})
		return found
	}
	for _, fn := range fns {
		if direct(fn) {
			cone[fn] = true
		}
	}
	cg := c.P.CallGraph()
	for changed := true; changed; {
		changed = false
		for _, fn := range fns {
			if cone[fn] {
				continue
			}
			hit := false
			if n := cg.Nodes[fn]; n != nil {
				for _, e := range n.Out {
					if cone[e.Callee.Func] && c.P.InLib(e.Callee.Func) {
						hit = true
					}
				}
			}
			for _, a := range fn.AnonFuncs {
				if cone[a] {
					hit = true
				}
			}
			if p := fn.Parent(); p != nil && cone[p] {
				hit = true
			}
			if hit {
				cone[fn] = true
				changed = true
			}
		}
	}
	c.readConeCache = cone
	return cone
}

// factsAt: the affine facts that hold at block blk of fn: its own dominating
// comparisons (and those of enclosing functions for closures) plus, for every
// dominating edge that observes the success of a library helper (err == nil,
// ok == true), the facts that hold at all of the helper's accepting returns,
// with the helper's parameters replaced by the arguments of that call.
func (c *Ctx) factsAt(fn *ssa.Function, blk *ssa.BasicBlock) []Affine {
	out := affineFacts(c.guardFacts(fn, blk))
	e := c.accept()
	for _, ce := range ir.DominatingConds(fn, blk) {
		call, em := e.observe(fn, ce)
		if call == nil {
			continue
		}
		callee := ir.Callee(call)
		if callee == nil || !c.P.InLib(callee) {
			continue
		}
		out = append(out, c.calleeFactsAtCall(callee, call, em)...)
	}
	if parent := fn.Parent(); parent != nil {
		for _, f := range withAnon(topFn(fn)) {
			instrsOf(f, func(i ssa.Instruction) {
				if mc, ok := i.(*ssa.MakeClosure); ok && mc.Fn == fn && f != fn {
					for _, ce := range ir.DominatingConds(f, mc.Block()) {
						if call, em := e.observe(f, ce); call != nil {
							if callee := ir.Callee(call); callee != nil && c.P.InLib(callee) {
								out = append(out, c.calleeFactsAtCall(callee, call, em)...)
							}
						}
					}
				}
			})
		}
	}
	return out
}

// calleeFacts: facts common to all accepting returns of callee, in the caller's symbols.
func (c *Ctx) calleeFacts(callee *ssa.Function, args []ssa.Value, depth int) []Affine {
	return c.calleeFactsMode(callee, args, depth, false)
}

// calleeFactsAtCall: calleeFacts for one call, with facts about a struct the
// callee builds locally and returns (by value or by address) restated over the
// place the caller keeps that result in.
func (c *Ctx) calleeFactsAtCall(callee *ssa.Function, call *ssa.Call, errMode bool) []Affine {
	return c.calleeFactsCall(callee, ir.CallArgs(call), 0, errMode, call)
}

func (c *Ctx) calleeFactsMode(callee *ssa.Function, args []ssa.Value, depth int, errMode bool) []Affine {
	return c.calleeFactsCall(callee, args, depth, errMode, nil)
}

// resultBases maps the callee-side name of each returned local struct to the
// caller-side name of where the result of call lives; blocked lists, per caller
// base, the fields the caller assigns itself.
func resultBases(callee *ssa.Function, acc []*ssa.Return, call *ssa.Call) (map[string]string, map[string]map[string]bool) {
	bases := map[string]string{}
	blocked := map[string]map[string]bool{}
	if call == nil || len(acc) == 0 || call.Referrers() == nil {
		return bases, blocked
	}
	for k := range acc[0].Results {
		var a *ssa.Alloc
		byValue := false
		same := true
		for _, r := range acc {
			var ra *ssa.Alloc
			bv := false
			switch x := r.Results[k].(type) {
			case *ssa.UnOp:
				if x.Op == token.MUL {
					ra, _ = x.X.(*ssa.Alloc)
					bv = true
				}
			case *ssa.Alloc:
				ra = x
			}
			if ra == nil || (a != nil && ra != a) {
				same = false
				break
			}
			a, byValue = ra, bv
		}
		if !same || a == nil {
			continue
		}
		if _, isStruct := a.Type().Underlying().(*types.Pointer).Elem().Underlying().(*types.Struct); !isStruct {
			continue
		}
		// the caller-side value of result k
		var rv ssa.Value = call
		if len(acc[0].Results) > 1 {
			rv = nil
			for _, ref := range *call.Referrers() {
				if ex, ok := ref.(*ssa.Extract); ok && ex.Index == k {
					rv = ex
				}
			}
		}
		if rv == nil || rv.Referrers() == nil {
			continue
		}
		calleeBase := ir.AddrPath(a)
		if !byValue {
			bases[calleeBase] = ir.AddrPath(rv)
			continue
		}
		for _, ref := range *rv.Referrers() {
			st, ok := ref.(*ssa.Store)
			if !ok || st.Val != rv || st.Block() != call.Block() {
				continue
			}
			b, ok := st.Addr.(*ssa.Alloc)
			if !ok {
				continue
			}
			// the caller's own assignments to fields of the copy end the callee's facts about them
			whole := 0
			fields := map[string]bool{}
			for _, br := range *b.Referrers() {
				switch y := br.(type) {
				case *ssa.Store:
					if y.Addr == ssa.Value(b) {
						whole++
					}
				case *ssa.FieldAddr:
					for _, fr := range *y.Referrers() {
						if fs, isSt := fr.(*ssa.Store); isSt && fs.Addr == ssa.Value(y) {
							fields[ir.FieldOf(y).Name()] = true
						}
					}
				}
			}
			if whole != 1 {
				continue
			}
			bases[calleeBase] = ir.AddrPath(b)
			blocked[ir.AddrPath(b)] = fields
		}
	}
	return bases, blocked
}

func substResultBases(f Affine, bases map[string]string, blocked map[string]map[string]bool) Affine {
	if len(bases) == 0 {
		return f
	}
	out := newAffine()
	out.K = f.K
	for sym, coeff := range f.T {
		ns := sym
		for from, to := range bases {
			idx := strings.Index(sym, from)
			if idx < 0 {
				continue
			}
			end := idx + len(from)
			if end < len(sym) && sym[end] != '.' && sym[end] != ')' && sym[end] != '[' {
				continue
			}
			// a field the caller reassigns keeps its callee-side (unusable) name
			rest := strings.TrimPrefix(sym[end:], ".")
			first := rest
			if i := strings.IndexAny(rest, ".)["); i >= 0 {
				first = rest[:i]
			}
			if blocked[to][first] {
				continue
			}
			ns = sym[:idx] + to + sym[end:]
			break
		}
		out.T[ns] += coeff
		out.Sym[ns] = f.Sym[sym]
	}
	return out
}

func (c *Ctx) calleeFactsCall(callee *ssa.Function, args []ssa.Value, depth int, errMode bool, call *ssa.Call) []Affine {
	if depth > 3 {
		return nil
	}
	acc := acceptingReturnsMode(callee, errMode)
	if len(acc) == 0 {
		return nil
	}
	var common []Affine
	for k, r := range acc {
		fs := c.factsAt(callee, r.Block())
		if k == 0 {
			common = fs
			continue
		}
		var keep []Affine
		for _, a := range common {
			for _, b := range fs {
				if a.equal(b) {
					keep = append(keep, a)
					break
				}
			}
		}
		common = keep
	}
	bases, blocked := resultBases(callee, acc, call)
	var out []Affine
	for _, f := range common {
		if g, ok := substParams(substResultBases(f, bases, blocked), callee, args); ok {
			out = append(out, g)
		}
	}
	return out
}

// substParams rewrites the symbols of a callee-side fact into caller symbols.
func substParams(f Affine, callee *ssa.Function, args []ssa.Value) (Affine, bool) {
	out := newAffine()
	out.K = f.K
	for sym, coeff := range f.T {
		replaced := false
		for k, p := range callee.Params {
			if k >= len(args) {
				break
			}
			tag := "param:" + p.Name()
			idx := strings.Index(sym, tag)
			if idx < 0 {
				continue
			}
			// make sure the match is the whole parameter name
			end := idx + len(tag)
			if end < len(sym) && (sym[end] != '.' && sym[end] != ')' && sym[end] != '[') {
				continue
			}
			arg := args[k]
			if sym == tag {
				out = out.add(affineOf(arg, 0).scale(coeff), 1)
				replaced = true
				break
			}
			if _, isPtr := p.Type().Underlying().(*types.Pointer); isPtr {
				ns := sym[:idx] + ir.AddrPath(ir.StripConv(arg)) + sym[end:]
				out.T[ns] += coeff
				out.Sym[ns] = f.Sym[sym]
				replaced = true
				break
			}
			return Affine{}, false
		}
		if !replaced {
			if strings.Contains(sym, "param:") {
				return Affine{}, false
			}
			out.T[sym] += coeff
			out.Sym[sym] = f.Sym[sym]
		}
	}
	return out, true
}

// rulePartialField (T6): a size that is computed from one byte of a multi-byte
// wire field. A length kept as [N]byte (N <= 8) is an integer; a size, bound or
// count derived from a constant-index element of it must use every byte of the
// field, otherwise values above 255 are silently truncated.
func (c *Ctx) rulePartialField(rule string, in func(*ssa.Function) bool) int {
	n := 0
	counts := map[string]int{}
	for _, s := range c.collectSinks() {
		if in != nil && !in(s.fn) {
			continue
		}
		type key struct {
			base  string
			field string
		}
		seen := map[key]map[int64]bool{}
		size := map[key]int64{}
		for _, subj := range s.subjects {
			if subj == nil {
				continue
			}
			for v := range c.sliceOf(subj) {
				ia, ok := v.(*ssa.IndexAddr)
				if !ok {
					continue
				}
				k, isK := ir.ConstInt(ia.Index)
				fa, isF := ia.X.(*ssa.FieldAddr)
				if !isK || !isF {
					continue
				}
				arr, isArr := fa.Type().Underlying().(*types.Pointer).Elem().Underlying().(*types.Array)
				if !isArr || binarySize(arr.Elem()) != 1 || arr.Len() < 2 || arr.Len() > 8 {
					continue
				}
				kk := key{ir.AccessPath(fa.X), ir.FieldID(fa)}
				if seen[kk] == nil {
					seen[kk] = map[int64]bool{}
				}
				seen[kk][k] = true
				size[kk] = arr.Len()
			}
		}
		for kk, idx := range seen {
			n++
			ck := ordinalKey(counts, name(s.fn)+":"+shortID(kk.field))
			c.R.Check(int64(len(idx)) == size[kk], rule, name(s.fn), strings.TrimPrefix(ck, name(s.fn)+":"), c.IPos(s.instr),
				"a size derived from a multi-byte wire field uses all of its bytes",
				fmt.Sprintf("the size at this site is computed from %d of the %d bytes of %s: larger values are truncated", len(idx), size[kk], shortID(kk.field)))
		}
	}
	return n
}

// ruleCodeUnits (T7): the length of a string that was decoded from UTF-16 is a
// count of UTF-8 bytes, not of the 2-byte code units it occupied on the wire.
// An offset, bound or size computed from len() of such a string is wrong for
// every character outside ASCII.
func (c *Ctx) ruleCodeUnits(rule string, in func(*ssa.Function) bool, decodedFields map[string]bool) int {
	n := 0
	counts := map[string]int{}
	for _, s := range c.collectSinks() {
		if in != nil && !in(s.fn) {
			continue
		}
		bad := ""
		for _, subj := range s.subjects {
			if subj == nil {
				continue
			}
			for v := range c.sliceOf(subj) {
				lc, ok := v.(*ssa.Call)
				if !ok || ir.CallID(lc) != "builtin.len" || !types.Identical(lc.Call.Args[0].Type().Underlying(), types.Typ[types.String]) {
					continue
				}
				arg := lc.Call.Args[0]
				fromUTF16 := decodedFields[ir.FieldID(arg)]
				for w := range c.sliceOf(arg) {
					if call, isC := w.(*ssa.Call); isC && ir.CallID(call) == utilPkg+".ParseUtf16Var" {
						fromUTF16 = true
					}
					if decodedFields[ir.FieldID(w)] {
						fromUTF16 = true
					}
				}
				if fromUTF16 {
					bad = "len() of a string decoded from UTF-16 (" + ir.AccessPath(arg) + ", at " + c.IPos(lc) + ")"
				}
			}
		}
		if bad == "" {
			continue
		}
		n++
		key := ordinalKey(counts, name(s.fn)+":"+s.role)
		c.R.Violf(rule, name(s.fn), strings.TrimPrefix(key, name(s.fn)+":"), c.IPos(s.instr),
			"positions in the encoded structure are not computed from the UTF-8 length of a decoded string",
			"the "+s.role+" here depends on "+bad+": that is its UTF-8 byte count, not the number of UTF-16 code units it took in the input, so the position is wrong for non-ASCII text")
	}
	c.R.Infof(rule, "-", "scan", "-", fmt.Sprintf("sizes, bounds and offsets that depend on the length of a UTF-16-decoded string: %d", n))
	return n
}

// stateObjectSink: the quantities of the sink are fields of a state object of an
// unexported library type that the function receives (a small reader/decoder
// type whose methods share the remaining length, the element size, ...). The
// relation between such fields is established by the code that builds and
// drives the object, not in the method that uses them; the dominating-check
// rule does not see it.
func (c *Ctx) stateObjectSink(s *sink) string {
	if s.fn.Object() != nil && s.fn.Object().Exported() && s.fn.Signature.Recv() == nil {
		return ""
	}
	why := ""
	any := false
	for _, subj := range s.subjects {
		if subj == nil {
			continue
		}
		for v := range c.sliceOfLocal(subj) {
			var base ssa.Value
			switch x := v.(type) {
			case *ssa.FieldAddr:
				base = x.X
			case *ssa.Field:
				base = x.X
			default:
				continue
			}
			p, isP := ir.RootOf(base).(*ssa.Parameter)
			if !isP || p.Parent() != s.fn {
				continue
			}
			t := p.Type()
			if pp, isPtr := t.Underlying().(*types.Pointer); isPtr {
				t = pp.Elem()
			}
			n, isN := t.(*types.Named)
			if !isN || n.Obj().Exported() || n.Obj().Pkg() == nil || !strings.HasPrefix(n.Obj().Pkg().Path(), M) {
				continue
			}
			any = true
			why = "the operands are fields of the state object " + p.Name() + " (" + n.Obj().Name() + "): their relation is established where the object is built and driven"
		}
	}
	if !any {
		return ""
	}
	return why
}

// sliceOfLocal: the intraprocedural backward slice of v (no descent into callers/callees).
func (c *Ctx) sliceOfLocal(v ssa.Value) map[ssa.Value]bool {
	sl := ir.NewSlicer(c.P.InModule, nil, 0)
	return sl.Slice(v)
}

// checkThroughFuncValue: before the sink the function calls a function value
// that is not fixed by the code (an entry of a table of checks) and yields a
// verdict; the comparisons made inside it are not visible to the
// dominating-check rule.
func (c *Ctx) checkThroughFuncValue(s *sink) string {
	why := ""
	blk := s.instr.Block()
	instrsOf(s.fn, func(i ssa.Instruction) {
		call, ok := i.(*ssa.Call)
		if !ok || why != "" || call.Call.IsInvoke() {
			return
		}
		if _, isB := call.Call.Value.(*ssa.Builtin); isB {
			return
		}
		if ir.Callee(call) != nil {
			return
		}
		rs := call.Call.Signature().Results()
		if rs.Len() == 0 || !(isBoolType(rs.At(0).Type()) || isErrorType(rs.At(rs.Len()-1).Type())) {
			return
		}
		seen, _ := ir.Reach(s.fn, call.Block(), nil)
		if seen[blk.Index] && call.Block() != blk {
			why = "a check is made through a function value (call at " + c.IPos(call) + ") before this point"
		}
	})
	return why
}

// ruleWidthDecode (T8): ByteOrder.UintNN(b) panics when b is shorter than the
// field. A slice whose length the input decides needs a dominating check of
// that length (or a constant length) before a fixed-width field is decoded
// from it.
func (c *Ctx) ruleWidthDecode(rule string, in func(*ssa.Function) bool) int {
	n := 0
	counts := map[string]int{}
	for _, fn := range c.P.LibFunctions() {
		if in != nil && !in(fn) {
			continue
		}
		fn := fn
		instrsOf(fn, func(i ssa.Instruction) {
			call, ok := i.(*ssa.Call)
			if !ok {
				return
			}
			id := ir.CallID(call)
			if !strings.HasPrefix(id, "encoding/binary.") {
				return
			}
			w := int64(0)
			switch id[strings.LastIndex(id, ".")+1:] {
			case "Uint16":
				w = 2
			case "Uint32":
				w = 4
			case "Uint64":
				w = 8
			default:
				return
			}
			args := ir.CallArgs(call)
			b := ir.StripConv(args[len(args)-1])
			// peel reslices with constant bounds: need len(root) >= need
			need := w
			root := b
			for {
				sl, isSl := root.(*ssa.Slice)
				if !isSl {
					break
				}
				lo := int64(0)
				if sl.Low != nil {
					k, isK := ir.ConstInt(sl.Low)
					if !isK {
						return // computed offsets: judged by the slice-bound rule (T3)
					}
					lo = k
				}
				if sl.High != nil {
					hk, isK := ir.ConstInt(sl.High)
					if !isK {
						return
					}
					if hk-lo >= need {
						// the reslice itself panics first if the root is too short: length needed is hk
						need = hk
					} else {
						need = -1 // constant window narrower than the field: always panics; leave to vet
					}
					if pt, isP := sl.X.Type().Underlying().(*types.Pointer); isP {
						if arr, isArr := pt.Elem().Underlying().(*types.Array); isArr && arr.Len() >= hk {
							return
						}
					}
				} else {
					if pt, isP := sl.X.Type().Underlying().(*types.Pointer); isP {
						if arr, isArr := pt.Elem().Underlying().(*types.Array); isArr {
							if arr.Len()-lo >= need {
								return
							}
						}
					}
					need += lo
				}
				root = ir.StripConv(sl.X)
			}
			if need < 0 {
				return
			}
			if ms, isMS := root.(*ssa.MakeSlice); isMS {
				if k, isK := ir.ConstInt(ms.Len); isK && k >= need {
					return
				}
				// a length that folds to a constant (binary.Size of a fixed type, a
				// package-level variable nothing but its initialiser assigns)
				if a := affineOf(ms.Len, 0); a.isConst() && a.K >= need {
					return
				}
			}
			// a slice literal
			if a, isA := root.(*ssa.Alloc); isA {
				if arr, isArr := a.Type().Underlying().(*types.Pointer).Elem().Underlying().(*types.Array); isArr && arr.Len() >= need {
					return
				}
			}
			n++
			key := ordinalKey(counts, name(fn)+":width")
			construct := strings.TrimPrefix(key, name(fn)+":")
			// dominating knowledge about the length
			lb := int64(0)
			rootPath := ir.AccessPath(root)
			var lenVal ssa.Value
			if ms, isMS := root.(*ssa.MakeSlice); isMS {
				lenVal = ir.StripConv(ms.Len)
			}
			for _, ce := range ir.DominatingConds(fn, call.Block()) {
				bo, isB := ce.Cond.(*ssa.BinOp)
				if !isB {
					continue
				}
				isLen := func(v ssa.Value) bool {
					v = ir.StripConv(v)
					if lc, ok := v.(*ssa.Call); ok && ir.CallID(lc) == "builtin.len" {
						return ir.AccessPath(ir.StripConv(lc.Call.Args[0])) == rootPath && rootPath != ""
					}
					return lenVal != nil && v == lenVal
				}
				op := bo.Op
				var k int64
				switch {
				case isLen(bo.X):
					kk, isK := ir.ConstInt(ir.StripConv(bo.Y))
					if !isK {
						continue
					}
					k = kk
				case isLen(bo.Y):
					kk, isK := ir.ConstInt(ir.StripConv(bo.X))
					if !isK {
						continue
					}
					k = kk
					switch op {
					case token.LSS:
						op = token.GTR
					case token.LEQ:
						op = token.GEQ
					case token.GTR:
						op = token.LSS
					case token.GEQ:
						op = token.LEQ
					}
				default:
					continue
				}
				if !ce.Truth {
					op = negate(op)
				}
				switch op {
				case token.GEQ, token.EQL:
					if k > lb {
						lb = k
					}
				case token.GTR:
					if k+1 > lb {
						lb = k + 1
					}
				}
			}
			what := "a fixed-width field is decoded only from a slice known to be long enough"
			if lb >= need {
				c.R.Okf(rule, name(fn), construct, c.IPos(call), what)
				return
			}
			// decided only for a buffer this function sizes from input (make with a computed
			// length, or everything a reader delivers) and on which no length test dominates
			inputSized := false
			switch x := root.(type) {
			case *ssa.MakeSlice:
				inputSized = true
			case *ssa.Call:
				switch ir.CallID(x) {
				case "io.ReadAll", "os.ReadFile", "bytes.Buffer.Bytes", "bytes.Buffer.Next":
					inputSized = true
				}
			case *ssa.Extract:
				if cc, isC := x.Tuple.(*ssa.Call); isC && x.Index == 0 {
					switch ir.CallID(cc) {
					case "io.ReadAll", "os.ReadFile":
						inputSized = true
					}
				}
			}
			otherTest := false
			for _, ce := range ir.DominatingConds(fn, call.Block()) {
				bo, isB := ce.Cond.(*ssa.BinOp)
				if !isB {
					continue
				}
				for _, side := range []ssa.Value{bo.X, bo.Y} {
					// the length itself, possibly with constant arithmetic around it
					for v := range c.sliceOf(side) {
						if lc, ok := v.(*ssa.Call); ok && ir.CallID(lc) == "builtin.len" && ir.AccessPath(ir.StripConv(lc.Call.Args[0])) == rootPath && rootPath != "" {
							otherTest = true
						}
					}
					if lenVal != nil && ir.StripConv(side) == lenVal {
						otherTest = true
					}
				}
			}
			if !inputSized || otherTest {
				c.R.Infof(rule, name(fn), construct, c.IPos(call), fmt.Sprintf("not decided for this shape: whether %s holds %d bytes is settled by the callers or by a test the rule does not evaluate", rootPath, need))
				return
			}
			c.R.Violf(rule, name(fn), construct, c.IPos(call), what,
				fmt.Sprintf("%s reads %d bytes of %s; nothing on the way establishes len >= %d (known: >= %d): a shorter value panics with index out of range", id[strings.LastIndex(id, ".")+1:], w, rootPath, need, lb))
		})
	}
	return n
}

// minLenAt: what the conditions dominating blk establish about the length of
// the slice root (a lower bound), and whether some other test of the length
// dominates that the rule does not evaluate.
func (c *Ctx) minLenAt(fn *ssa.Function, blk *ssa.BasicBlock, root ssa.Value) (lb int64, other bool) {
	rootPath := ir.AccessPath(root)
	var lenVal ssa.Value
	if ms, isMS := root.(*ssa.MakeSlice); isMS {
		lenVal = ir.StripConv(ms.Len)
	}
	for _, ce := range ir.DominatingConds(fn, blk) {
		bo, isB := ce.Cond.(*ssa.BinOp)
		if !isB {
			continue
		}
		isLen := func(v ssa.Value) bool {
			v = ir.StripConv(v)
			if lc, ok := v.(*ssa.Call); ok && ir.CallID(lc) == "builtin.len" {
				return ir.AccessPath(ir.StripConv(lc.Call.Args[0])) == rootPath && rootPath != ""
			}
			return lenVal != nil && v == lenVal
		}
		op := bo.Op
		var k int64
		switch {
		case isLen(bo.X):
			kk, isK := ir.ConstInt(ir.StripConv(bo.Y))
			if !isK {
				other = true
				continue
			}
			k = kk
		case isLen(bo.Y):
			kk, isK := ir.ConstInt(ir.StripConv(bo.X))
			if !isK {
				other = true
				continue
			}
			k = kk
			op = flip(op)
		default:
			continue
		}
		if !ce.Truth {
			op = negate(op)
		}
		switch op {
		case token.GEQ, token.EQL:
			if k > lb {
				lb = k
			}
		case token.GTR:
			if k+1 > lb {
				lb = k + 1
			}
		}
	}
	return lb, other
}

// fixedDigestSize: v is a hash state made by a constructor of the standard
// library whose digest size is fixed (sha256.New, crypto.SHA256.New(), ...).
func (c *Ctx) fixedDigestSize(v ssa.Value) (int64, bool) {
	call, ok := ir.StripIface(ir.StripConv(v)).(*ssa.Call)
	if !ok {
		return 0, false
	}
	switch ir.CallID(call) {
	case "crypto/md5.New":
		return 16, true
	case "crypto/sha1.New":
		return 20, true
	case "crypto/sha256.New224", "crypto/sha512.New512_224":
		return 28, true
	case "crypto/sha256.New", "crypto/sha512.New512_256":
		return 32, true
	case "crypto/sha512.New384":
		return 48, true
	case "crypto/sha512.New":
		return 64, true
	case "crypto.Hash.New":
		if len(call.Call.Args) != 1 {
			return 0, false
		}
		k, isK := ir.ConstInt(call.Call.Args[0])
		if !isK {
			return 0, false
		}
		for nm, size := range map[string]int64{"MD5": 16, "SHA1": 20, "SHA224": 28, "SHA256": 32, "SHA384": 48, "SHA512": 64, "SHA512_224": 28, "SHA512_256": 32} {
			if want, found := c.constInt("crypto", nm); found && want == k {
				return size, true
			}
		}
	}
	return 0, false
}

// lenByConstruction: a lower bound of the length of the slice root that holds
// because of how the value is made, whatever the input: the sum a hash state
// of fixed digest size appends (h.Sum(b) has len(b) + h.Size() bytes), an
// array sliced without an upper bound, a make with a constant length.
func (c *Ctx) lenByConstruction(root ssa.Value) (int64, bool) {
	switch x := ir.StripConv(root).(type) {
	case *ssa.Call:
		if ir.CallID(x) == "hash.Hash.Sum" && x.Call.IsInvoke() {
			return c.fixedDigestSize(x.Call.Value)
		}
	case *ssa.Slice:
		if x.High != nil {
			return 0, false
		}
		p, isP := x.X.Type().Underlying().(*types.Pointer)
		if !isP {
			return 0, false
		}
		arr, isArr := p.Elem().Underlying().(*types.Array)
		if !isArr {
			return 0, false
		}
		lo := int64(0)
		if x.Low != nil {
			k, isK := ir.ConstInt(x.Low)
			if !isK {
				return 0, false
			}
			lo = k
		}
		if arr.Len()-lo >= 0 {
			return arr.Len() - lo, true
		}
	case *ssa.MakeSlice:
		if k, isK := ir.ConstInt(x.Len); isK && k >= 0 {
			return k, true
		}
	}
	return 0, false
}

// ruleArrayConversion (T9): converting a slice to an array (or array pointer)
// panics when the slice is shorter than the array. A slice whose length comes
// from input needs a dominating test of its length.
func (c *Ctx) ruleArrayConversion(rule string, in func(*ssa.Function) bool) int {
	n := 0
	counts := map[string]int{}
	for _, fn := range c.P.LibFunctions() {
		if in != nil && !in(fn) {
			continue
		}
		fn := fn
		instrsOf(fn, func(i ssa.Instruction) {
			cv, ok := i.(*ssa.SliceToArrayPointer)
			if !ok {
				return
			}
			arr, isArr := cv.Type().Underlying().(*types.Pointer).Elem().Underlying().(*types.Array)
			if !isArr {
				return
			}
			root := ir.StripConv(cv.X)
			if sl, isSl := root.(*ssa.Slice); isSl && sl.High != nil {
				if hk, isK := ir.ConstInt(sl.High); isK {
					lo := int64(0)
					if sl.Low != nil {
						lo, _ = ir.ConstInt(sl.Low)
					}
					if hk-lo >= arr.Len() {
						return // the reslice has the length (and panics itself if it cannot)
					}
				}
			}
			n++
			key := ordinalKey(counts, name(fn)+":arrayconv")
			construct := strings.TrimPrefix(key, name(fn)+":")
			lb, other := c.minLenAt(fn, cv.Block(), root)
			if k, known := c.lenByConstruction(root); known && k > lb {
				lb = k
			}
			what := "a slice is converted to an array only where it is known to be long enough"
			switch {
			case lb >= arr.Len():
				c.R.Okf(rule, name(fn), construct, c.IPos(cv), what)
			case other:
				c.R.Infof(rule, name(fn), construct, c.IPos(cv), "not decided for this shape: the length of the converted slice is tested against something that is not a constant")
			default:
				if _, isP := root.(*ssa.Parameter); isP {
					c.R.Infof(rule, name(fn), construct, c.IPos(cv), "not decided for this shape: the converted slice is a parameter; its length is the callers' business")
					return
				}
				c.R.Violf(rule, name(fn), construct, c.IPos(cv), what, fmt.Sprintf("%s is converted to [%d]byte and nothing on the way establishes len >= %d (known: >= %d): a shorter value panics", ir.AccessPath(root), arr.Len(), arr.Len(), lb))
			}
		})
	}
	return n
}

// ruleDivisor (T10): an integer division or remainder by a value read from
// input needs a dominating test that the divisor is not zero.
// excludesZero: on the taken edge the value selected by is cannot be zero.
func excludesZero(g guardFact, is func(ssa.Value) bool) bool {
	op := g.cmp.Op
	if !g.truth {
		op = negate(op)
	}
	x, y := g.cmp.X, g.cmp.Y
	if is(y) && !is(x) {
		x, y = y, x
		op = flip(op)
	}
	if !is(x) {
		return false
	}
	k, isK := ir.ConstInt(ir.StripConv(y))
	if !isK {
		return false
	}
	switch {
	case op == token.NEQ && k == 0, op == token.GTR && k >= 0, op == token.GEQ && k >= 1, op == token.EQL && k != 0:
		return true
	}
	return false
}

func (c *Ctx) ruleDivisor(rule string, in func(*ssa.Function) bool) int {
	t := c.taint()
	n := 0
	counts := map[string]int{}
	for _, fn := range c.P.LibFunctions() {
		if in != nil && !in(fn) {
			continue
		}
		fn := fn
		instrsOf(fn, func(i ssa.Instruction) {
			bo, ok := i.(*ssa.BinOp)
			if !ok || bo.Op != token.QUO && bo.Op != token.REM || !isNumeric(bo.Type()) {
				return
			}
			if b, isBasic := bo.Type().Underlying().(*types.Basic); !isBasic || b.Info()&types.IsInteger == 0 {
				return
			}
			d := ir.StripConv(bo.Y)
			if _, isK := d.(*ssa.Const); isK || t.Why(bo.Y) == "" {
				return
			}
			n++
			key := ordinalKey(counts, name(fn)+":div")
			construct := strings.TrimPrefix(key, name(fn)+":")
			dp := resolvedPath(bo.Y)
			nonZero := false
			for _, g := range c.guardFacts(fn, bo.Block()) {
				if excludesZero(g, func(v ssa.Value) bool { return resolvedPath(v) == dp }) {
					nonZero = true
				}
			}
			if p, isParam := d.(*ssa.Parameter); isParam && !nonZero && (fn.Object() == nil || !fn.Object().Exported()) {
				// a helper or closure: the callers tested what they hand down
				if okAll, _ := c.paramGuarded(fn, p, func(g guardFact, subj map[string]ssa.Value) bool {
					return excludesZero(g, func(v ssa.Value) bool {
						l := leafSet(v)
						return len(l) == 1 && len(subj) == 1 && intersects(l, subj)
					})
				}); okAll {
					nonZero = true
				}
			}
			c.R.Check(nonZero, rule, name(fn), construct, c.IPos(bo), "a divisor read from input is tested to be non-zero before the division",
				"the divisor "+dp+" comes from input ("+t.Why(bo.Y)+") and no dominating comparison excludes zero: integer divide by zero")
		})
	}
	return n
}
