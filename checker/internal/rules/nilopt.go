package rules

import (
	"go/types"
	"sort"
	"strings"

	"golang.org/x/tools/go/ssa"

	"verif/checker/internal/ir"
)

// Rule N: a result that a callee may return as nil together with a nil error
// must be nil-checked before it is dereferenced — also through the struct
// field it is stored in.

var optionalLibResults = map[string]int{
	"encoding/pem.Decode": 0,
}

// optionalFuncs finds repo functions with a `return nil, nil`-style exit: a
// pointer result that is the nil constant on a return whose error result is
// the nil constant too.
func (c *Ctx) optionalFuncs() map[*ssa.Function]int {
	out := map[*ssa.Function]int{}
	for _, fn := range c.P.LibFunctions() {
		sig := fn.Signature
		if sig.Results().Len() < 2 {
			continue
		}
		last := sig.Results().Len() - 1
		if !isErrorType(sig.Results().At(last).Type()) {
			continue
		}
		for _, r := range ir.Returns(fn) {
			if len(r.Results) != sig.Results().Len() || !ir.IsNilConst(r.Results[last]) {
				continue
			}
			for k := 0; k < last; k++ {
				if _, isPtr := sig.Results().At(k).Type().Underlying().(*types.Pointer); isPtr && ir.IsNilConst(r.Results[k]) {
					out[fn] = k
				}
			}
		}
	}
	return out
}

// derefUses lists instructions that dereference pointer value v.
func derefUses(v ssa.Value) []ssa.Instruction {
	var out []ssa.Instruction
	refs := v.Referrers()
	if refs == nil {
		return nil
	}
	for _, r := range *refs {
		switch x := r.(type) {
		case *ssa.FieldAddr:
			if x.X == v {
				out = append(out, r)
			}
		case *ssa.UnOp:
			if x.X == v {
				out = append(out, r)
			}
		case *ssa.IndexAddr:
			if x.X == v {
				out = append(out, r)
			}
		case ssa.CallInstruction:
			cc := x.Common()
			if cc.IsInvoke() {
				continue
			}
			if callee := cc.StaticCallee(); callee != nil && callee.Signature.Recv() != nil && len(cc.Args) > 0 && cc.Args[0] == v {
				out = append(out, r)
			}
		}
	}
	return out
}

// nilGuarded reports whether instruction use is dominated by an edge on which
// the location with access path `path` (or SSA value v) is known non-nil.
func nilGuarded(fn *ssa.Function, use ssa.Instruction, v ssa.Value, path string) bool {
	for _, ce := range ir.DominatingConds(fn, use.Block()) {
		x, nilWhenTrue, ok := ir.NilCheck(ce.RawCond)
		if !ok {
			continue
		}
		succTrue := ce.RawTruth
		nonNil := succTrue != nilWhenTrue
		if !nonNil {
			continue
		}
		if x == v || (path != "" && ir.AccessPath(x) == path) {
			return true
		}
	}
	return false
}

// guardedAtCallers: fn is only called from library code, and every call site is
// dominated by a non-nil check of a load of the same field (the caller checked
// before handing the value, or the object that holds it, down).
func (c *Ctx) guardedAtCallers(fn *ssa.Function, f *types.Var, depth int) bool {
	if depth > 3 {
		return false
	}
	node := c.P.CallGraph().Nodes[fn]
	if node == nil || len(node.In) == 0 {
		return false
	}
	if fn.Object() != nil && fn.Object().Exported() {
		return false // callable from outside with an unchecked value
	}
	for _, in := range node.In {
		caller := in.Caller.Func
		if in.Site == nil || !c.P.InLib(caller) {
			return false
		}
		ok := false
		for _, ce := range ir.DominatingConds(caller, in.Site.Block()) {
			x, nilWhenTrue, isNC := ir.NilCheck(ce.RawCond)
			if !isNC {
				continue
			}
			succTrue := ce.RawTruth
			if succTrue == nilWhenTrue {
				continue // nil on this edge
			}
			if ld, isLd := x.(*ssa.UnOp); isLd && ir.FieldOf(ld.X) == f {
				ok = true
			}
		}
		if !ok && !c.guardedAtCallers(caller, f, depth+1) {
			return false
		}
	}
	return true
}

func (c *Ctx) RuleN(rule string, in func(*ssa.Function) bool) int {
	opt := c.optionalFuncs()
	optFields := map[*types.Var]string{}
	counts := map[string]int{}
	n := 0
	type site struct {
		fn   *ssa.Function
		v    ssa.Value
		from string
	}
	var sites []site
	seenSite := map[ssa.Value]bool{}
	addSite := func(fn *ssa.Function, v ssa.Value, from string) bool {
		if seenSite[v] {
			return false
		}
		seenSite[v] = true
		sites = append(sites, site{fn, v, from})
		return true
	}
	optFuncResult := map[*ssa.Function]string{} // single-pointer-result helpers that hand an optional value on
	collect := func() bool {
		changed := false
		for _, fn := range c.P.LibFunctions() {
			fn := fn
			instrsOf(fn, func(i ssa.Instruction) {
				switch x := i.(type) {
				case *ssa.Call:
					idx := -1
					from := ""
					if callee := ir.Callee(x); callee != nil {
						if k, ok := opt[callee]; ok {
							idx, from = k, name(callee)
						}
						if fr, ok := optFuncResult[callee]; ok {
							if addSite(fn, x, fr) {
								changed = true
							}
						}
					}
					if k, ok := optionalLibResults[ir.CallID(x)]; ok {
						idx, from = k, ir.CallID(x)
					}
					if idx < 0 {
						return
					}
					for _, r := range *x.Referrers() {
						if ex, ok := r.(*ssa.Extract); ok && ex.Index == idx {
							if addSite(fn, ex, from) {
								changed = true
							}
						}
					}
				case *ssa.UnOp:
					// a load of an optional field is an optional value too
					if f := ir.FieldOf(x.X); f != nil {
						if from, isOpt := optFields[f]; isOpt {
							// copies into other fields / returns propagate below; derefs are judged in the field pass
							for _, r := range *x.Referrers() {
								switch y := r.(type) {
								case *ssa.Store:
									if y.Val == ssa.Value(x) {
										if g := ir.FieldOf(y.Addr); g != nil && g != f {
											if _, known := optFields[g]; !known {
												optFields[g] = from
												changed = true
											}
										}
									}
								case *ssa.Return:
									if fn.Signature.Results().Len() == 1 && !nilGuarded(fn, y, x, ir.AccessPath(x)) {
										if _, known := optFuncResult[fn]; !known {
											optFuncResult[fn] = from
											changed = true
										}
									}
								}
							}
						}
					}
				}
			})
		}
		for _, s := range sites {
			for _, r := range *s.v.Referrers() {
				if st, ok := r.(*ssa.Store); ok && st.Val == s.v {
					if f := ir.FieldOf(st.Addr); f != nil {
						if _, known := optFields[f]; !known {
							optFields[f] = s.from
							changed = true
						}
					}
				}
			}
		}
		return changed
	}
	for iter := 0; iter < 6 && collect(); iter++ {
	}
	// the optional sources themselves are part of what was examined (a tree in which
	// every use goes through a checked accessor has sources but no bare dereference)
	var srcNames []string
	for fn := range opt {
		if in == nil || in(fn) {
			srcNames = append(srcNames, "result of "+name(fn))
		}
	}
	for f, from := range optFields {
		srcNames = append(srcNames, "field "+f.Name()+" (from "+shortID(from)+")")
	}
	sort.Strings(srcNames)
	for _, sn := range srcNames {
		c.R.Infof(rule, "-", "optional:"+sn, "-", "optional value tracked: "+sn)
	}
	// direct uses
	for _, s := range sites {
		if in != nil && !in(s.fn) {
			continue
		}
		for _, u := range derefUses(s.v) {
			n++
			key := ordinalKey(counts, name(s.fn)+":deref<-"+shortID(s.from))
			ok := nilGuarded(s.fn, u, s.v, "")
			c.R.Check(ok, rule, name(s.fn), strings.TrimPrefix(key, name(s.fn)+":"), c.IPos(u),
				"optional result of "+shortID(s.from)+" must be nil-checked before it is dereferenced",
				"dereference is not dominated by a non-nil check of the result")
		}
	}
	// loads of optional fields
	for _, fn := range c.P.LibFunctions() {
		if in != nil && !in(fn) {
			continue
		}
		fn := fn
		instrsOf(fn, func(i ssa.Instruction) {
			ld, ok := i.(*ssa.UnOp)
			if !ok {
				return
			}
			f := ir.FieldOf(ld.X)
			if f == nil {
				return
			}
			from, isOpt := optFields[f]
			if !isOpt {
				return
			}
			path := ir.AccessPath(ld)
			for _, u := range derefUses(ld) {
				n++
				key := ordinalKey(counts, name(fn)+":deref."+f.Name())
				ok := nilGuarded(fn, u, ld, path) || c.guardedAtCallers(fn, f, 0)
				c.R.Check(ok, rule, name(fn), strings.TrimPrefix(key, name(fn)+":"), c.IPos(u),
					"field "+f.Name()+" holds the optional result of "+shortID(from)+" and must be nil-checked before it is dereferenced",
					"dereference of "+path+" is not dominated by a non-nil check")
			}
		})
	}
	return n
}

// ruleNilOnError (N2.onerror): a library function that returns a nil pointer
// together with a non-nil error must not have that pointer dereferenced on the
// caller's failure path (to decorate an error message, say): the use has to
// sit behind the nil-error edge or behind a nil check of the pointer.
func (c *Ctx) ruleNilOnError(rule string, in func(*ssa.Function) bool) int {
	nilOnErr := map[*ssa.Function]int{}
	for _, fn := range c.P.LibFunctions() {
		sig := fn.Signature
		if sig.Results().Len() < 2 || !isErrorType(sig.Results().At(sig.Results().Len()-1).Type()) {
			continue
		}
		last := sig.Results().Len() - 1
		for _, r := range ir.Returns(fn) {
			if len(r.Results) != sig.Results().Len() || retClass(fn, r) != "fail" {
				continue
			}
			for k := 0; k < last; k++ {
				if _, isPtr := sig.Results().At(k).Type().Underlying().(*types.Pointer); isPtr && ir.IsNilConst(effectiveResult(fn, r, k)) {
					nilOnErr[fn] = k
				}
			}
		}
	}
	n := 0
	counts := map[string]int{}
	for _, fn := range c.P.LibFunctions() {
		if in != nil && !in(fn) {
			continue
		}
		fn := fn
		instrsOf(fn, func(i ssa.Instruction) {
			call, ok := i.(*ssa.Call)
			if !ok || call.Referrers() == nil {
				return
			}
			callee := ir.Callee(call)
			k, isOpt := nilOnErr[callee]
			if callee == nil || !isOpt {
				return
			}
			e, kept := errValue(call)
			for _, r := range *call.Referrers() {
				ex, ok := r.(*ssa.Extract)
				if !ok || ex.Index != k {
					continue
				}
				for _, use := range derefUses(ex) {
					n++
					key := ordinalKey(counts, name(fn)+":"+name(callee))
					construct := strings.TrimPrefix(key, name(fn)+":")
					safe := kept && e != nil && successDominates(fn, e, use.Block()) || nilGuarded(fn, use, ex, "")
					c.R.Check(safe, rule, name(fn), construct, c.IPos(use), "a pointer that the callee returns as nil together with an error is dereferenced only behind the nil-error edge (or a nil check)",
						"the result of "+name(callee)+" is dereferenced at "+c.IPos(use)+" on a path where its error may be non-nil; "+name(callee)+" returns a nil pointer with some of its errors: nil dereference")
				}
			}
		})
	}
	return n
}

// ruleStaleNil (N3.stalenil): an error value that is known to be nil is not
// what a failure is reported with. Two shapes of one slip — the error variable
// of an earlier, successful step reused where a later check fails:
//
//	(a) github.com/pkg/errors.Wrap/Wrapf/WithMessage(err, ...) with err known nil:
//	    these return nil for a nil argument, so the failure is reported as success;
//	(b) `return nil, ..., err` with all other results zero and err known nil,
//	    behind a later test, in a function whose successful returns carry values.
//
// "Known nil": the nil constant, or a value tested on the way with the path
// continuing on its nil edge. Anything else is left alone.
func (c *Ctx) ruleStaleNil(rule string, in func(*ssa.Function) bool) int {
	n := 0
	counts := map[string]int{}
	knownNil := func(fn *ssa.Function, v ssa.Value, blk *ssa.BasicBlock) (bool, int) {
		if ir.IsNilConst(v) {
			return true, -1
		}
		conds := ir.DominatingConds(fn, blk)
		for k, ce := range conds {
			// the very value that was tested (a variable kept in a cell may have
			// been reassigned since and is left alone)
			if x, isNil := errIsNil(ce.RawCond, ce.RawTruth); x != nil && isNil && x == v {
				return true, k
			}
		}
		// a variable assigned on several paths: nil on every one of them (the
		// untouched initial nil, or an assignment that was tested on the way in)
		if ph, isPhi := v.(*ssa.Phi); isPhi {
			var nilPhi func(ph *ssa.Phi, seen map[*ssa.Phi]bool) bool
			nilPhi = func(ph *ssa.Phi, seen map[*ssa.Phi]bool) bool {
				if seen[ph] {
					return true
				}
				seen[ph] = true
				for k, ev := range ph.Edges {
					if ir.IsNilConst(ev) {
						continue
					}
					if inner, ok := ev.(*ssa.Phi); ok && nilPhi(inner, seen) {
						continue
					}
					pred := ph.Block().Preds[k]
					ok := false
					for _, ce := range ir.DominatingConds(fn, pred) {
						if x, isNil := errIsNil(ce.RawCond, ce.RawTruth); x != nil && isNil && x == ev {
							ok = true
						}
					}
					for _, ce := range ir.CondEdges(fn) {
						if ce.If != nil && ce.Edge.From == pred.Index && ce.Edge.To == ph.Block().Index {
							if x, isNil := errIsNil(ce.RawCond, ce.RawTruth); x != nil && isNil && x == ev {
								ok = true
							}
						}
					}
					if !ok {
						return false
					}
				}
				return true
			}
			if nilPhi(ph, map[*ssa.Phi]bool{}) {
				return true, -1
			}
		}
		return false, -1
	}
	for _, fn := range c.P.LibFunctions() {
		if in != nil && !in(fn) {
			continue
		}
		fn := fn
		// (a)
		instrsOf(fn, func(i ssa.Instruction) {
			call, ok := i.(*ssa.Call)
			if !ok {
				return
			}
			switch ir.CallID(call) {
			case "github.com/pkg/errors.Wrap", "github.com/pkg/errors.Wrapf", "github.com/pkg/errors.WithMessage", "github.com/pkg/errors.WithMessagef", "github.com/pkg/errors.WithStack":
			default:
				return
			}
			n++
			key := ordinalKey(counts, name(fn)+":wrap")
			construct := strings.TrimPrefix(key, name(fn)+":")
			e := call.Call.Args[0]
			if isNil, _ := knownNil(fn, e, call.Block()); isNil {
				c.R.Violf(rule, name(fn), construct, c.IPos(call), "an error that is wrapped to report a failure is not known to be nil",
					shortID(ir.CallID(call))+" is given an error that is nil on this path (the variable of an earlier, successful step): it returns nil, and the failure is reported as success")
				return
			}
			c.R.Okf(rule, name(fn), construct, c.IPos(call), "the wrapped error is not known to be nil here")
		})
		// (b)
		sig := fn.Signature
		if sig.Results().Len() < 2 || !isErrorType(sig.Results().At(sig.Results().Len()-1).Type()) {
			continue
		}
		last := sig.Results().Len() - 1
		valued := false // some return hands out values with a nil error
		for _, r := range ir.Returns(fn) {
			if len(r.Results) != last+1 || !ir.IsNilConst(effectiveResult(fn, r, last)) {
				continue
			}
			for k := 0; k < last; k++ {
				if _, isK := effectiveResult(fn, r, k).(*ssa.Const); !isK {
					valued = true
				}
			}
		}
		if !valued {
			continue
		}
		for _, r := range ir.Returns(fn) {
			if len(r.Results) != last+1 {
				continue
			}
			e := effectiveResult(fn, r, last)
			if _, isK := e.(*ssa.Const); isK {
				continue
			}
			zero := true
			for k := 0; k < last; k++ {
				if kc, isK := effectiveResult(fn, r, k).(*ssa.Const); !isK || !(kc.IsNil() || isZeroConst(kc)) {
					zero = false
				}
			}
			if !zero {
				continue
			}
			isNil, at := knownNil(fn, e, r.Block())
			if !isNil || at < 0 || at == len(ir.DominatingConds(fn, r.Block()))-1 {
				continue // not known nil, or nothing was tested after it
			}
			n++
			key := ordinalKey(counts, name(fn)+":return")
			c.R.Violf(rule, name(fn), strings.TrimPrefix(key, name(fn)+":"), c.IPos(r), "a failure is not reported with an error that is known to be nil",
				"this return hands back zero values together with an error variable that is nil on this path (it belongs to an earlier step that succeeded; a later check failed here): the caller sees success and uses the zero values")
		}
	}
	return n
}

// ruleNoGlobalGrowth (T11.retain): decoding code adds nothing to package-level
// containers. A map or slice at package level that a decoder writes keeps what
// it was given for the life of the process (memory grows with the inputs ever
// seen), and a map written without a lock aborts the process ("concurrent map
// writes") when two decodes run at once.
func (c *Ctx) ruleNoGlobalGrowth(rule string, in func(*ssa.Function) bool) int {
	n := 0
	counts := map[string]int{}
	fromGlobal := func(v ssa.Value) *ssa.Global {
		for depth := 0; depth < 6 && v != nil; depth++ {
			switch x := v.(type) {
			case *ssa.Global:
				return x
			case *ssa.UnOp:
				v = x.X
			case *ssa.FieldAddr:
				v = x.X
			case *ssa.IndexAddr:
				v = x.X
			case *ssa.ChangeType:
				v = x.X
			default:
				return nil
			}
		}
		return nil
	}
	for _, fn := range c.P.LibFunctions() {
		if in != nil && !in(fn) || fn.Name() == "init" || strings.HasPrefix(fn.Name(), "init#") {
			continue
		}
		fn := fn
		instrsOf(fn, func(i ssa.Instruction) {
			switch x := i.(type) {
			case *ssa.MapUpdate:
				if g := fromGlobal(x.Map); g != nil {
					n++
					key := ordinalKey(counts, name(fn)+":map")
					c.R.Violf(rule, name(fn), strings.TrimPrefix(key, name(fn)+":"), c.IPos(x), "decoding adds nothing to package-level containers",
						"an entry is added to the package-level map "+g.Name()+": it is kept for the life of the process (memory grows with every distinct input), and two decodes running at once abort the process with 'concurrent map writes'")
				}
			case *ssa.Store:
				g, isG := x.Addr.(*ssa.Global)
				if !isG {
					return
				}
				if call, isC := x.Val.(*ssa.Call); isC && ir.CallID(call) == "builtin.append" {
					if fromGlobal(call.Call.Args[0]) == g {
						n++
						key := ordinalKey(counts, name(fn)+":append")
						c.R.Violf(rule, name(fn), strings.TrimPrefix(key, name(fn)+":"), c.IPos(x), "decoding adds nothing to package-level containers",
							"the package-level slice "+g.Name()+" grows by an append on every call: memory grows with the inputs ever seen, and concurrent calls race on it")
					}
				}
			}
		})
	}
	if n == 0 {
		c.R.Okf(rule, "-", "scan", "-", "no function in scope adds to a package-level map or slice")
	}
	return n
}
