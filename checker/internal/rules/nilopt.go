package rules

import (
	"go/types"
	"strings"

	"golang.org/x/tools/go/ssa"

	"verif/checker/internal/ir"
)

// Rule N: a result that a callee may return as nil together with a nil error
// must be nil-checked before it is dereferenced — also through the struct
// field it is stored in.

var optionalLibResults = map[string]int{
	"encoding/pem.Decode": 0,
}

// optionalFuncs finds repo functions with a `return nil, nil`-style exit: a
// pointer result that is the nil constant on a return whose error result is
// the nil constant too.
func (c *Ctx) optionalFuncs() map[*ssa.Function]int {
	out := map[*ssa.Function]int{}
	for _, fn := range c.P.LibFunctions() {
		sig := fn.Signature
		if sig.Results().Len() < 2 {
			continue
		}
		last := sig.Results().Len() - 1
		if !isErrorType(sig.Results().At(last).Type()) {
			continue
		}
		for _, r := range ir.Returns(fn) {
			if len(r.Results) != sig.Results().Len() || !ir.IsNilConst(r.Results[last]) {
				continue
			}
			for k := 0; k < last; k++ {
				if _, isPtr := sig.Results().At(k).Type().Underlying().(*types.Pointer); isPtr && ir.IsNilConst(r.Results[k]) {
					out[fn] = k
				}
			}
		}
	}
	return out
}

// derefUses lists instructions that dereference pointer value v.
func derefUses(v ssa.Value) []ssa.Instruction {
	var out []ssa.Instruction
	refs := v.Referrers()
	if refs == nil {
		return nil
	}
	for _, r := range *refs {
		switch x := r.(type) {
		case *ssa.FieldAddr:
			if x.X == v {
				out = append(out, r)
			}
		case *ssa.UnOp:
			if x.X == v {
				out = append(out, r)
			}
		case *ssa.IndexAddr:
			if x.X == v {
				out = append(out, r)
			}
		case ssa.CallInstruction:
			cc := x.Common()
			if cc.IsInvoke() {
				continue
			}
			if callee := cc.StaticCallee(); callee != nil && callee.Signature.Recv() != nil && len(cc.Args) > 0 && cc.Args[0] == v {
				out = append(out, r)
			}
		}
	}
	return out
}

// nilGuarded reports whether instruction use is dominated by an edge on which
// the location with access path `path` (or SSA value v) is known non-nil.
func nilGuarded(fn *ssa.Function, use ssa.Instruction, v ssa.Value, path string) bool {
	for _, ce := range ir.DominatingConds(fn, use.Block()) {
		x, nilWhenTrue, ok := ir.NilCheck(ce.If.Cond)
		if !ok {
			continue
		}
		succTrue := fn.Blocks[ce.Edge.From].Succs[0].Index == ce.Edge.To
		nonNil := succTrue != nilWhenTrue
		if !nonNil {
			continue
		}
		if x == v || (path != "" && ir.AccessPath(x) == path) {
			return true
		}
	}
	return false
}

func (c *Ctx) RuleN(rule string, in func(*ssa.Function) bool) int {
	opt := c.optionalFuncs()
	optFields := map[*types.Var]string{}
	counts := map[string]int{}
	n := 0
	type site struct {
		fn   *ssa.Function
		v    ssa.Value
		from string
	}
	var sites []site
	for _, fn := range c.P.LibFunctions() {
		fn := fn
		instrsOf(fn, func(i ssa.Instruction) {
			call, ok := i.(*ssa.Call)
			if !ok {
				return
			}
			idx := -1
			from := ""
			if callee := ir.Callee(call); callee != nil {
				if k, ok := opt[callee]; ok {
					idx, from = k, name(callee)
				}
			}
			if k, ok := optionalLibResults[ir.CallID(call)]; ok {
				idx, from = k, ir.CallID(call)
			}
			if idx < 0 {
				return
			}
			// the result value
			for _, r := range *call.Referrers() {
				if ex, ok := r.(*ssa.Extract); ok && ex.Index == idx {
					sites = append(sites, site{fn, ex, from})
				}
			}
		})
	}
	// direct uses, and stores into fields
	for _, s := range sites {
		for _, r := range *s.v.Referrers() {
			if st, ok := r.(*ssa.Store); ok && st.Val == s.v {
				if f := ir.FieldOf(st.Addr); f != nil {
					optFields[f] = s.from
				}
			}
		}
		if in != nil && !in(s.fn) {
			continue
		}
		for _, u := range derefUses(s.v) {
			n++
			key := ordinalKey(counts, name(s.fn)+":deref<-"+shortID(s.from))
			ok := nilGuarded(s.fn, u, s.v, "")
			c.R.Check(ok, rule, name(s.fn), strings.TrimPrefix(key, name(s.fn)+":"), c.IPos(u),
				"optional result of "+shortID(s.from)+" must be nil-checked before it is dereferenced",
				"dereference is not dominated by a non-nil check of the result")
		}
	}
	// loads of optional fields
	for _, fn := range c.P.LibFunctions() {
		if in != nil && !in(fn) {
			continue
		}
		fn := fn
		instrsOf(fn, func(i ssa.Instruction) {
			ld, ok := i.(*ssa.UnOp)
			if !ok {
				return
			}
			f := ir.FieldOf(ld.X)
			if f == nil {
				return
			}
			from, isOpt := optFields[f]
			if !isOpt {
				return
			}
			path := ir.AccessPath(ld)
			for _, u := range derefUses(ld) {
				n++
				key := ordinalKey(counts, name(fn)+":deref."+f.Name())
				ok := nilGuarded(fn, u, ld, path)
				c.R.Check(ok, rule, name(fn), strings.TrimPrefix(key, name(fn)+":"), c.IPos(u),
					"field "+f.Name()+" holds the optional result of "+shortID(from)+" and must be nil-checked before it is dereferenced",
					"dereference of "+path+" is not dominated by a non-nil check")
			}
		})
	}
	return n
}
