package rules

import (
	"fmt"
	"go/token"
	"strings"

	"golang.org/x/tools/go/ssa"

	"verif/checker/internal/ir"
)

// The write-side filesystem rules (F1-F5) on the deep view: the variable file
// is the result of the OpenFile call on the filesystem dependency; a write is
// any Write/WriteString/WriteAt invoked on that object, in the writer itself
// or in a helper it hands the file to.

// countOnPathsW is countOnPaths with a (min,max) weight per instruction.
func countOnPathsW(fn *ssa.Function, weight func(ssa.Instruction) (int, int)) (minC, maxC map[int]int) {
	ownMin, ownMax := map[int]int{}, map[int]int{}
	for _, b := range fn.Blocks {
		for _, i := range b.Instrs {
			mn, mx := weight(i)
			ownMin[b.Index] += mn
			ownMax[b.Index] += mx
		}
	}
	sat := func(x int) int {
		if x > 2 {
			return 2
		}
		return x
	}
	minC, maxC = map[int]int{}, map[int]int{}
	for _, b := range fn.Blocks {
		minC[b.Index], maxC[b.Index] = -1, -1
	}
	if len(fn.Blocks) == 0 {
		return
	}
	minC[0], maxC[0] = sat(ownMin[0]), sat(ownMax[0])
	for iter := 0; iter < 4*len(fn.Blocks)+8; iter++ {
		changed := false
		for _, b := range fn.Blocks {
			if b.Index == 0 {
				continue
			}
			mn, mx := -1, -1
			for _, p := range b.Preds {
				if maxC[p.Index] < 0 {
					continue
				}
				if mn < 0 || minC[p.Index] < mn {
					mn = minC[p.Index]
				}
				if maxC[p.Index] > mx {
					mx = maxC[p.Index]
				}
			}
			if mx < 0 {
				continue
			}
			mn, mx = sat(mn+ownMin[b.Index]), sat(mx+ownMax[b.Index])
			if mn != minC[b.Index] || mx != maxC[b.Index] {
				minC[b.Index], maxC[b.Index] = mn, mx
				changed = true
			}
		}
		if !changed {
			break
		}
	}
	return
}

// fsInvokes lists the invoke-mode calls on filesystem dependency values in the view.
func (d *deepView) fsInvokes(method string) []dinstr {
	var out []dinstr
	for _, di := range d.order {
		call, ok := di.i.(ssa.CallInstruction)
		if !ok || !call.Common().IsInvoke() || dependencyKind(call.Common().Value.Type()) != "filesystem" {
			continue
		}
		if method == "" || call.Common().Method.Name() == method {
			out = append(out, di)
		}
	}
	return out
}

type fileWrites struct {
	dv     *deepView
	open   dinstr
	file   dval
	writes []dinstr
}

var formatStop = map[string]bool{M + "/efi/util.EFIGUID.Format": true}

// fileWritesOf locates the variable file and the writes on it in the view of fn.
func (c *Ctx) fileWritesOf(fn *ssa.Function) (*fileWrites, string) {
	dv := c.deepViewOf(fn, 3)
	dv.stopAt = formatStop
	opens := dv.fsInvokes("OpenFile")
	if len(opens) != 1 {
		return nil, fmt.Sprintf("%d OpenFile calls on the filesystem dependency found", len(opens))
	}
	fw := &fileWrites{dv: dv, open: opens[0]}
	if v, ok := opens[0].i.(*ssa.Call); ok {
		for _, r := range *v.Referrers() {
			if ex, ok := r.(*ssa.Extract); ok && ex.Index == 0 {
				fw.file = dval{ex, opens[0].fr}
			}
		}
	}
	if fw.file.v == nil {
		return nil, "the file returned by OpenFile is not used"
	}
	for _, di := range dv.order {
		if fw.isWrite(di.i, di.fr) {
			fw.writes = append(fw.writes, di)
		}
	}
	return fw, ""
}

func (fw *fileWrites) isWrite(i ssa.Instruction, fr *frame) bool {
	call, ok := i.(ssa.CallInstruction)
	if !ok || !call.Common().IsInvoke() {
		return false
	}
	switch call.Common().Method.Name() {
	case "Write", "WriteString", "WriteAt":
	default:
		return false
	}
	if fw.dv.objectOf(call.Common().Value, fr).same(fw.file) {
		return true
	}
	// the file kept in a field of a locally built wrapper
	old := fw.dv.throughFields
	fw.dv.throughFields = true
	same := fw.dv.objectOf(call.Common().Value, fr).same(fw.file)
	fw.dv.throughFields = old
	if same {
		return true
	}
	return dependencyKind(call.Common().Value.Type()) == "filesystem"
}

// pathCount: (min, max) number of writes on the paths of the frame's function
// to each of its returns; helper frames contribute their own summary at the
// call site (min over their non-failing returns, max over all).
func (fw *fileWrites) pathCount(fr *frame, depth int) (minC, maxC map[int]int) {
	weight := func(i ssa.Instruction) (int, int) {
		if fw.isWrite(i, fr) {
			return 1, 1
		}
		call, ok := i.(ssa.CallInstruction)
		if !ok || depth > 4 {
			return 0, 0
		}
		if _, isDefer := i.(*ssa.Defer); isDefer {
			return 0, 0
		}
		child := fw.dv.frameOfCall(fr, call)
		if child == nil {
			return 0, 0
		}
		cmin, cmax := fw.pathCount(child, depth+1)
		mn, mx := -1, 0
		for _, r := range ir.Returns(child.fn) {
			b := r.Block().Index
			if cmax[b] < 0 {
				continue
			}
			if cmax[b] > mx {
				mx = cmax[b]
			}
			if retClass(child.fn, r) != "fail" && (mn < 0 || cmin[b] < mn) {
				mn = cmin[b]
			}
		}
		if mn < 0 {
			mn = 0
		}
		return mn, mx
	}
	return countOnPathsW(fr.fn, weight)
}

// ruleWriteShape: F1 one write, F2 flags, F3 buffer, F4 path for both twins.
func (c *Ctx) ruleWriteShape() {
	oW, _ := c.constInt("os", "O_WRONLY")
	oRW, _ := c.constInt("os", "O_RDWR")
	oC, _ := c.constInt("os", "O_CREATE")
	oE, _ := c.constInt("os", "O_EXCL")
	oA, _ := c.constInt("os", "O_APPEND")
	for _, tw := range c.writeTwins("F.anchor") {
		fn := tw.fn
		fname := name(fn)
		fw, why := c.fileWritesOf(fn)
		if fw == nil {
			c.R.Undecf("F2.flags", fname, "OpenFile", c.Pos(fn.Pos()), "the variable file is opened with exactly one OpenFile call", why)
			continue
		}
		dv := fw.dv
		// ---- F1: exactly one Write on success paths, at most one anywhere
		minC, maxC := fw.pathCount(dv.root, 0)
		ok1, det := true, ""
		for _, r := range ir.Returns(fn) {
			b := r.Block().Index
			if maxC[b] < 0 {
				continue // unreachable (recover block)
			}
			if maxC[b] > 1 {
				ok1, det = false, "a path to the return at "+c.IPos(r)+" performs more than one write on the variable file (each write is one SetVariable call)"
			}
			if retClass(fn, r) != "fail" && minC[b] < 1 {
				ok1, det = false, "a path to the possibly successful return at "+c.IPos(r)+" performs no write"
			}
		}
		for _, w := range fw.writes {
			if w.fr.site == nil && w.fr != dv.root {
				ok1, det = false, "write to the variable file inside a closure at "+c.IPos(w.i)
			}
			if inLoop(w.fr.fn, w.i.Block()) {
				ok1, det = false, "write to the variable file inside a loop at "+c.IPos(w.i)
			}
		}
		c.R.Check(ok1, "F1.onewrite", fname, "File.Write", c.Pos(fn.Pos()), "exactly one write operation on the variable file on every successful path, never more than one", det)
		// other mutating operations on the dependency
		bad := ""
		for _, di := range dv.fsInvokes("") {
			call := di.i.(ssa.CallInstruction)
			if fsMutators[call.Common().Method.Name()] {
				bad = call.Common().Method.Name() + " at " + c.IPos(call)
			}
		}
		c.R.Check(bad == "", "F1.onewrite", fname, "other-mutators", c.Pos(fn.Pos()), "no other mutating operation on the filesystem dependency", "found "+bad)

		// ---- F2: open flags
		open := fw.open.i.(ssa.CallInstruction)
		flagV := dv.resolve(open.Common().Args[1], fw.open.fr)
		cases, ok := c.flagCases(flagV.v, 0)
		if !ok || len(cases) == 0 {
			c.R.Undecf("F2.flags", fname, "OpenFile.flags", c.IPos(open), "open flags must be a finite set of constants", "flag expression is not a constant/phi/helper-return of constants")
		} else {
			okF, detF := true, ""
			hasAppendCase, hasPlainCase := false, false
			for _, fc := range cases {
				if fc.val&3 != oW || oRW == fc.val&3 {
					okF, detF = false, fmt.Sprintf("access mode of flag value %#x is not O_WRONLY", fc.val)
				}
				if fc.val&oC == 0 {
					okF, detF = false, fmt.Sprintf("O_CREATE missing in flag value %#x", fc.val)
				}
				if fc.val&oE != 0 {
					okF, detF = false, fmt.Sprintf("O_EXCL set in flag value %#x", fc.val)
				}
				if extra := fc.val &^ (3 | oC | oA); extra != 0 && c.exactOpenFlags {
					okF, detF = false, fmt.Sprintf("flag value %#x carries bits %#x beyond O_WRONLY|O_CREATE[|O_APPEND]", fc.val, extra)
				}
				if fc.val&oA != 0 {
					hasAppendCase = true
				} else {
					hasPlainCase = true
				}
			}
			if !hasAppendCase {
				okF, detF = false, "no flag value carries O_APPEND: append writes (EFI_VARIABLE_APPEND_WRITE) would overwrite"
			}
			if !hasPlainCase {
				okF, detF = false, "every flag value carries O_APPEND: plain writes would append"
			}
			// iff: append-bit cases originate behind the append edge, plain cases do not
			if okF {
				for _, fc := range cases {
					if fc.from == nil || fc.fn == nil {
						okF, detF = false, "cannot locate the origin of a flag value"
						break
					}
					edges := c.appendCondEdges(fc.fn)
					behind := false
					for _, e := range edges {
						if fc.from.Index == e.To || ir.EdgeDominates(fc.fn, e, fc.from) {
							behind = true
						}
						// the value is the one the variable had before the test and keeps when the
						// branch that replaces it is not taken: it reaches the join along the
						// append edge itself
						if fc.to != nil && fc.from.Index == e.From && fc.to.Index == e.To {
							behind = true
						}
					}
					if fc.key != nil {
						// an entry of a constant table selected by the outcome of the append test
						setWhenTrue, isTest := c.appendBitTest(fc.key)
						if !isTest {
							okF, detF = false, "cannot locate the origin of a flag value"
							break
						}
						behind = behind || fc.keyVal == setWhenTrue
					}
					if fc.val&oA != 0 && !behind {
						okF, detF = false, "O_APPEND chosen on a path not guarded by the APPEND_WRITE attribute"
					}
					if fc.val&oA == 0 && behind {
						okF, detF = false, "flags without O_APPEND chosen although the APPEND_WRITE attribute is set"
					}
				}
			}
			c.R.Check(okF, "F2.flags", fname, "OpenFile.flags", c.IPos(open), "file opened write-only with create, without excl, in append mode iff the APPEND_WRITE attribute is set", detF)
		}
		// ---- F4: path language
		c.judgePath(dv, fn, open, fw.open.fr)
		// ---- F3: buffer = LE32(attrs) ++ value
		if len(fw.writes) == 1 {
			c.judgeWriteBuffer(dv, fn, fw.writes[0])
		} else {
			c.R.Violf("F3.buffer", fname, "File.Write.arg", c.Pos(fn.Pos()), "the single write carries attributes followed by the value", fmt.Sprintf("%d Write calls found", len(fw.writes)))
		}
	}
}

// judgePath (F4): the file name is <efivars dir>/<name>-<canonical GUID text>.
func (c *Ctx) judgePath(dv *deepView, fn *ssa.Function, open ssa.CallInstruction, ofr *frame) {
	fname := name(fn)
	what := "file name is <efivars dir>/<Name>-<canonical lower-case GUID>"
	lang := dv.strLang(open.Common().Args[0], ofr, 0)
	nameP, guidP := paramByType(fn, "string"), paramByNamed(fn, M+"/efi/util.EFIGUID")
	isParam := func(s seg, p *ssa.Parameter) bool {
		if p == nil || s.kind != "var" || s.val == nil || s.fr == nil {
			return false
		}
		r := dv.resolveConv(ir.StripIface(s.val), s.fr)
		return r.fr == dv.root && r.v == ssa.Value(p)
	}
	isGUIDText := func(s seg) bool {
		if s.kind != "var" || s.val == nil || s.fr == nil {
			return false
		}
		call, ok := dv.resolveConv(ir.StripIface(s.val), s.fr).v.(*ssa.Call)
		if !ok || ir.CallID(call) != M+"/efi/util.EFIGUID.Format" {
			return false
		}
		// the receiver is the GUID parameter (by value or by address of its copy)
		sl := dv.sliceDeep(call.Call.Args[0], dv.resolveConv(ir.StripIface(s.val), s.fr).fr)
		return guidP != nil && sl[guidP]
	}
	isDir := func(s seg) bool {
		return s.kind == "var" && s.val != nil && isGlobalLoad(dv.resolveConv(ir.StripIface(s.val), s.fr).v, M+"/efi/attributes.Efivars")
	}
	var miss []string
	opaque := false
	for _, s := range lang {
		if s.kind == "var" && !isDir(s) && !isParam(s, nameP) && !isGUIDText(s) {
			opaque = true
		}
	}
	switch {
	case len(lang) == 5 && isDir(lang[0]) && lang[1].kind == "lit" && lang[1].lit == "/" && isParam(lang[2], nameP) && lang[3].kind == "lit" && lang[3].lit == "-" && isGUIDText(lang[4]):
		if lang[2].folded != "" {
			// the name reaches the path through a case conversion: variable names are case-sensitive
			c.R.Violf("F4.path", fname, "OpenFile.name", c.IPos(open), what, "the variable name is put into the path through "+lang[2].folded+": PK, KEK, BootOrder … are looked up under another name than they were written under (names are case-sensitive; only the GUID text is lower-case)")
			return
		}
		c.R.Okf("F4.path", fname, "OpenFile.name", c.IPos(open), what)
		return
	case opaque:
		// fall back to the provenance test when the builder is not understood
		sl := dv.sliceDeep(open.Common().Args[0], ofr)
		if !ir.HasGlobal(sl, M+"/efi/attributes.Efivars") {
			miss = append(miss, "efivars directory variable")
		}
		if len(ir.CallsIn(sl, M+"/efi/util.EFIGUID.Format")) == 0 {
			miss = append(miss, "canonical GUID text (EFIGUID.Format)")
		}
		if nameP == nil || !sl[nameP] {
			miss = append(miss, "variable name parameter")
		}
		if guidP == nil || !sl[guidP] {
			miss = append(miss, "GUID parameter")
		}
		for _, bad := range ir.CallsIn(sl, "strings.ToUpper", "strings.ToLower", "strings.Title", "strings.ToTitle", "strings.Replace", "strings.ReplaceAll", "strings.TrimSpace", "strings.Trim") {
			miss = append(miss, "path passes through "+ir.CallID(bad))
		}
		if len(miss) == 0 {
			c.R.Infof("F4.path", fname, "OpenFile.name", c.IPos(open), "not decided for this shape: the name derives from the efivars directory, the name and the GUID text, but its exact form is built in a way the evaluator does not model [language: "+langString(lang)+"]")
			return
		}
		c.R.Violf("F4.path", fname, "OpenFile.name", c.IPos(open), what, "missing: "+strings.Join(miss, ", "))
		return
	}
	c.R.Violf("F4.path", fname, "OpenFile.name", c.IPos(open), what, "the name is built as "+langString(lang))
}

// judgeWriteBuffer (F3): the bytes written are LE32(attrs) followed by the value.
func (c *Ctx) judgeWriteBuffer(dv *deepView, fn *ssa.Function, w dinstr) {
	fname := name(fn)
	call := w.i.(ssa.CallInstruction)
	what := "the write buffer is the 4-byte little-endian attribute mask followed by the value, and nothing else"
	attrsP, valP := paramByNamed(fn, M+"/efi/attributes.Attributes"), paramBytes(fn)
	if attrsP == nil || valP == nil {
		c.R.Undecf("F3.buffer", fname, "File.Write.arg", c.IPos(call), "writer takes an attributes and a value parameter", "parameters not found")
		return
	}
	segs, ok := dv.byteSeq(call.Common().Args[0], w.fr, 0)
	if !ok {
		c.R.Infof("F3.buffer", fname, "File.Write.arg", c.IPos(call), "not decided for this shape: the bytes handed to Write are not built by an idiom the byte-sequence evaluator models")
		return
	}
	isRoot := func(v dval, p *ssa.Parameter) bool {
		r := dv.resolveConv(v.v, v.fr)
		return r.fr == dv.root && r.v == ssa.Value(p)
	}
	var problems []string
	for _, s := range segs {
		if s.cond {
			problems = append(problems, "a part of the buffer is written only on some paths")
		}
	}
	switch {
	case len(segs) != 2:
		problems = append(problems, "the buffer is "+bseqString(segs)+", want enc(LE,4) of attrs ++ value")
	default:
		h, t := segs[0], segs[1]
		switch {
		case h.kind != "enc" || !h.width.isConst() || h.width.K != 4:
			problems = append(problems, "the head of the buffer is "+h.String()+", want the 4-byte encoding of the attribute mask")
		case h.order != "LE":
			problems = append(problems, "attributes are not encoded little endian ("+h.order+")")
		case !isRoot(h.v, attrsP):
			d := "the value encoded at the head is not the attrs parameter itself"
			if b, isB := ir.StripConv(h.v.v).(*ssa.BinOp); isB {
				d = "the attribute mask is modified (" + b.Op.String() + ") before it is written"
			}
			problems = append(problems, d)
		}
		if t.kind != "bytes" || t.cut != nil || !isRoot(t.v, valP) {
			problems = append(problems, "the tail of the buffer is not the value parameter itself, unsliced")
		}
	}
	c.R.Check(len(problems) == 0, "F3.buffer", fname, "File.Write.arg", c.IPos(call), what, strings.Join(problems, "; "))
}

// ruleShortWrite (F5 = C4): the count returned by the single Write is compared
// with the length of the buffer that was written and a mismatch returns an error.
func (c *Ctx) ruleShortWrite(rule string) {
	for _, tw := range c.writeTwins(rule) {
		fn := tw.fn
		fw, why := c.fileWritesOf(fn)
		if fw == nil {
			c.R.Undecf(rule, name(fn), "File.Write", "-", "the write to the variable file must be identifiable", why)
			continue
		}
		for k, w := range fw.writes {
			construct := "File.Write"
			if k > 0 {
				construct = fmt.Sprintf("File.Write#%d", k+1)
			}
			call, ok := w.i.(*ssa.Call)
			wf := w.fr.fn
			if !ok {
				c.R.Violf(rule, name(fn), construct, c.IPos(w.i), "the byte count of the write must be checked", "write result is not available (deferred)")
				continue
			}
			buf := call.Call.Args[0]
			var cnt ssa.Value
			for _, r := range *call.Referrers() {
				if ex, ok := r.(*ssa.Extract); ok && ex.Index == 0 {
					cnt = ex
				}
			}
			good := false
			detail := "the count result of Write is never compared with len(buffer written)"
			if cnt != nil {
				for _, ce := range ir.CondEdges(wf) {
					cmp, ok := ce.Cond.(*ssa.BinOp)
					if !ok {
						continue
					}
					var other ssa.Value
					if ir.StripConv(cmp.X) == cnt {
						other = cmp.Y
					} else if ir.StripConv(cmp.Y) == cnt {
						other = cmp.X
					} else {
						continue
					}
					lc, ok := ir.StripConv(other).(*ssa.Call)
					// B.Len() of the bytes.Buffer whose Bytes() is written
					if ok && ir.CallID(lc) == "bytes.Buffer.Len" {
						if bc, isB := buf.(*ssa.Call); isB && ir.CallID(bc) == "bytes.Buffer.Bytes" && bc.Call.Args[0] == lc.Call.Args[0] {
							lc = nil
						}
					}
					if lc != nil && (!ok || ir.CallID(lc) != "builtin.len") {
						detail = "the count is compared with something other than len(buffer)"
						continue
					}
					if lc != nil && lc.Call.Args[0] != buf {
						detail = "the count is compared with the length of a different value than the buffer passed to Write"
						continue
					}
					// mismatch edge: n != len
					op := cmp.Op
					if !ce.Truth {
						op = negate(op)
					}
					if op != token.NEQ && op != token.LSS && !(op == token.GTR && ir.StripConv(cmp.Y) == cnt) {
						continue
					}
					if (op == token.LSS) && ir.StripConv(cmp.X) != cnt {
						continue
					}
					allFail := true
					for r, cls := range retClassesFrom(wf, wf.Blocks[ce.Edge.To], ce.Edge.From) {
						if cls != "fail" {
							allFail = false
							detail = "the short-write branch reaches a return that may report success at " + c.IPos(r)
						}
					}
					if allFail {
						good = true
					}
				}
			}
			c.R.Check(good, rule, name(fn), construct, c.IPos(w.i), "a short write (n != len(buf)) must return an error", detail)
		}
		if len(fw.writes) == 0 {
			c.R.Undecf(rule, name(fn), "File.Write", "-", "the write to the variable file must be identifiable", "no Write on the variable file found in the view of "+name(fn))
		}
	}
}
