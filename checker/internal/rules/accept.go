package rules

import (
	"fmt"
	"go/constant"
	"go/token"
	"go/types"
	"os"
	"strings"

	"golang.org/x/tools/go/ssa"

	"verif/checker/internal/ir"
	"verif/checker/internal/report"
)

// Rule family A: every CFG path to an accepting return of a verifier crosses
// an edge that establishes each required fact (cut-set on the CFG). Facts of
// repo callees are inherited through the edge on which their accepting result
// is observed, provided the certificate handed to the callee is the caller's
// own certificate parameter.

type fact struct {
	id   string
	what string
	// direct reports whether conditional edge ce in fn establishes the fact itself.
	direct func(c *Ctx, fn *ssa.Function, ce ir.CondEdge) bool
	// undecided (optional): a reason why, in the cone of fn, the fact is tested in
	// a shape the direct predicate does not evaluate ("" if there is none). Only
	// consulted when the fact is not established.
	undecided func(c *Ctx, fn *ssa.Function) string
	// subject (optional): the struct fields whose value any test of the fact has to
	// read. An accepting path on which none of them is read (and the struct is not
	// handed to code that could read it) cannot have tested the fact, however the
	// test is written: such a bypass is reported even where the function uses
	// constructs the evaluators do not model.
	subject []string
}

type acceptEngine struct {
	c        *Ctx
	memo     map[string]int // fn|fact -> 0 unknown,1 yes,2 no,3 in progress
	evidence map[string][]ir.Edge
	// structUndecided: functions that report their outcome in a field of a struct
	// result built in a shape fieldAtReturn does not follow
	structUndecided map[*ssa.Function]bool
	// requiring: the function Require is judging (all of its returns count, also
	// for a position-valued function)
	requiring *ssa.Function
}

func (c *Ctx) accept() *acceptEngine {
	return &acceptEngine{c: c, memo: map[string]int{}, evidence: map[string][]ir.Edge{}}
}

// certParam returns the unique *x509.Certificate parameter of fn (nil if none).
func certParam(fn *ssa.Function) *ssa.Parameter {
	var out *ssa.Parameter
	for _, p := range fn.Params {
		if ir.NamedTypeID(p.Type()) == "crypto/x509.Certificate" {
			if out != nil {
				return nil
			}
			out = p
		}
	}
	return out
}

// certSource describes where a function takes "the certificate it verifies
// against" from: its certificate parameter, or a certificate-typed field of
// one of its parameters (a receiver that carries the verification context).
type certSource struct {
	param *ssa.Parameter // the parameter (certificate itself, or the carrier object)
	field string         // "" or the FieldID of the certificate field in the carrier
	free  *ssa.FreeVar   // a function literal that captured the certificate
}

func isCertType(t types.Type) bool { return ir.NamedTypeID(t) == "crypto/x509.Certificate" }

// certSourceOf: the unique certificate source of fn (ok=false if none or several).
func certSourceOf(fn *ssa.Function) (certSource, bool) {
	var found []certSource
	add := func(cs certSource) {
		for _, f := range found {
			if f == cs {
				return
			}
		}
		found = append(found, cs)
	}
	for _, p := range fn.Params {
		if isCertType(p.Type()) {
			add(certSource{param: p})
		}
	}
	for _, fv := range fn.FreeVars {
		// captured by value, or (the usual lowering) as the address of the variable
		t := fv.Type()
		if pp, isPP := t.Underlying().(*types.Pointer); isPP {
			if _, inner := pp.Elem().Underlying().(*types.Pointer); inner {
				t = pp.Elem()
			}
		}
		if isCertType(t) {
			add(certSource{free: fv})
		}
	}
	for _, f := range withAnon(fn) {
		instrsOf(f, func(i ssa.Instruction) {
			var base ssa.Value
			var t types.Type
			switch x := i.(type) {
			case *ssa.FieldAddr:
				base, t = x.X, x.Type().Underlying().(*types.Pointer).Elem()
			case *ssa.Field:
				base, t = x.X, x.Type()
			default:
				return
			}
			if !isCertType(t) {
				return
			}
			if p := paramRoot(base, fn); p != nil && !isCertType(p.Type()) {
				add(certSource{param: p, field: ir.FieldID(i.(ssa.Value))})
			}
		})
	}
	if len(found) != 1 {
		return certSource{}, false
	}
	return found[0], true
}

// isCallerCert: v denotes the certificate fn verifies against.
func isCallerCert(fn *ssa.Function, v ssa.Value) bool {
	cs, ok := certSourceOf(fn)
	if !ok {
		return false
	}
	v = ir.StripConv(v)
	if cs.free != nil {
		if ld, isLd := v.(*ssa.UnOp); isLd && ld.Op == token.MUL && ld.X == ssa.Value(cs.free) {
			return true
		}
		return v == ssa.Value(cs.free)
	}
	if cs.field == "" {
		if v == ssa.Value(cs.param) {
			return true
		}
		// the parameter's own cell (it lives in memory because a closure captures it):
		// written once, with the parameter, and only read by the closures
		if ld, isLd := v.(*ssa.UnOp); isLd && ld.Op == token.MUL {
			if a, isA := ld.X.(*ssa.Alloc); isA && paramCell(a) == cs.param {
				return true
			}
		}
		return false
	}
	return fieldIDOf(v) == cs.field && paramRoot(loadAddr(v), fn) == cs.param
}

// paramCell: the local cell a holds a parameter and nothing else: its only
// store is the parameter, everything else loads it, and the closures that
// capture it only load it as well.
func paramCell(a *ssa.Alloc) *ssa.Parameter {
	if a.Referrers() == nil {
		return nil
	}
	var par *ssa.Parameter
	n := 0
	for _, r := range *a.Referrers() {
		switch x := r.(type) {
		case *ssa.Store:
			if x.Addr != ssa.Value(a) {
				return nil
			}
			n++
			par, _ = x.Val.(*ssa.Parameter)
		case *ssa.UnOp:
			if x.Op != token.MUL {
				return nil
			}
		case *ssa.DebugRef:
		case *ssa.MakeClosure:
			cf, _ := x.Fn.(*ssa.Function)
			if cf == nil {
				return nil
			}
			for k, b := range x.Bindings {
				if b != ssa.Value(a) {
					continue
				}
				if k >= len(cf.FreeVars) || cf.FreeVars[k].Referrers() == nil {
					return nil
				}
				for _, fr := range *cf.FreeVars[k].Referrers() {
					switch y := fr.(type) {
					case *ssa.UnOp:
						if y.Op != token.MUL {
							return nil
						}
					case *ssa.DebugRef:
					default:
						return nil
					}
				}
			}
		default:
			return nil
		}
	}
	if n != 1 {
		return nil
	}
	return par
}

// paramRoot: the parameter of fn (or of the function enclosing a closure fn)
// that the storage path v starts at, looking through the local copy go/ssa
// makes of a by-value parameter whose address is taken.
func paramRoot(v ssa.Value, fn *ssa.Function) *ssa.Parameter {
	root := ir.RootOf(v)
	switch x := root.(type) {
	case *ssa.Parameter:
		if x.Parent() == fn || x.Parent() == topFn(fn) {
			return x
		}
	case *ssa.Alloc:
		var par *ssa.Parameter
		n := 0
		for _, r := range *x.Referrers() {
			if st, ok := r.(*ssa.Store); ok && st.Addr == ssa.Value(x) {
				n++
				par, _ = st.Val.(*ssa.Parameter)
			}
		}
		if n == 1 && par != nil && (par.Parent() == fn || par.Parent() == topFn(fn)) {
			return par
		}
	}
	return nil
}

// certArgsOK: the certificate the callee verifies against is the certificate
// the caller verifies against (passed as an argument, or stored into the
// carrier object the callee receives).
func certArgsOK(caller *ssa.Function, call ssa.CallInstruction) bool {
	callee := ir.Callee(call)
	args := ir.CallArgs(call)
	if callee == nil || callee.Blocks == nil {
		for _, a := range args {
			if isCertType(a.Type()) && !isCallerCert(caller, a) {
				return false
			}
		}
		return true
	}
	for _, a := range args {
		if isCertType(a.Type()) && !isCallerCert(caller, a) {
			return false
		}
	}
	cs, ok := certSourceOf(callee)
	if ok && cs.free != nil {
		// a function literal that captured its certificate: the captured value must be the
		// caller's certificate — bound directly, or through the constructor that made the literal
		b := ir.FreeVarBinding(cs.free)
		// the captured variable's cell: what was stored in it
		if a, isA := b.(*ssa.Alloc); isA {
			var val ssa.Value
			n := 0
			for _, r := range *a.Referrers() {
				if st, isSt := r.(*ssa.Store); isSt && st.Addr == ssa.Value(a) {
					val, n = st.Val, n+1
				}
			}
			if n != 1 {
				return false
			}
			b = val
		}
		switch fv := call.Common().Value.(type) {
		case *ssa.MakeClosure:
			for k, f := range callee.FreeVars {
				if f == cs.free && k < len(fv.Bindings) {
					return isCallerCert(caller, fv.Bindings[k])
				}
			}
			return false
		case *ssa.Call:
			ctor := fv.Common().StaticCallee()
			bp, isP := b.(*ssa.Parameter)
			if ctor == nil || !isP || bp.Parent() != ctor {
				return false
			}
			for k, p := range ctor.Params {
				if p == bp && k < len(fv.Call.Args) {
					return isCallerCert(caller, fv.Call.Args[k])
				}
			}
			return false
		}
		return b != nil && isCallerCert(caller, b)
	}
	if !ok || cs.field == "" {
		return true // no carrier: the arguments above are all there is
	}
	idx := -1
	for k, p := range callee.Params {
		if p == cs.param {
			idx = k
		}
	}
	if idx < 0 || idx >= len(args) {
		return false
	}
	obj := ir.StripConv(args[idx])
	// the caller's own carrier passed on
	if ccs, ok := certSourceOf(caller); ok && ccs.field == cs.field && paramRoot(loadAddr(obj), caller) == ccs.param {
		return true
	}
	// a local carrier whose certificate field is assigned once, from the caller's certificate
	root := ir.RootOf(loadAddr(obj))
	a, isA := root.(*ssa.Alloc)
	if !isA {
		return false
	}
	n, good := 0, 0
	for _, f := range withAnon(caller) {
		instrsOf(f, func(i ssa.Instruction) {
			st, isSt := i.(*ssa.Store)
			if !isSt || ir.FieldID(st.Addr) != cs.field || ir.RootOf(st.Addr) != ssa.Value(a) {
				return
			}
			n++
			if isCallerCert(caller, st.Val) {
				good++
			}
		})
	}
	return n == 1 && good == 1
}

// acceptingReturns lists the returns of fn that may report acceptance.
func acceptingReturns(fn *ssa.Function) []*ssa.Return { return acceptingReturnsMode(fn, false) }

// acceptingReturnsMode: with errMode the caller observes only the error of a
// (bool, error) function: every return that may carry a nil error accepts.
func acceptingReturnsMode(fn *ssa.Function, errMode bool) []*ssa.Return {
	var out []*ssa.Return
	rs := fn.Signature.Results()
	for _, r := range ir.Returns(fn) {
		if !reachableBlock(fn, r.Block()) {
			continue
		}
		switch {
		case errMode && rs.Len() > 1 && isErrorType(rs.At(rs.Len()-1).Type()):
			if retClass(fn, r) == "fail" {
				continue
			}
			out = append(out, r)
		case rs.Len() > 0 && isBoolType(rs.At(0).Type()):
			if k, ok := effectiveResult(fn, r, 0).(*ssa.Const); ok && k.Value != nil && !constant.BoolVal(k.Value) {
				continue
			}
			out = append(out, r)
		case rs.Len() > 0 && isErrorType(rs.At(rs.Len()-1).Type()):
			if retClass(fn, r) == "fail" {
				continue
			}
			out = append(out, r)
		case rs.Len() > 1 && isBoolType(rs.At(rs.Len()-1).Type()):
			// (value, ok): ok == false is the rejecting outcome
			if k, ok := effectiveResult(fn, r, rs.Len()-1).(*ssa.Const); ok && k.Value != nil && !constant.BoolVal(k.Value) {
				continue
			}
			out = append(out, r)
		case rs.Len() == 1 && nilable(rs.At(0).Type()):
			// a lookup: a non-nil result is the accepting outcome
			if ir.IsNilConst(effectiveResult(fn, r, 0)) {
				continue
			}
			out = append(out, r)
		default:
			out = append(out, r)
		}
	}
	return out
}

func nilable(t types.Type) bool {
	switch t.Underlying().(type) {
	case *types.Pointer, *types.Slice, *types.Map:
		return true
	}
	return false
}

// errIsNil decodes cond as "an error value is nil" on an edge with the given
// truth: an explicit nil comparison, or (synthetic edges) the error value itself.
func errIsNil(cond ssa.Value, truth bool) (ssa.Value, bool) {
	if v, nilWhenTrue, ok := ir.NilCheck(cond); ok && isErrorType(v.Type()) {
		return v, truth == nilWhenTrue
	}
	if isErrorType(cond.Type()) {
		return cond, truth
	}
	return nil, false
}

func isBoolType(t types.Type) bool {
	b, ok := t.Underlying().(*types.Basic)
	return ok && b.Kind() == types.Bool
}

func reachableBlock(fn *ssa.Function, b *ssa.BasicBlock) bool {
	seen, _ := ir.Reach(fn, fn.Blocks[0], nil)
	return seen[b.Index]
}

// callOf resolves a value to the repo call it is the (first) result of.
func callOf(v ssa.Value) *ssa.Call {
	switch x := v.(type) {
	case *ssa.Call:
		return x
	case *ssa.Extract:
		if c, ok := x.Tuple.(*ssa.Call); ok {
			return c
		}
	}
	return nil
}

// observation: does edge ce observe the accepting result of a repo call?
// Returns the call if so.
func (e *acceptEngine) observation(fn *ssa.Function, ce ir.CondEdge) *ssa.Call {
	call, _ := e.observe(fn, ce)
	return call
}

// observe also reports whether the acceptance was observed through the error
// of a (bool, error) callee (errMode).
func (e *acceptEngine) observe(fn *ssa.Function, ce ir.CondEdge) (*ssa.Call, bool) {
	cond, truth := condOf(fn, ce)
	// bool result observed true
	if core, neg := ir.Peel(cond); isBoolType(core.Type()) && truth != neg {
		core = spilledValue(core)
		if call := callOf(core); call != nil {
			if ex, isEx := core.(*ssa.Extract); isEx && ex.Index != 0 {
				// (value, ok) helpers: the ok result is the verdict
				sig := call.Common().Signature()
				if !(ex.Index == sig.Results().Len()-1 && isBoolType(sig.Results().At(ex.Index).Type())) {
					return nil, false
				}
			}
			if callee := ir.Callee(call); callee != nil && e.c.P.InLib(callee) {
				return call, false
			}
		}
	}
	// a lookup result observed non-nil
	if v, nilWhenTrue, ok := ir.NilCheck(cond); ok && nilable(v.Type()) && truth != nilWhenTrue {
		if call, isCall := spilledValue(v).(*ssa.Call); isCall {
			if callee := ir.Callee(call); callee != nil && e.c.P.InLib(callee) && callee.Signature.Results().Len() == 1 {
				return call, false
			}
		}
	}
	// a search that answers with a position (-1 for "none") observed to have found one
	if call := indexFound(cond, truth); call != nil {
		if callee := ir.Callee(call); callee != nil && e.c.P.InLib(callee) && indexVerdict(callee) {
			return call, false
		}
	}
	// error-only result observed nil
	if v, isNil := errIsNil(cond, truth); v != nil {
		if !isNil {
			return nil, false
		}
		v = spilledValue(v)
		for _, oc := range errorOrigins(v, map[ssa.Value]bool{}) {
			callee := ir.Callee(oc)
			if callee == nil || !e.c.P.InLib(callee) {
				continue
			}
			rs := callee.Signature.Results()
			// error-only, or (value, error): nil error = accepted; for a (bool, error)
			// callee the facts are then required at every return with a nil error
			if rs.Len() >= 1 && isErrorType(rs.At(rs.Len()-1).Type()) {
				return oc, rs.Len() > 1 && isBoolType(rs.At(0).Type())
			}
		}
	}
	return nil, false
}

// indexVerdict: fn answers a search with a position: its only result is an
// integer and some return hands back the constant -1 ("none").
func indexVerdict(fn *ssa.Function) bool { return indexVerdictN(fn, 0) }

func indexVerdictN(fn *ssa.Function, depth int) bool {
	if fn == nil || fn.Blocks == nil || depth > 3 {
		return false
	}
	rs := fn.Signature.Results()
	if rs.Len() != 1 {
		return false
	}
	if b, ok := rs.At(0).Type().Underlying().(*types.Basic); !ok || b.Info()&types.IsInteger == 0 {
		return false
	}
	for _, r := range ir.Returns(fn) {
		if noneIndex(fn, r) {
			return true
		}
		// ... or passes on the answer of such a search
		if len(r.Results) == 1 {
			if call, isCall := ir.StripConv(effectiveResult(fn, r, 0)).(*ssa.Call); isCall {
				if callee := ir.Callee(call); callee != nil && callee != fn && indexVerdictN(callee, depth+1) {
					return true
				}
			}
		}
	}
	return false
}

// noneIndex: return r of the position-valued fn hands back the constant -1.
func noneIndex(fn *ssa.Function, r *ssa.Return) bool {
	if len(r.Results) != 1 {
		return false
	}
	k, isK := ir.ConstInt(ir.StripConv(effectiveResult(fn, r, 0)))
	return isK && k == -1
}

// indexFound decodes cond, with the given truth, as "the position a call
// returned is not the 'none' value -1": i >= 0, i > -1, i != -1 and their
// negated / mirrored spellings. Returns the call.
func indexFound(cond ssa.Value, truth bool) *ssa.Call {
	bo, isB := cond.(*ssa.BinOp)
	if !isB {
		return nil
	}
	x, y, op := ir.StripConv(bo.X), ir.StripConv(bo.Y), bo.Op
	if _, isK := ir.ConstInt(x); isK {
		x, y, op = y, x, flip(op)
	}
	k, isK := ir.ConstInt(y)
	call, isCall := spilledValue(x).(*ssa.Call)
	if !isK || !isCall {
		return nil
	}
	if !truth {
		op = negate(op)
	}
	switch {
	case op == token.GEQ && k == 0, op == token.GTR && k == -1, op == token.NEQ && k == -1:
		return call
	}
	return nil
}

// spilledValue: v is the load of a local variable that lives in memory only
// because a deferred closure captures it (named results with a deferred
// wrapper); the value it has at the load is the one stored last before it in
// the same block (or in the chain of single predecessors) with no other store
// in between. Nothing but the deferred closure, which runs at the returns, can
// write the variable behind the function's back. Otherwise v itself.
func spilledValue(v ssa.Value) ssa.Value {
	ld, ok := v.(*ssa.UnOp)
	if !ok || ld.Op != token.MUL {
		return v
	}
	a, ok := ld.X.(*ssa.Alloc)
	if !ok || a.Referrers() == nil {
		return v
	}
	for _, r := range *a.Referrers() {
		switch x := r.(type) {
		case *ssa.Store:
			if x.Addr != ssa.Value(a) {
				return v
			}
		case *ssa.UnOp:
			if x.Op != token.MUL {
				return v
			}
		case *ssa.DebugRef:
		case *ssa.MakeClosure:
			// only deferred
			if x.Referrers() == nil {
				return v
			}
			for _, rr := range *x.Referrers() {
				if _, isDefer := rr.(*ssa.Defer); !isDefer {
					if _, isDbg := rr.(*ssa.DebugRef); !isDbg {
						return v
					}
				}
			}
		default:
			return v
		}
	}
	b := ld.Block()
	idx := len(b.Instrs)
	for k, in := range b.Instrs {
		if in == ssa.Instruction(ld) {
			idx = k
		}
	}
	for hops := 0; hops < 6; hops++ {
		for k := idx - 1; k >= 0; k-- {
			if st, isSt := b.Instrs[k].(*ssa.Store); isSt && st.Addr == ssa.Value(a) {
				return st.Val
			}
		}
		if len(b.Preds) != 1 {
			return v
		}
		b = b.Preds[0]
		idx = len(b.Instrs)
	}
	return v
}

// observedEstablishes: the edge observes the accepting outcome of a callee
// that establishes f. For an error variable fed from several places (err :=
// a(); if err == nil { err = b() }; if err != nil { return }) a nil value
// says nothing about the sources that are known to be non-nil where they flow
// in; it means that every remaining source returned nil, so f holds when each
// of those establishes it.
func (e *acceptEngine) observedEstablishes(fn *ssa.Function, ce ir.CondEdge, f *fact) bool {
	if call, em := e.observe(fn, ce); call != nil && certArgsOK(fn, call) && e.establishesMode(ir.Callee(call), f, em) {
		return true
	}
	cond, truth := condOf(fn, ce)
	v, isNil := errIsNil(cond, truth)
	ph, isPhi := v.(*ssa.Phi)
	if v == nil || !isNil || !isPhi {
		return false
	}
	n := 0
	for k, ev := range ph.Edges {
		if errNonNilOnEdge(fn, ev, ph.Block().Preds[k], ph.Block()) {
			continue
		}
		call := callOf(ev)
		if call == nil {
			return false
		}
		callee := ir.Callee(call)
		if callee == nil || !e.c.P.InLib(callee) || !certArgsOK(fn, call) {
			return false
		}
		rs := callee.Signature.Results()
		if rs.Len() == 0 || !isErrorType(rs.At(rs.Len()-1).Type()) {
			return false
		}
		if !e.establishesMode(callee, f, rs.Len() > 1 && isBoolType(rs.At(0).Type())) {
			return false
		}
		n++
	}
	return n > 0
}

// errNonNilOnEdge: the error value ev cannot be nil when control passes from
// pred to succ — it was just made by a constructor, or a test of it on the way
// (a condition dominating pred, or the branch pred ends in) found it non-nil.
func errNonNilOnEdge(fn *ssa.Function, ev ssa.Value, pred, succ *ssa.BasicBlock) bool {
	if call := callOf(ev); call != nil {
		switch ir.CallID(call) {
		case "errors.New", "fmt.Errorf":
			return true
		}
	}
	test := func(cond ssa.Value, truth bool) bool {
		v, isNil := errIsNil(cond, truth)
		return v != nil && !isNil && sameErrValue(v, ev)
	}
	for _, ce := range ir.DominatingConds(fn, pred) {
		if test(ce.RawCond, ce.RawTruth) {
			return true
		}
	}
	for _, ce := range ir.CondEdges(fn) {
		if ce.Edge.From == pred.Index && ce.Edge.To == succ.Index && ce.If != nil && test(ce.RawCond, ce.RawTruth) {
			return true
		}
	}
	return false
}

// condOf: the branch condition of a conditional edge (or the bare condition
// value of a synthetic edge) and the truth value it has on that edge.
func condOf(fn *ssa.Function, ce ir.CondEdge) (ssa.Value, bool) {
	if ce.If != nil {
		return ce.RawCond, ce.RawTruth
	}
	return ce.Cond, ce.Truth
}

// valueEstablishes: the boolean value v being true implies fact f (a direct
// test, the accepting result of an establishing callee, or a phi all of whose
// possibly-true incoming values do).
func (e *acceptEngine) valueEstablishes(fn *ssa.Function, v ssa.Value, f *fact, depth int) bool {
	if depth > 4 {
		return false
	}
	core, neg := ir.Peel(v)
	if k, ok := core.(*ssa.Const); ok {
		// a constant false (after negation) can never be the accepting value
		return k.Value != nil && k.Value.Kind() == constant.Bool && constant.BoolVal(k.Value) == neg
	}
	if f.direct(e.c, fn, ir.CondEdge{Cond: core, Truth: !neg}) {
		return true
	}
	if call, em := e.observe(fn, ir.CondEdge{Cond: core, Truth: !neg}); call != nil && certArgsOK(fn, call) && e.establishesMode(ir.Callee(call), f, em) {
		return true
	}
	// a boolean field of the struct a library function returned (verdict{valid, err})
	if call, k, ok := structResultField(core); ok && !neg {
		if callee := ir.Callee(call); callee != nil && e.c.P.InLib(callee) && certArgsOK(fn, call) && e.establishesField(callee, f, k) {
			return true
		}
	}
	if ph, ok := core.(*ssa.Phi); ok && !neg {
		any := false
		for _, ev := range ph.Edges {
			if ev == ssa.Value(ph) {
				continue
			}
			if k, isK := ev.(*ssa.Const); isK && k.Value != nil && k.Value.Kind() == constant.Bool && !constant.BoolVal(k.Value) {
				continue
			}
			if !e.valueEstablishes(fn, ev, f, depth+1) {
				return false
			}
			any = true
		}
		return any
	}
	return false
}

// structResultField: v reads field k of a struct that is, as a whole, the result
// of one call: call().f, or the load of field f of a local variable whose only
// store is the call's result and which is otherwise only read.
func structResultField(v ssa.Value) (*ssa.Call, int, bool) {
	switch x := v.(type) {
	case *ssa.Field:
		if call, ok := x.X.(*ssa.Call); ok {
			if _, isStruct := call.Type().Underlying().(*types.Struct); isStruct {
				return call, x.Field, true
			}
		}
		if ld, ok := x.X.(*ssa.UnOp); ok && ld.Op == token.MUL {
			if a, isA := ld.X.(*ssa.Alloc); isA {
				if call := wholeStructCell(a); call != nil {
					return call, x.Field, true
				}
			}
		}
	case *ssa.UnOp:
		if x.Op != token.MUL {
			return nil, 0, false
		}
		fa, ok := x.X.(*ssa.FieldAddr)
		if !ok {
			return nil, 0, false
		}
		a, ok := fa.X.(*ssa.Alloc)
		if !ok {
			return nil, 0, false
		}
		if call := wholeStructCell(a); call != nil {
			return call, fa.Field, true
		}
	}
	return nil, 0, false
}

// wholeStructCell: the local struct variable a is assigned once, as a whole, from
// the result of a call, and is otherwise only read (whole, or field by field);
// returns that call.
func wholeStructCell(a *ssa.Alloc) *ssa.Call {
	if a.Referrers() == nil {
		return nil
	}
	if _, isStruct := a.Type().Underlying().(*types.Pointer).Elem().Underlying().(*types.Struct); !isStruct {
		return nil
	}
	var call *ssa.Call
	n := 0
	for _, r := range *a.Referrers() {
		switch x := r.(type) {
		case *ssa.Store:
			if x.Addr != ssa.Value(a) {
				return nil
			}
			n++
			call, _ = x.Val.(*ssa.Call)
		case *ssa.UnOp:
			if x.Op != token.MUL {
				return nil
			}
		case *ssa.FieldAddr:
			if x.Referrers() == nil {
				continue
			}
			for _, fr := range *x.Referrers() {
				switch y := fr.(type) {
				case *ssa.UnOp:
					if y.Op != token.MUL {
						return nil
					}
				case *ssa.DebugRef:
				default:
					return nil
				}
			}
		case *ssa.DebugRef:
		default:
			return nil
		}
	}
	if n != 1 {
		return nil
	}
	return call
}

// fieldAtReturn: the value field k of the struct result has at return r of g.
// zero: the field is never written (it holds its zero value). known=false: the
// result is built in a shape that is not followed.
func fieldAtReturn(g *ssa.Function, r *ssa.Return, k int) (val ssa.Value, zero, known bool) {
	if len(r.Results) != 1 {
		return nil, false, false
	}
	ld, ok := r.Results[0].(*ssa.UnOp)
	if !ok || ld.Op != token.MUL {
		return nil, false, false
	}
	a, ok := ld.X.(*ssa.Alloc)
	if !ok || a.Referrers() == nil {
		return nil, false, false
	}
	var stores []*ssa.Store
	for _, rf := range *a.Referrers() {
		switch x := rf.(type) {
		case *ssa.UnOp:
			if x.Op != token.MUL {
				return nil, false, false
			}
		case *ssa.DebugRef:
		case *ssa.FieldAddr:
			if x.Referrers() == nil {
				continue
			}
			for _, fr := range *x.Referrers() {
				switch y := fr.(type) {
				case *ssa.Store:
					if y.Addr != ssa.Value(x) {
						return nil, false, false
					}
					if x.Field == k {
						stores = append(stores, y)
					}
				case *ssa.UnOp:
					if y.Op != token.MUL {
						return nil, false, false
					}
				case *ssa.DebugRef:
				default:
					return nil, false, false
				}
			}
		default:
			// assigned as a whole, or its address handed on: not followed
			return nil, false, false
		}
	}
	switch len(stores) {
	case 0:
		return nil, true, true
	case 1:
		// the one store is made on the way to this return
		if st := stores[0]; st.Block() == r.Block() || st.Block().Dominates(r.Block()) {
			return st.Val, false, true
		}
	}
	return nil, false, false
}

// establishesField: g reports its outcome in boolean field k of its struct
// result; every return at which that field may be true carries fact f.
func (e *acceptEngine) establishesField(g *ssa.Function, f *fact, k int) bool {
	if g == nil || g.Blocks == nil {
		return false
	}
	key := fmt.Sprintf("%s|%s|field%d", name(g), f.id, k)
	switch e.memo[key] {
	case 1:
		return true
	case 2, 3:
		return false
	}
	e.memo[key] = 3
	ok, n := true, 0
	for _, r := range ir.Returns(g) {
		if !reachableBlock(g, r.Block()) {
			continue
		}
		val, zero, known := fieldAtReturn(g, r, k)
		if !known || !zero && !isBoolType(val.Type()) {
			if e.structUndecided == nil {
				e.structUndecided = map[*ssa.Function]bool{}
			}
			e.structUndecided[g] = true
			ok = false
			break
		}
		if zero {
			continue
		}
		if kc, isK := val.(*ssa.Const); isK && kc.Value != nil && !constant.BoolVal(kc.Value) {
			continue
		}
		n++
		if h, _ := e.holdsAtV(g, r, f, val); !h {
			ok = false
			break
		}
	}
	if n == 0 {
		ok = false
	}
	if ok {
		e.memo[key] = 1
	} else {
		e.memo[key] = 2
	}
	return ok
}

func (e *acceptEngine) evidenceEdges(fn *ssa.Function, f *fact) []ir.Edge {
	key := name(fn) + "|" + f.id
	if ev, ok := e.evidence[key]; ok {
		return ev
	}
	var out []ir.Edge
	for _, ce := range ir.CondEdges(fn) {
		if f.direct(e.c, fn, ce) {
			out = append(out, ce.Edge)
			continue
		}
		if e.observedEstablishes(fn, ce, f) {
			out = append(out, ce.Edge)
			continue
		}
		// a flag: `ok` is a phi of false and accepting results
		if cond, truth := condOf(fn, ce); ce.If != nil {
			if core, neg := ir.Peel(cond); truth != neg {
				if _, isPhi := core.(*ssa.Phi); isPhi && isBoolType(core.Type()) && e.valueEstablishes(fn, core, f, 0) {
					out = append(out, ce.Edge)
				}
			}
		}
	}
	e.evidence[key] = out
	if os.Getenv("VCHECK_DEBUG") == "accept" {
		fmt.Fprintf(os.Stderr, "evidence %s: %v (accepting returns: %d)\n", key, out, len(acceptingReturns(fn)))
	}
	return out
}

// holdsAt: fact f holds at return r of fn. witness describes a bypass path.
func (e *acceptEngine) holdsAt(fn *ssa.Function, r *ssa.Return, f *fact) (bool, string) {
	return e.holdsAtV(fn, r, f, nil)
}

// holdsAtV is holdsAt with the verdict given explicitly (verdict != nil): the
// boolean value that says "accepted" at this return when the function reports its
// outcome in a field of a struct result instead of a result of its own.
func (e *acceptEngine) holdsAtV(fn *ssa.Function, r *ssa.Return, f *fact, verdict ssa.Value) (bool, string) {
	// results as stored before the deferred calls run (named results)
	rres := make([]ssa.Value, len(r.Results))
	for k := range r.Results {
		rres[k] = effectiveResult(fn, r, k)
	}
	if verdict != nil {
		rres = []ssa.Value{verdict}
	}
	// tail delegation: return g(...)
	if len(rres) > 0 {
		if call := callOf(rres[0]); call != nil {
			if callee := ir.Callee(call); callee != nil && e.c.P.InLib(callee) && certArgsOK(fn, call) && !(fn == e.requiring && indexVerdict(callee)) && e.establishes(callee, f) {
				return true, ""
			}
		}
	}
	// an error result that is itself the outcome of the establishing step
	// (`return cert.CheckSignature(...)`, `return check.run(...)`): nil means accepted
	errTail := false
	if n := len(rres); n > 0 && isErrorType(rres[n-1].Type()) && !(n > 1 && isBoolType(rres[0].Type())) {
		if _, isConst := rres[n-1].(*ssa.Const); !isConst {
			ev := rres[n-1]
			if f.direct(e.c, fn, ir.CondEdge{Cond: ev, Truth: true}) {
				errTail = true
			} else if call, em := e.observe(fn, ir.CondEdge{Cond: ev, Truth: true}); call != nil && certArgsOK(fn, call) && e.establishesMode(ir.Callee(call), f, em) {
				errTail = true
			}
		}
	}
	if errTail {
		return true, ""
	}
	cut := map[ir.Edge]bool{}
	for _, ed := range e.evidenceEdges(fn, f) {
		cut[ed] = true
	}
	// evidence found inside a loop belongs to one iteration: a later iteration
	// must find it again, so the search also starts at the header of every loop
	// that contains an evidence edge (evidence before a loop holds throughout it)
	starts := []*ssa.BasicBlock{fn.Blocks[0]}
	for _, l := range naturalLoops(fn) {
		inside := false
		for ed := range cut {
			if l.body[ed.From] {
				inside = true
			}
		}
		if inside {
			starts = append(starts, l.header)
		}
	}
	reachable := func(target *ssa.BasicBlock) (bool, string) {
		for _, st := range starts {
			if st != fn.Blocks[0] && !reachableBlock(fn, st) {
				continue
			}
			// (an error variable that holds a value known to be non-nil where it flows into a
			// join cannot be found nil by the test that follows the join)
			seen, prev := ir.ReachFE(fn, st, -1, cut, func(v ssa.Value, pred, blk *ssa.BasicBlock) bool {
				return isErrorType(v.Type()) && errNonNilOnEdge(fn, v, pred, blk)
			})
			if seen[target.Index] {
				return true, ir.PathTo(fn, prev, st.Index, target.Index, e.c.Pos)
			}
		}
		return false, ""
	}
	// one error variable assigned on several paths and returned once (the return
	// block joins them in a phi): an incoming edge whose value cannot be nil there
	// (just made by errors.New / fmt.Errorf, or found non-nil on the way) is a
	// rejecting outcome; every other edge is judged on its own
	if n := len(rres); n > 0 && isErrorType(rres[n-1].Type()) && !(n > 1 && isBoolType(rres[0].Type())) {
		ph, isPhi := rres[n-1].(*ssa.Phi)
		if isPhi && ph.Block() == r.Block() {
			// (a predecessor that the jump-threaded view leaves out is not judged edge by edge)
			for _, pred := range ph.Block().Preds {
				if !reachableBlock(fn, pred) {
					isPhi = false
				}
			}
		}
		if isPhi && ph.Block() == r.Block() {
			for k, ev := range ph.Edges {
				pred := ph.Block().Preds[k]
				if errNonNilOnEdge(fn, ev, pred, ph.Block()) || cut[ir.Edge{From: pred.Index, To: ph.Block().Index}] {
					continue
				}
				if _, isConst := ev.(*ssa.Const); !isConst {
					if f.direct(e.c, fn, ir.CondEdge{Cond: ev, Truth: true}) {
						continue
					}
					if call, em := e.observe(fn, ir.CondEdge{Cond: ev, Truth: true}); call != nil && certArgsOK(fn, call) && e.establishesMode(ir.Callee(call), f, em) {
						continue
					}
				}
				if hit, w := reachable(pred); hit {
					return false, w
				}
			}
			return true, ""
		}
	}
	// a boolean result computed by an expression (a && b lowers to a phi whose
	// edges carry `false` or the last conjunct): each edge that may carry true
	// is judged on its own — the value on the edge is itself a condition that
	// holds when the function accepts
	if len(rres) > 0 && isBoolType(rres[0].Type()) {
		type edgeVal struct {
			val  ssa.Value
			pred *ssa.BasicBlock
		}
		var evs []edgeVal
		switch x := rres[0].(type) {
		case *ssa.Phi:
			for k, ev := range x.Edges {
				evs = append(evs, edgeVal{ev, x.Block().Preds[k]})
			}
		case *ssa.Const:
		default:
			evs = append(evs, edgeVal{x, r.Block()})
		}
		if len(evs) > 0 {
			for _, ev := range evs {
				if k, ok := ev.val.(*ssa.Const); ok && k.Value != nil && !constant.BoolVal(k.Value) {
					continue
				}
				if _, isConst := ev.val.(*ssa.Const); !isConst {
					if e.valueEstablishes(fn, ev.val, f, 0) {
						continue
					}
				}
				if hit, w := reachable(ev.pred); hit {
					return false, w
				}
			}
			return true, ""
		}
	}
	if hit, w := reachable(r.Block()); hit {
		return false, w
	}
	return true, ""
}

// establishes: every accepting return of fn carries fact f.
func (e *acceptEngine) establishes(fn *ssa.Function, f *fact) bool {
	return e.establishesMode(fn, f, false)
}

func (e *acceptEngine) establishesMode(fn *ssa.Function, f *fact, errMode bool) bool {
	if fn == nil || fn.Blocks == nil {
		return false
	}
	key := name(fn) + "|" + f.id
	if errMode {
		key += "|err"
	}
	switch e.memo[key] {
	case 1:
		return true
	case 2, 3:
		return false
	}
	e.memo[key] = 3
	ok := true
	acc := acceptingReturnsMode(fn, errMode)
	if indexVerdict(fn) {
		// a position-valued search is only ever observed through "not -1" (observe):
		// the returns that hand back -1 are its rejecting outcome
		var found []*ssa.Return
		for _, r := range acc {
			if !noneIndex(fn, r) {
				found = append(found, r)
			}
		}
		acc = found
	}
	if len(acc) == 0 {
		ok = false // a function that never accepts establishes nothing useful
	}
	for _, r := range acc {
		if h, _ := e.holdsAt(fn, r, f); !h {
			ok = false
			break
		}
	}
	if ok {
		e.memo[key] = 1
	} else {
		e.memo[key] = 2
	}
	return ok
}

// Require reports, for each accepting return of fn and each fact, whether it holds.
func (e *acceptEngine) Require(rule string, fn *ssa.Function, facts []*fact) {
	defer func(prev *ssa.Function) { e.requiring = prev }(e.requiring)
	e.requiring = fn
	acc := acceptingReturns(fn)
	if len(acc) == 0 {
		// the verdict may be given in a deferred function that clears the named error result
		if g, stores := deferredVerdict(fn); g != nil {
			e.requireDeferred(rule, fn, g, stores, facts)
			return
		}
		e.c.R.Undecf(rule, name(fn), "accepting-return", e.c.Pos(fn.Pos()), "verifier must have an accepting return", "no return may report success")
		return
	}
	for _, f := range facts {
		ok, wit, where := true, "", ""
		for _, r := range acc {
			if h, w := e.holdsAt(fn, r, f); !h {
				ok, wit, where = false, w, e.c.IPos(r)
			}
		}
		if !ok && len(f.subject) > 0 {
			if hard, hw := e.hardBypass(fn, f, 0); hard {
				e.c.R.Add(report.Obligation{Rule: rule + "." + f.id, Key: rule + "." + f.id + "@" + name(fn) + ":" + f.id, Func: name(fn), Pos: e.c.Pos(fn.Pos()),
					What: "every path to an accepting return establishes: " + f.what, Status: report.Violation, Hard: true,
					Detail: fmt.Sprintf("accepting return at %s is reachable without it; bypass: %s; on a path to acceptance (%s) the value is never read", where, wit, hw)})
				continue
			}
		}
		if !ok {
			// acceptance computed through function values that the path engine does not
			// follow (callbacks of library functions, generic helpers that take the
			// predicate as a parameter): the fact may hold, it is not decided here
			if f.undecided != nil {
				if why := f.undecided(e.c, fn); why != "" {
					e.c.R.Infof(rule+"."+f.id, name(fn), f.id, e.c.Pos(fn.Pos()), "not decided for this shape: "+f.what+" — "+why)
					continue
				}
			}
			if why := e.tupleVerdict(fn); why != "" {
				e.c.R.Infof(rule+"."+f.id, name(fn), f.id, e.c.Pos(fn.Pos()), "not decided for this shape: "+f.what+" — "+why)
				continue
			}
			if len(e.structUndecided) > 0 {
				why := ""
				reach, _ := e.c.Reachable([]*ssa.Function{fn})
				for g := range e.structUndecided {
					if reach[g] && (why == "" || name(g) < why) {
						why = name(g)
					}
				}
				if why != "" {
					e.c.R.Infof(rule+"."+f.id, name(fn), f.id, e.c.Pos(fn.Pos()), "not decided for this shape: "+f.what+" — the outcome of "+why+" is reported in a field of a struct result that is built in a way the path engine does not follow")
					continue
				}
			}
			if at := e.unfollowedCall(fn, f, nil); at != "" {
				e.c.R.Infof(rule+"."+f.id, name(fn), f.id, e.c.Pos(fn.Pos()), "not decided for this shape: "+f.what+" — the accepting outcome depends on a function value the path engine does not follow ("+at+")")
				continue
			}
		}
		e.c.R.Check(ok, rule+"."+f.id, name(fn), f.id, e.c.Pos(fn.Pos()),
			"every path to an accepting return establishes: "+f.what,
			fmt.Sprintf("accepting return at %s is reachable without it; bypass: %s", where, wit))
	}
}

// unfollowedCall looks, in fn and the library functions it statically calls
// (with their function literals), for a function value the path engine does not
// follow and that matters for the fact: a call of a function value that is not
// fixed by the code and yields a verdict (bool / error result), or a library
// function literal (or method value) in whose call cone the fact's evidence
// lies and that is handed to code outside the library or called through a
// value. Returns where, "" if there is none. relevant (optional) replaces the
// evidence test.
func (e *acceptEngine) unfollowedCall(fn *ssa.Function, f *fact, relevant func(*ssa.Function) bool) string {
	if relevant == nil {
		relevant = func(g *ssa.Function) bool { return f != nil && e.evidenceInCone(g, f, map[*ssa.Function]bool{}, 0) }
	}
	verdict := func(sig *types.Signature) bool {
		rs := sig.Results()
		if rs.Len() == 0 {
			return false
		}
		return isBoolType(rs.At(0).Type()) || isErrorType(rs.At(rs.Len()-1).Type())
	}
	seen := map[*ssa.Function]bool{}
	var at string
	var walk func(g *ssa.Function, depth int)
	walk = func(g0 *ssa.Function, depth int) {
		if g0 == nil || seen[g0] || depth > 4 || at != "" || g0.Blocks == nil {
			return
		}
		seen[g0] = true
		for _, g := range withAnon(g0) {
			instrsOf(g, func(i ssa.Instruction) {
				call, ok := i.(ssa.CallInstruction)
				if !ok || at != "" {
					return
				}
				cc := call.Common()
				if cc.IsInvoke() {
					return
				}
				if _, isB := cc.Value.(*ssa.Builtin); isB {
					return
				}
				callee := ir.Callee(call)
				if callee == nil {
					if verdict(cc.Signature()) {
						at = "call of a function value at " + e.c.IPos(i)
					}
					return
				}
				if strings.HasSuffix(callee.Name(), "$bound") && relevant(callee) {
					at = "call of a method value at " + e.c.IPos(i)
					return
				}
				if e.c.P.InLib(callee) {
					walk(callee, depth+1)
					return
				}
				for _, a := range cc.Args {
					if _, isSig := a.Type().Underlying().(*types.Signature); !isSig {
						continue
					}
					cf := ir.FuncValue(ir.StripConv(a))
					if cf == nil {
						// a function value of unknown origin handed to outside code
						if verdict(a.Type().Underlying().(*types.Signature)) {
							at = "function value handed to " + ir.CallID(call) + " at " + e.c.IPos(i)
						}
						continue
					}
					if cf != nil && e.c.P.InLib(cf) && relevant(cf) {
						at = "function literal handed to " + ir.CallID(call) + " at " + e.c.IPos(i)
					}
				}
			})
		}
	}
	walk(fn, 0)
	return at
}

// evidenceInCone: g, a function literal inside it or a library function it
// statically calls contains a branch or a returned value that establishes f.
func (e *acceptEngine) evidenceInCone(g *ssa.Function, f *fact, seen map[*ssa.Function]bool, depth int) bool {
	if g == nil || seen[g] || depth > 6 || g.Blocks == nil {
		return false
	}
	seen[g] = true
	for _, h := range withAnon(g) {
		for _, ce := range ir.CondEdges(h) {
			if f.direct(e.c, h, ce) {
				return true
			}
		}
		for _, r := range ir.Returns(h) {
			for _, v := range r.Results {
				if isBoolType(v.Type()) {
					if core, neg := ir.Peel(v); f.direct(e.c, h, ir.CondEdge{Cond: core, Truth: !neg}) {
						return true
					}
				}
			}
		}
		found := false
		// any boolean value computed in h that is the fact's test (a conjunct of a
		// returned expression, a table-driven check)
		instrsOf(h, func(i ssa.Instruction) {
			if v, ok := i.(ssa.Value); ok && !found && isBoolType(v.Type()) {
				if f.direct(e.c, h, ir.CondEdge{Cond: v, Truth: true}) || f.direct(e.c, h, ir.CondEdge{Cond: v, Truth: false}) {
					found = true
				}
			}
		})
		if found {
			return true
		}
		instrsOf(h, func(i ssa.Instruction) {
			if call, ok := i.(ssa.CallInstruction); ok && !found {
				if callee := ir.Callee(call); callee != nil && e.c.P.InLib(callee) && e.evidenceInCone(callee, f, seen, depth+1) {
					found = true
				}
			}
		})
		if found {
			return true
		}
	}
	return false
}

// ---------------------------------------------------------------- fact predicates

// equalityOperands decodes the condition of ce as a byte-equality test that
// holds on this edge: bytes.Equal / hmac.Equal true, ConstantTimeCompare == 1.
func equalityOperands(ce ir.CondEdge) (a, b ssa.Value, ok bool) {
	if call, isCall := ce.Cond.(*ssa.Call); isCall && ce.Truth {
		switch ir.CallID(call) {
		case "bytes.Equal", "crypto/hmac.Equal", "slices.Equal", "reflect.DeepEqual":
			return call.Call.Args[0], call.Call.Args[1], true
		}
	}
	if cmp, isCmp := ce.Cond.(*ssa.BinOp); isCmp && (cmp.Op == token.EQL || cmp.Op == token.NEQ) {
		if call, isCall := ir.StripConv(cmp.X).(*ssa.Call); isCall {
			switch ir.CallID(call) {
			case "crypto/subtle.ConstantTimeCompare":
				if k, isK := ir.ConstInt(cmp.Y); isK && k == 1 && ce.Truth == (cmp.Op == token.EQL) {
					return call.Call.Args[0], call.Call.Args[1], true
				}
				// != 0 is not equality (the result is 0 or 1, but only == 1 / != 1 are the idiom)
				return nil, nil, false
			case "bytes.Compare", "strings.Compare":
				if k, isK := ir.ConstInt(cmp.Y); isK && k == 0 && ce.Truth == (cmp.Op == token.EQL) {
					return call.Call.Args[0], call.Call.Args[1], true
				}
				return nil, nil, false
			}
		}
		// string(a) == string(b), [N]byte == [N]byte
		if ce.Truth == (cmp.Op == token.EQL) {
			tx := cmp.X.Type().Underlying()
			if b, isB := tx.(*types.Basic); isB && b.Kind() == types.String {
				cx, okx := cmp.X.(*ssa.Convert)
				cy, oky := cmp.Y.(*ssa.Convert)
				if okx && oky && isByteSlice(cx.X.Type()) && isByteSlice(cy.X.Type()) {
					return cx.X, cy.X, true
				}
			}
			if arr, isArr := tx.(*types.Array); isArr && binarySize(arr.Elem()) == 1 {
				return cmp.X, cmp.Y, true
			}
		}
	}
	return nil, nil, false
}

func (c *Ctx) sliceOf(v ssa.Value) map[ssa.Value]bool {
	s := c.Slicer()
	s.BindRoot = true
	return s.Slice(v)
}

func hasTypeParam(sl map[ssa.Value]bool, typeID string) bool {
	for v := range sl {
		if p, ok := v.(*ssa.Parameter); ok && ir.NamedTypeID(p.Type()) == typeID {
			return true
		}
	}
	return false
}

// certSide: the value derives from a *x509.Certificate parameter's field and
// not from certificates embedded in the blob.
func certSide(sl map[ssa.Value]bool, field string) bool {
	return ir.HasField(sl, "crypto/x509.Certificate."+field) && hasTypeParam(sl, "crypto/x509.Certificate") &&
		!ir.HasField(sl, M+"/pkcs7.PKCS7.Certs")
}

var factIssuer = &fact{id: "issuer", what: "the signer's issuer equals the verifying certificate's RawIssuer",
	direct: func(c *Ctx, fn *ssa.Function, ce ir.CondEdge) bool {
		a, b, ok := equalityOperands(ce)
		if !ok {
			return false
		}
		sa, sb := c.sliceOf(a), c.sliceOf(b)
		signer := func(s map[ssa.Value]bool) bool { return ir.HasField(s, M+"/pkcs7.issuerAndSerialNumber.RawIssuer") }
		return certSide(sa, "RawIssuer") && signer(sb) || certSide(sb, "RawIssuer") && signer(sa)
	}}

var factSerial = &fact{id: "serial", what: "the signer's serial number equals the verifying certificate's serial number",
	direct: func(c *Ctx, fn *ssa.Function, ce ir.CondEdge) bool {
		cmp, ok := ce.Cond.(*ssa.BinOp)
		if !ok || (cmp.Op != token.EQL && cmp.Op != token.NEQ) {
			return false
		}
		call, ok := ir.StripConv(cmp.X).(*ssa.Call)
		if !ok || ir.CallID(call) != "math/big.Int.Cmp" {
			return false
		}
		if k, isK := ir.ConstInt(cmp.Y); !isK || k != 0 {
			return false
		}
		if ce.Truth != (cmp.Op == token.EQL) {
			return false
		}
		sa, sb := c.sliceOf(call.Call.Args[0]), c.sliceOf(call.Call.Args[1])
		signer := func(s map[ssa.Value]bool) bool { return ir.HasField(s, M+"/pkcs7.issuerAndSerialNumber.SerialNumber") }
		return certSide(sa, "SerialNumber") && signer(sb) || certSide(sb, "SerialNumber") && signer(sa)
	}}

var factSignature = &fact{id: "signature", what: "an RSA-SHA256 signature by the verifying certificate's key over the re-encoded signed attributes is valid",
	direct: func(c *Ctx, fn *ssa.Function, ce ir.CondEdge) bool {
		cond, truth := condOf(fn, ce)
		v, isNil := errIsNil(cond, truth)
		if v == nil || !isNil {
			return false // not "error is nil" on this edge
		}
		// an error variable that may still hold its initial nil when it is tested (a
		// switch without default around the check) lets the edge be taken unchecked
		if mayBeUnsetNil(v, map[ssa.Value]bool{}) {
			return false
		}
		origins := errorOrigins(v, map[ssa.Value]bool{})
		good := 0
		for _, call := range origins {
			switch ir.CallID(call) {
			case "crypto/x509.Certificate.CheckSignature":
				args := call.Call.Args // recv, algo, signed, signature
				if !isCallerCert(fn, args[0]) {
					continue
				}
				algo, isK := ir.ConstInt(args[1])
				want, _ := c.constInt("crypto/x509", "SHA256WithRSA")
				if !isK || algo != want {
					continue
				}
				okAll := true
				for _, cx := range c.argContexts(call.Parent()) {
					ss := c.sliceWithArgs(args[2], cx)
					if !(len(ir.CallsIn(ss, M+"/pkcs7.Attributes.Marshal")) > 0 && ir.HasField(ss, M+"/pkcs7.signerinfo.AuthenticatedAttributes")) ||
						!ir.HasField(c.sliceWithArgs(args[3], cx), M+"/pkcs7.signerinfo.EncryptedDigest") {
						okAll = false
					}
				}
				if okAll {
					good++
				}
			case "crypto/rsa.VerifyPKCS1v15":
				args := call.Call.Args // pub, hash, hashed, sig
				h, isK := ir.ConstInt(args[1])
				want, _ := c.constInt("crypto", "SHA256")
				if !isK || h != want {
					continue
				}
				// judged where the call stands, or — when key, message and signature
				// are parameters of an unexported helper around the primitive — at
				// every call site of that helper
				okAll := true
				for _, cx := range c.argContexts(call.Parent()) {
					sl := func(v ssa.Value) map[ssa.Value]bool { return c.sliceWithArgs(v, cx) }
					at := cx.fn
					if at == nil {
						at = fn
					}
					// the key is the caller certificate's public key
					ps := sl(args[0])
					if !ir.HasField(ps, "crypto/x509.Certificate.PublicKey") || ir.HasField(ps, M+"/pkcs7.PKCS7.Certs") {
						okAll = false
						break
					}
					keyFromCaller := false
					for pv := range ps {
						if fa, isFA := pv.(*ssa.FieldAddr); isFA && ir.FieldID(fa) == "crypto/x509.Certificate.PublicKey" && isCallerCert(fa.Parent(), fa.X) &&
							(fa.Parent() == fn || fa.Parent().Parent() == fn || fa.Parent() == at || fa.Parent().Parent() == at) {
							keyFromCaller = true
						}
					}
					hs := sl(args[2])
					if !keyFromCaller || !sha256Only(c, hs) || len(ir.CallsIn(hs, M+"/pkcs7.Attributes.Marshal")) == 0 || !ir.HasField(hs, M+"/pkcs7.signerinfo.AuthenticatedAttributes") {
						okAll = false
						break
					}
					if !ir.HasField(sl(args[3]), M+"/pkcs7.signerinfo.EncryptedDigest") {
						okAll = false
						break
					}
				}
				if okAll {
					good++
				}
			}
		}
		return good > 0 && good == len(origins)
	}}

// argContext: one call site of an unexported helper, with the argument bound
// to each parameter; the zero context stands for "no helper in between".
type argContext struct {
	fn   *ssa.Function
	args map[*ssa.Parameter]ssa.Value
}

// argContexts lists the library call sites of fn when fn is an unexported
// plain function; otherwise (and when it has no call site) the single empty
// context.
func (c *Ctx) argContexts(fn *ssa.Function) []argContext {
	none := []argContext{{}}
	if fn == nil || fn.Object() == nil || fn.Object().Exported() {
		return none
	}
	node := c.P.CallGraph().Nodes[fn]
	if node == nil {
		return none
	}
	var out []argContext
	for _, in := range node.In {
		if in.Site == nil || !c.P.InLib(in.Caller.Func) || in.Site.Common().StaticCallee() != fn {
			continue
		}
		if in.Caller.Func.Synthetic != "" && len(in.Caller.In) == 0 {
			continue // the wrapper of a promoted method that nothing calls
		}
		args := ir.CallArgs(in.Site)
		if len(args) != len(fn.Params) {
			continue
		}
		cx := argContext{fn: in.Caller.Func, args: map[*ssa.Parameter]ssa.Value{}}
		for k, p := range fn.Params {
			cx.args[p] = args[k]
		}
		out = append(out, cx)
	}
	if len(out) == 0 {
		return none
	}
	return out
}

// sliceWithArgs: the backward slice of v, continued through the parameters it
// reaches into the arguments of the given call site.
func (c *Ctx) sliceWithArgs(v ssa.Value, cx argContext) map[ssa.Value]bool {
	s := c.sliceOf(v)
	if cx.fn == nil {
		return s
	}
	out := map[ssa.Value]bool{}
	for k := range s {
		out[k] = true
	}
	for k := range s {
		if p, ok := k.(*ssa.Parameter); ok {
			if a, bound := cx.args[p]; bound {
				for q := range c.sliceOf(a) {
					out[q] = true
				}
			}
		}
	}
	return out
}

// mayBeUnsetNil: the error value is a phi (or a cell) one of whose sources is
// the constant nil.
func mayBeUnsetNil(v ssa.Value, seen map[ssa.Value]bool) bool {
	if v == nil || seen[v] {
		return false
	}
	seen[v] = true
	switch x := v.(type) {
	case *ssa.Const:
		return x.IsNil()
	case *ssa.Phi:
		for _, e := range x.Edges {
			if mayBeUnsetNil(e, seen) {
				return true
			}
		}
	case *ssa.UnOp:
		if a, ok := x.X.(*ssa.Alloc); ok {
			stores := 0
			for _, r := range *a.Referrers() {
				if st, ok := r.(*ssa.Store); ok && st.Addr == ssa.Value(a) {
					stores++
					if mayBeUnsetNil(st.Val, seen) {
						return true
					}
				}
			}
		}
	}
	return false
}

// sha256Over: the slice computes SHA-256 (and no other hash).
func sha256Only(c *Ctx, sl map[ssa.Value]bool) bool {
	found := false
	for v := range sl {
		call, ok := v.(*ssa.Call)
		if !ok {
			continue
		}
		if ir.CallID(call) == "sync.Pool.Get" {
			// a state taken from a pool of reset states stands for what the pool's New constructs
			if pc, _ := c.pooledCtor(call); pc != nil {
				call = pc
			}
		}
		switch id := ir.CallID(call); {
		case id == "crypto/sha256.Sum256" || id == "crypto/sha256.New":
			found = true
		case id == "crypto.Hash.New":
			k, isK := ir.ConstInt(call.Call.Args[0])
			want, _ := c.constInt("crypto", "SHA256")
			if isK && k == want {
				found = true
			} else {
				return false
			}
		case strings.HasPrefix(id, "crypto/sha1.") || strings.HasPrefix(id, "crypto/md5.") || strings.HasPrefix(id, "crypto/sha512."):
			return false
		}
	}
	return found
}

var factContentDigest = &fact{id: "content-digest", what: "the signed messageDigest equals the SHA-256 of the encapsulated content (or the blob is detached: no content)",
	undecided: func(c *Ctx, fn *ssa.Function) string {
		// the messageDigest is compared with a SHA-256 whose input reaches the test
		// through the fields of a carrier object (a memo, a small reader type): the
		// slicer does not connect those fields to the content
		reach, _ := c.Reachable([]*ssa.Function{fn})
		why := ""
		for g := range reach {
			if !c.P.InLib(g) || why != "" {
				continue
			}
			for _, ce := range ir.CondEdges(g) {
				a, b, ok := equalityOperands(ce)
				if !ok {
					continue
				}
				sa, sb := c.sliceOf(a), c.sliceOf(b)
				attr := func(s map[ssa.Value]bool) bool { return ir.HasField(s, M+"/pkcs7.Attributes.MessageDigest") }
				other := sa
				switch {
				case attr(sa) && !attr(sb):
					other = sb
				case attr(sb) && !attr(sa):
					other = sa
				default:
					continue
				}
				if !sha256Only(c, other) || ir.HasField(other, M+"/pkcs7.PKCS7.ContentInfo") {
					continue
				}
				for v := range other {
					id := ir.FieldID(v)
					if id == "" || !strings.HasPrefix(id, M+"/") {
						continue
					}
					if strings.HasPrefix(id, M+"/pkcs7.PKCS7.") || strings.HasPrefix(id, M+"/pkcs7.signerinfo.") || strings.HasPrefix(id, M+"/pkcs7.Attributes.") {
						continue
					}
					why = "the compared SHA-256 is taken from " + shortID(id) + " in " + name(g) + "; what was hashed into that carrier is not traced"
				}
			}
		}
		return why
	},
	direct: func(c *Ctx, fn *ssa.Function, ce ir.CondEdge) bool {
		// detached: len(content) == 0 on this edge (also written < 1, <= 0, or with
		// the operands swapped), content deriving from PKCS7.ContentInfo
		if cmp, ok := ce.Cond.(*ssa.BinOp); ok {
			x, y, op := cmp.X, cmp.Y, cmp.Op
			if !ce.Truth {
				op = negate(op)
			}
			if _, isK := ir.ConstInt(x); isK {
				x, y, op = y, x, flip(op)
			}
			if lc, ok := ir.StripConv(x).(*ssa.Call); ok && ir.CallID(lc) == "builtin.len" {
				if k, isK := ir.ConstInt(y); isK {
					if (op == token.EQL || op == token.LEQ) && k == 0 || op == token.LSS && k == 1 {
						if ir.HasField(c.sliceOf(lc.Call.Args[0]), M+"/pkcs7.PKCS7.ContentInfo") {
							return true
						}
					}
				}
			}
		}
		a, b, ok := equalityOperands(ce)
		if !ok {
			return false
		}
		sa, sb := c.sliceOf(a), c.sliceOf(b)
		if os.Getenv("VCHECK_DEBUG") == "accept" {
			fmt.Fprintf(os.Stderr, "content-digest candidate in %s: sha=%v/%v content=%v/%v md=%v/%v\n", name(fn), sha256Only(c, sa), sha256Only(c, sb),
				ir.HasField(sa, M+"/pkcs7.PKCS7.ContentInfo"), ir.HasField(sb, M+"/pkcs7.PKCS7.ContentInfo"), ir.HasField(sa, M+"/pkcs7.Attributes.MessageDigest"), ir.HasField(sb, M+"/pkcs7.Attributes.MessageDigest"))
		}
		digestOfContent := func(s map[ssa.Value]bool) bool {
			return sha256Only(c, s) && ir.HasField(s, M+"/pkcs7.PKCS7.ContentInfo") && !ir.HasField(s, M+"/pkcs7.Attributes.MessageDigest")
		}
		attr := func(s map[ssa.Value]bool) bool { return ir.HasField(s, M+"/pkcs7.Attributes.MessageDigest") }
		return digestOfContent(sa) && attr(sb) || digestOfContent(sb) && attr(sa)
	}}

var factImageDigest = &fact{id: "image-digest", what: "the SHA-256 of the image bytes being verified equals the digest inside the signed SpcIndirectDataContent",
	direct: func(c *Ctx, fn *ssa.Function, ce ir.CondEdge) bool {
		a, b, ok := equalityOperands(ce)
		if !ok {
			return false
		}
		sa, sb := c.sliceOf(a), c.sliceOf(b)
		img := func(s map[ssa.Value]bool) bool {
			hasSum := false
			for v := range s {
				if call, ok := v.(*ssa.Call); ok && (ir.CallID(call) == "hash.Hash.Sum" || ir.CallID(call) == "crypto/sha256.Sum256") {
					hasSum = true
				}
			}
			return hasSum && (hasTypeParam(s, "io.Reader") || ir.HasField(s, M+"/authenticode.PECOFFBinary.hashContent")) && !ir.HasField(s, M+"/authenticode.Authenticode.Digest")
		}
		dig := func(s map[ssa.Value]bool) bool { return ir.HasField(s, M+"/authenticode.Authenticode.Digest") }
		if os.Getenv("VCHECK_DEBUG") == "imgdig" {
			fmt.Fprintf(os.Stderr, "imgdig %s: a=%s img=%v dig=%v | b=%s img=%v dig=%v\n", name(fn), a.Name(), img(sa), dig(sa), b.Name(), img(sb), dig(sb))
			for v := range sa {
				if cc, ok := v.(*ssa.Call); ok {
					fmt.Fprintf(os.Stderr, "    a-call %s\n", ir.CallID(cc))
				}
			}
		}
		return img(sa) && dig(sb) || img(sb) && dig(sa)
	}}

var factDigestAlg = &fact{id: "digest-algorithm", what: "the digest algorithm named in the signed content is SHA-256 (the hash that is actually computed)",
	undecided: func(c *Ctx, fn *ssa.Function) string {
		// the accepted identifiers are looked up in a package-level table
		reach, _ := c.Reachable([]*ssa.Function{fn})
		why := ""
		for g := range reach {
			if !c.P.InLib(g) || why != "" {
				continue
			}
			instrsOf(g, func(i ssa.Instruction) {
				call, ok := i.(*ssa.Call)
				if !ok || ir.CallID(call) != "encoding/asn1.ObjectIdentifier.Equal" || why != "" {
					return
				}
				for _, a := range call.Call.Args {
					for v := range c.sliceOf(a) {
						if gl, isG := v.(*ssa.Global); isG && gl.Pkg != nil && c.P.InModule(gl.Pkg.Func("init")) {
							switch gl.Type().Underlying().(*types.Pointer).Elem().Underlying().(type) {
							case *types.Slice, *types.Array, *types.Map:
								if _, isOID := gl.Type().Underlying().(*types.Pointer).Elem().(*types.Named); !isOID {
									why = "the identifier is compared with entries of the package-level table " + gl.Name() + " in " + name(g)
								}
							}
						}
					}
				}
			})
			// ... or are the keys of a package-level map that only the initialiser fills
			// (alg, found := table[oid.String()]), the found flag being what is tested
			instrsOf(g, func(i ssa.Instruction) {
				lk, ok := i.(*ssa.Lookup)
				if !ok || !lk.CommaOk || why != "" {
					return
				}
				gl, initOnly := c.initOnlyMap(lk)
				if !initOnly {
					return
				}
				ks := c.sliceOf(lk.Index)
				if !(ir.HasField(ks, M+"/authenticode.Authenticode.Algid") || ir.HasField(ks, "crypto/x509/pkix.AlgorithmIdentifier.Algorithm")) {
					return
				}
				for _, ce := range ir.CondEdges(g) {
					if ex, isEx := ce.Cond.(*ssa.Extract); isEx && ex.Tuple == ssa.Value(lk) && ex.Index == 1 {
						why = "the identifier is looked up among the keys of the package-level map " + gl.Name() + " (filled by the initialiser) in " + name(g) + "; which identifiers the initialiser enters is not evaluated"
					}
				}
			})
		}
		return why
	},
	direct: func(c *Ctx, fn *ssa.Function, ce ir.CondEdge) bool {
		call, ok := ce.Cond.(*ssa.Call)
		if !ok || !ce.Truth || len(call.Call.Args) != 2 {
			return false
		}
		switch ir.CallID(call) {
		case "encoding/asn1.ObjectIdentifier.Equal":
		case "slices.Equal", "reflect.DeepEqual":
			// the same element-wise comparison of two identifiers, spelled with the library function
			for _, a := range call.Call.Args {
				if ir.NamedTypeID(ir.StripIface(a).Type()) != "encoding/asn1.ObjectIdentifier" {
					return false
				}
			}
		default:
			return false
		}
		sa, sb := c.sliceOf(call.Call.Args[0]), c.sliceOf(call.Call.Args[1])
		oid := func(s map[ssa.Value]bool) bool { return ir.HasGlobal(s, M+"/pkcs7.OIDDigestAlgorithmSHA256") }
		alg := func(s map[ssa.Value]bool) bool {
			if ir.HasField(s, M+"/authenticode.Authenticode.Algid") || ir.HasField(s, "crypto/x509/pkix.AlgorithmIdentifier.Algorithm") {
				return true
			}
			// a helper that is handed the identifier: every library caller passes the signed one
			for v := range s {
				p, isP := v.(*ssa.Parameter)
				if !isP || p.Parent() != fn {
					continue
				}
				idx := -1
				for k, q := range fn.Params {
					if q == p {
						idx = k
					}
				}
				node := c.P.CallGraph().Nodes[fn]
				if node == nil || len(node.In) == 0 || idx < 0 {
					continue
				}
				all := true
				for _, in := range node.In {
					if in.Site == nil || !c.P.InLib(in.Caller.Func) {
						all = false
						break
					}
					args := ir.CallArgs(in.Site)
					if idx >= len(args) {
						all = false
						break
					}
					as := c.sliceOf(args[idx])
					if !(ir.HasField(as, M+"/authenticode.Authenticode.Algid") || ir.HasField(as, "crypto/x509/pkix.AlgorithmIdentifier.Algorithm")) {
						all = false
					}
				}
				if all {
					return true
				}
			}
			return false
		}
		if oid(sa) && alg(sb) || oid(sb) && alg(sa) {
			return true
		}
		// the accepted identifiers come from a local table: every row must be SHA-256
		dv := c.deepViewOf(topFn(fn), 1)
		fr := dv.frameOfFn(fn)
		if fr == nil {
			return false
		}
		allSHA := func(v ssa.Value) bool {
			alts := dv.alternatives(v, fr)
			for _, a := range alts {
				if !isGlobalLoad(a.v, M+"/pkcs7.OIDDigestAlgorithmSHA256") {
					return false
				}
			}
			return len(alts) > 0
		}
		if allSHA(call.Call.Args[0]) && alg(sb) || allSHA(call.Call.Args[1]) && alg(sa) {
			return true
		}
		// ... or from a package-level table that only the initialiser fills
		globalSHA := func(v ssa.Value) bool {
			rows, ok := c.globalTableColumn(v)
			if !ok || len(rows) == 0 {
				return false
			}
			for _, r := range rows {
				if !isGlobalLoad(ir.StripConv(r), M+"/pkcs7.OIDDigestAlgorithmSHA256") {
					return false
				}
			}
			return true
		}
		return globalSHA(call.Call.Args[0]) && alg(sb) || globalSHA(call.Call.Args[1]) && alg(sa)
	}}

// initOnlyMap: lk looks a key up in a package-level map that only the package
// initialisers (the synthetic one and the declared init functions) write: no
// other function of the library stores the variable, updates or deletes an
// entry, or hands the map on. Returns the variable.
func (c *Ctx) initOnlyMap(lk *ssa.Lookup) (*ssa.Global, bool) {
	ld, ok := lk.X.(*ssa.UnOp)
	if !ok || ld.Op != token.MUL {
		return nil, false
	}
	g, ok := ld.X.(*ssa.Global)
	if !ok || g.Pkg == nil {
		return nil, false
	}
	if _, isMap := g.Type().Underlying().(*types.Pointer).Elem().Underlying().(*types.Map); !isMap {
		return nil, false
	}
	isInit := func(fn *ssa.Function) bool {
		top := topFn(fn)
		return top.Pkg == g.Pkg && (top.Name() == "init" || strings.HasPrefix(top.Name(), "init#"))
	}
	bad := false
	scan := func(fn *ssa.Function) {
		instrsOf(fn, func(i ssa.Instruction) {
			for _, op := range i.Operands(nil) {
				if op == nil || *op != ssa.Value(g) {
					continue
				}
				l2, isLd := i.(*ssa.UnOp)
				if !isLd || l2.Op != token.MUL || l2.Referrers() == nil {
					bad = true
					continue
				}
				for _, r := range *l2.Referrers() {
					switch y := r.(type) {
					case *ssa.Lookup, *ssa.Range, *ssa.DebugRef:
					case *ssa.Call:
						if b, isB := y.Call.Value.(*ssa.Builtin); !isB || b.Name() != "len" {
							bad = true
						}
					default:
						bad = true
					}
				}
			}
		})
	}
	seen := map[*ssa.Function]bool{}
	for _, m := range g.Pkg.Members {
		if top, isFn := m.(*ssa.Function); isFn {
			for _, fn := range withAnon(top) {
				if !isInit(fn) && !seen[fn] {
					seen[fn] = true
					scan(fn)
				}
			}
		}
	}
	for _, top := range c.P.LibFunctions() {
		for _, fn := range withAnon(top) {
			if !isInit(fn) && !seen[fn] {
				seen[fn] = true
				scan(fn)
			}
		}
	}
	return g, !bad
}

// globalTableColumn: v reads field k of the element at a running index of a
// package-level slice or array of structs that is built once in the package
// initialiser and never written by library code; returns the values the
// initialiser stores into field k of every row.
func (c *Ctx) globalTableColumn(v ssa.Value) ([]ssa.Value, bool) {
	v = ir.StripConv(v)
	field := -1
	var elem ssa.Value
	switch x := v.(type) {
	case *ssa.Field: // row := table[i]; row.f
		field, elem = x.Field, x.X
	case *ssa.UnOp:
		if fa, ok := x.X.(*ssa.FieldAddr); ok && x.Op == token.MUL {
			field, elem = fa.Field, fa.X
		}
	}
	if field < 0 {
		return nil, false
	}
	// elem: *table[i], or &table[i]
	if ld, ok := elem.(*ssa.UnOp); ok && ld.Op == token.MUL {
		elem = ld.X
	}
	ia, ok := elem.(*ssa.IndexAddr)
	if !ok {
		return nil, false
	}
	base := ia.X
	if ld, ok := base.(*ssa.UnOp); ok && ld.Op == token.MUL {
		base = ld.X
	}
	g, ok := base.(*ssa.Global)
	if !ok || g.Pkg == nil {
		return nil, false
	}
	// written only by the initialiser
	for _, fn := range c.P.LibFunctions() {
		if fn.Name() == "init" {
			continue
		}
		bad := false
		instrsOf(fn, func(i ssa.Instruction) {
			if st, isSt := i.(*ssa.Store); isSt {
				if ir.RootOf(st.Addr) == ssa.Value(g) {
					bad = true
				}
				if ld, isLd := ir.RootOf(st.Addr).(*ssa.UnOp); isLd && ld.X == ssa.Value(g) {
					bad = true
				}
			}
		})
		if bad {
			return nil, false
		}
	}
	init := g.Pkg.Func("init")
	if init == nil {
		return nil, false
	}
	var arr *ssa.Alloc
	n := 0
	instrsOf(init, func(i ssa.Instruction) {
		if st, isSt := i.(*ssa.Store); isSt && st.Addr == ssa.Value(g) {
			n++
			if sl, isSl := st.Val.(*ssa.Slice); isSl {
				arr, _ = sl.X.(*ssa.Alloc)
			}
		}
	})
	if at, isArr := g.Type().Underlying().(*types.Pointer).Elem().Underlying().(*types.Array); isArr && n == 0 {
		// a package-level array: the initialiser fills its rows in place
		rows := map[int64]ssa.Value{}
		okAll := true
		instrsOf(init, func(i ssa.Instruction) {
			st, isSt := i.(*ssa.Store)
			if !isSt || ir.RootOf(st.Addr) != ssa.Value(g) {
				return
			}
			fa, isFA := st.Addr.(*ssa.FieldAddr)
			if !isFA {
				okAll = false // a whole row or something else stored: not followed
				return
			}
			ia2, isIA := fa.X.(*ssa.IndexAddr)
			if !isIA || ia2.X != ssa.Value(g) {
				okAll = false
				return
			}
			k, isK := ir.ConstInt(ia2.Index)
			if !isK {
				okAll = false
				return
			}
			if fa.Field == field {
				if _, twice := rows[k]; twice {
					okAll = false
				}
				rows[k] = st.Val
			}
		})
		if !okAll || int64(len(rows)) != at.Len() {
			return nil, false
		}
		var out []ssa.Value
		for k := int64(0); k < at.Len(); k++ {
			out = append(out, rows[k])
		}
		return out, true
	}
	if n != 1 || arr == nil {
		return nil, false
	}
	rows := map[int64]ssa.Value{}
	length := arr.Type().Underlying().(*types.Pointer).Elem().Underlying().(*types.Array).Len()
	okAll := true
	instrsOf(init, func(i ssa.Instruction) {
		st, isSt := i.(*ssa.Store)
		if !isSt {
			return
		}
		fa, isFA := st.Addr.(*ssa.FieldAddr)
		if !isFA || fa.Field != field {
			return
		}
		ia2, isIA := fa.X.(*ssa.IndexAddr)
		if !isIA || ia2.X != ssa.Value(arr) {
			return
		}
		k, isK := ir.ConstInt(ia2.Index)
		if !isK {
			okAll = false
			return
		}
		rows[k] = st.Val
	})
	if !okAll || int64(len(rows)) != length {
		return nil, false
	}
	var out []ssa.Value
	for k := int64(0); k < length; k++ {
		out = append(out, rows[k])
	}
	return out, true
}

// effectiveResult: result k of return r. With named results and deferred calls
// go/ssa stores the operands into the result cells, runs the defers and returns
// the cells' contents; the value that was stored in the return's block is the
// result unless a deferred closure may overwrite that cell with something other
// than the rejecting value (false / nil).
func effectiveResult(fn *ssa.Function, r *ssa.Return, k int) ssa.Value {
	v := r.Results[k]
	ld, ok := v.(*ssa.UnOp)
	if !ok || ld.Op != token.MUL {
		return v
	}
	a, ok := ld.X.(*ssa.Alloc)
	if !ok {
		return v
	}
	var last *ssa.Store
	for _, i := range r.Block().Instrs {
		if st, isSt := i.(*ssa.Store); isSt && st.Addr == ssa.Value(a) {
			last = st
		}
	}
	if last == nil {
		return v
	}
	if lu, isLd := last.Val.(*ssa.UnOp); isLd && lu.Op == token.MUL && lu.X == ssa.Value(a) {
		return v // the named result returned as it stands
	}
	// deferred closures that write the cell: only rejecting values may be written
	for _, anon := range fn.AnonFuncs {
		for _, fv := range anon.FreeVars {
			if ir.FreeVarBinding(fv) != ssa.Value(a) {
				continue
			}
			bad := false
			instrsOf(anon, func(i ssa.Instruction) {
				if st, isSt := i.(*ssa.Store); isSt && st.Addr == ssa.Value(fv) {
					kc, isK := st.Val.(*ssa.Const)
					rejecting := isK && (kc.Value == nil || kc.Value.Kind() == constant.Bool && !constant.BoolVal(kc.Value))
					if !rejecting {
						bad = true
					}
				}
			})
			if bad {
				return v
			}
		}
	}
	return last.Val
}

// hardBypass: fn has an accepting return reachable from its entry along blocks
// in which none of the fact's subject fields is read and the struct holding
// them is not handed to code that could read it. Library callees that receive
// the struct count as readers unless they have such a path themselves.
func (e *acceptEngine) hardBypass(fn *ssa.Function, f *fact, depth int) (bool, string) {
	if fn == nil || fn.Blocks == nil || depth > 4 || e.tupleVerdict(fn) != "" {
		return false, ""
	}
	subj := map[string]bool{}
	owners := map[string]bool{}
	for _, s := range f.subject {
		subj[s] = true
		owners[s[:strings.LastIndex(s, ".")]] = true
	}
	holdsOwner := func(t types.Type) bool {
		if p, ok := t.Underlying().(*types.Pointer); ok {
			t = p.Elem()
		}
		if sl, ok := t.Underlying().(*types.Slice); ok {
			t = sl.Elem()
		}
		return owners[ir.NamedTypeID(t)]
	}
	barrier := map[int]bool{}
	anonReads := false
	for _, g := range fn.AnonFuncs {
		instrsOf(g, func(i ssa.Instruction) {
			if v, ok := i.(ssa.Value); ok && subj[ir.FieldID(v)] {
				anonReads = true
			}
		})
	}
	for _, b := range fn.Blocks {
		for _, i := range b.Instrs {
			switch x := i.(type) {
			case *ssa.Field:
				if subj[ir.FieldID(x)] {
					barrier[b.Index] = true
				}
			case *ssa.FieldAddr:
				if !subj[ir.FieldID(x)] || x.Referrers() == nil {
					continue
				}
				for _, r := range *x.Referrers() {
					switch y := r.(type) {
					case *ssa.Store:
						if y.Addr != ssa.Value(x) {
							barrier[b.Index] = true
						}
					case *ssa.UnOp:
						barrier[y.Block().Index] = true
					case *ssa.MakeInterface:
						// handed to a decoder as its destination: a write
					default:
						barrier[b.Index] = true
					}
				}
			case ssa.CallInstruction:
				cc := x.Common()
				if _, isB := cc.Value.(*ssa.Builtin); isB {
					continue
				}
				callee := ir.Callee(x)
				passes := false
				for _, a := range ir.CallArgs(x) {
					if holdsOwner(ir.StripIface(a).Type()) {
						passes = true
					}
				}
				switch {
				case callee == nil:
					// a function value: a local literal may read the struct through its free variables
					if anonReads || passes {
						barrier[b.Index] = true
					}
				case callee.Parent() == fn || callee.Parent() != nil && callee.Parent().Parent() == fn:
					if anonReads {
						barrier[b.Index] = true
					}
				case passes && e.c.P.InLib(callee):
					if hb, _ := e.hardBypass(callee, f, depth+1); !hb {
						barrier[b.Index] = true
					}
				case passes:
					barrier[b.Index] = true
				}
			}
		}
	}
	if barrier[0] {
		return false, ""
	}
	cut := map[ir.Edge]bool{}
	for bi := range barrier {
		for _, s := range fn.Blocks[bi].Succs {
			cut[ir.Edge{From: bi, To: s.Index}] = true
		}
	}
	seen, prev := ir.ReachF(fn, fn.Blocks[0], cut)
	for _, r := range acceptingReturns(fn) {
		if seen[r.Block().Index] && !barrier[r.Block().Index] {
			return true, ir.PathTo(fn, prev, 0, r.Block().Index, e.c.Pos)
		}
	}
	return false, ""
}

// tupleVerdict: the function (or a library function whose results it returns or
// tests) reports its outcome through three or more results that include both a
// boolean and an error (value, atEnd, err): which combinations mean "accepted"
// is decided by the caller's tests on several results at once, which the path
// engine — one verdict per function — does not evaluate.
func (e *acceptEngine) tupleVerdict(fn *ssa.Function) string {
	multi := func(g *ssa.Function) bool {
		rs := g.Signature.Results()
		if rs.Len() < 3 {
			return false
		}
		hasBool, hasErr := false, false
		for k := 0; k < rs.Len(); k++ {
			if isBoolType(rs.At(k).Type()) {
				hasBool = true
			}
			if isErrorType(rs.At(k).Type()) {
				hasErr = true
			}
		}
		return hasBool && hasErr
	}
	if multi(fn) {
		return "the outcome is reported through several results (" + fn.Signature.Results().String() + ")"
	}
	why := ""
	instrsOf(fn, func(i ssa.Instruction) {
		if call, ok := i.(*ssa.Call); ok && why == "" {
			if g := ir.Callee(call); g != nil && e.c.P.InLib(g) && multi(g) {
				why = "the outcome of " + name(g) + " is reported through several results " + g.Signature.Results().String() + " and tested in combination at " + e.c.IPos(call)
			}
		}
	})
	return why
}
