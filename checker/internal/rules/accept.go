package rules

import (
	"fmt"
	"go/constant"
	"go/token"
	"go/types"
	"os"
	"strings"

	"golang.org/x/tools/go/ssa"

	"verif/checker/internal/ir"
)

// Rule family A: every CFG path to an accepting return of a verifier crosses
// an edge that establishes each required fact (cut-set on the CFG). Facts of
// repo callees are inherited through the edge on which their accepting result
// is observed, provided the certificate handed to the callee is the caller's
// own certificate parameter.

type fact struct {
	id   string
	what string
	// direct reports whether conditional edge ce in fn establishes the fact itself.
	direct func(c *Ctx, fn *ssa.Function, ce ir.CondEdge) bool
}

type acceptEngine struct {
	c        *Ctx
	memo     map[string]int // fn|fact -> 0 unknown,1 yes,2 no,3 in progress
	evidence map[string][]ir.Edge
}

func (c *Ctx) accept() *acceptEngine {
	return &acceptEngine{c: c, memo: map[string]int{}, evidence: map[string][]ir.Edge{}}
}

// certParam returns the unique *x509.Certificate parameter of fn (nil if none).
func certParam(fn *ssa.Function) *ssa.Parameter {
	var out *ssa.Parameter
	for _, p := range fn.Params {
		if ir.NamedTypeID(p.Type()) == "crypto/x509.Certificate" {
			if out != nil {
				return nil
			}
			out = p
		}
	}
	return out
}

// certArgsOK: every *x509.Certificate argument of the call is the caller's own
// certificate parameter (SSA identity).
func certArgsOK(caller *ssa.Function, call ssa.CallInstruction) bool {
	cp := certParam(caller)
	for _, a := range ir.CallArgs(call) {
		if ir.NamedTypeID(a.Type()) == "crypto/x509.Certificate" {
			if cp == nil || a != ssa.Value(cp) {
				return false
			}
		}
	}
	return true
}

// acceptingReturns lists the returns of fn that may report acceptance.
func acceptingReturns(fn *ssa.Function) []*ssa.Return {
	var out []*ssa.Return
	rs := fn.Signature.Results()
	for _, r := range ir.Returns(fn) {
		if !reachableBlock(fn, r.Block()) {
			continue
		}
		switch {
		case rs.Len() > 0 && isBoolType(rs.At(0).Type()):
			if k, ok := r.Results[0].(*ssa.Const); ok && k.Value != nil && !constant.BoolVal(k.Value) {
				continue
			}
			out = append(out, r)
		case rs.Len() > 0 && isErrorType(rs.At(rs.Len()-1).Type()):
			if retClass(fn, r) == "fail" {
				continue
			}
			out = append(out, r)
		default:
			out = append(out, r)
		}
	}
	return out
}

func isBoolType(t types.Type) bool {
	b, ok := t.Underlying().(*types.Basic)
	return ok && b.Kind() == types.Bool
}

func reachableBlock(fn *ssa.Function, b *ssa.BasicBlock) bool {
	seen, _ := ir.Reach(fn, fn.Blocks[0], nil)
	return seen[b.Index]
}

// callOf resolves a value to the repo call it is the (first) result of.
func callOf(v ssa.Value) *ssa.Call {
	switch x := v.(type) {
	case *ssa.Call:
		return x
	case *ssa.Extract:
		if c, ok := x.Tuple.(*ssa.Call); ok {
			return c
		}
	}
	return nil
}

// observation: does edge ce observe the accepting result of a repo call?
// Returns the call if so.
func (e *acceptEngine) observation(fn *ssa.Function, ce ir.CondEdge) *ssa.Call {
	if ce.If == nil {
		return nil
	}
	// bool result observed true
	if isBoolType(ce.Cond.Type()) && ce.Truth {
		if call := callOf(ce.Cond); call != nil {
			if ex, isEx := ce.Cond.(*ssa.Extract); isEx && ex.Index != 0 {
				return nil
			}
			if callee := ir.Callee(call); callee != nil && e.c.P.InLib(callee) {
				return call
			}
		}
	}
	// error-only result observed nil
	if v, nilWhenTrue, ok := ir.NilCheck(ce.If.Cond); ok && isErrorType(v.Type()) {
		succTrue := fn.Blocks[ce.Edge.From].Succs[0].Index == ce.Edge.To
		isNil := succTrue == nilWhenTrue
		if !isNil {
			return nil
		}
		for _, oc := range errorOrigins(v, map[ssa.Value]bool{}) {
			callee := ir.Callee(oc)
			if callee == nil || !e.c.P.InLib(callee) {
				continue
			}
			rs := callee.Signature.Results()
			// error-only, or (value, error) with a non-boolean value: nil error = accepted
			if rs.Len() >= 1 && isErrorType(rs.At(rs.Len()-1).Type()) && !(rs.Len() > 1 && isBoolType(rs.At(0).Type())) {
				return oc
			}
		}
	}
	return nil
}

func (e *acceptEngine) evidenceEdges(fn *ssa.Function, f *fact) []ir.Edge {
	key := name(fn) + "|" + f.id
	if ev, ok := e.evidence[key]; ok {
		return ev
	}
	var out []ir.Edge
	for _, ce := range ir.CondEdges(fn) {
		if f.direct(e.c, fn, ce) {
			out = append(out, ce.Edge)
			continue
		}
		if call := e.observation(fn, ce); call != nil && certArgsOK(fn, call) {
			if e.establishes(ir.Callee(call), f) {
				out = append(out, ce.Edge)
			}
		}
	}
	e.evidence[key] = out
	if os.Getenv("VCHECK_DEBUG") == "accept" {
		fmt.Fprintf(os.Stderr, "evidence %s: %v (accepting returns: %d)\n", key, out, len(acceptingReturns(fn)))
	}
	return out
}

// holdsAt: fact f holds at return r of fn. witness describes a bypass path.
func (e *acceptEngine) holdsAt(fn *ssa.Function, r *ssa.Return, f *fact) (bool, string) {
	// tail delegation: return g(...)
	if len(r.Results) > 0 {
		if call := callOf(r.Results[0]); call != nil {
			if callee := ir.Callee(call); callee != nil && e.c.P.InLib(callee) && certArgsOK(fn, call) && e.establishes(callee, f) {
				return true, ""
			}
		}
	}
	cut := map[ir.Edge]bool{}
	for _, ed := range e.evidenceEdges(fn, f) {
		cut[ed] = true
	}
	starts := []*ssa.BasicBlock{fn.Blocks[0]}
	for _, l := range naturalLoops(fn) {
		starts = append(starts, l.header)
	}
	reachable := func(target *ssa.BasicBlock) (bool, string) {
		for _, st := range starts {
			if st != fn.Blocks[0] && !reachableBlock(fn, st) {
				continue
			}
			seen, prev := ir.Reach(fn, st, cut)
			if seen[target.Index] {
				return true, ir.PathTo(fn, prev, st.Index, target.Index, e.c.Pos)
			}
		}
		return false, ""
	}
	// a boolean result computed by an expression (a && b lowers to a phi whose
	// edges carry `false` or the last conjunct): each edge that may carry true
	// is judged on its own — the value on the edge is itself a condition that
	// holds when the function accepts
	if len(r.Results) > 0 && isBoolType(r.Results[0].Type()) {
		type edgeVal struct {
			val  ssa.Value
			pred *ssa.BasicBlock
		}
		var evs []edgeVal
		switch x := r.Results[0].(type) {
		case *ssa.Phi:
			for k, ev := range x.Edges {
				evs = append(evs, edgeVal{ev, x.Block().Preds[k]})
			}
		case *ssa.Const:
		default:
			evs = append(evs, edgeVal{x, r.Block()})
		}
		if len(evs) > 0 {
			for _, ev := range evs {
				if k, ok := ev.val.(*ssa.Const); ok && k.Value != nil && !constant.BoolVal(k.Value) {
					continue
				}
				if _, isConst := ev.val.(*ssa.Const); !isConst {
					core, neg := ir.Peel(ev.val)
					if f.direct(e.c, fn, ir.CondEdge{Cond: core, Truth: !neg}) {
						continue
					}
					if call := callOf(core); call != nil && !neg {
						if callee := ir.Callee(call); callee != nil && e.c.P.InLib(callee) && certArgsOK(fn, call) && e.establishes(callee, f) {
							continue
						}
					}
				}
				if hit, w := reachable(ev.pred); hit {
					return false, w
				}
			}
			return true, ""
		}
	}
	if hit, w := reachable(r.Block()); hit {
		return false, w
	}
	return true, ""
}

// establishes: every accepting return of fn carries fact f.
func (e *acceptEngine) establishes(fn *ssa.Function, f *fact) bool {
	if fn == nil || fn.Blocks == nil {
		return false
	}
	key := name(fn) + "|" + f.id
	switch e.memo[key] {
	case 1:
		return true
	case 2, 3:
		return false
	}
	e.memo[key] = 3
	ok := true
	acc := acceptingReturns(fn)
	if len(acc) == 0 {
		ok = false // a function that never accepts establishes nothing useful
	}
	for _, r := range acc {
		if h, _ := e.holdsAt(fn, r, f); !h {
			ok = false
			break
		}
	}
	if ok {
		e.memo[key] = 1
	} else {
		e.memo[key] = 2
	}
	return ok
}

// Require reports, for each accepting return of fn and each fact, whether it holds.
func (e *acceptEngine) Require(rule string, fn *ssa.Function, facts []*fact) {
	acc := acceptingReturns(fn)
	if len(acc) == 0 {
		e.c.R.Undecf(rule, name(fn), "accepting-return", e.c.Pos(fn.Pos()), "verifier must have an accepting return", "no return may report success")
		return
	}
	for _, f := range facts {
		ok, wit, where := true, "", ""
		for _, r := range acc {
			if h, w := e.holdsAt(fn, r, f); !h {
				ok, wit, where = false, w, e.c.IPos(r)
			}
		}
		e.c.R.Check(ok, rule+"."+f.id, name(fn), f.id, e.c.Pos(fn.Pos()),
			"every path to an accepting return establishes: "+f.what,
			fmt.Sprintf("accepting return at %s is reachable without it; bypass: %s", where, wit))
	}
}

// ---------------------------------------------------------------- fact predicates

// equalityOperands decodes the condition of ce as a byte-equality test that
// holds on this edge: bytes.Equal / hmac.Equal true, ConstantTimeCompare == 1.
func equalityOperands(ce ir.CondEdge) (a, b ssa.Value, ok bool) {
	if call, isCall := ce.Cond.(*ssa.Call); isCall && ce.Truth {
		switch ir.CallID(call) {
		case "bytes.Equal", "crypto/hmac.Equal", "slices.Equal", "reflect.DeepEqual":
			return call.Call.Args[0], call.Call.Args[1], true
		}
	}
	if cmp, isCmp := ce.Cond.(*ssa.BinOp); isCmp && (cmp.Op == token.EQL || cmp.Op == token.NEQ) {
		if call, isCall := ir.StripConv(cmp.X).(*ssa.Call); isCall && ir.CallID(call) == "crypto/subtle.ConstantTimeCompare" {
			if k, isK := ir.ConstInt(cmp.Y); isK && k == 1 && ce.Truth == (cmp.Op == token.EQL) {
				return call.Call.Args[0], call.Call.Args[1], true
			}
		}
	}
	return nil, nil, false
}

func (c *Ctx) sliceOf(v ssa.Value) map[ssa.Value]bool {
	s := c.Slicer()
	s.BindRoot = true
	return s.Slice(v)
}

func hasTypeParam(sl map[ssa.Value]bool, typeID string) bool {
	for v := range sl {
		if p, ok := v.(*ssa.Parameter); ok && ir.NamedTypeID(p.Type()) == typeID {
			return true
		}
	}
	return false
}

// certSide: the value derives from a *x509.Certificate parameter's field and
// not from certificates embedded in the blob.
func certSide(sl map[ssa.Value]bool, field string) bool {
	return ir.HasField(sl, "crypto/x509.Certificate."+field) && hasTypeParam(sl, "crypto/x509.Certificate") &&
		!ir.HasField(sl, M+"/pkcs7.PKCS7.Certs")
}

var factIssuer = &fact{id: "issuer", what: "the signer's issuer equals the verifying certificate's RawIssuer",
	direct: func(c *Ctx, fn *ssa.Function, ce ir.CondEdge) bool {
		a, b, ok := equalityOperands(ce)
		if !ok {
			return false
		}
		sa, sb := c.sliceOf(a), c.sliceOf(b)
		signer := func(s map[ssa.Value]bool) bool { return ir.HasField(s, M+"/pkcs7.issuerAndSerialNumber.RawIssuer") }
		return certSide(sa, "RawIssuer") && signer(sb) || certSide(sb, "RawIssuer") && signer(sa)
	}}

var factSerial = &fact{id: "serial", what: "the signer's serial number equals the verifying certificate's serial number",
	direct: func(c *Ctx, fn *ssa.Function, ce ir.CondEdge) bool {
		cmp, ok := ce.Cond.(*ssa.BinOp)
		if !ok || (cmp.Op != token.EQL && cmp.Op != token.NEQ) {
			return false
		}
		call, ok := ir.StripConv(cmp.X).(*ssa.Call)
		if !ok || ir.CallID(call) != "math/big.Int.Cmp" {
			return false
		}
		if k, isK := ir.ConstInt(cmp.Y); !isK || k != 0 {
			return false
		}
		if ce.Truth != (cmp.Op == token.EQL) {
			return false
		}
		sa, sb := c.sliceOf(call.Call.Args[0]), c.sliceOf(call.Call.Args[1])
		signer := func(s map[ssa.Value]bool) bool { return ir.HasField(s, M+"/pkcs7.issuerAndSerialNumber.SerialNumber") }
		return certSide(sa, "SerialNumber") && signer(sb) || certSide(sb, "SerialNumber") && signer(sa)
	}}

var factSignature = &fact{id: "signature", what: "an RSA-SHA256 signature by the verifying certificate's key over the re-encoded signed attributes is valid",
	direct: func(c *Ctx, fn *ssa.Function, ce ir.CondEdge) bool {
		if ce.If == nil {
			return false
		}
		v, nilWhenTrue, ok := ir.NilCheck(ce.If.Cond)
		if !ok || !isErrorType(v.Type()) {
			return false
		}
		succTrue := fn.Blocks[ce.Edge.From].Succs[0].Index == ce.Edge.To
		if succTrue != nilWhenTrue {
			return false // error non-nil on this edge
		}
		for _, call := range errorOrigins(v, map[ssa.Value]bool{}) {
			if ir.CallID(call) != "crypto/x509.Certificate.CheckSignature" {
				continue
			}
			args := call.Call.Args // recv, algo, signed, signature
			if cp := certParam(fn); cp == nil || args[0] != ssa.Value(cp) {
				continue
			}
			algo, isK := ir.ConstInt(args[1])
			want, _ := c.constInt("crypto/x509", "SHA256WithRSA")
			if !isK || algo != want {
				continue
			}
			ss := c.sliceOf(args[2])
			marsh := ir.CallsIn(ss, M+"/pkcs7.Attributes.Marshal")
			if len(marsh) == 0 || !ir.HasField(ss, M+"/pkcs7.signerinfo.AuthenticatedAttributes") {
				continue
			}
			if !ir.HasField(c.sliceOf(args[3]), M+"/pkcs7.signerinfo.EncryptedDigest") {
				continue
			}
			return true
		}
		return false
	}}

// sha256Over: the slice computes SHA-256 (and no other hash).
func sha256Only(c *Ctx, sl map[ssa.Value]bool) bool {
	found := false
	for v := range sl {
		call, ok := v.(*ssa.Call)
		if !ok {
			continue
		}
		switch id := ir.CallID(call); {
		case id == "crypto/sha256.Sum256" || id == "crypto/sha256.New":
			found = true
		case id == "crypto.Hash.New":
			k, isK := ir.ConstInt(call.Call.Args[0])
			want, _ := c.constInt("crypto", "SHA256")
			if isK && k == want {
				found = true
			} else {
				return false
			}
		case strings.HasPrefix(id, "crypto/sha1.") || strings.HasPrefix(id, "crypto/md5.") || strings.HasPrefix(id, "crypto/sha512."):
			return false
		}
	}
	return found
}

var factContentDigest = &fact{id: "content-digest", what: "the signed messageDigest equals the SHA-256 of the encapsulated content (or the blob is detached: no content)",
	direct: func(c *Ctx, fn *ssa.Function, ce ir.CondEdge) bool {
		// detached: len(content) == 0 on this edge, content deriving from PKCS7.ContentInfo
		if cmp, ok := ce.Cond.(*ssa.BinOp); ok {
			if lc, ok := ir.StripConv(cmp.X).(*ssa.Call); ok && ir.CallID(lc) == "builtin.len" {
				if k, isK := ir.ConstInt(cmp.Y); isK && k == 0 {
					op := cmp.Op
					if !ce.Truth {
						op = negate(op)
					}
					if op == token.EQL || op == token.LEQ {
						if ir.HasField(c.sliceOf(lc.Call.Args[0]), M+"/pkcs7.PKCS7.ContentInfo") {
							return true
						}
					}
				}
			}
		}
		a, b, ok := equalityOperands(ce)
		if !ok {
			return false
		}
		sa, sb := c.sliceOf(a), c.sliceOf(b)
		if os.Getenv("VCHECK_DEBUG") == "accept" {
			fmt.Fprintf(os.Stderr, "content-digest candidate in %s: sha=%v/%v content=%v/%v md=%v/%v\n", name(fn), sha256Only(c, sa), sha256Only(c, sb),
				ir.HasField(sa, M+"/pkcs7.PKCS7.ContentInfo"), ir.HasField(sb, M+"/pkcs7.PKCS7.ContentInfo"), ir.HasField(sa, M+"/pkcs7.Attributes.MessageDigest"), ir.HasField(sb, M+"/pkcs7.Attributes.MessageDigest"))
		}
		digestOfContent := func(s map[ssa.Value]bool) bool {
			return sha256Only(c, s) && ir.HasField(s, M+"/pkcs7.PKCS7.ContentInfo") && !ir.HasField(s, M+"/pkcs7.Attributes.MessageDigest")
		}
		attr := func(s map[ssa.Value]bool) bool { return ir.HasField(s, M+"/pkcs7.Attributes.MessageDigest") }
		return digestOfContent(sa) && attr(sb) || digestOfContent(sb) && attr(sa)
	}}

var factImageDigest = &fact{id: "image-digest", what: "the SHA-256 of the image bytes being verified equals the digest inside the signed SpcIndirectDataContent",
	direct: func(c *Ctx, fn *ssa.Function, ce ir.CondEdge) bool {
		a, b, ok := equalityOperands(ce)
		if !ok {
			return false
		}
		sa, sb := c.sliceOf(a), c.sliceOf(b)
		img := func(s map[ssa.Value]bool) bool {
			hasSum := false
			for v := range s {
				if call, ok := v.(*ssa.Call); ok && (ir.CallID(call) == "hash.Hash.Sum" || ir.CallID(call) == "crypto/sha256.Sum256") {
					hasSum = true
				}
			}
			return hasSum && (hasTypeParam(s, "io.Reader") || ir.HasField(s, M+"/authenticode.PECOFFBinary.hashContent")) && !ir.HasField(s, M+"/authenticode.Authenticode.Digest")
		}
		dig := func(s map[ssa.Value]bool) bool { return ir.HasField(s, M+"/authenticode.Authenticode.Digest") }
		return img(sa) && dig(sb) || img(sb) && dig(sa)
	}}

var factDigestAlg = &fact{id: "digest-algorithm", what: "the digest algorithm named in the signed content is SHA-256 (the hash that is actually computed)",
	direct: func(c *Ctx, fn *ssa.Function, ce ir.CondEdge) bool {
		call, ok := ce.Cond.(*ssa.Call)
		if !ok || !ce.Truth || ir.CallID(call) != "encoding/asn1.ObjectIdentifier.Equal" {
			return false
		}
		sa, sb := c.sliceOf(call.Call.Args[0]), c.sliceOf(call.Call.Args[1])
		oid := func(s map[ssa.Value]bool) bool { return ir.HasGlobal(s, M+"/pkcs7.OIDDigestAlgorithmSHA256") }
		alg := func(s map[ssa.Value]bool) bool {
			return ir.HasField(s, M+"/authenticode.Authenticode.Algid") || ir.HasField(s, "crypto/x509/pkix.AlgorithmIdentifier.Algorithm")
		}
		return oid(sa) && alg(sb) || oid(sb) && alg(sa)
	}}
