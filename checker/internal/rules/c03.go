package rules

import (
	"fmt"
	"go/token"
	"strings"

	"golang.org/x/tools/go/ssa"

	"verif/checker/internal/ir"
)

func init() { Registry["C03"] = checkC03 }

// storesTo lists the stores in fn to the field with the given id.
func storesTo(fn *ssa.Function, fieldID string) []*ssa.Store {
	var out []*ssa.Store
	instrsOf(fn, func(i ssa.Instruction) {
		if st, ok := i.(*ssa.Store); ok && ir.FieldID(st.Addr) == fieldID {
			out = append(out, st)
		}
	})
	return out
}

func checkC03(c *Ctx) {
	// the embedded signature identifies its signer and verifies: the emitter rules of C05
	checkC05(c)
	// the embedded digest is the specification digest of the output file: the hash-coverage rules of C01
	checkC01(c)
	// re-parsing the output verifies against no certificate that did not sign it: the
	// image verifier accepts only behind the signer-identity and signature facts (as in C02)
	if vf := c.Fn("A", "authenticode.(*PECOFFBinary).Verify"); vf != nil {
		c.accept().Require("A", vf, pkcs7Facts)
	}
	c.rulePadFresh("M7.padzero")
	// the signatures read back from an image are distinct objects
	c.ruleLoopAlias("M6.distinct", func(f *ssa.Function) bool {
		return strings.HasPrefix(name(f), "authenticode.") || strings.HasPrefix(name(f), "(*authenticode.")
	})
	c.R.Floor("M6.distinct", 1)
	fn := c.Fn("M", "authenticode.(*PECOFFBinary).AppendSignature")
	if fn == nil {
		return
	}
	fname := name(fn)
	recv := fn.Params[0]
	sigP := paramBytes(fn)
	wc := sigPkg + ".WINCertificate."
	// ---- M1: header constants and length (wherever in the view the entry is built)
	var bad []string
	av := c.deepViewOf(fn, 3)
	av.stopAt = map[string]bool{acPkg + ".PaddingBytes": true}
	isRootSig := func(v ssa.Value, fr *frame) bool {
		r := av.resolveConv(v, fr)
		return r.fr == av.root && r.v == ssa.Value(sigP)
	}
	var lengthVal ssa.Value
	nLen := 0
	for _, di := range av.storesToField(wc + "Length") {
		st := di.i.(*ssa.Store)
		if di.fr == av.root {
			lengthVal = ir.StripConv(st.Val)
		}
		nLen++
		a := av.affine(st.Val, di.fr, nil, 0)
		want := symAffine("len(param:"+sigP.Name()+")", nil)
		want.K = 8
		if !a.equal(want) {
			bad = append(bad, "dwLength is "+a.String()+", want 8 + len(signature)")
		}
	}
	if nLen == 0 {
		bad = append(bad, "dwLength is not set")
	}
	nRev := 0
	for _, di := range av.storesToField(wc + "Revision") {
		nRev++
		v := av.resolveConv(di.i.(*ssa.Store).Val, di.fr).v
		if !constIs(v, 0x0200) && !isGlobalLoad(v, sigPkg+".WIN_CERTIFICATE_REVISION") {
			bad = append(bad, "wRevision is not 0x0200")
		}
	}
	okType := false
	for _, di := range av.storesToField(wc + "CertType") {
		v := av.resolveConv(di.i.(*ssa.Store).Val, di.fr).v
		if isGlobalLoad(v, sigPkg+".WIN_CERT_TYPE_PKCS_SIGNED_DATA") || constIs(v, 2) {
			okType = true
		}
	}
	if !okType {
		bad = append(bad, "wCertificateType is not WIN_CERT_TYPE_PKCS_SIGNED_DATA")
	}
	okBody := false
	for _, di := range av.storesToField(wc + "Certificate") {
		if isRootSig(di.i.(*ssa.Store).Val, di.fr) {
			okBody = true
		} else if sigP != nil {
			// a private copy of the whole signature is the same bytes
			if exact, decided := av.exactBytes(di.i.(*ssa.Store).Val, di.fr, dval{sigP, av.root}, 0); exact && decided {
				okBody = true
			}
		}
	}
	if !okBody {
		bad = append(bad, "bCertificate is not the signature parameter itself")
	}
	if nRev == 0 {
		bad = append(bad, "wRevision is not set")
	}
	c.R.Check(len(bad) == 0, "M1.header", fname, "WIN_CERTIFICATE", c.Pos(fn.Pos()), "each entry is a revision-2.0 PKCS#7 WIN_CERTIFICATE with dwLength = 8 + len(signature) over that same signature", strings.Join(bad, "; "))
	c.constGlobal("M1.header", sigPkg, "WIN_CERT_TYPE_PKCS_SIGNED_DATA", map[string]int64{"": 0x0002}, "WIN_CERT_TYPE_PKCS_SIGNED_DATA is 0x0002")
	// the header writer emits Length, Revision, CertType, Certificate
	if w := c.Fn("M1.header", "efi/signature.WriteWinCertificate"); w != nil {
		c.layoutRule("M1.header", w, false, nil, []layoutField{{"Length", 4}, {"Revision", 2}, {"CertType", 2}, {"Certificate", -1}}, "WIN_CERTIFICATE")
	}

	// ---- M2: table bytes and directory size grow by Length + pad of one PaddingBytes(Length, 8) call
	bad = nil
	var hdrWrite, padWrite *ssa.Call
	var pad *ssa.Call
	var hdrDi, padWDi, padDi dinstr
	for _, di := range av.order {
		call, ok := di.i.(*ssa.Call)
		if !ok {
			continue
		}
		switch ir.CallID(call) {
		case sigPkg + ".WriteWinCertificate":
			if ir.HasField(av.sliceDeep(call.Call.Args[0], di.fr), acPkg+".PECOFFBinary.certTable") {
				hdrWrite, hdrDi = call, di
			}
		case "bytes.Buffer.Write":
			if ir.HasField(av.sliceDeep(call.Call.Args[0], di.fr), acPkg+".PECOFFBinary.certTable") {
				padWrite, padWDi = call, di
			}
		case acPkg + ".PaddingBytes":
			pad, padDi = call, di
		}
	}
	isLenLoad := func(v ssa.Value) bool {
		// dwLength: a load of the header field, or the very value that was stored there
		return ir.FieldID(ir.StripConv(v)) == wc+"Length" || lengthVal != nil && ir.StripConv(v) == lengthVal
	}
	// the pad is judged by value, whatever computes it: evaluated for each residue of
	// dwLength modulo 8 (deepmod.go) it must be the distance to the next multiple of 8
	pad8 := [8]int64{0, 7, 6, 5, 4, 3, 2, 1}
	_ = pad
	_ = padDi
	switch {
	case hdrWrite == nil:
		bad = append(bad, "the entry is not written to the certificate table")
	case padWrite == nil:
		c.R.Infof("M2.conserve", fname, "pad-bytes", c.Pos(fn.Pos()), "not decided for this shape: the pad bytes are not appended to the certificate table with one bytes.Buffer.Write")
	default:
		pv := av.resolve(padWrite.Call.Args[1], padWDi.fr)
		vals, okV := c.lenFunction(pv.v, isLenLoad)
		switch {
		case !okV:
			c.R.Infof("M2.conserve", fname, "pad-bytes", c.IPos(padWrite), "not decided for this shape: the number of pad bytes appended after the entry is not evaluated")
		case vals != pad8:
			bad = append(bad, fmt.Sprintf("the bytes appended after the entry number %v for dwLength = 0..7 (mod 8), want %v (zero padding up to the next multiple of 8)", vals, pad8))
		}
		if hdrDi.seq > padWDi.seq || hdrDi.fr == padWDi.fr && !precedesInCFG(hdrDi.fr.fn, hdrWrite, padWrite) {
			bad = append(bad, "the pad is written before the entry")
		}
	}
	// directory Size at the successful exits, along every path: old Size (kept only
	// when a table exists) + dwLength + pad length of that PaddingBytes call
	sizeField := "debug/pe.DataDirectory.Size"
	vaField := "debug/pe.DataDirectory.VirtualAddress"
	sizeInRoot := len(storesTo(fn, "debug/pe.DataDirectory.Size")) > 0
	// working copies: locals of the directory type that end up, as a whole, in
	// p.Datadir (dir := p.Datadir; ...; p.Datadir = dir) stand for the entry
	dirCell := map[ssa.Value]bool{}
	for changed := true; changed; {
		changed = false
		instrsOf(fn, func(i ssa.Instruction) {
			st, ok := i.(*ssa.Store)
			if !ok {
				return
			}
			ld, isLd := st.Val.(*ssa.UnOp)
			if !isLd || ld.Op != token.MUL {
				return
			}
			src, isA := ld.X.(*ssa.Alloc)
			if !isA || dirCell[src] || ir.NamedTypeID(src.Type()) != "debug/pe.DataDirectory" {
				return
			}
			toEntry := ir.RootOf(st.Addr) == ssa.Value(recv) && ir.FieldID(st.Addr) == acPkg+".PECOFFBinary.Datadir"
			if dst, isD := st.Addr.(*ssa.Alloc); toEntry || isD && dirCell[dst] {
				dirCell[src] = true
				changed = true
			}
		})
	}
	isEntry := func(addr ssa.Value) bool {
		r := ir.RootOf(addr)
		return r == ssa.Value(recv) || dirCell[r]
	}
	isOldSize := func(sym string, v ssa.Value) bool {
		if strings.HasSuffix(sym, ".Datadir.Size") {
			return true
		}
		if ld, ok := ir.StripConv(v).(*ssa.UnOp); ok && ld.Op == token.MUL {
			return ir.FieldID(ld.X) == sizeField && dirCell[ir.RootOf(ld.X)]
		}
		return false
	}
	// the entry replaced as a whole by the result of a library helper: p.Datadir = f(p.Datadir, ...)
	transformerOf := func(st *ssa.Store) *ssa.Call {
		_, whole := st.Addr.(*ssa.Alloc)
		if !whole && ir.FieldID(st.Addr) != acPkg+".PECOFFBinary.Datadir" {
			return nil
		}
		call, isCall := st.Val.(*ssa.Call)
		if !isCall || ir.NamedTypeID(call.Type()) != "debug/pe.DataDirectory" {
			return nil
		}
		if callee := ir.Callee(call); callee == nil || callee.Blocks == nil || !c.P.InLib(callee) {
			return nil
		}
		return call
	}
	// the argument in which the helper receives the entry as it is (-1: none)
	entryArgOf := func(call *ssa.Call) int {
		for k, a := range call.Call.Args {
			ld, isLd := a.(*ssa.UnOp)
			if !isLd || ld.Op != token.MUL || ir.NamedTypeID(ld.Type()) != "debug/pe.DataDirectory" || !isEntry(ld.X) {
				continue
			}
			if _, isCell := ld.X.(*ssa.Alloc); isCell || ir.FieldID(ld.X) == acPkg+".PECOFFBinary.Datadir" {
				return k
			}
		}
		return -1
	}
	var helperVAs []*ssa.Store // address assignments made in such helpers
	var helperVACall = map[*ssa.Store]*ssa.Call{}
	instrsOf(fn, func(i ssa.Instruction) {
		if st, ok := i.(*ssa.Store); ok && isEntry(st.Addr) {
			if tc := transformerOf(st); tc != nil {
				sizeInRoot = true
				if _, vs, okT := dirTransform(tc, entryArgOf(tc), dirState{cur: symAffine("OLD", nil)}); okT {
					for _, v := range vs {
						if helperVACall[v] == nil {
							helperVAs = append(helperVAs, v)
							helperVACall[v] = tc
						}
					}
				}
			}
		}
	})
	paths, complete := successPaths(fn, 256)
	if !sizeInRoot {
		c.R.Infof("M2.conserve", fname, "table+directory-paths", c.Pos(fn.Pos()), "not decided for this shape: the directory Size is not updated by stores in AppendSignature itself")
		paths = nil
	} else if !complete {
		c.R.Infof("M2.conserve", fname, "table+directory-paths", c.Pos(fn.Pos()), "not decided for this shape: the function has loops or too many paths for the path evaluation of the directory Size")
	}
	undecidedPath := false
	for _, path := range paths {
		// the states the entry can be in along this path of AppendSignature: one, or one
		// per path of a helper that takes the entry by value and returns the updated entry
		states := []dirState{{cur: symAffine("OLD", nil)}}
		for _, blk := range path {
			for _, in := range blk.Instrs {
				st, ok := in.(*ssa.Store)
				if !ok || !isEntry(st.Addr) {
					continue
				}
				if tc := transformerOf(st); tc != nil {
					var next []dirState
					for _, s := range states {
						outs, _, okT := dirTransform(tc, entryArgOf(tc), s)
						if !okT {
							next = nil
							break
						}
						next = append(next, outs...)
					}
					if len(next) == 0 || len(next) > 64 {
						c.R.Infof("M2.conserve", fname, "table+directory-paths", c.IPos(tc), "not decided for this shape: the entry is replaced by the result of "+name(ir.Callee(tc))+", which is not evaluated path by path")
						undecidedPath = true
						states = nil
					} else {
						states = next
					}
					continue
				}
				for k := range states {
					switch ir.FieldID(st.Addr) {
					case vaField:
						states[k].newTable = true
					case sizeField:
						states[k].touched = true
						a := affineOf(st.Val, 0)
						next := newAffine()
						next.K = a.K
						for sym, cf := range a.T {
							if isOldSize(sym, a.Sym[sym]) {
								next = next.add(states[k].cur.scale(cf), 1)
							} else {
								next = next.add(symAffine(sym, a.Sym[sym]).scale(cf), 1)
							}
						}
						states[k].cur = next
					}
				}
			}
		}
		for _, fs := range states {
			cur, newTable, touched := fs.cur, fs.newTable, fs.touched
			var olds, lens, pads int64
			if lengthVal != nil {
				// dwLength computed once and used as a value: take its expression out
				if la := affineOf(lengthVal, 0); len(la.T) > 0 && !(len(la.T) == 1 && la.K == 0) {
					rest := cur.add(la, -1)
					clean := rest.K == 0
					for sym := range la.T {
						if _, still := rest.T[sym]; still {
							clean = false
						}
					}
					if clean {
						cur, lens = rest, 1
					}
				}
			}
			other := ""
			otherUndecided := false
			for sym, cf := range cur.T {
				v := cur.Sym[sym]
				switch {
				case sym == "OLD":
					olds = cf
				case v != nil && isLenLoad(v):
					lens += cf
				default:
					// a term that evaluates to the pad length for every dwLength
					if pvals, okP := c.padFunction(v, isLenLoad); okP && pvals == pad8 {
						pads += cf
					} else if okP {
						other = fmt.Sprintf("%s = %v for dwLength = 0..7 (mod 8), not the distance %v to the next multiple of 8", sym, pvals, pad8)
					} else {
						other = sym
						otherUndecided = true
					}
				}
			}
			wantOld := int64(1)
			if newTable {
				wantOld = 0
			}
			switch {
			case !touched:
				bad = append(bad, "the directory Size is not updated on a successful path")
			case otherUndecided && cur.K == 0:
				c.R.Infof("M2.conserve", fname, "table+directory-paths", c.Pos(fn.Pos()), "not decided for this shape: the directory Size has a term that the alignment evaluator does not resolve ("+other+")")
				undecidedPath = true
			case other != "" || cur.K != 0:
				bad = append(bad, "on a successful path the directory Size becomes "+cur.String()+" (an unexpected term: "+other+")")
			case lens != 1 || pads != 1 || olds != wantOld:
				kind := "an existing table"
				if newTable {
					kind = "a new table"
				}
				bad = append(bad, fmt.Sprintf("for %s the directory Size becomes %s, want %d*old Size + dwLength + pad length (result #1 of the same PaddingBytes call)", kind, cur.String(), wantOld))
			}
			if len(bad) > 0 || undecidedPath {
				break
			}
		}
		if len(bad) > 0 || undecidedPath {
			break
		}
	}
	c.R.Check(len(bad) == 0, "M2.conserve", fname, "table+directory", c.Pos(fn.Pos()), "certificate table and directory entry grow by the same dwLength + pad (the distance to the next multiple of 8), entry before pad", strings.Join(bad, "; "))

	// ---- M3: a new table starts at the padded end of file; an existing table keeps its address
	bad = nil
	vas := storesTo(fn, vaField)
	m3Decided := true
	if len(vas) == 0 && !sizeInRoot {
		c.R.Infof("M3.address", fname, "table-address-branch", c.Pos(fn.Pos()), "not decided for this shape: the table address is not assigned in AppendSignature itself")
		m3Decided = false
	} else if len(vas)+len(helperVAs) != 1 {
		bad = append(bad, fmt.Sprintf("%d assignments of the table address", len(vas)+len(helperVAs)))
	}
	_ = m3Decided
	// the address that is stored, wherever the choice between "keep" and "end of
	// file" is made (in AppendSignature or in a helper that returns the address):
	// the parsed length only where no table exists, the old address otherwise
	var placed func(v ssa.Value, fr *frame, gfr *frame, blk *ssa.BasicBlock, depth int)
	placed = func(v ssa.Value, fr *frame, gfr *frame, blk *ssa.BasicBlock, depth int) {
		r := av.resolveConv(v, fr)
		id := ir.FieldID(ir.StripConv(r.v))
		if ph, isPhi := r.v.(*ssa.Phi); isPhi && depth < 4 {
			for k, e := range ph.Edges {
				placed(e, r.fr, r.fr, ph.Block().Preds[k], depth+1)
			}
			return
		}
		if id == vaField && depth > 0 {
			return // the address as it was
		}
		if id != acPkg+".PECOFFBinary.length" {
			bad = append(bad, "a new table is not placed at the parsed length of the file")
		}
		// only on the branch where no table exists: not reachable through VirtualAddress != 0 && Size != 0
		gf := gfr.fn
		cut := map[ir.Edge]bool{}
		for _, ce := range ir.CondEdges(gf) {
			cmp, ok := ce.Cond.(*ssa.BinOp)
			if !ok {
				continue
			}
			id := ir.FieldID(ir.StripConv(cmp.X))
			if gfr != av.root && id != vaField && id != sizeField {
				id = ir.FieldID(ir.StripConv(av.resolveConv(cmp.X, gfr).v))
			}
			if k, isK := ir.ConstInt(cmp.Y); isK && k == 0 && (id == vaField || id == sizeField) {
				op := cmp.Op
				if !ce.Truth {
					op = negate(op)
				}
				if op == token.EQL {
					cut[ce.Edge] = true
				}
			}
		}
		if len(cut) == 0 && gfr != av.root {
			// in a helper the test may itself be made by a predicate the evaluator does not open
			c.R.Infof("M3.address", fname, "table-address-branch", c.Pos(gf.Pos()), "not decided for this shape: the table address is assigned in "+name(gf)+" and no comparison of the old address or size with zero is recognised there")
		} else if len(cut) == 0 {
			bad = append(bad, "the table address is assigned without testing whether a table already exists")
		} else if seen, _ := ir.Reach(gf, gf.Blocks[0], cut); seen[blk.Index] {
			bad = append(bad, "the table address is overwritten although the image already has a certificate table")
		}
	}
	for _, st := range vas {
		placed(st.Val, av.root, av.root, st.Block(), 0)
	}
	for _, st := range helperVAs {
		// assigned in the helper that returns the updated entry: judged in the helper's frame
		if hfr := av.frameOfCall(av.root, helperVACall[st]); hfr != nil {
			placed(st.Val, hfr, hfr, st.Block(), 0)
		} else {
			c.R.Infof("M3.address", fname, "table-address-branch", c.IPos(st), "not decided for this shape: the table address is assigned in a helper outside the view of AppendSignature")
		}
	}
	// p.length in Parse is the padded file size
	var pv *deepView
	if pf := c.Fn("M3.address", "authenticode.Parse"); pf != nil {
		pv = c.deepViewOf(pf, 3)
		pv.stopAt = map[string]bool{acPkg + ".PaddingBytes": true}
		okLen := false
		for _, di := range pv.storesToField(acPkg + ".PECOFFBinary.length") {
			a := pv.affine(di.i.(*ssa.Store).Val, di.fr, nil, 0)
			var hasRest, hasPad bool
			for sym := range a.T {
				if strings.HasPrefix(sym, "len(") {
					// the length of the padding bytes themselves (kept in a field / returned by
					// a helper): the pad, judged by value per residue modulo 8 of the padded quantity
					if c.lenOfPadding(pv, a.Sym[sym]) {
						hasPad = true
						continue
					}
					hasRest = true
				}
				if isExtractOfID(a.Sym[sym], acPkg+".PaddingBytes", 1) {
					hasPad = true
				} else if op := remOperand(a.Sym[sym], 0); op != nil {
					// a pad length computed in place: judged by value per residue modulo 8
					if vals, okV := c.padFunction(a.Sym[sym], func(v ssa.Value) bool { return v == op }); okV && vals == [8]int64{0, 7, 6, 5, 4, 3, 2, 1} {
						hasPad = true
					}
				}
			}
			if hasRest && hasPad {
				okLen = true
			}
		}
		if !okLen {
			bad = append(bad, "the recorded file length does not include the data after the sections and the padding to 8 bytes")
		}
	}
	c.R.Check(len(bad) == 0, "M3.address", fname, "table-address", c.Pos(fn.Pos()), "a new certificate table starts at the 8-byte padded end of the file; an existing table keeps its address", strings.Join(bad, "; "))

	// ---- the directory entry that is emitted is the updated one
	derived, encoded := false, false
	for _, di := range av.storesToField(acPkg + ".PECOFFBinary.optDataDir") {
		sl := av.sliceDeep(di.i.(*ssa.Store).Val, di.fr)
		if ir.HasField(sl, acPkg+".PECOFFBinary.Datadir") {
			derived = true
		}
		for v := range sl {
			call, ok := v.(*ssa.Call)
			if !ok {
				continue
			}
			if ir.CallID(call) == "encoding/binary.Write" && byteOrderOf(call.Call.Args[1]) == "LE" {
				if ir.FieldID(ir.StripIface(call.Call.Args[2])) == acPkg+".PECOFFBinary.Datadir" {
					encoded = true
				}
			}
			// a helper that packs the two fields little endian at offsets 0 and 4
			if callee := ir.Callee(call); callee != nil && c.P.InLib(callee) {
				if pl, size, ok := c.packLeaves(callee, false); ok && size == 8 && len(pl) == 2 &&
					pl[0].off == 0 && pl[0].width == 4 && pl[0].order == "LE" && strings.HasSuffix(pl[0].id, "DataDirectory.VirtualAddress") &&
					pl[1].off == 4 && pl[1].width == 4 && pl[1].order == "LE" && strings.HasSuffix(pl[1].id, "DataDirectory.Size") {
					encoded = true
				}
			}
		}
	}
	switch {
	case !derived:
		c.R.Violf("M2.conserve", fname, "entry-reencoded", c.Pos(fn.Pos()), "the directory entry that will be emitted is the updated Datadir, little endian", "optDataDir is not rebuilt from p.Datadir after the update")
	case !encoded:
		c.R.Infof("M2.conserve", fname, "entry-reencoded", c.Pos(fn.Pos()), "not decided for this shape: optDataDir derives from p.Datadir but the encoding is neither encoding/binary.Write(LittleEndian, &p.Datadir) nor a recognised 8-byte little-endian packing")
	default:
		c.R.Okf("M2.conserve", fname, "entry-reencoded", c.Pos(fn.Pos()), "the directory entry that will be emitted is the updated Datadir, little endian")
	}

	// ---- M4: reassembly order and contiguity
	if op := c.Fn("M4.reassembly", "authenticode.(*PECOFFBinary).Open"); op != nil {
		ov := c.deepViewOf(op, 2)
		var bad []string
		// the reader Open returns, with nested io.MultiReader calls flattened
		var flat func(v ssa.Value, fr *frame, idx map[ssa.Value]int64, depth int) ([]listItem, bool)
		flat = func(v ssa.Value, fr *frame, idx map[ssa.Value]int64, depth int) ([]listItem, bool) {
			var r dval
			ov.under(listItem{idx: idx}, func() { r = ov.resolveConv(ir.StripIface(v), fr) })
			call, ok := r.v.(*ssa.Call)
			if !ok || ir.CallID(call) != "io.MultiReader" || depth > 4 {
				return nil, false
			}
			var out []listItem
			for _, it := range ov.list(call.Call.Args[0], r.fr) {
				if it.opaque || it.loop {
					return nil, false
				}
				if sub, ok := flat(it.v.v, it.v.fr, it.idx, depth+1); ok {
					out = append(out, sub...)
				} else {
					out = append(out, it)
				}
			}
			return out, true
		}
		var items []listItem
		enumerable := false
		if rets := ir.Returns(op); len(rets) == 1 && len(rets[0].Results) == 1 {
			items, enumerable = flat(rets[0].Results[0], ov.root, nil, 0)
		}
		want := []string{"firstSection", "optDataDir", "lastSection", "padding", "certTable"}
		if !enumerable {
			c.R.Infof("M4.reassembly", name(op), "part-order", c.Pos(op.Pos()), "not decided for this shape: Open does not return an io.MultiReader over an enumerable list of parts")
		} else {
			var got []string
			known := true
			for _, it := range items {
				var o string
				ov.outerField = true
				ov.under(it, func() { o = ov.fieldOrigin(it.v.v, it.v.fr, 0) })
				ov.outerField = false
				if o == "" {
					known = false
				}
				got = append(got, o[strings.LastIndex(o, ".")+1:])
			}
			switch {
			case !known:
				c.R.Infof("M4.reassembly", name(op), "part-order", c.Pos(op.Pos()), "not decided for this shape: a part is not derived from exactly one field of the image object ("+strings.Join(got, ", ")+")")
			case strings.Join(got, ",") != strings.Join(want, ","):
				bad = append(bad, "the parts are "+strings.Join(got, ", ")+"; want "+strings.Join(want, ", "))
			}
		}
		// contiguity in Parse: first = [0,d), entry = [d,d+8), last starts at d+8
		if pv != nil {
			rng := func(field string) (Affine, Affine, bool) {
				for _, di := range pv.storesToField(acPkg + ".PECOFFBinary." + field) {
					if sr, ok := pv.sectionRangeOf(di.i.(*ssa.Store).Val, di.fr, nil); ok {
						return sr.start, sr.end, true
					}
				}
				return Affine{}, Affine{}, false
			}
			// evaluated with the optional-header arm kept symbolic (same symbol in all three)
			s1, e1, ok1 := rng("firstSection")
			s2, e2, ok2 := rng("optDataDir")
			s3, _, ok3 := rng("lastSection")
			switch {
			case !ok1 || !ok2 || !ok3:
				c.R.Infof("M4.reassembly", name(op), "contiguity", c.Pos(op.Pos()), "not decided for this shape: the three image parts kept by Parse are not section readers the evaluator can resolve")
			default:
				if !s1.isConst() || s1.K != 0 {
					bad = append(bad, "the first part does not start at offset 0")
				}
				if !e1.equal(s2) {
					bad = append(bad, "the directory entry does not start where the first part ends ("+e1.String()+" vs "+s2.String()+")")
				}
				d := e2.add(s2, -1)
				if !d.isConst() || d.K != 8 {
					bad = append(bad, "the replaced directory entry is not 8 bytes long (from "+s2.String()+" to "+e2.String()+")")
				}
				if !s3.equal(e2) {
					bad = append(bad, "the rest of the file does not start right after the directory entry")
				}
			}
		}
		c.R.Check(len(bad) == 0, "M4.reassembly", name(op), "parts", c.Pos(op.Pos()), "the output is first part, directory entry, rest of the file, padding, certificate table — contiguous, only the entry replaced", strings.Join(bad, "; "))
	}
	// ---- signing order (shared with C15)
	c.ruleOrderSignOnly()
	c.R.Floor("M1.header", 3)
	c.R.Floor("M2.conserve", 2)
}

// lenOfPadding: v is len(x) where x, followed through locally built struct
// fields and helper results of the view, is the byte slice a library padding
// helper returns, and the length of that slice is the distance from the
// helper's first argument to the next multiple of 8 for every residue.
func (c *Ctx) lenOfPadding(d *deepView, v ssa.Value) bool {
	lc, ok := v.(*ssa.Call)
	if !ok || ir.CallID(lc) != "builtin.len" {
		return false
	}
	old := d.throughFields
	d.throughFields = true
	defer func() { d.throughFields = old }()
	for _, di := range d.order {
		if di.i != ssa.Instruction(lc) {
			continue
		}
		r := d.resolve(lc.Call.Args[0], di.fr)
		ex, isEx := r.v.(*ssa.Extract)
		if !isEx {
			continue
		}
		call, isCall := ex.Tuple.(*ssa.Call)
		if !isCall || !d.stopAt[ir.CallID(call)] || len(call.Call.Args) == 0 {
			continue
		}
		n := ir.StripConv(call.Call.Args[0])
		if vals, okV := c.lenFunction(ex, func(x ssa.Value) bool { return x == n }); okV && vals == [8]int64{0, 7, 6, 5, 4, 3, 2, 1} {
			return true
		}
	}
	return false
}

func loadAddr(v ssa.Value) ssa.Value {
	if ld, ok := v.(*ssa.UnOp); ok && ld.Op == token.MUL {
		return ld.X
	}
	return v
}

func isExtractOf(v ssa.Value, call *ssa.Call, idx int) bool {
	if v == nil || call == nil {
		return false
	}
	ex, ok := ir.StripConv(v).(*ssa.Extract)
	return ok && ex.Tuple == ssa.Value(call) && ex.Index == idx
}

func isExtractOfID(v ssa.Value, id string, idx int) bool {
	if v == nil {
		return false
	}
	ex, ok := ir.StripConv(v).(*ssa.Extract)
	if !ok || ex.Index != idx {
		return false
	}
	call, ok := ex.Tuple.(*ssa.Call)
	return ok && ir.CallID(call) == id
}

// ruleOrderSignOnly: (*PECOFFBinary).Sign mutates only after signing succeeded.
func (c *Ctx) ruleOrderSignOnly() {
	fn := c.Fn("C.order", "authenticode.(*PECOFFBinary).Sign")
	if fn == nil {
		return
	}
	c.orderIn(fn, func(call ssa.CallInstruction) bool {
		callee := ir.Callee(call)
		return callee != nil && c.reachesSigner(callee)
	}, c.receiverMutation(fn), "mutation of the image object")
	// the digest signed is the hash content of this image
	var sa *ssa.Call
	instrsOf(fn, func(i ssa.Instruction) {
		if call, ok := i.(*ssa.Call); ok && ir.CallID(call) == acPkg+".SignAuthenticode" {
			sa = call
		}
	})
	ok, det := false, "Sign does not call SignAuthenticode over the image's hash content"
	if sa == nil && len(fn.Params) > 0 {
		// the signing step moved into a helper: followed along the frames of Sign,
		// the hash content has to be that of Sign's own receiver
		dv := c.deepViewOf(fn, 3)
		if calls := dv.callsTo(acPkg + ".SignAuthenticode"); len(calls) == 1 {
			if call, isCall := calls[0].i.(*ssa.Call); isCall && len(call.Call.Args) == 4 {
				sl := dv.sliceDeep(call.Call.Args[2], calls[0].fr)
				ok = ir.HasField(sl, acPkg+".PECOFFBinary.hashContent") && sl[fn.Params[0]]
				if k, isK := ir.ConstInt(dv.resolve(call.Call.Args[3], calls[0].fr).v); !isK || func() bool { w, _ := c.constInt("crypto", "SHA256"); return k != w }() {
					ok, det = false, "the image is not signed with SHA-256"
				}
			}
		}
	}
	if sa != nil {
		sl := c.Slicer().Slice(sa.Call.Args[2])
		if ir.HasField(sl, acPkg+".PECOFFBinary.hashContent") {
			ok = true
		}
		if k, isK := ir.ConstInt(sa.Call.Args[3]); !isK || func() bool { w, _ := c.constInt("crypto", "SHA256"); return k != w }() {
			ok, det = false, "the image is not signed with SHA-256"
		}
	}
	c.R.Check(ok, "M5.signed-digest", name(fn), "digest-source", c.Pos(fn.Pos()), "the signature commits to the SHA-256 of this image's hash content", det)
}

// successPaths enumerates the acyclic paths from entry to the returns that do
// not return a non-nil error (complete=false if the function has a loop or
// more than max paths).
func successPaths(fn *ssa.Function, max int) (paths [][]*ssa.BasicBlock, complete bool) {
	complete = true
	if len(naturalLoops(fn)) > 0 {
		return nil, false
	}
	var cur []*ssa.BasicBlock
	var walk func(b *ssa.BasicBlock)
	walk = func(b *ssa.BasicBlock) {
		if len(paths) >= max {
			complete = false
			return
		}
		cur = append(cur, b)
		defer func() { cur = cur[:len(cur)-1] }()
		if len(b.Succs) == 0 {
			if len(b.Instrs) > 0 {
				if r, ok := b.Instrs[len(b.Instrs)-1].(*ssa.Return); ok {
					if n := len(r.Results); n > 0 && isErrorType(r.Results[n-1].Type()) && !ir.IsNilConst(r.Results[n-1]) {
						return
					}
					paths = append(paths, append([]*ssa.BasicBlock{}, cur...))
				}
			}
			return
		}
		for _, s := range b.Succs {
			walk(s)
		}
	}
	if len(fn.Blocks) > 0 {
		walk(fn.Blocks[0])
	}
	return paths, complete
}

// rulePadFresh: the zero padding comes from PaddingBytes. If that function
// hands out package-level memory instead of fresh bytes, nothing in the
// library may ever write into what it returns — a single write (a Read into
// the padding to skip alignment bytes) makes every later "zero padding"
// carry those bytes.
func (c *Ctx) rulePadFresh(rule string) {
	fn := c.Fn(rule, "authenticode.PaddingBytes")
	if fn == nil {
		return
	}
	sharedAt := ""
	for _, r := range ir.Returns(fn) {
		if len(r.Results) == 0 {
			continue
		}
		for v := range c.sliceOf(r.Results[0]) {
			if sl, ok := v.(*ssa.Slice); ok {
				if g, isG := ir.RootOf(sl.X).(*ssa.Global); isG && g.Pkg != nil && strings.HasPrefix(g.Pkg.Pkg.Path(), M) {
					sharedAt = c.IPos(r) + " (" + g.Name() + ")"
				}
			}
		}
	}
	if sharedAt == "" {
		c.R.Okf(rule, name(fn), "fresh-zero-bytes", c.Pos(fn.Pos()), "the padding handed out is freshly allocated")
		return
	}
	// every library use of the result as a destination
	bad := ""
	for _, g := range c.P.LibFunctions() {
		instrsOf(g, func(i ssa.Instruction) {
			call, ok := i.(*ssa.Call)
			if !ok || ir.Callee(call) != fn || call.Referrers() == nil {
				return
			}
			for _, rf := range *call.Referrers() {
				ex, ok := rf.(*ssa.Extract)
				if !ok || ex.Index != 0 || ex.Referrers() == nil {
					continue
				}
				for _, use := range *ex.Referrers() {
					uc, isC := use.(ssa.CallInstruction)
					if !isC {
						if st, isSt := use.(*ssa.Store); isSt && st.Val == ssa.Value(ex) {
							continue
						}
						if _, isIA := use.(*ssa.IndexAddr); isIA {
							bad = c.IPos(use)
						}
						continue
					}
					id := ir.CallID(uc)
					args := ir.CallArgs(uc)
					written := false
					for _, k := range mutatingCalls[id] {
						if k < len(args) && args[k] == ssa.Value(ex) {
							written = true
						}
					}
					if uc.Common().IsInvoke() && (uc.Common().Method.Name() == "Read" || uc.Common().Method.Name() == "ReadAt") {
						written = true
					}
					if id == "bytes.Reader.Read" || id == "bytes.Buffer.Read" || id == "io.SectionReader.Read" || id == "io.SectionReader.ReadAt" || id == "bytes.Reader.ReadAt" {
						written = true
					}
					if written {
						bad = c.IPos(use) + " (" + id + ")"
					}
				}
			}
		})
	}
	c.R.Check(bad == "", rule, name(fn), "fresh-zero-bytes", c.Pos(fn.Pos()), "padding handed out from shared memory is never written",
		"PaddingBytes returns a slice of package-level memory at "+sharedAt+" and its result is written at "+bad+": every later padding carries those bytes instead of zeros")
}

// dirState is the certificate directory entry along one path: its Size as an
// affine expression over the Size it had on entry ("OLD"), whether its address
// was given a new value, whether the Size was assigned.
type dirState struct {
	cur      Affine
	newTable bool
	touched  bool
}

// dirTransform: call hands the directory entry by value (argument entryArg, -1
// if none) to a library function that returns the updated entry
// (dir = f(dir, ...)). The callee is evaluated path by path: the states the
// returned entry can be in, given the state in, with the callee's parameters
// replaced by the caller's arguments. vaStores are the stores that give the
// address field a value other than the address the entry had.
func dirTransform(call *ssa.Call, entryArg int, in dirState) (out []dirState, vaStores []*ssa.Store, ok bool) {
	const dirT = "debug/pe.DataDirectory"
	sizeField, vaField := dirT+".Size", dirT+".VirtualAddress"
	callee := ir.Callee(call)
	if callee == nil || callee.Blocks == nil || callee.Signature.Results().Len() != 1 || ir.NamedTypeID(callee.Signature.Results().At(0).Type()) != dirT {
		return nil, nil, false
	}
	paths, complete := successPaths(callee, 64)
	if !complete || len(paths) == 0 {
		return nil, nil, false
	}
	var entryP *ssa.Parameter
	if entryArg >= 0 && entryArg < len(callee.Params) && len(callee.Params) == len(call.Call.Args) {
		entryP = callee.Params[entryArg]
	}
	isCell := func(v ssa.Value) *ssa.Alloc {
		if a, isA := v.(*ssa.Alloc); isA && ir.NamedTypeID(a.Type()) == dirT {
			return a
		}
		return nil
	}
	// the cells are only used field by field or as a whole value
	escapes := false
	instrsOf(callee, func(i ssa.Instruction) {
		a, isA := i.(*ssa.Alloc)
		if !isA || isCell(a) == nil {
			return
		}
		for _, r := range *a.Referrers() {
			switch y := r.(type) {
			case *ssa.DebugRef:
			case *ssa.UnOp:
				if y.Op != token.MUL {
					escapes = true
				}
			case *ssa.Store:
				if y.Addr != ssa.Value(a) {
					escapes = true
				}
			case *ssa.FieldAddr:
				for _, rr := range *y.Referrers() {
					switch z := rr.(type) {
					case *ssa.DebugRef:
					case *ssa.UnOp:
						if z.Op != token.MUL {
							escapes = true
						}
					case *ssa.Store:
						if z.Addr != ssa.Value(y) {
							escapes = true
						}
					default:
						escapes = true
					}
				}
			default:
				escapes = true
			}
		}
	})
	if escapes {
		return nil, nil, false
	}
	seenVA := map[*ssa.Store]bool{}
	for _, path := range paths {
		cells := map[*ssa.Alloc]*dirState{}
		// the state of a whole entry value: the parameter, or what a cell holds
		valState := func(v ssa.Value) *dirState {
			if entryP != nil && v == ssa.Value(entryP) {
				return &in
			}
			if ld, isLd := v.(*ssa.UnOp); isLd && ld.Op == token.MUL {
				if a := isCell(ld.X); a != nil {
					return cells[a]
				}
			}
			return nil
		}
		// the state whose field fieldID the value v is (read before any update of it)
		fieldOf := func(v ssa.Value, fieldID string) *dirState {
			switch y := ir.StripConv(v).(type) {
			case *ssa.Field:
				if entryP != nil && y.X == ssa.Value(entryP) && ir.FieldID(y) == fieldID {
					return &in
				}
			case *ssa.UnOp:
				if fa, isFA := y.X.(*ssa.FieldAddr); isFA && y.Op == token.MUL && ir.FieldID(fa) == fieldID {
					if a := isCell(fa.X); a != nil {
						return cells[a]
					}
				}
			}
			return nil
		}
		subst := func(a Affine) Affine {
			next := newAffine()
			next.K = a.K
			for sym, cf := range a.T {
				v := a.Sym[sym]
				if s := fieldOf(v, sizeField); v != nil && s != nil {
					next = next.add(s.cur.scale(cf), 1)
					continue
				}
				if p, isP := ir.StripConv(v).(*ssa.Parameter); v != nil && isP && len(callee.Params) == len(call.Call.Args) {
					bound := false
					for k, q := range callee.Params {
						if q == p {
							next = next.add(affineOf(call.Call.Args[k], 0).scale(cf), 1)
							bound = true
						}
					}
					if bound {
						continue
					}
				}
				next = next.add(symAffine(sym, v).scale(cf), 1)
			}
			return next
		}
		decided := true
		for j, blk := range path {
			for _, in2 := range blk.Instrs {
				switch x := in2.(type) {
				case *ssa.Alloc:
					if isCell(x) != nil {
						cells[x] = &dirState{cur: newAffine(), newTable: true, touched: true}
					}
				case *ssa.Store:
					if a := isCell(x.Addr); a != nil {
						s := valState(x.Val)
						if s == nil {
							decided = false
							continue
						}
						cells[a] = &dirState{cur: s.cur.clone(), newTable: s.newTable, touched: s.touched}
						continue
					}
					fa, isFA := x.Addr.(*ssa.FieldAddr)
					if !isFA || isCell(fa.X) == nil || cells[isCell(fa.X)] == nil {
						continue
					}
					cell := cells[isCell(fa.X)]
					switch ir.FieldID(fa) {
					case vaField:
						if src := fieldOf(x.Val, vaField); src != nil {
							cell.newTable = src.newTable
						} else {
							cell.newTable = true
							if !seenVA[x] {
								seenVA[x] = true
								vaStores = append(vaStores, x)
							}
						}
					case sizeField:
						cell.cur = subst(affineOf(x.Val, 0))
						cell.touched = true
					}
				case *ssa.Return:
					res := x.Results[0]
					if ph, isPhi := res.(*ssa.Phi); isPhi && ph.Block() == blk && j > 0 {
						for k, pr := range blk.Preds {
							if pr == path[j-1] {
								res = ph.Edges[k]
							}
						}
					}
					if s := valState(res); s != nil && decided {
						out = append(out, dirState{cur: s.cur.clone(), newTable: s.newTable, touched: s.touched})
					} else {
						return nil, nil, false
					}
				}
			}
		}
	}
	return out, vaStores, len(out) > 0
}
