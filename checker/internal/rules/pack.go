package rules

import (
	"go/token"
	"go/types"
	"sort"
	"strings"

	"golang.org/x/tools/go/ssa"

	"verif/checker/internal/ir"
)

// The byte-packing idiom: a fixed-size local byte buffer is filled from the
// stream with one full read and decoded with ByteOrder.UintNN / indexing
// (readers), or filled with ByteOrder.PutUintNN / element stores / copy and
// written with one Write (writers). The buffer's layout is extracted as leaves
// with explicit offsets.

type packLeaf struct {
	leaf
	off int64
}

// localByteBuffer: v is (a slice of) a local [N]byte array or make([]byte, N) with constant N.
func localByteBuffer(v ssa.Value) (root ssa.Value, n int64, ok bool) {
	for depth := 0; depth < 6; depth++ {
		switch x := v.(type) {
		case *ssa.Slice:
			if x.Low != nil {
				if k, isK := ir.ConstInt(x.Low); !isK || k != 0 {
					return nil, 0, false
				}
			}
			v = x.X
		case *ssa.Alloc:
			if a, isArr := x.Type().Underlying().(*types.Pointer).Elem().Underlying().(*types.Array); isArr && binarySize(a.Elem()) == 1 {
				return x, a.Len(), true
			}
			return nil, 0, false
		case *ssa.MakeSlice:
			if k, isK := ir.ConstInt(x.Len); isK {
				return x, k, true
			}
			return nil, 0, false
		case *ssa.MakeInterface:
			v = x.X
		default:
			return nil, 0, false
		}
	}
	return nil, 0, false
}

// sliceOfBuffer: v is buf[lo:hi] (constant bounds) of the given root; returns lo, hi.
func sliceOfBuffer(v ssa.Value, root ssa.Value, n int64) (lo, hi int64, ok bool) {
	sl, isS := v.(*ssa.Slice)
	if !isS || sl.X != root {
		return 0, 0, false
	}
	lo, hi = 0, n
	if sl.Low != nil {
		k, isK := ir.ConstInt(sl.Low)
		if !isK {
			return 0, 0, false
		}
		lo = k
	}
	if sl.High != nil {
		k, isK := ir.ConstInt(sl.High)
		if !isK {
			return 0, 0, false
		}
		hi = k
	}
	return lo, hi, true
}

func uintCallWidth(id string) (width int, order string, put bool, ok bool) {
	if !strings.HasPrefix(id, "encoding/binary.") {
		return
	}
	switch {
	case strings.Contains(id, "ittleEndian."):
		order = "LE"
	case strings.Contains(id, "igEndian."):
		order = "BE"
	default:
		return
	}
	m := id[strings.LastIndex(id, ".")+1:]
	put = strings.HasPrefix(m, "PutUint")
	m = strings.TrimPrefix(strings.TrimPrefix(m, "Put"), "Uint")
	switch m {
	case "16":
		width = 2
	case "32":
		width = 4
	case "64":
		width = 8
	default:
		return
	}
	return width, order, put, true
}

// destinationField follows a decoded value to the struct field it is stored in
// (through conversions); "" if it ends elsewhere (returned, local).
func destinationField(v ssa.Value, depth int) string {
	if depth > 4 || v.Referrers() == nil {
		return ""
	}
	for _, r := range *v.Referrers() {
		switch x := r.(type) {
		case *ssa.Store:
			if x.Val == v {
				if id := ir.FieldID(x.Addr); id != "" {
					return id
				}
			}
		case *ssa.Convert:
			if id := destinationField(x, depth+1); id != "" {
				return id
			}
		case *ssa.ChangeType:
			if id := destinationField(x, depth+1); id != "" {
				return id
			}
		}
	}
	return ""
}

// packLeaves extracts the packed layout of fn if it uses the idiom on its
// stream: (leaves in offset order, total buffer size, found).
func (c *Ctx) packLeaves(fn *ssa.Function, isRead bool) ([]packLeaf, int64, bool) {
	var root ssa.Value
	var size int64
	// the buffer that meets the stream
	instrsOf(fn, func(i ssa.Instruction) {
		call, ok := i.(*ssa.Call)
		if !ok || root != nil {
			return
		}
		id := ir.CallID(call)
		args := ir.CallArgs(call)
		var buf ssa.Value
		switch {
		case isRead && (id == "io.ReadFull" || id == "io.ReadAtLeast") && len(args) >= 2:
			buf = args[1]
		case !isRead && (id == "bytes.Buffer.Write" || call.Call.IsInvoke() && call.Call.Method.Name() == "Write") && len(args) == 2:
			buf = args[1]
		default:
			return
		}
		if r, n, ok := localByteBuffer(buf); ok {
			root, size = r, n
		}
	})
	if !isRead && root == nil {
		// a function that returns the packed bytes (GUIDToBytes, Attributes.Bytes)
		for _, r := range ir.Returns(fn) {
			if len(r.Results) == 1 {
				if rt, n, ok := localByteBuffer(r.Results[0]); ok {
					root, size = rt, n
				}
			}
		}
	}
	if isRead && root == nil {
		// decoding a byte-slice parameter of known use (BytesToGUID(s []byte)): offsets relative to the parameter
		for _, p := range fn.Params {
			if sl, ok := p.Type().Underlying().(*types.Slice); ok && binarySize(sl.Elem()) == 1 {
				root, size = p, -1
			}
		}
	}
	if root == nil {
		return nil, 0, false
	}
	var out []packLeaf
	add := func(id string, off int64, width int, order string) {
		out = append(out, packLeaf{leaf{id: id, width: width, order: order}, off})
	}
	instrsOf(fn, func(i ssa.Instruction) {
		switch x := i.(type) {
		case *ssa.Call:
			id := ir.CallID(x)
			w, order, put, ok := uintCallWidth(id)
			if ok {
				args := ir.CallArgs(x)
				bufArg := args[len(args)-1]
				if put {
					bufArg = args[len(args)-2]
				}
				lo, _, isS := sliceOfBuffer(bufArg, root, size)
				if !isS {
					if bufArg == root {
						lo, isS = 0, true
					}
				}
				if !isS {
					return
				}
				if put && !isRead {
					val := args[len(args)-1]
					name := fieldIDOf(ir.StripConv(val))
					if name == "" {
						name = "value"
					}
					add(name, lo, w, order)
				} else if !put && isRead {
					name := destinationField(x, 0)
					if name == "" {
						name = "value"
					}
					add(name, lo, w, order)
				}
				return
			}
			if id == "builtin.copy" {
				dst, src := x.Call.Args[0], x.Call.Args[1]
				if !isRead {
					if lo, hi, ok := sliceOfBuffer(dst, root, size); ok {
						name := fieldIDOf(ir.StripConv(rootOfSlice(src)))
						if name == "" {
							name = "bytes"
						}
						w := int(hi - lo)
						if n, ok := byteLen(src); ok {
							w = int(n)
						}
						add(name, lo, w, "-")
					}
				} else if lo, hi, ok := sliceOfBuffer(src, root, size); ok {
					name := fieldIDOf(ir.StripConv(rootOfSlice(dst)))
					if name == "" {
						name = ir.FieldID(rootAddrOfSlice(dst))
					}
					if name == "" {
						name = "bytes"
					}
					w := int(hi - lo)
					if n, ok := byteLen(dst); ok {
						w = int(n)
					}
					add(name, lo, w, "-")
				}
			}
		case *ssa.Store:
			// buf[i] = v
			if ia, ok := x.Addr.(*ssa.IndexAddr); ok && ia.X == root && !isRead {
				if k, isK := ir.ConstInt(ia.Index); isK {
					name := fieldIDOf(ir.StripConv(x.Val))
					if name == "" {
						name = "value"
					}
					add(name, k, 1, "-")
				}
			}
		case *ssa.UnOp:
			// v = buf[i]
			if ia, ok := x.X.(*ssa.IndexAddr); ok && x.Op == token.MUL && ia.X == root && isRead {
				if k, isK := ir.ConstInt(ia.Index); isK {
					name := destinationField(x, 0)
					if name == "" {
						name = "value"
					}
					add(name, k, 1, "-")
				}
			}
		}
	})
	if len(out) == 0 {
		return nil, 0, false
	}
	sort.SliceStable(out, func(i, j int) bool { return out[i].off < out[j].off })
	return out, size, true
}

func rootOfSlice(v ssa.Value) ssa.Value {
	if sl, ok := v.(*ssa.Slice); ok {
		// g.Data4[:] -> load or address of the array field
		if ld, ok := sl.X.(*ssa.UnOp); ok {
			return ld
		}
		return sl.X
	}
	return v
}

func rootAddrOfSlice(v ssa.Value) ssa.Value {
	if sl, ok := v.(*ssa.Slice); ok {
		return sl.X
	}
	return v
}

// withOffsets assigns cumulative offsets to table leaves (a variable run ends
// the known offsets: later leaves get offset -1).
func withOffsets(ls []leaf) []packLeaf {
	var out []packLeaf
	off := int64(0)
	for _, l := range ls {
		if l.alias {
			continue
		}
		out = append(out, packLeaf{l, off})
		if l.width < 0 || off < 0 {
			off = -1
		} else {
			off += int64(l.width)
		}
	}
	return out
}

// offsetLeaves returns the wire leaves of a codec function with offsets: from
// the packing idiom if it is used, else from the encoding/binary table.
func (c *Ctx) offsetLeaves(fn *ssa.Function, isRead bool) ([]packLeaf, string) {
	if pl, _, ok := c.packLeaves(fn, isRead); ok {
		return pl, "pack"
	}
	return withOffsets(c.flatten(c.codecTable(fn, isRead), isRead, 0)), "table"
}

// leavesOf: wire leaves of a codec function in stream order: the packed buffer
// layout (gaps as unnamed leaves) when the packing idiom is used, else the
// flattened encoding/binary table.
func (c *Ctx) leavesOf(fn *ssa.Function, isRead bool, depth int) []leaf {
	if pl, size, ok := c.packLeaves(fn, isRead); ok {
		var out []leaf
		pos := int64(0)
		for _, l := range pl {
			if l.off > pos {
				out = append(out, leaf{id: "(skipped)", width: int(l.off - pos), order: "-"})
			}
			out = append(out, l.leaf)
			pos = l.off + int64(l.width)
		}
		if size > pos {
			out = append(out, leaf{id: "(skipped)", width: int(size - pos), order: "-"})
		}
		// what the function reads/writes besides the packed buffer (e.g. the remainder)
		rest := c.flatten(c.codecTable(fn, isRead), isRead, depth+1)
		return append(out, rest...)
	}
	return c.flatten(c.codecTable(fn, isRead), isRead, depth)
}

// usesPackIdiom: fn itself moves bytes through a modelled packed buffer.
func (c *Ctx) usesPackIdiom(fn *ssa.Function) bool {
	if _, _, ok := c.packLeaves(fn, true); ok {
		return true
	}
	_, _, ok := c.packLeaves(fn, false)
	return ok
}
