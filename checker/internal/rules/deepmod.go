package rules

import (
	"go/constant"
	"go/token"

	"golang.org/x/tools/go/ssa"

	"verif/checker/internal/ir"
)

// Abstract evaluation of integer expressions for alignment arithmetic. The
// quantity of interest n is written n = 8q + r with q unknown and r one of the
// eight residues; every value is kept as m·8q + k with integers m and k (k
// exact). Sums and differences are componentwise, multiplication by an exact
// constant scales both, x%8 and x&7 give the exact integer k mod 8 (m·8q
// contributes nothing to the low three bits), x&^7 clears the low three bits of
// k. A value with m = 0 is an exact integer; comparisons are decided only
// between exact integers. Library helpers are evaluated through their bodies
// with the parameters bound, exact branch conditions select the phi edge. One
// evaluation per residue r decides "pad n up to a multiple of 8" for every n.

type mval struct {
	kind byte  // 'e' m·8q + n (exact integer when m == 0), 's' byte slice of abstract length (in len), 't' tuple, 0 unknown
	m    int64 // multiplicity of the unknown 8q
	n    int64
	len  *mval
	tup  []mval
}

var mTop = mval{}

func mExact(k int64) mval  { return mval{kind: 'e', n: k} }
func mRes(r int64) mval    { return mval{kind: 'e', m: 1, n: r} }
func (v mval) exact() bool { return v.kind == 'e' && v.m == 0 }

type modEval struct {
	c     *Ctx
	env   map[ssa.Value]mval // externally fixed values (the quantity n)
	isSym func(ssa.Value) bool
	symV  mval
	depth int
}

type modFrame struct {
	fn   *ssa.Function
	args []mval
	memo map[ssa.Value]mval
	// the path actually taken in this activation: block index -> predecessor block
	pred map[*ssa.BasicBlock]*ssa.BasicBlock
}

// evalIn evaluates v inside activation fr (nil: a context-free expression).
func (e *modEval) evalIn(v ssa.Value, fr *modFrame, depth int) mval {
	if depth > 40 || v == nil {
		return mTop
	}
	if e.isSym != nil && e.isSym(ir.StripConv(v)) {
		return e.symV
	}
	if m, ok := e.env[v]; ok {
		return m
	}
	if fr != nil {
		if m, ok := fr.memo[v]; ok {
			return m
		}
	}
	out := mTop
	switch x := v.(type) {
	case *ssa.Const:
		if x.Value != nil && x.Value.Kind() == constant.Int {
			if k, ok := constant.Int64Val(x.Value); ok {
				out = mExact(k)
			}
		}
	case *ssa.Parameter:
		if fr != nil {
			for i, p := range fr.fn.Params {
				if p == x && i < len(fr.args) {
					out = fr.args[i]
				}
			}
		}
	case *ssa.Convert:
		out = e.evalIn(x.X, fr, depth+1)
	case *ssa.ChangeType:
		out = e.evalIn(x.X, fr, depth+1)
	case *ssa.UnOp:
		a := e.evalIn(x.X, fr, depth+1)
		switch x.Op {
		case token.SUB:
			if a.kind == 'e' {
				out = mval{kind: 'e', m: -a.m, n: -a.n}
			}
		case token.XOR:
			// ^x = -x - 1
			if a.kind == 'e' {
				out = mval{kind: 'e', m: -a.m, n: -a.n - 1}
			}
		}
	case *ssa.BinOp:
		out = e.binop(x.Op, e.evalIn(x.X, fr, depth+1), e.evalIn(x.Y, fr, depth+1))
	case *ssa.Phi:
		if fr != nil && fr.pred != nil {
			if p, ok := fr.pred[x.Block()]; ok {
				for k, pb := range x.Block().Preds {
					if pb == p {
						out = e.evalIn(x.Edges[k], fr, depth+1)
					}
				}
			}
		}
	case *ssa.MakeSlice:
		l := e.evalIn(x.Len, fr, depth+1)
		out = mval{kind: 's', len: &l}
	case *ssa.Slice:
		// a[lo:hi] of a local array or slice: length hi-lo
		if x.High != nil {
			hi := e.evalIn(x.High, fr, depth+1)
			lo := mExact(0)
			if x.Low != nil {
				lo = e.evalIn(x.Low, fr, depth+1)
			}
			l := e.binop(token.SUB, hi, lo)
			out = mval{kind: 's', len: &l}
		} else if in := e.evalIn(x.X, fr, depth+1); in.kind == 's' && x.Low == nil {
			out = in
		}
	case *ssa.Extract:
		t := e.evalIn(x.Tuple, fr, depth+1)
		if x.Index < len(t.tup) {
			out = t.tup[x.Index]
		}
	case *ssa.Call:
		if ir.CallID(x) == "builtin.len" {
			if a := e.evalIn(x.Call.Args[0], fr, depth+1); a.kind == 's' && a.len != nil {
				out = *a.len
			}
			break
		}
		callee := x.Call.StaticCallee()
		if callee == nil || callee.Blocks == nil || !e.c.P.InLib(callee) || e.depth > 4 {
			break
		}
		var args []mval
		for _, a := range x.Call.Args {
			args = append(args, e.evalIn(a, fr, depth+1))
		}
		e.depth++
		out = e.run(callee, args)
		e.depth--
	}
	if fr != nil {
		fr.memo[v] = out
	}
	return out
}

func (e *modEval) binop(op token.Token, a, b mval) mval {
	if a.kind != 'e' || b.kind != 'e' {
		return mTop
	}
	low := func(k int64) int64 { return ((k % 8) + 8) % 8 }
	switch op {
	case token.ADD:
		return mval{kind: 'e', m: a.m + b.m, n: a.n + b.n}
	case token.SUB:
		return mval{kind: 'e', m: a.m - b.m, n: a.n - b.n}
	case token.MUL:
		switch {
		case b.m == 0:
			return mval{kind: 'e', m: a.m * b.n, n: a.n * b.n}
		case a.m == 0:
			return mval{kind: 'e', m: b.m * a.n, n: a.n * b.n}
		}
		return mTop
	case token.REM:
		// x % 8 (and % 4, % 2) for non-negative x (sizes and lengths): only k matters
		if b.exact() && (b.n == 8 || b.n == 4 || b.n == 2) {
			if a.m == 0 {
				return mExact(a.n % b.n)
			}
			return mExact(low(a.n) % b.n)
		}
		if a.exact() && b.exact() && b.n != 0 {
			return mExact(a.n % b.n)
		}
		return mTop
	case token.AND:
		if b.exact() && b.n >= 0 && b.n <= 7 {
			return mExact(low(a.n) & b.n)
		}
		if a.exact() && a.n >= 0 && a.n <= 7 {
			return mExact(low(b.n) & a.n)
		}
		if a.exact() && b.exact() {
			return mExact(a.n & b.n)
		}
		return mTop
	case token.AND_NOT:
		if b.exact() && b.n == 7 {
			return mval{kind: 'e', m: a.m, n: a.n - low(a.n)}
		}
		if a.exact() && b.exact() {
			return mExact(a.n &^ b.n)
		}
		return mTop
	case token.SHL:
		if b.exact() && b.n >= 0 && b.n < 16 {
			return mval{kind: 'e', m: a.m << uint(b.n), n: a.n << uint(b.n)}
		}
		return mTop
	}
	if !a.exact() || !b.exact() {
		// a difference that is exact still compares
		if d := (mval{kind: 'e', m: a.m - b.m, n: a.n - b.n}); d.m == 0 {
			switch op {
			case token.EQL:
				return mBool(d.n == 0)
			case token.NEQ:
				return mBool(d.n != 0)
			case token.LSS:
				return mBool(d.n < 0)
			case token.LEQ:
				return mBool(d.n <= 0)
			case token.GTR:
				return mBool(d.n > 0)
			case token.GEQ:
				return mBool(d.n >= 0)
			}
		}
		return mTop
	}
	switch op {
	case token.QUO:
		if b.n != 0 {
			return mExact(a.n / b.n)
		}
	case token.OR:
		return mExact(a.n | b.n)
	case token.XOR:
		return mExact(a.n ^ b.n)
	case token.SHR:
		if b.n >= 0 && b.n < 63 {
			return mExact(a.n >> uint(b.n))
		}
	case token.EQL:
		return mBool(a.n == b.n)
	case token.NEQ:
		return mBool(a.n != b.n)
	case token.LSS:
		return mBool(a.n < b.n)
	case token.LEQ:
		return mBool(a.n <= b.n)
	case token.GTR:
		return mBool(a.n > b.n)
	case token.GEQ:
		return mBool(a.n >= b.n)
	}
	return mTop
}

func mBool(b bool) mval {
	if b {
		return mExact(1)
	}
	return mExact(0)
}

// run interprets callee abstractly along the one path its exact branch
// conditions select and returns the tuple (or single value) it returns.
func (e *modEval) run(fn *ssa.Function, args []mval) mval {
	fr := &modFrame{fn: fn, args: args, memo: map[ssa.Value]mval{}, pred: map[*ssa.BasicBlock]*ssa.BasicBlock{}}
	b := fn.Blocks[0]
	for steps := 0; steps < 200; steps++ {
		last := b.Instrs[len(b.Instrs)-1]
		switch t := last.(type) {
		case *ssa.Return:
			if len(t.Results) == 1 {
				return e.evalIn(t.Results[0], fr, 0)
			}
			out := mval{kind: 't'}
			for _, r := range t.Results {
				out.tup = append(out.tup, e.evalIn(r, fr, 0))
			}
			return out
		case *ssa.Jump:
			fr.pred[b.Succs[0]] = b
			b = b.Succs[0]
		case *ssa.If:
			cv := e.evalIn(t.Cond, fr, 0)
			if !cv.exact() {
				return mTop
			}
			next := b.Succs[1]
			if cv.n != 0 {
				next = b.Succs[0]
			}
			fr.pred[next] = b
			// values are per activation path: forget memoised phis of the target
			for _, in := range next.Instrs {
				if ph, ok := in.(*ssa.Phi); ok {
					delete(fr.memo, ph)
				}
			}
			b = next
		default:
			return mTop
		}
	}
	return mTop
}

// padFunction evaluates v for each residue class of the quantity selected by
// isSym and reports the exact values (ok=false if some class is not decided).
func (c *Ctx) padFunction(v ssa.Value, isSym func(ssa.Value) bool) (vals [8]int64, ok bool) {
	for r := int64(0); r < 8; r++ {
		e := &modEval{c: c, isSym: isSym, symV: mRes(r), env: map[ssa.Value]mval{}}
		m := e.evalIn(v, nil, 0)
		if !m.exact() {
			return vals, false
		}
		vals[r] = m.n
	}
	return vals, true
}

// lenFunction: like padFunction for the length of a byte slice value.
func (c *Ctx) lenFunction(v ssa.Value, isSym func(ssa.Value) bool) (vals [8]int64, ok bool) {
	for r := int64(0); r < 8; r++ {
		e := &modEval{c: c, isSym: isSym, symV: mRes(r), env: map[ssa.Value]mval{}}
		m := e.evalIn(v, nil, 0)
		if m.kind != 's' || m.len == nil || !m.len.exact() {
			return vals, false
		}
		vals[r] = m.len.n
	}
	return vals, true
}
