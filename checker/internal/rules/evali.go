package rules

import (
	"fmt"
	"go/constant"
	"go/token"
	"go/types"
	"os"
	"strings"

	"golang.org/x/tools/go/ssa"

	"verif/checker/internal/ir"
)

// Evaluator helpers added while triaging the sixth round of rewrites (second
// pass): shapes the rules did not follow. No new rules, no change of any
// decided condition.

// loadedField: v is a plain load of a struct field (x.f or *(&x.f)); returns the
// field id and the root of the structure it is read from.
func loadedField(v ssa.Value) (string, ssa.Value) {
	v = ir.StripConv(v)
	switch x := v.(type) {
	case *ssa.Field:
		return ir.FieldID(x), ir.RootOf(x.X)
	case *ssa.UnOp:
		if x.Op != token.MUL {
			return "", nil
		}
		if fa, ok := x.X.(*ssa.FieldAddr); ok {
			return ir.FieldID(fa), ir.RootOf(fa.X)
		}
	}
	return "", nil
}

// headerCopies: the decoder keeps the fields it reads in a local structure of
// its own (a header value) and builds the result from it at the end:
// result.F = hdr.f. Returns, per source field id, the local structures (their
// allocations) from which library code stores an unchanged load of that field
// into the field named target, provided the function that does so never
// overwrites the source field itself (it is one number, read once).
func (c *Ctx) headerCopies(target string) map[string]map[ssa.Value]bool {
	out := map[string]map[ssa.Value]bool{}
	for _, fn := range c.P.LibFunctions() {
		if fn.Blocks == nil {
			continue
		}
		fn := fn
		instrsOf(fn, func(i ssa.Instruction) {
			st, ok := i.(*ssa.Store)
			if !ok || ir.FieldID(st.Addr) != target {
				return
			}
			id, root := loadedField(st.Val)
			if id == "" || id == target || root == nil {
				return
			}
			if _, isLocal := root.(*ssa.Alloc); !isLocal {
				return
			}
			// the source field is not assigned in this function
			written := false
			for _, g := range withAnon(fn) {
				instrsOf(g, func(j ssa.Instruction) {
					if s2, isSt := j.(*ssa.Store); isSt && ir.FieldID(s2.Addr) == id {
						written = true
					}
				})
			}
			if written {
				return
			}
			if out[id] == nil {
				out[id] = map[ssa.Value]bool{}
			}
			out[id][root] = true
		})
	}
	return out
}

// fieldOrigins: the struct fields (id and root of the structure) of which v is
// an unchanged load: directly, or as a parameter that every library call site
// hands such a load, a phi of such loads, or a captured variable bound to one.
// ok is false when some origin of v is anything else.
type fieldOrigin struct {
	id   string
	root ssa.Value
}

func (c *Ctx) fieldOrigins(v ssa.Value, depth int) ([]fieldOrigin, bool) {
	if depth > 4 {
		return nil, false
	}
	v = ir.StripConv(v)
	if id, root := loadedField(v); id != "" && root != nil {
		return []fieldOrigin{{id, root}}, true
	}
	switch x := v.(type) {
	case *ssa.Parameter:
		fn := x.Parent()
		k := -1
		for i, p := range fn.Params {
			if p == x {
				k = i
			}
		}
		n := c.P.CallGraph().Nodes[fn]
		if k < 0 || n == nil {
			return nil, false
		}
		var out []fieldOrigin
		for _, e := range n.In {
			if e.Site == nil || !c.P.InLib(e.Caller.Func) {
				continue
			}
			if e.Caller.Func.Synthetic != "" && len(e.Caller.In) == 0 {
				continue // a compiler-made wrapper that nothing calls
			}
			if ir.Callee(e.Site) != fn {
				return nil, false
			}
			args := ir.CallArgs(e.Site)
			if k >= len(args) {
				return nil, false
			}
			o, ok := c.fieldOrigins(args[k], depth+1)
			if !ok {
				return nil, false
			}
			out = append(out, o...)
		}
		return out, len(out) > 0
	case *ssa.Phi:
		var out []fieldOrigin
		for _, e := range x.Edges {
			if e == ssa.Value(x) {
				continue
			}
			o, ok := c.fieldOrigins(e, depth+1)
			if !ok {
				return nil, false
			}
			out = append(out, o...)
		}
		return out, len(out) > 0
	case *ssa.FreeVar:
		if b := ir.FreeVarBinding(x); b != nil && b != ssa.Value(x) {
			return c.fieldOrigins(b, depth+1)
		}
	}
	return nil, false
}

// plainCopyVia: v is the named field as it was read (plainCopyOf), or the field
// of a local header structure as it was read, where that structure's field is
// what the decoder copies, unchanged, into the named field of its result.
func (c *Ctx) plainCopyVia(v ssa.Value, fieldID string) bool {
	if c.plainCopyOf(v, fieldID) {
		return true
	}
	origins, ok := c.fieldOrigins(v, 0)
	dbgI("plainCopyVia %s: %s origins=%v ok=%v copies=%v\n", fieldID, v.String(), origins, ok, c.headerCopies(fieldID))
	if !ok {
		return false
	}
	hc := c.headerCopies(fieldID)
	for _, o := range origins {
		if o.id == fieldID {
			continue
		}
		// the very structure the result is built from
		if !hc[o.id][o.root] {
			return false
		}
	}
	return len(origins) > 0
}

// atMostZeroOnEdge decodes a comparison of x with an integer constant on an edge
// where the comparison has the given truth: reports x and whether the edge
// implies x <= 0 (x == 0, x <= 0, x < 1, 0 == x, 0 >= x, 1 > x and the negations
// of their complements) - for a counter that starts at 0 and only goes up, x == 0.
func atMostZeroOnEdge(cmp *ssa.BinOp, truth bool) (ssa.Value, bool) {
	x, y, op := cmp.X, cmp.Y, cmp.Op
	if _, isK := ir.ConstInt(x); isK {
		x, y = y, x
		switch op {
		case token.LSS:
			op = token.GTR
		case token.LEQ:
			op = token.GEQ
		case token.GTR:
			op = token.LSS
		case token.GEQ:
			op = token.LEQ
		}
	}
	k, isK := ir.ConstInt(y)
	if !isK {
		return nil, false
	}
	if !truth {
		op = negate(op)
	}
	switch {
	case op == token.EQL && k == 0, op == token.LEQ && k == 0, op == token.LSS && k == 1:
		return x, true
	}
	return x, false
}

// countsUp: every value the phi takes other than its constant start is the phi
// itself plus a positive constant (a loop counter that only goes up).
func countsUp(ph *ssa.Phi) bool {
	n := 0
	for _, e := range ph.Edges {
		if _, isK := ir.ConstInt(e); isK {
			continue
		}
		bo, ok := ir.StripConv(e).(*ssa.BinOp)
		if !ok || bo.Op != token.ADD {
			return false
		}
		k, isK := ir.ConstInt(bo.Y)
		if !isK || k <= 0 || ir.StripConv(bo.X) != ssa.Value(ph) {
			return false
		}
		n++
	}
	return n > 0
}

// readOnlyWhereEntailed: the value computed at the sink (a difference that may
// wrap where it is computed) is only ever read at places where req >= 0 follows
// from the dominating comparisons: it is used directly by instructions behind
// the check, or it is kept in a local variable (one that is only loaded, stored
// and captured by function literals) whose every load, and every making of a
// literal that captures it, lies behind the check. On the paths where the value
// did wrap nothing looks at it.
func (c *Ctx) readOnlyWhereEntailed(s *sink, req Affine) bool {
	v, ok := s.instr.(ssa.Value)
	if !ok || v.Referrers() == nil {
		return false
	}
	fn := s.fn
	okAt := func(b *ssa.BasicBlock) bool {
		if b == nil || b == s.instr.Block() {
			return false
		}
		ok, _ := c.entailedHere(fn, b, req)
		return ok
	}
	uses := 0
	for _, r := range *v.Referrers() {
		switch x := r.(type) {
		case *ssa.DebugRef:
		case *ssa.Phi:
			// carried round a loop: the value that is checked later need not be this one
			return false
		case *ssa.Store:
			a, isA := x.Addr.(*ssa.Alloc)
			if !isA || x.Val != v || a.Referrers() == nil {
				return false
			}
			for _, ar := range *a.Referrers() {
				switch y := ar.(type) {
				case *ssa.DebugRef:
				case *ssa.Store:
					if y.Addr != ssa.Value(a) {
						return false
					}
				case *ssa.UnOp:
					if y.Op != token.MUL || !okAt(y.Block()) {
						return false
					}
					uses++
				case *ssa.MakeClosure:
					if !okAt(y.Block()) {
						return false
					}
					uses++
				default:
					return false
				}
			}
		default:
			if !okAt(r.Block()) {
				return false
			}
			uses++
		}
	}
	return uses > 0
}

// sameDestinations: two calls of one helper (evaluated in frame fr) hand it the
// same things to fill or to read from: every argument that refers to memory (a
// pointer, a slice, an interface, a map) is the same object at both calls - the
// same value, the same access path, or equal constants. Arguments passed by
// value (sizes, flags) do not name a destination. A general reading helper that
// is called with different destinations on different branches reads different
// wire positions there.
func (d *deepView) sameDestinations(a, b *ssa.Call, fr *frame) bool {
	aa, ba := ir.CallArgs(a), ir.CallArgs(b)
	if len(aa) != len(ba) {
		return false
	}
	for k := range aa {
		switch aa[k].Type().Underlying().(type) {
		case *types.Pointer, *types.Slice, *types.Interface, *types.Map:
		default:
			continue
		}
		x, y := d.objectOf(aa[k], fr), d.objectOf(ba[k], fr)
		if x.same(y) {
			continue
		}
		kx, isKx := x.v.(*ssa.Const)
		ky, isKy := y.v.(*ssa.Const)
		if isKx && isKy && kx.String() == ky.String() {
			continue
		}
		if x.fr == y.fr && !isKx && !isKy {
			if px, py := ir.AccessPath(x.v), ir.AccessPath(y.v); px != "" && px == py {
				continue
			}
		}
		return false
	}
	return true
}

// returnedByRoot: the local structure obj of the anchor function's own frame is
// one of that function's results: its address, or its content loaded whole.
func (d *deepView) returnedByRoot(obj dval) bool {
	if obj.fr != d.root || d.root == nil {
		return false
	}
	for _, ret := range ir.Returns(d.root.fn) {
		for _, res := range ret.Results {
			v := ir.StripConv(res)
			if ld, isLd := v.(*ssa.UnOp); isLd && ld.Op == token.MUL {
				v = ld.X
			}
			if _, isK := v.(*ssa.Const); isK {
				continue
			}
			if d.objectOf(v, d.root).same(obj) {
				return true
			}
		}
	}
	return false
}

// staticLen: the length of the indexed operand when it is fixed by its type (an
// array or a pointer to one) or by its value (a constant string).
func staticLen(v ssa.Value) (int64, bool) {
	if v == nil {
		return 0, false
	}
	if n, ok := byteLenAny(v); ok {
		return n, true
	}
	if k, ok := v.(*ssa.Const); ok && k.Value != nil && k.Value.Kind() == constant.String {
		return int64(len(constant.StringVal(k.Value))), true
	}
	return 0, false
}

// staticUpperBound: the largest value v can have whatever the input, from its
// own arithmetic alone: a constant; an unsigned value of a type at most 32 bits
// wide; x >> k, x & m, x % m with constant k, m on a non-negative x. The value
// is non-negative wherever a bound is reported.
func staticUpperBound(v ssa.Value, depth int) (int64, bool) {
	if v == nil || depth > 8 {
		return 0, false
	}
	typeMax := func(t types.Type) (int64, bool) {
		b, ok := t.Underlying().(*types.Basic)
		if !ok || b.Info()&types.IsUnsigned == 0 {
			return 0, false
		}
		switch b.Kind() {
		case types.Uint8:
			return 1<<8 - 1, true
		case types.Uint16:
			return 1<<16 - 1, true
		case types.Uint32:
			return 1<<32 - 1, true
		}
		return 0, false
	}
	best, have := int64(0), false
	take := func(n int64, ok bool) {
		if ok && n >= 0 && (!have || n < best) {
			best, have = n, true
		}
	}
	take(typeMax(v.Type()))
	switch x := v.(type) {
	case *ssa.Const:
		if k, ok := ir.ConstInt(x); ok && k >= 0 {
			return k, true
		}
		return 0, false
	case *ssa.Convert:
		// a conversion keeps a non-negative value that fits; otherwise only the type bounds it
		if n, ok := staticUpperBound(x.X, depth+1); ok {
			if b, isB := x.Type().Underlying().(*types.Basic); isB {
				fits := int64(-1)
				switch b.Kind() {
				case types.Uint8:
					fits = 1<<8 - 1
				case types.Int8:
					fits = 1<<7 - 1
				case types.Uint16:
					fits = 1<<16 - 1
				case types.Int16:
					fits = 1<<15 - 1
				case types.Uint32:
					fits = 1<<32 - 1
				case types.Int32, types.Int:
					fits = 1<<31 - 1
				case types.Uint, types.Uint64, types.Int64, types.Uintptr:
					fits = 1<<62 - 1
				}
				if n <= fits {
					take(n, true)
				}
			}
		}
	case *ssa.ChangeType:
		take(staticUpperBound(x.X, depth+1))
	case *ssa.BinOp:
		switch x.Op {
		case token.SHR:
			if k, isK := ir.ConstInt(x.Y); isK && k >= 0 && k < 63 {
				if n, ok := staticUpperBound(x.X, depth+1); ok {
					take(n>>uint(k), true)
				}
			}
		case token.AND:
			for _, side := range [][2]ssa.Value{{x.X, x.Y}, {x.Y, x.X}} {
				if m, isK := ir.ConstInt(side[0]); isK && m >= 0 {
					take(m, true)
				}
			}
			if n, ok := staticUpperBound(x.X, depth+1); ok {
				if m, ok2 := staticUpperBound(x.Y, depth+1); ok2 {
					if m < n {
						n = m
					}
					take(n, true)
				}
			}
		case token.REM:
			if m, isK := ir.ConstInt(x.Y); isK && m > 0 {
				if _, ok := staticUpperBound(x.X, depth+1); ok {
					take(m-1, true)
				}
			}
		}
	}
	return best, have
}

// narrowedDependency: t is an interface type declared by the library itself
// whose methods are all methods of a caller-supplied dependency interface
// (afero.Fs, io/fs.FS, crypto.Signer) with identical signatures, at least one of
// them naming a type of the dependency's own package (so that an unrelated
// small interface - Name() string - is not taken for one): a narrow view of the
// dependency, which an implementation of the dependency is assigned to. Returns
// the dependency kind, "" otherwise.
func narrowedDependency(t types.Type) string {
	named, ok := t.(*types.Named)
	if !ok || named.Obj() == nil || named.Obj().Pkg() == nil {
		return ""
	}
	iface, ok := named.Underlying().(*types.Interface)
	if !ok || iface.NumMethods() == 0 {
		return ""
	}
	home := named.Obj().Pkg()
	if home.Path() != M && !strings.HasPrefix(home.Path(), M+"/") {
		return ""
	}
	mentions := func(sig *types.Signature, pkg *types.Package) bool {
		found := false
		var visit func(tt types.Type, depth int)
		visit = func(tt types.Type, depth int) {
			if depth > 4 || found {
				return
			}
			switch x := tt.(type) {
			case *types.Named:
				if x.Obj() != nil && x.Obj().Pkg() == pkg {
					found = true
				}
			case *types.Pointer:
				visit(x.Elem(), depth+1)
			case *types.Slice:
				visit(x.Elem(), depth+1)
			case *types.Array:
				visit(x.Elem(), depth+1)
			}
		}
		for _, tup := range []*types.Tuple{sig.Params(), sig.Results()} {
			for k := 0; k < tup.Len(); k++ {
				visit(tup.At(k).Type(), 0)
			}
		}
		return found
	}
	for _, dep := range []struct{ pkg, name, kind string }{
		{"github.com/spf13/afero", "Fs", "filesystem"},
		{"io/fs", "FS", "filesystem"},
		{"crypto", "Signer", "signer"},
	} {
		for _, imp := range home.Imports() {
			if imp.Path() != dep.pkg {
				continue
			}
			obj := imp.Scope().Lookup(dep.name)
			if obj == nil {
				continue
			}
			full, isI := obj.Type().Underlying().(*types.Interface)
			if !isI {
				continue
			}
			all, own := true, false
			for k := 0; k < iface.NumMethods(); k++ {
				m := iface.Method(k)
				var match *types.Func
				for j := 0; j < full.NumMethods(); j++ {
					if full.Method(j).Name() == m.Name() {
						match = full.Method(j)
					}
				}
				if match == nil || !types.Identical(m.Type(), match.Type()) {
					all = false
					break
				}
				if mentions(m.Type().(*types.Signature), imp) {
					own = true
				}
			}
			if all && own {
				return dep.kind
			}
		}
	}
	return ""
}

// contentNeverRead: the byte slice buf is scratch space: it is made locally
// (make) or taken from a package-level sync.Pool, and it - with every slice of
// it, and for a pooled buffer every value any library function takes from the
// same pool - is used for nothing but being handed to Read methods, len/cap,
// and being given back to the pool. No instruction loads an element, copies
// from it, stores it or passes it to other code.
func (c *Ctx) contentNeverRead(buf ssa.Value) bool {
	var usesOK func(v ssa.Value, depth int) bool
	usesOK = func(v ssa.Value, depth int) bool {
		if depth > 8 || v.Referrers() == nil {
			return false
		}
		for _, r := range *v.Referrers() {
			switch x := r.(type) {
			case *ssa.DebugRef:
			case *ssa.Slice:
				if x.X != v || !usesOK(x, depth+1) {
					return false
				}
			case *ssa.UnOp:
				// the slice behind a pointer to it (pooled as *[]byte)
				if x.Op != token.MUL || !isByteSlice(x.Type()) || !usesOK(x, depth+1) {
					return false
				}
			case *ssa.TypeAssert:
				if !usesOK(x, depth+1) {
					return false
				}
			case *ssa.Extract:
				if !usesOK(x, depth+1) {
					return false
				}
			case *ssa.MakeInterface:
				if !usesOK(x, depth+1) {
					return false
				}
			case ssa.CallInstruction:
				cc := x.Common()
				switch {
				case cc.IsInvoke() && cc.Method.Name() == "Read" && len(cc.Args) == 1 && cc.Args[0] == v:
				case ir.CallID(x) == "builtin.len" || ir.CallID(x) == "builtin.cap":
				case ir.CallID(x) == "sync.Pool.Put":
				default:
					return false
				}
			default:
				return false
			}
		}
		return true
	}
	// where the buffer comes from
	v := buf
	for depth := 0; depth < 8; depth++ {
		switch x := v.(type) {
		case *ssa.Slice:
			v = x.X
			continue
		case *ssa.UnOp:
			if x.Op == token.MUL {
				v = x.X
				continue
			}
		case *ssa.TypeAssert:
			v = x.X
			continue
		case *ssa.Extract:
			v = x.Tuple
			continue
		}
		break
	}
	switch x := v.(type) {
	case *ssa.MakeSlice:
		return usesOK(x, 0)
	case *ssa.Call:
		if ir.CallID(x) != "sync.Pool.Get" || len(x.Call.Args) != 1 {
			return false
		}
		pool, isG := x.Call.Args[0].(*ssa.Global)
		if !isG {
			return false
		}
		// every taker of the pool's buffers
		ok, n := true, 0
		for _, fn := range c.P.LibFunctions() {
			for _, g := range withAnon(fn) {
				instrsOf(g, func(i ssa.Instruction) {
					call, isC := i.(*ssa.Call)
					if !isC || ir.CallID(call) != "sync.Pool.Get" || len(call.Call.Args) != 1 || call.Call.Args[0] != ssa.Value(pool) {
						return
					}
					n++
					if !usesOK(call, 0) {
						ok = false
					}
				})
			}
		}
		return ok && n > 0
	}
	return false
}

// fullTotalEdge: on this edge the running total of the counts of the read call
// has reached the length of the buffer: the call reads into buf[total:], total
// is a loop variable whose next value is total + count, and the edge says
// total >= len(buf) (or ==).
func fullTotalEdge(call *ssa.Call, cmp *ssa.BinOp, truth bool) bool {
	args := ir.CallArgs(call)
	var total *ssa.Phi
	var whole ssa.Value
	for _, a := range args {
		sl, ok := a.(*ssa.Slice)
		if !ok || sl.High != nil || sl.Max != nil || sl.Low == nil || !isByteSlice(sl.Type()) {
			continue
		}
		if ph, isPhi := ir.StripConv(sl.Low).(*ssa.Phi); isPhi {
			total, whole = ph, sl.X
		}
	}
	if total == nil {
		return false
	}
	// total's next value is total + count of this call
	steps := false
	for _, e := range total.Edges {
		bo, ok := ir.StripConv(e).(*ssa.BinOp)
		if !ok || bo.Op != token.ADD {
			continue
		}
		for _, p := range [][2]ssa.Value{{bo.X, bo.Y}, {bo.Y, bo.X}} {
			ex, isEx := ir.StripConv(p[1]).(*ssa.Extract)
			if ir.StripConv(p[0]) == ssa.Value(total) && isEx && ex.Tuple == ssa.Value(call) && ex.Index == 0 {
				steps = true
			}
		}
	}
	if !steps {
		return false
	}
	isLen := func(v ssa.Value) bool {
		lc, ok := ir.StripConv(v).(*ssa.Call)
		return ok && ir.CallID(lc) == "builtin.len" && len(lc.Call.Args) == 1 && lc.Call.Args[0] == whole
	}
	op := cmp.Op
	if !truth {
		op = negate(op)
	}
	x, y := cmp.X, cmp.Y
	if isLen(x) {
		x, y, op = y, x, flip(op)
	}
	return ir.StripConv(x) == ssa.Value(total) && isLen(y) && (op == token.EQL || op == token.GEQ)
}

// fullTotalDominates: return r of fn lies behind a fullTotalEdge of the call.
func fullTotalDominates(fn *ssa.Function, call *ssa.Call, r *ssa.Return) bool {
	for _, ce := range ir.CondEdges(fn) {
		cmp, ok := ce.Cond.(*ssa.BinOp)
		if !ok || !fullTotalEdge(call, cmp, ce.Truth) {
			continue
		}
		if ce.Edge.To == r.Block().Index && len(r.Block().Preds) == 1 || ir.EdgeDominates(fn, ce.Edge, r.Block()) {
			return true
		}
	}
	return false
}

// isUnsignedInt: t is an unsigned integer type.
func isUnsignedInt(t types.Type) bool {
	b, ok := t.Underlying().(*types.Basic)
	return ok && b.Info()&types.IsUnsigned != 0
}

// dbgI prints a development trace when VCHECK_DEBUG=devI.
func dbgI(format string, args ...interface{}) {
	if os.Getenv("VCHECK_DEBUG") == "devI" {
		fmt.Fprintf(os.Stderr, format, args...)
	}
}
