package rules

import (
	"fmt"
	"go/token"
	"go/types"
	"regexp"
	"sort"
	"strings"

	"golang.org/x/tools/go/ssa"

	"verif/checker/internal/ir"
)

// C16 - signatures made by other tools are parsed and verified. What other
// programs emit is run-time data; what the source does fix is (a) which
// elements of a SignedData the parser insists on although the format makes them
// optional, (b) whether an attribute the parser does not know is tolerated and
// kept, and (c) whether the re-encoding of the signed attributes (which is what
// the signature is checked over) can reproduce what was parsed: every parsed
// field is emitted again, under the same attribute type, with the same ASN.1
// primitive, and nothing that was consumed from the signed attributes is thrown
// away. (c) is also a condition of C04/C02 ("over the signed attributes exactly
// as they appear in the blob"): whatever the parser drops can be added to a
// valid blob without the verifier noticing.

func init() { Registry["C16"] = checkC16 }

const oidEqualID = "encoding/asn1.ObjectIdentifier.Equal"

func checkC16(c *Ctx) {
	c.ruleOptionalElements("X1.optional")
	c.ruleAlgorithmParams("X1.params")
	c.ruleOuterOptional("X4.outer")
	c.ruleUnknownAttrs("X2.unknown")
	c.ruleAttrPair("X3.pair")
	c.ruleAttrLossless("A.lossless")
	c.R.Floor("X1.optional", 3)
	c.R.Floor("X1.params", 1)
	c.R.Floor("X4.outer", 1)
	c.R.Floor("X2.unknown", 1)
	c.R.Floor("X3.pair", 3)
	c.R.Floor("A.lossless", 2)
	// what is verified is the attribute encoder's output for the parsed attributes, by the caller's certificate
	e := c.accept()
	if fn := c.Fn("A", "pkcs7.(*PKCS7).Verify"); fn != nil {
		e.Require("A", fn, pkcs7Facts)
	}
	c.R.Floor("A.signature", 1)
}

// ---- cryptobyte reads

type cbRead struct {
	call   *ssa.Call
	method string    // ReadASN1, ReadOptionalASN1, ReadASN1ObjectIdentifier, ...
	recv   ssa.Value // address of the String that is read from
	outs   []ssa.Value
	tag    int64
	hasTag bool
}

// readOf decodes a call of a consuming method of cryptobyte.String.
func (c *Ctx) readOf(i ssa.Instruction) *cbRead {
	call, ok := i.(*ssa.Call)
	if !ok {
		return nil
	}
	id := ir.CallID(call)
	if !strings.HasPrefix(id, cbPkg+".String.") {
		return nil
	}
	m := strings.TrimPrefix(id, cbPkg+".String.")
	if !(strings.HasPrefix(m, "Read") || strings.HasPrefix(m, "Skip") || strings.HasPrefix(m, "CopyBytes")) {
		return nil
	}
	args := call.Call.Args
	if len(args) == 0 {
		return nil
	}
	r := &cbRead{call: call, method: m, recv: args[0]}
	for _, a := range args[1:] {
		if _, isPtr := a.Type().Underlying().(*types.Pointer); isPtr {
			r.outs = append(r.outs, a)
			continue
		}
		if ir.NamedTypeID(a.Type()) == cbPkg+"/asn1.Tag" {
			if n, ok := c.tagValue(a, 0); ok {
				r.tag, r.hasTag = n, true
			}
		}
	}
	return r
}

// kind names the ASN.1 primitive a read takes off the string.
func (r *cbRead) kind() string {
	switch r.method {
	case "ReadASN1ObjectIdentifier":
		return "OID"
	case "ReadASN1UTCTime":
		return "UTCTIME"
	case "ReadASN1GeneralizedTime":
		return "GENTIME"
	case "ReadASN1Integer", "ReadASN1Int64WithTag", "ReadASN1Enum":
		return "INT"
	case "ReadASN1Boolean":
		return "BOOL"
	case "ReadASN1BitString", "ReadASN1BitStringAsBytes":
		return "BITSTRING"
	case "ReadASN1", "ReadASN1Bytes", "ReadOptionalASN1", "ReadOptionalASN1OctetString":
		if r.method == "ReadOptionalASN1OctetString" || r.hasTag && r.tag == 4 {
			return "OCTET"
		}
		if r.hasTag {
			return fmt.Sprintf("T%#x", r.tag)
		}
	case "ReadASN1Element":
		if r.hasTag {
			return fmt.Sprintf("ELEM%#x", r.tag)
		}
	}
	return "?"
}

// sameCell: two address values name the same local string / field.
func sameCell(a, b ssa.Value) bool {
	if a == b {
		return true
	}
	pa, pb := ir.AddrPath(a), ir.AddrPath(b)
	return pa != "" && pa == pb
}

// looksAt: instruction i reads from, tests or uses as a whole the string at addr.
func (c *Ctx) looksAt(i ssa.Instruction, addr ssa.Value) bool {
	switch x := i.(type) {
	case ssa.CallInstruction:
		id := ir.CallID(x)
		args := ir.CallArgs(x)
		if strings.HasPrefix(id, cbPkg+".String.") && len(args) > 0 {
			if sameCell(args[0], addr) {
				return true
			}
			if ld, ok := args[0].(*ssa.UnOp); ok && ld.Op == token.MUL && sameCell(ld.X, addr) {
				return true
			}
			return false
		}
		// the string handed to other code (by address or by value)
		for _, a := range args {
			if sameCell(a, addr) {
				return true
			}
		}
	}
	return false
}

// wholeUse: a load of the string at addr whose value is kept (stored, returned,
// converted and passed on) - the rest of the string is not dropped but handed on.
func wholeUses(fn *ssa.Function, addr ssa.Value) []ssa.Instruction {
	var out []ssa.Instruction
	instrsOf(fn, func(i ssa.Instruction) {
		ld, ok := i.(*ssa.UnOp)
		if !ok || ld.Op != token.MUL || !sameCell(ld.X, addr) {
			return
		}
		for _, u := range *ld.Referrers() {
			switch y := u.(type) {
			case *ssa.Store:
				if y.Val == ssa.Value(ld) {
					out = append(out, ld)
				}
			case *ssa.Return, *ssa.ChangeType, *ssa.Convert, *ssa.MakeInterface, *ssa.Slice:
				out = append(out, ld)
			case ssa.CallInstruction:
				if !strings.HasPrefix(ir.CallID(y), cbPkg+".String.") {
					out = append(out, ld)
				}
			}
		}
	})
	return out
}

// pkcs7ParserFuncs: the functions of package pkcs7 that ParsePKCS7 reaches.
func (c *Ctx) pkcs7ParserFuncs(rule string) []*ssa.Function {
	root := c.Fn(rule, "pkcs7.ParsePKCS7")
	if root == nil {
		return nil
	}
	var out []*ssa.Function
	for _, f := range c.cone(root) {
		out = append(out, withAnon(f)...)
	}
	return out
}

const (
	attrType    = pkcsPkg + ".Attributes"
	unparsedTyp = pkcsPkg + ".unparsedAttribute"
)

// attrField: the field of pkcs7.Attributes (or of the element type of its list
// of unparsed attributes) that an address denotes, "" otherwise.
func attrField(addr ssa.Value) string {
	id := ir.FieldID(addr)
	if strings.HasPrefix(id, attrType+".") {
		return strings.TrimPrefix(id, attrType+".")
	}
	if strings.HasPrefix(id, pkcsPkg+".") && !strings.HasPrefix(id, pkcsPkg+".PKCS7.") && !strings.HasPrefix(id, pkcsPkg+".signerinfo.") &&
		!strings.HasPrefix(id, pkcsPkg+".issuerAndSerialNumber.") {
		// the element type of Attributes' list of unparsed attributes, whatever it is called
		if fa, ok := addr.(*ssa.FieldAddr); ok {
			if isUnparsedElem(fa.X.Type()) {
				return "Other." + id[strings.LastIndex(id, ".")+1:]
			}
		}
	}
	return ""
}

func isUnparsedElem(t types.Type) bool {
	if p, ok := t.Underlying().(*types.Pointer); ok {
		t = p.Elem()
	}
	n, ok := t.(*types.Named)
	if !ok || n.Obj().Pkg() == nil || n.Obj().Pkg().Path() != pkcsPkg {
		return false
	}
	// is it the element type of a slice field of Attributes?
	at := n.Obj().Pkg().Scope().Lookup("Attributes")
	if at == nil {
		return false
	}
	st, ok := at.Type().Underlying().(*types.Struct)
	if !ok {
		return false
	}
	for k := 0; k < st.NumFields(); k++ {
		if sl, ok := st.Field(k).Type().Underlying().(*types.Slice); ok {
			el := sl.Elem()
			if p, ok := el.Underlying().(*types.Pointer); ok {
				el = p.Elem()
			}
			if types.Identical(el, n) {
				return true
			}
		}
	}
	return false
}

// oidGuards: the attribute-type comparisons (oid.Equal(<package variable>)) that
// dominate block b, as (name of the variable, outcome).
func oidGuards(fn *ssa.Function, b *ssa.BasicBlock) (pos []string, neg []string) {
	for _, ce := range ir.DominatingConds(fn, b) {
		call, ok := ce.Cond.(*ssa.Call)
		if !ok || ir.CallID(call) != oidEqualID {
			continue
		}
		g := ""
		for _, a := range ir.CallArgs(call) {
			if ld, ok := ir.StripConv(a).(*ssa.UnOp); ok && ld.Op == token.MUL {
				if gl, ok := ld.X.(*ssa.Global); ok {
					g = gl.Name()
				}
			}
		}
		if g == "" {
			continue
		}
		if ce.Truth {
			pos = append(pos, g)
		} else {
			neg = append(neg, g)
		}
	}
	return
}

type attrSite struct {
	fn    *ssa.Function
	at    ssa.Instruction
	field string
	kind  string
	guard string // attribute-type variable on whose equality the site depends; "*" = none of the known ones
}

// valueKind: what a stored value was read as. v is followed to the out-parameter
// cell of a read in the same function, or recognised as the string itself.
func (c *Ctx) valueKind(fn *ssa.Function, v ssa.Value, depth int) string {
	if depth > 6 {
		return "?"
	}
	switch x := v.(type) {
	case *ssa.ChangeType:
		return c.valueKind(fn, x.X, depth+1)
	case *ssa.Convert:
		return c.valueKind(fn, x.X, depth+1)
	case *ssa.MakeInterface:
		return c.valueKind(fn, x.X, depth+1)
	case *ssa.Slice:
		return c.valueKind(fn, x.X, depth+1)
	case *ssa.Phi:
		k := ""
		for _, e := range x.Edges {
			ek := c.valueKind(fn, e, depth+1)
			if k == "" {
				k = ek
			} else if k != ek {
				return "?"
			}
		}
		return k
	case *ssa.UnOp:
		if x.Op != token.MUL {
			return "?"
		}
		kinds := map[string]bool{}
		isString := ir.NamedTypeID(x.Type()) == cbPkg+".String"
		recvOnly := true
		instrsOf(fn, func(i ssa.Instruction) {
			r := c.readOf(i)
			if r == nil {
				return
			}
			for _, o := range r.outs {
				if sameCell(o, x.X) {
					kinds[r.kind()] = true
					if !sameCell(r.recv, x.X) {
						recvOnly = false
					}
				}
			}
		})
		isCursor := false
		instrsOf(fn, func(i ssa.Instruction) {
			if r := c.readOf(i); r != nil && sameCell(r.recv, x.X) {
				isCursor = true
			}
		})
		if isString && (isCursor || len(kinds) == 0) {
			// a string that is itself being parsed, stored as it is: whatever is left of it
			return "RAW"
		}
		_ = recvOnly
		if len(kinds) == 1 {
			for k := range kinds {
				return k
			}
		}
		return "?"
	}
	return "?"
}

// attrSites: where the parser fills fields of the parsed attributes.
func (c *Ctx) attrSites(fns []*ssa.Function) []attrSite {
	var out []attrSite
	for _, fn := range fns {
		fn := fn
		instrsOf(fn, func(i ssa.Instruction) {
			var field, kind string
			switch x := i.(type) {
			case *ssa.Store:
				field = attrField(x.Addr)
				if field == "" {
					return
				}
				if _, isSlice := x.Val.Type().Underlying().(*types.Slice); isSlice && !strings.Contains(field, ".") {
					if _, isBytes := x.Val.Type().Underlying().(*types.Slice).Elem().Underlying().(*types.Basic); !isBytes {
						kind = "LIST"
					}
				}
				if kind == "" {
					kind = c.valueKind(fn, x.Val, 0)
				}
			case *ssa.Call:
				r := c.readOf(x)
				if r == nil {
					return
				}
				for _, o := range r.outs {
					if f := attrField(o); f != "" {
						field, kind = f, r.kind()
					}
				}
				if field == "" {
					return
				}
			default:
				return
			}
			pos, neg := oidGuards(fn, i.Block())
			g := ""
			switch {
			case len(pos) == 1:
				g = pos[0]
			case len(pos) == 0 && len(neg) > 0:
				g = "*"
			case len(pos) > 1:
				g = "?"
			}
			out = append(out, attrSite{fn, i, field, kind, g})
		})
	}
	return out
}

// ---- X3.pair: what the parser fills is what the encoder emits

var attrElemRe = regexp.MustCompile(`T0x30\{OID\(([^()]*)\) T0x31\{([A-Z]+)(?:\(([^()]*)\))?\}\}`)

func compatKinds(read, write string) (ok, known bool) {
	if read == "?" || write == "?" {
		return false, false
	}
	switch write {
	case "BYTES":
		return read == "RAW", true
	case "BIGINT", "INT":
		return read == "INT", true
	}
	return read == write, true
}

func (c *Ctx) ruleAttrPair(rule string) {
	enc := c.FnOpt("pkcs7.(*Attributes).Marshal")
	if enc == nil {
		enc = c.FnOpt("pkcs7.(Attributes).Marshal")
	}
	if enc == nil {
		c.R.Undecf(rule, "pkcs7.(*Attributes).Marshal", "anchor", "-", "the attribute encoder must resolve", "method not found")
		return
	}
	fns := c.pkcs7ParserFuncs(rule)
	if fns == nil {
		return
	}
	sites := c.attrSites(fns)
	what := "every field the attribute parser fills is emitted again by the attribute encoder, under the same attribute type and with the same ASN.1 primitive (the signature is checked over that re-encoding)"
	if len(sites) == 0 {
		c.R.Infof(rule, name(enc), "parser", c.Pos(enc.Pos()), "not decided for this shape: no store into a field of the parsed attributes found in the functions ParsePKCS7 reaches")
		return
	}
	dm := c.deepViewOf(enc, 5)
	shape := normaliseShape(c.topBuilderShape(dm))
	type elem struct{ oid, kind, field string }
	var elems []elem
	for _, m := range attrElemRe.FindAllStringSubmatch(shape, -1) {
		elems = append(elems, elem{m[1], m[2], m[3]})
	}
	if len(elems) == 0 || strings.Contains(shape, unknownShape) {
		c.R.Infof(rule, name(enc), "encoder", c.Pos(enc.Pos()), "not decided for this shape: the attribute encoder's output is not resolved into attribute elements ("+shape+")")
		// the field-level agreement below does not need the shape
	}
	// field level: parsed fields are read by the encoder's cone
	readByEnc := map[string]bool{}
	for _, g := range c.cone(enc) {
		for _, f := range withAnon(g) {
			instrsOf(f, func(i ssa.Instruction) {
				switch x := i.(type) {
				case *ssa.FieldAddr:
					if f := attrField(x); f != "" && hasLoad(x) {
						readByEnc[f] = true
					}
				case *ssa.Field:
					if id := ir.FieldID(x); strings.HasPrefix(id, attrType+".") {
						readByEnc[strings.TrimPrefix(id, attrType+".")] = true
					}
				}
			})
		}
	}
	byField := map[string][]attrSite{}
	var fields []string
	for _, s := range sites {
		if _, seen := byField[s.field]; !seen {
			fields = append(fields, s.field)
		}
		byField[s.field] = append(byField[s.field], s)
	}
	sort.Strings(fields)
	isGlobal := func(n string) bool {
		return enc.Pkg != nil && enc.Pkg.Pkg.Scope().Lookup(n) != nil && n != ""
	}
	for _, f := range fields {
		ss := byField[f]
		at := ss[0]
		construct := "field:" + f
		if !readByEnc[f] {
			c.R.Violf(rule, name(at.fn), construct, c.IPos(at.at), what,
				"the parser fills "+f+" but nothing the attribute encoder reaches reads it: what was parsed into it is missing from the bytes the signature is checked over")
			continue
		}
		if len(elems) == 0 {
			c.R.Okf(rule, name(at.fn), construct, c.IPos(at.at), "the parsed field "+f+" is read by the attribute encoder")
			continue
		}
		leaf := f[strings.LastIndex(f, ".")+1:]
		// the wire forms under which the parser fills the field, per attribute type
		kindsBy := map[string]map[string]bool{}
		for _, s := range ss {
			if kindsBy[s.guard] == nil {
				kindsBy[s.guard] = map[string]bool{}
			}
			kindsBy[s.guard][s.kind] = true
		}
		var bad, undecided []string
		for g, ks := range kindsBy {
			var kl []string
			for k := range ks {
				kl = append(kl, k)
			}
			sort.Strings(kl)
			if len(kl) > 1 && !ks["?"] && !ks["LIST"] {
				bad = append(bad, fmt.Sprintf("under %s the field is filled from different wire forms (%s): the parsed value does not say which one was in the blob, so the re-encoding cannot reproduce it", g, strings.Join(kl, ", ")))
				continue
			}
			k := kl[0]
			if k == "LIST" {
				continue
			}
			// the encoder elements that emit this field
			var es []elem
			for _, e := range elems {
				if e.field == leaf || e.field == "" && (e.kind == "UTCTIME" || e.kind == "GENTIME") && strings.Contains(strings.ToLower(leaf), "time") {
					es = append(es, e)
				} else if e.oid == leaf && !isGlobal(e.oid) {
					// the field is emitted as the attribute's type
					es = append(es, elem{"", "OID", leaf})
				}
			}
			if len(es) == 0 {
				undecided = append(undecided, "no element of the encoder's output is attributed to "+leaf)
				continue
			}
			for _, e := range es {
				if g != "" && g != "*" && g != "?" && isGlobal(e.oid) && e.oid != g {
					bad = append(bad, fmt.Sprintf("parsed under attribute type %s, emitted under %s", g, e.oid))
				}
				if ok, known := compatKinds(k, e.kind); known && !ok {
					bad = append(bad, fmt.Sprintf("parsed as %s, emitted as %s", k, e.kind))
				} else if !known {
					undecided = append(undecided, fmt.Sprintf("wire form not resolved (parsed as %s, emitted as %s)", k, e.kind))
				}
			}
		}
		sort.Strings(bad)
		switch {
		case len(bad) > 0:
			c.R.Violf(rule, name(at.fn), construct, c.IPos(at.at), what, f+": "+strings.Join(bad, "; "))
		case len(undecided) > 0:
			c.R.Infof(rule, name(at.fn), construct, c.IPos(at.at), "not decided for this shape: "+f+": "+strings.Join(undecided, "; "))
		default:
			c.R.Okf(rule, name(at.fn), construct, c.IPos(at.at), "the parsed field "+f+" is emitted by the attribute encoder under the same attribute type and primitive")
		}
	}
}

func hasLoad(addr ssa.Value) bool {
	refs := addr.Referrers()
	if refs == nil {
		return false
	}
	for _, u := range *refs {
		switch y := u.(type) {
		case *ssa.UnOp:
			if y.Op == token.MUL {
				return true
			}
		case ssa.CallInstruction:
			return true // handed to code that may read it
		}
	}
	return false
}

// ---- X2.unknown: an attribute of a type the parser does not know is kept

func (c *Ctx) ruleUnknownAttrs(rule string) {
	fns := c.pkcs7ParserFuncs(rule)
	if fns == nil {
		return
	}
	what := "a signed attribute of a type the parser does not know (S/MIME capabilities, algorithm protection, opus info) is neither refused nor dropped: it is kept for the re-encoding"
	n := 0
	for _, fn := range fns {
		// the function that tells the attribute types apart
		var cmps []ir.CondEdge
		for _, ce := range ir.CondEdges(fn) {
			if call, ok := ce.Cond.(*ssa.Call); ok && ir.CallID(call) == oidEqualID {
				for _, a := range ir.CallArgs(call) {
					if ld, ok := ir.StripConv(a).(*ssa.UnOp); ok && ld.Op == token.MUL {
						if gl, ok := ld.X.(*ssa.Global); ok && strings.Contains(gl.Name(), "Attribute") {
							cmps = append(cmps, ce)
						}
					}
				}
			}
		}
		distinct := map[ssa.Value]bool{}
		for _, ce := range cmps {
			distinct[ce.Cond] = true
		}
		if len(distinct) < 2 {
			continue
		}
		n++
		cut := map[ir.Edge]bool{}
		var first *ssa.BasicBlock
		for _, ce := range cmps {
			if ce.Truth {
				cut[ce.Edge] = true
			}
			b := fn.Blocks[ce.Edge.From]
			if first == nil || b.Index < first.Index && b.Dominates(first) || b.Dominates(first) {
				first = b
			}
		}
		// the stores that keep an attribute of unknown type: sites guarded by no positive comparison
		var keeps []ssa.Instruction
		for _, s := range c.attrSites([]*ssa.Function{fn}) {
			if s.guard == "*" {
				keeps = append(keeps, s.at)
			}
		}
		// also an append / call that hands the attribute on (helper keeps it)
		keepBlocks := map[int]bool{}
		for _, k := range keeps {
			keepBlocks[k.Block().Index] = true
		}
		seen, _ := ir.Reach(fn, first, cut)
		// can the all-different path go on (next attribute or success) at all?
		goesOn := func(seen map[int]bool) (bool, string) {
			for _, r := range acceptingReturnsMode(fn, true) {
				if seen[r.Block().Index] {
					return true, c.IPos(r)
				}
			}
			for _, p := range first.Preds {
				if seen[p.Index] && !cut[ir.Edge{From: p.Index, To: first.Index}] {
					return true, "the next attribute"
				}
			}
			// the loop head in front of the comparisons
			for _, b := range fn.Blocks {
				if b.Dominates(first) && b != first {
					for _, p := range b.Preds {
						if seen[p.Index] && first.Dominates(p) {
							return true, "the next attribute"
						}
					}
				}
			}
			return false, ""
		}
		construct := "unknown-attribute"
		if ok, _ := goesOn(seen); !ok {
			c.R.Violf(rule, name(fn), construct, c.Pos(ir.BlockPos(first)), what,
				"when the attribute type equals none of the known ones no path leads to the next attribute or to a successful return: a signature carrying any further signed attribute is refused")
			continue
		}
		if len(keeps) == 0 {
			c.R.Violf(rule, name(fn), construct, c.Pos(ir.BlockPos(first)), what,
				"when the attribute type equals none of the known ones parsing goes on but nothing is stored into the parsed attributes on that path: the attribute is missing from the re-encoding and the signature of every blob carrying one fails to verify")
			continue
		}
		cut2 := map[ir.Edge]bool{}
		for e := range cut {
			cut2[e] = true
		}
		for bi := range keepBlocks {
			for _, p := range fn.Blocks[bi].Preds {
				cut2[ir.Edge{From: p.Index, To: bi}] = true
			}
		}
		if keepBlocks[first.Index] {
			c.R.Okf(rule, name(fn), construct, c.Pos(ir.BlockPos(first)), "an attribute of unknown type is kept on every path")
			continue
		}
		seen2, _ := ir.Reach(fn, first, cut2)
		if ok, where := goesOn(seen2); ok {
			c.R.Violf(rule, name(fn), construct, c.Pos(ir.BlockPos(first)), what,
				"when the attribute type equals none of the known ones there is a path to "+where+" that stores nothing: such an attribute is dropped from the re-encoding")
			continue
		}
		c.R.Okf(rule, name(fn), construct, c.Pos(ir.BlockPos(first)), "an attribute of unknown type is kept on every path that goes on")
	}
	if n == 0 {
		if root := c.FnOpt("pkcs7.ParsePKCS7"); root != nil {
			c.R.Infof(rule, name(root), "unknown-attribute", c.Pos(root.Pos()), "not decided for this shape: no function in the parser tells attribute types apart with ObjectIdentifier.Equal against package-level attribute OIDs (a table or a string switch is not evaluated)")
		}
	}
}

// ---- X1.optional: elements the format makes optional are not insisted on

func (c *Ctx) ruleOptionalElements(rule string) {
	fns := c.pkcs7ParserFuncs(rule)
	if fns == nil {
		return
	}
	what := "an element that PKCS#7 makes OPTIONAL ([0] content, [0] certificates, [0] signed attributes, NULL parameters) is not insisted on: some path accepts the structure without it"
	counts := map[string]int{}
	for _, fn := range fns {
		for _, b := range fn.Blocks {
			for _, i := range b.Instrs {
				r := c.readOf(i)
				if r == nil || !r.hasTag || !(r.tag == 0xa0 || r.tag == 0x05) {
					continue
				}
				tagName := map[int64]string{0xa0: "[0]", 0x05: "NULL"}[r.tag]
				key := ordinalKey(counts, name(fn)+":"+tagName)
				construct := strings.TrimPrefix(key, name(fn)+":")
				if strings.HasPrefix(r.method, "ReadOptional") || strings.HasPrefix(r.method, "SkipOptional") {
					c.R.Okf(rule, name(fn), construct, c.IPos(i), "the "+tagName+" element is read as optional ("+r.method+")")
					continue
				}
				cut := map[ir.Edge]bool{}
				for _, ce := range ir.CondEdges(fn) {
					if ce.Cond == ssa.Value(r.call) && ce.Truth {
						cut[ce.Edge] = true
					}
				}
				if len(cut) == 0 {
					c.R.Infof(rule, name(fn), construct, c.IPos(i), "not decided for this shape: the outcome of the "+tagName+" read is not tested by a branch")
					continue
				}
				seen, _ := ir.Reach(fn, fn.Blocks[0], cut)
				ok := false
				for _, ret := range acceptingReturnsMode(fn, true) {
					if seen[ret.Block().Index] {
						ok = true
					}
				}
				c.R.Check(ok, rule, name(fn), construct, c.IPos(i), what,
					"every successful return of "+name(fn)+" lies behind the success of a mandatory read of the "+tagName+" element: blobs without it (detached content, no embedded certificates, parameters absent) are refused")
			}
		}
	}
}

// ruleAlgorithmParams: NULL parameters present are accepted as well as absent ones.
func (c *Ctx) ruleAlgorithmParams(rule string) {
	fn := c.Fn(rule, "pkcs7.ParseAlgorithmIdentifier")
	if fn == nil {
		return
	}
	what := "an AlgorithmIdentifier is accepted with NULL parameters (OpenSSL, sbsign) as well as without"
	// the Empty() tests that are not behind a successful NULL read
	var nullOK []ir.Edge
	hasNullRead := false
	for _, ce := range ir.CondEdges(fn) {
		if r := c.readOfValue(ce.Cond); r != nil && r.hasTag && r.tag == 0x05 && ce.Truth {
			nullOK = append(nullOK, ce.Edge)
			hasNullRead = true
		}
	}
	instrsOf(fn, func(i ssa.Instruction) {
		if r := c.readOf(i); r != nil && r.hasTag && r.tag == 0x05 {
			hasNullRead = true
		}
	})
	cut := map[ir.Edge]bool{}
	for _, ce := range ir.CondEdges(fn) {
		call, ok := ce.Cond.(*ssa.Call)
		if !ok || ir.CallID(call) != cbPkg+".String.Empty" || !ce.Truth {
			continue
		}
		behind := false
		for _, e := range nullOK {
			if ir.EdgeDominates(fn, e, fn.Blocks[ce.Edge.From]) {
				behind = true
			}
		}
		if !behind {
			cut[ce.Edge] = true
		}
	}
	seen, _ := ir.Reach(fn, fn.Blocks[0], cut)
	ok := false
	for _, ret := range acceptingReturnsMode(fn, true) {
		if seen[ret.Block().Index] {
			ok = true
		}
	}
	detail := "every successful return lies behind 'nothing follows the algorithm OID': identifiers that carry NULL parameters are refused"
	if !hasNullRead && ok {
		c.R.Okf(rule, name(fn), "NULL-present", c.Pos(fn.Pos()), "parameters are not looked at; an identifier with NULL parameters is accepted")
		return
	}
	c.R.Check(ok, rule, name(fn), "NULL-present", c.Pos(fn.Pos()), what, detail)
}

func (c *Ctx) readOfValue(v ssa.Value) *cbRead {
	if call, ok := v.(*ssa.Call); ok {
		return c.readOf(call)
	}
	return nil
}

// ruleOuterOptional: a bare SignedData (no ContentInfo around it, as sbvarsign
// and the UEFI descriptors carry it) is accepted as well as a wrapped one.
func (c *Ctx) ruleOuterOptional(rule string) {
	fn := c.Fn(rule, "pkcs7.ParsePKCS7")
	if fn == nil {
		return
	}
	var calls []*ssa.Call
	instrsOf(fn, func(i ssa.Instruction) {
		if call, ok := i.(*ssa.Call); ok && ir.CallID(call) == pkcsPkg+".ParseContentInfo" && len(call.Call.Args) == 1 && holdsParam(fn, call.Call.Args[0]) {
			calls = append(calls, call)
		}
	})
	if len(calls) == 0 {
		c.R.Infof(rule, name(fn), "outer-ContentInfo", c.Pos(fn.Pos()), "not decided for this shape: ParsePKCS7 does not call ParseContentInfo itself")
		return
	}
	cut := map[ir.Edge]bool{}
	for _, call := range calls {
		for _, p := range call.Block().Preds {
			cut[ir.Edge{From: p.Index, To: call.Block().Index}] = true
		}
		if call.Block() == fn.Blocks[0] {
			c.R.Violf(rule, name(fn), "outer-ContentInfo", c.IPos(call), "a SignedData without a ContentInfo around it is accepted", "ParseContentInfo is called unconditionally")
			return
		}
	}
	seen, _ := ir.Reach(fn, fn.Blocks[0], cut)
	ok := false
	for _, ret := range acceptingReturnsMode(fn, true) {
		if seen[ret.Block().Index] {
			ok = true
		}
	}
	c.R.Check(ok, rule, name(fn), "outer-ContentInfo", c.IPos(calls[0]), "a SignedData without a ContentInfo around it (sbvarsign, authentication descriptors) is accepted as well as a wrapped one",
		"every successful return of ParsePKCS7 lies behind a call of ParseContentInfo: a bare SignedData is refused")
}

// ---- A.lossless: nothing consumed from the signed attributes is dropped

// ruleAttrLossless. The verifier checks the signature over a re-encoding of the
// parsed attributes, so whatever the parser consumes from the signed attributes
// and drops can be added to a valid blob unnoticed. Two conditions:
// (rest) after the last element read from a structure inside the signed
// attributes the structure is looked at again (Empty, a further read, kept
// whole) before parsing goes on - and a structure is not overwritten by an
// element read from itself while it may hold more; (once) a single-valued field
// filled under an attribute type inside the loop over the attributes is filled
// only after a test that it was not filled before.
func (c *Ctx) ruleAttrLossless(rule string) {
	fns := c.pkcs7ParserFuncs(rule)
	if fns == nil {
		return
	}
	sites := c.attrSites(fns)
	inAttrFn := map[*ssa.Function]bool{}
	for _, s := range sites {
		inAttrFn[s.fn] = true
	}
	if len(inAttrFn) == 0 {
		if root := c.FnOpt("pkcs7.ParsePKCS7"); root != nil {
			c.R.Infof(rule, name(root), "signed-attributes", c.Pos(root.Pos()), "not decided for this shape: no function fills the parsed attributes")
		}
		return
	}
	whatRest := "inside the signed attributes every structure the parser cuts out is accounted for to the end (the signature is checked over a re-encoding of what was kept: what is dropped can be added to a valid blob unnoticed)"
	counts := map[string]int{}
	var order []*ssa.Function
	for _, fn := range fns {
		if inAttrFn[fn] {
			order = append(order, fn)
		}
	}
	for _, fn := range order {
		// the signed region: the string filled by the [0] read, and every string cut out of a string of the region
		region := []ssa.Value{}
		inRegion := func(a ssa.Value) bool {
			for _, r := range region {
				if sameCell(r, a) {
					return true
				}
			}
			return false
		}
		var reads []*cbRead
		instrsOf(fn, func(i ssa.Instruction) {
			if r := c.readOf(i); r != nil {
				reads = append(reads, r)
			}
		})
		for _, r := range reads {
			if r.hasTag && r.tag == 0xa0 {
				for _, o := range r.outs {
					if ir.NamedTypeID(deref(o.Type())) == cbPkg+".String" && !inRegion(o) {
						region = append(region, o)
					}
				}
			}
		}
		if len(region) == 0 {
			// a helper that receives the attribute string: its string parameters
			for _, p := range fn.Params {
				if ir.NamedTypeID(deref(p.Type())) == cbPkg+".String" {
					region = append(region, p)
				}
			}
		}
		for changed := true; changed; {
			changed = false
			for _, r := range reads {
				if !inRegion(r.recv) {
					continue
				}
				for _, o := range r.outs {
					if ir.NamedTypeID(deref(o.Type())) == cbPkg+".String" && !inRegion(o) {
						region = append(region, o)
						changed = true
					}
				}
			}
		}
		for _, r := range reads {
			if !inRegion(r.recv) {
				continue
			}
			key := ordinalKey(counts, name(fn)+":rest:"+r.method)
			construct := strings.TrimPrefix(key, name(fn)+":")
			// the string is replaced by an element read from itself
			self := false
			for _, o := range r.outs {
				if sameCell(o, r.recv) {
					self = true
				}
			}
			if self {
				c.R.Violf(rule, name(fn), construct, c.IPos(r.call), whatRest,
					"the string is overwritten with the element read from it ("+r.method+"): whatever follows that element in the enclosing structure is dropped without a look")
				continue
			}
			// from the success of this read: is a successful return, the next round of a loop or an
			// overwrite of the string reachable without a look at the string?
			b := r.call.Block()
			looked := false
			after := false
			for _, j := range b.Instrs {
				if j == ssa.Instruction(r.call) {
					after = true
					continue
				}
				if after && c.looksAt(j, r.recv) {
					looked = true
				}
			}
			if looked {
				c.R.Okf(rule, name(fn), construct, c.IPos(r.call), "the string is looked at again after this read")
				continue
			}
			blocked := map[int]bool{}
			whole := map[ssa.Instruction]bool{}
			for _, w := range wholeUses(fn, r.recv) {
				whole[w] = true
			}
			for _, bb := range fn.Blocks {
				if bb == b {
					continue
				}
				for _, j := range bb.Instrs {
					if c.looksAt(j, r.recv) || whole[j] {
						blocked[bb.Index] = true
					}
				}
			}
			// a look earlier in the read's own block guards the way back into it (a loop `for !s.Empty()`)
			selfLook := false
			for _, j := range b.Instrs {
				if j == ssa.Instruction(r.call) {
					break
				}
				if c.looksAt(j, r.recv) {
					selfLook = true
				}
			}
			cut := map[ir.Edge]bool{}
			for bi := range blocked {
				for _, p := range fn.Blocks[bi].Preds {
					cut[ir.Edge{From: p.Index, To: bi}] = true
				}
			}
			if selfLook {
				for _, p := range b.Preds {
					cut[ir.Edge{From: p.Index, To: b.Index}] = true
				}
			}
			for _, ce := range ir.CondEdges(fn) {
				if ce.Cond == ssa.Value(r.call) && !ce.Truth {
					cut[ce.Edge] = true
				}
			}
			seen, _ := ir.Reach(fn, b, cut)
			bad := ""
			for _, ret := range acceptingReturnsMode(fn, true) {
				if seen[ret.Block().Index] {
					bad = "the successful return at " + c.IPos(ret)
				}
			}
			if bad == "" && !selfLook {
				for _, p := range b.Preds {
					if seen[p.Index] && !cut[ir.Edge{From: p.Index, To: b.Index}] {
						bad = "the next round of the loop"
					}
				}
			}
			if bad == "" {
				// the enclosing loop head (the next attribute) reached without a look
				for _, hb := range fn.Blocks {
					if hb != b && hb.Dominates(b) && seen[hb.Index] {
						bad = "the next attribute (loop head at " + c.Pos(ir.BlockPos(hb)) + ")"
						break
					}
				}
			}
			c.R.Check(bad == "", rule, name(fn), construct, c.IPos(r.call), whatRest,
				"after this read ("+r.method+", "+r.kind()+") "+bad+" is reached without the string being looked at again (Empty, another read, or kept whole): further elements in it - a second value in an attribute's SET, an element behind the value SET - are dropped, and a blob carrying them verifies like the original")
		}
	}
	// (once) single-valued fields filled in the loop over the attributes
	whatOnce := "a single-valued field of the parsed attributes is not filled twice: a repeated attribute is refused, not folded into one"
	done := map[string]bool{}
	for _, s := range sites {
		if strings.Contains(s.field, ".") || s.kind == "LIST" || s.guard == "" || s.guard == "*" || s.guard == "?" {
			continue
		}
		if !inLoop(s.fn, s.at.Block()) {
			continue
		}
		key := name(s.fn) + ":once:" + s.field
		if done[key] {
			continue
		}
		done[key] = true
		// a test, under the same attribute type, that depends on memory written under that type
		ok := false
		var guardEdge *ir.CondEdge
		for _, ce := range ir.DominatingConds(s.fn, s.at.Block()) {
			ce := ce
			if call, isC := ce.Cond.(*ssa.Call); isC && ir.CallID(call) == oidEqualID && ce.Truth {
				guardEdge = &ce
			}
		}
		written := map[string]bool{s.field: true}
		instrsOf(s.fn, func(i ssa.Instruction) {
			st, isS := i.(*ssa.Store)
			if !isS || guardEdge == nil || !ir.EdgeDominates(s.fn, guardEdge.Edge, st.Block()) {
				return
			}
			if p := ir.AddrPath(st.Addr); p != "" {
				written["@"+p] = true
			}
		})
		instrsOf(s.fn, func(i ssa.Instruction) {
			if mu, isM := i.(*ssa.MapUpdate); isM && guardEdge != nil && ir.EdgeDominates(s.fn, guardEdge.Edge, mu.Block()) {
				written["@map"] = true
			}
		})
		for _, ce := range ir.DominatingConds(s.fn, s.at.Block()) {
			if c.condReadsWritten(s.fn, ce.Cond, written, 0) {
				ok = true
			}
			if guardEdge != nil && flagSetUnder(s.fn, ce.Cond, guardEdge.Edge, map[ssa.Value]bool{}, 0) {
				ok = true
			}
		}
		c.R.Check(ok, rule, name(s.fn), "once:"+s.field, c.IPos(s.at), whatOnce,
			"the field "+s.field+" is filled under attribute type "+s.guard+" inside the loop over the attributes with no test that it was filled before: of two "+s.guard+" attributes the last one wins and the other is dropped from the re-encoding, so a blob with a duplicated (or a decoy) attribute verifies like the original")
	}
}

func deref(t types.Type) types.Type {
	if p, ok := t.Underlying().(*types.Pointer); ok {
		return p.Elem()
	}
	return t
}

// condReadsWritten: the condition depends on a load of a field / cell / map that
// is written under the attribute type (a "seen" test).
func (c *Ctx) condReadsWritten(fn *ssa.Function, v ssa.Value, written map[string]bool, depth int) bool {
	if depth > 8 || v == nil {
		return false
	}
	switch x := v.(type) {
	case *ssa.UnOp:
		if x.Op == token.MUL {
			if f := attrField(x.X); f != "" && written[f] {
				return true
			}
			if p := ir.AddrPath(x.X); p != "" && written["@"+p] {
				return true
			}
			return false
		}
		return c.condReadsWritten(fn, x.X, written, depth+1)
	case *ssa.BinOp:
		return c.condReadsWritten(fn, x.X, written, depth+1) || c.condReadsWritten(fn, x.Y, written, depth+1)
	case *ssa.Lookup:
		return written["@map"]
	case *ssa.Extract:
		return c.condReadsWritten(fn, x.Tuple, written, depth+1)
	case *ssa.Call:
		for _, a := range ir.CallArgs(x) {
			if c.condReadsWritten(fn, a, written, depth+1) {
				return true
			}
		}
		return false
	case *ssa.Phi:
		for _, e := range x.Edges {
			if c.condReadsWritten(fn, e, written, depth+1) {
				return true
			}
		}
	case *ssa.Convert:
		return c.condReadsWritten(fn, x.X, written, depth+1)
	case *ssa.ChangeType:
		return c.condReadsWritten(fn, x.X, written, depth+1)
	case *ssa.Field:
		return c.condReadsWritten(fn, x.X, written, depth+1)
	}
	return false
}

// holdsParam: the string at addr is (initially) the function's own input: some
// store into it takes a conversion of a parameter.
func holdsParam(fn *ssa.Function, addr ssa.Value) bool {
	found := false
	instrsOf(fn, func(i ssa.Instruction) {
		st, ok := i.(*ssa.Store)
		if !ok || !sameCell(st.Addr, addr) {
			return
		}
		if _, isP := ir.StripConv(st.Val).(*ssa.Parameter); isP {
			found = true
		}
	})
	if p, isP := addr.(*ssa.Parameter); isP && p.Parent() == fn {
		found = true
	}
	return found
}

// flagSetUnder: v is (through loop-carried phis) a local variable that receives
// a value in the region the edge dominates - a "seen" flag or counter that the
// code under this attribute type sets.
func flagSetUnder(fn *ssa.Function, v ssa.Value, e ir.Edge, seen map[ssa.Value]bool, depth int) bool {
	if depth > 12 || v == nil || seen[v] {
		return false
	}
	seen[v] = true
	switch x := v.(type) {
	case *ssa.Phi:
		for k, ev := range x.Edges {
			if _, isPhi := ev.(*ssa.Phi); isPhi {
				if flagSetUnder(fn, ev, e, seen, depth+1) {
					return true
				}
				continue
			}
			if k < len(x.Block().Preds) && ir.EdgeDominates(fn, e, x.Block().Preds[k]) {
				return true
			}
		}
	case *ssa.UnOp:
		if x.Op != token.MUL {
			return flagSetUnder(fn, x.X, e, seen, depth+1)
		}
	case *ssa.BinOp:
		return flagSetUnder(fn, x.X, e, seen, depth+1) || flagSetUnder(fn, x.Y, e, seen, depth+1)
	}
	return false
}
