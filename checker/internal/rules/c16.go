package rules

import (
	"fmt"
	"go/constant"
	"go/token"
	"go/types"
	"regexp"
	"sort"
	"strings"

	"golang.org/x/tools/go/ssa"

	"verif/checker/internal/ir"
	"verif/checker/internal/report"
)

// C16 - signatures made by other tools are parsed and verified. What other
// programs emit is run-time data; what the source does fix is (a) which
// elements of a SignedData the parser insists on although the format makes them
// optional, (b) whether an attribute the parser does not know is tolerated and
// kept, and (c) whether the re-encoding of the signed attributes (which is what
// the signature is checked over) can reproduce what was parsed: every parsed
// field is emitted again, under the same attribute type, with the same ASN.1
// primitive, and nothing that was consumed from the signed attributes is thrown
// away. (c) is also a condition of C04/C02 ("over the signed attributes exactly
// as they appear in the blob"): whatever the parser drops can be added to a
// valid blob without the verifier noticing.

func init() {
	Registry["C16"] = checkC16
	// "the signed message digest equals the SHA-256 of that content" (C04, C02): which octets are hashed
	for _, id := range []string{"C04", "C02"} {
		Extras[id] = append(Extras[id], func(c *Ctx) { c.ruleContentValue("A.content-value") })
	}
	// the attribute encoder is the signer's too (C05)
	Extras["C05"] = append(Extras["C05"], func(c *Ctx) {
		c.ruleLoopAlias("X6.distinct", func(f *ssa.Function) bool { return strings.Contains(name(f), "pkcs7.") })
	})
}

const oidEqualID = "encoding/asn1.ObjectIdentifier.Equal"

func checkC16(c *Ctx) {
	c.ruleOptionalElements("X1.optional")
	c.ruleAlgorithmParams("X1.params")
	c.ruleOuterOptional("X4.outer")
	c.ruleUnknownAttrs("X2.unknown")
	c.ruleAttrPair("X3.pair")
	c.ruleAttrLossless("A.lossless")
	c.ruleParamsCompare("X1.params-compare")
	c.ruleOptionalAbsent("X1.absent")
	c.ruleUnsignedTail("X5.unsigned-tail")
	c.ruleContentValue("A.content-value")
	// one closure per attribute kept for later must not share the loop variable
	c.ruleLoopAlias("X6.distinct", func(f *ssa.Function) bool { return strings.Contains(name(f), "pkcs7.") })
	c.R.Floor("X6.distinct", 1)
	c.R.Floor("X1.optional", 1)
	c.R.Floor("X1.params", 1)
	c.R.Floor("X4.outer", 1)
	c.R.Floor("X2.unknown", 1)
	c.R.Floor("X3.pair", 1)
	c.R.Floor("A.lossless", 1)
	// what is verified is the attribute encoder's output for the parsed attributes, by the caller's certificate
	e := c.accept()
	if fn := c.Fn("A", "pkcs7.(*PKCS7).Verify"); fn != nil {
		e.Require("A", fn, pkcs7Facts)
	}
	c.R.Floor("A.signature", 1)
}

// ---- cryptobyte reads

type cbRead struct {
	call   *ssa.Call
	method string    // ReadASN1, ReadOptionalASN1, ReadASN1ObjectIdentifier, ...
	recv   ssa.Value // address of the String that is read from
	outs   []ssa.Value
	tag    int64
	hasTag bool
}

// readOf decodes a call of a consuming method of cryptobyte.String.
func (c *Ctx) readOf(i ssa.Instruction) *cbRead {
	call, ok := i.(*ssa.Call)
	if !ok {
		return nil
	}
	id := ir.CallID(call)
	if !strings.HasPrefix(id, cbPkg+".String.") {
		return nil
	}
	m := strings.TrimPrefix(id, cbPkg+".String.")
	if !(strings.HasPrefix(m, "Read") || strings.HasPrefix(m, "Skip") || strings.HasPrefix(m, "CopyBytes")) {
		return nil
	}
	args := call.Call.Args
	if len(args) == 0 {
		return nil
	}
	r := &cbRead{call: call, method: m, recv: args[0]}
	for _, a := range args[1:] {
		if _, isPtr := a.Type().Underlying().(*types.Pointer); isPtr {
			r.outs = append(r.outs, a)
			continue
		}
		if ir.NamedTypeID(a.Type()) == cbPkg+"/asn1.Tag" {
			if n, ok := c.tagValue(a, 0); ok {
				r.tag, r.hasTag = n, true
			}
		}
	}
	return r
}

// readsOf: like readOf, and also a call of a method value of a string
// (rd := s.ReadASN1UTCTime; if cond { rd = s.ReadASN1GeneralizedTime }; rd(&x)):
// one read per method the called value may be bound to.
func (c *Ctx) readsOf(i ssa.Instruction) []*cbRead {
	if r := c.readOf(i); r != nil {
		return []*cbRead{r}
	}
	call, ok := i.(*ssa.Call)
	if !ok || call.Call.IsInvoke() || ir.Callee(call) != nil {
		return nil
	}
	var out []*cbRead
	seen := map[ssa.Value]bool{}
	var walk func(v ssa.Value, depth int)
	walk = func(v ssa.Value, depth int) {
		if depth > 6 || v == nil || seen[v] {
			return
		}
		seen[v] = true
		switch x := v.(type) {
		case *ssa.Phi:
			for _, e := range x.Edges {
				walk(e, depth+1)
			}
		case *ssa.MakeClosure:
			fn, _ := x.Fn.(*ssa.Function)
			if fn == nil || len(x.Bindings) != 1 || !strings.HasPrefix(fn.Synthetic, "bound method wrapper") {
				return
			}
			obj, _ := fn.Object().(*types.Func)
			if obj == nil || obj.Pkg() == nil || obj.Pkg().Path() != cbPkg {
				return
			}
			m := obj.Name()
			if !(strings.HasPrefix(m, "Read") || strings.HasPrefix(m, "Skip")) {
				return
			}
			r := &cbRead{call: call, method: m, recv: x.Bindings[0]}
			for _, a := range call.Call.Args {
				if _, isPtr := a.Type().Underlying().(*types.Pointer); isPtr {
					r.outs = append(r.outs, a)
				} else if ir.NamedTypeID(a.Type()) == cbPkg+"/asn1.Tag" {
					if n, ok := c.tagValue(a, 0); ok {
						r.tag, r.hasTag = n, true
					}
				}
			}
			out = append(out, r)
		}
	}
	walk(call.Call.Value, 0)
	return out
}

// kind names the ASN.1 primitive a read takes off the string.
func (r *cbRead) kind() string {
	switch r.method {
	case "ReadASN1ObjectIdentifier":
		return "OID"
	case "ReadASN1UTCTime":
		return "UTCTIME"
	case "ReadASN1GeneralizedTime":
		return "GENTIME"
	case "ReadASN1Integer", "ReadASN1Int64WithTag", "ReadASN1Enum":
		return "INT"
	case "ReadASN1Boolean":
		return "BOOL"
	case "ReadASN1BitString", "ReadASN1BitStringAsBytes":
		return "BITSTRING"
	case "ReadASN1", "ReadASN1Bytes", "ReadOptionalASN1", "ReadOptionalASN1OctetString":
		if r.method == "ReadOptionalASN1OctetString" || r.hasTag && r.tag == 4 {
			return "OCTET"
		}
		if r.hasTag {
			return fmt.Sprintf("T%#x", r.tag)
		}
	case "ReadASN1Element":
		if r.hasTag {
			return fmt.Sprintf("ELEM%#x", r.tag)
		}
	}
	return "?"
}

// sameCell: two address values name the same local string / field.
func sameCell(a, b ssa.Value) bool {
	if a == b {
		return true
	}
	pa, pb := ir.AddrPath(a), ir.AddrPath(b)
	return pa != "" && pa == pb
}

// looksAt: instruction i reads from, tests or uses as a whole the string at addr.
func (c *Ctx) looksAt(i ssa.Instruction, addr ssa.Value) bool {
	switch x := i.(type) {
	case ssa.CallInstruction:
		id := ir.CallID(x)
		args := ir.CallArgs(x)
		if strings.HasPrefix(id, cbPkg+".String.") && len(args) > 0 {
			if sameCell(args[0], addr) {
				return true
			}
			if ld, ok := args[0].(*ssa.UnOp); ok && ld.Op == token.MUL && sameCell(ld.X, addr) {
				return true
			}
			return false
		}
		// the string handed to other code (by address or by value)
		for _, a := range args {
			if sameCell(a, addr) {
				return true
			}
		}
	}
	return false
}

// wholeUse: a load of the string at addr whose value is kept (stored, returned,
// converted and passed on) - the rest of the string is not dropped but handed on.
func wholeUses(fn *ssa.Function, addr ssa.Value) []ssa.Instruction {
	var out []ssa.Instruction
	instrsOf(fn, func(i ssa.Instruction) {
		ld, ok := i.(*ssa.UnOp)
		if !ok || ld.Op != token.MUL || !sameCell(ld.X, addr) {
			return
		}
		for _, u := range *ld.Referrers() {
			switch y := u.(type) {
			case *ssa.Store:
				if y.Val == ssa.Value(ld) {
					out = append(out, ld)
				}
			case *ssa.Return, *ssa.ChangeType, *ssa.Convert, *ssa.MakeInterface, *ssa.Slice:
				out = append(out, ld)
			case ssa.CallInstruction:
				if !strings.HasPrefix(ir.CallID(y), cbPkg+".String.") {
					out = append(out, ld)
				}
			}
		}
	})
	return out
}

// pkcs7ParserFuncs: the functions of package pkcs7 that ParsePKCS7 reaches.
func (c *Ctx) pkcs7ParserFuncs(rule string) []*ssa.Function {
	root := c.Fn(rule, "pkcs7.ParsePKCS7")
	if root == nil {
		return nil
	}
	// through function values too (parsers handed to a generic field reader, method values)
	out, _ := c.valueCone(root)
	return out
}

const (
	attrType    = pkcsPkg + ".Attributes"
	unparsedTyp = pkcsPkg + ".unparsedAttribute"
)

// attrField: the field of pkcs7.Attributes (or of the element type of its list
// of unparsed attributes) that an address denotes, "" otherwise.
func attrField(addr ssa.Value) string {
	id := ir.FieldID(addr)
	if strings.HasPrefix(id, attrType+".") {
		return strings.TrimPrefix(id, attrType+".")
	}
	if strings.HasPrefix(id, pkcsPkg+".") && !strings.HasPrefix(id, pkcsPkg+".PKCS7.") && !strings.HasPrefix(id, pkcsPkg+".signerinfo.") &&
		!strings.HasPrefix(id, pkcsPkg+".issuerAndSerialNumber.") {
		// the element type of Attributes' list of unparsed attributes, whatever it is called
		if fa, ok := addr.(*ssa.FieldAddr); ok {
			if isUnparsedElem(fa.X.Type()) {
				return "Other." + id[strings.LastIndex(id, ".")+1:]
			}
		}
	}
	return ""
}

func isUnparsedElem(t types.Type) bool {
	if p, ok := t.Underlying().(*types.Pointer); ok {
		t = p.Elem()
	}
	n, ok := t.(*types.Named)
	if !ok || n.Obj().Pkg() == nil || n.Obj().Pkg().Path() != pkcsPkg {
		return false
	}
	// is it the element type of a slice field of Attributes?
	at := n.Obj().Pkg().Scope().Lookup("Attributes")
	if at == nil {
		return false
	}
	st, ok := at.Type().Underlying().(*types.Struct)
	if !ok {
		return false
	}
	for k := 0; k < st.NumFields(); k++ {
		if sl, ok := st.Field(k).Type().Underlying().(*types.Slice); ok {
			el := sl.Elem()
			if p, ok := el.Underlying().(*types.Pointer); ok {
				el = p.Elem()
			}
			if types.Identical(el, n) {
				return true
			}
		}
	}
	return false
}

// oidGuards: the attribute-type comparisons (oid.Equal(<package variable>)) that
// dominate block b, as (name of the variable, outcome).
func oidGuards(fn *ssa.Function, b *ssa.BasicBlock) (pos []string, neg []string) {
	for _, ce := range ir.DominatingConds(fn, b) {
		call, ok := ce.Cond.(*ssa.Call)
		if !ok || ir.CallID(call) != oidEqualID {
			continue
		}
		g := ""
		for _, a := range ir.CallArgs(call) {
			if ld, ok := ir.StripConv(a).(*ssa.UnOp); ok && ld.Op == token.MUL {
				if gl, ok := ld.X.(*ssa.Global); ok {
					g = gl.Name()
				}
			}
		}
		if g == "" {
			continue
		}
		if ce.Truth {
			pos = append(pos, g)
		} else {
			neg = append(neg, g)
		}
	}
	return
}

type attrSite struct {
	fn    *ssa.Function
	at    ssa.Instruction
	field string
	kind  string
	guard string // attribute-type variable on whose equality the site depends; "*" = none of the known ones
}

// valueKind: what a stored value was read as. v is followed to the out-parameter
// cell of a read in the same function, or recognised as the string itself.
func (c *Ctx) valueKind(fn *ssa.Function, v ssa.Value, depth int) string {
	if depth > 6 {
		return "?"
	}
	switch x := v.(type) {
	case *ssa.ChangeType:
		return c.valueKind(fn, x.X, depth+1)
	case *ssa.Convert:
		return c.valueKind(fn, x.X, depth+1)
	case *ssa.MakeInterface:
		return c.valueKind(fn, x.X, depth+1)
	case *ssa.Slice:
		return c.valueKind(fn, x.X, depth+1)
	case *ssa.Phi:
		k := ""
		for _, e := range x.Edges {
			ek := c.valueKind(fn, e, depth+1)
			if k == "" {
				k = ek
			} else if k != ek {
				return "?"
			}
		}
		return k
	case *ssa.UnOp:
		if x.Op != token.MUL {
			return "?"
		}
		kinds := map[string]bool{}
		isString := ir.NamedTypeID(x.Type()) == cbPkg+".String"
		recvOnly := true
		instrsOf(fn, func(i ssa.Instruction) {
			r := c.readOf(i)
			if r == nil {
				return
			}
			for _, o := range r.outs {
				if sameCell(o, x.X) {
					kinds[r.kind()] = true
					if !sameCell(r.recv, x.X) {
						recvOnly = false
					}
				}
			}
		})
		isCursor := false
		instrsOf(fn, func(i ssa.Instruction) {
			if r := c.readOf(i); r != nil && sameCell(r.recv, x.X) {
				isCursor = true
			}
		})
		if isString && (isCursor || len(kinds) == 0) {
			// a string that is itself being parsed, stored as it is: whatever is left of it
			return "RAW"
		}
		_ = recvOnly
		if len(kinds) == 1 {
			for k := range kinds {
				return k
			}
		}
		return "?"
	}
	return "?"
}

// attrSites: where the parser fills fields of the parsed attributes.
func (c *Ctx) attrSites(fns []*ssa.Function) []attrSite {
	var out []attrSite
	for _, fn := range fns {
		fn := fn
		instrsOf(fn, func(i ssa.Instruction) {
			var field, kind string
			switch x := i.(type) {
			case *ssa.Store:
				field = attrField(x.Addr)
				if field == "" {
					return
				}
				if _, isSlice := x.Val.Type().Underlying().(*types.Slice); isSlice && !strings.Contains(field, ".") {
					if _, isBytes := x.Val.Type().Underlying().(*types.Slice).Elem().Underlying().(*types.Basic); !isBytes {
						kind = "LIST"
					}
				}
				if kind == "" {
					kind = c.valueKind(fn, x.Val, 0)
				}
			case *ssa.Call:
				rs := c.readsOf(x)
				if len(rs) == 0 {
					return
				}
				for _, r := range rs[1:] {
					for _, o := range r.outs {
						if f := attrField(o); f != "" {
							pos, neg := oidGuards(fn, i.Block())
							g := ""
							switch {
							case len(pos) == 1:
								g = pos[0]
							case len(pos) == 0 && len(neg) > 0:
								g = "*"
							case len(pos) > 1:
								g = "?"
							}
							out = append(out, attrSite{fn, i, f, r.kind(), g})
						}
					}
				}
				for _, o := range rs[0].outs {
					if f := attrField(o); f != "" {
						field, kind = f, rs[0].kind()
					}
				}
				if field == "" {
					return
				}
			default:
				return
			}
			pos, neg := oidGuards(fn, i.Block())
			g := ""
			switch {
			case len(pos) == 1:
				g = pos[0]
			case len(pos) == 0 && len(neg) > 0:
				g = "*"
			case len(pos) > 1:
				g = "?"
			}
			out = append(out, attrSite{fn, i, field, kind, g})
		})
	}
	return out
}

// ---- X3.pair: what the parser fills is what the encoder emits

var attrElemRe = regexp.MustCompile(`T0x30\{OID\(([^()]*)\) T0x31\{([A-Z]+)(?:\(([^()]*)\))?\}\}`)

func compatKinds(read, write string) (ok, known bool) {
	if read == "?" || write == "?" {
		return false, false
	}
	switch write {
	case "BYTES":
		return read == "RAW", true
	case "BIGINT", "INT":
		return read == "INT", true
	}
	return read == write, true
}

func (c *Ctx) ruleAttrPair(rule string) {
	enc := c.FnOpt("pkcs7.(*Attributes).Marshal")
	if enc == nil {
		enc = c.FnOpt("pkcs7.(Attributes).Marshal")
	}
	if enc == nil {
		c.R.Undecf(rule, "pkcs7.(*Attributes).Marshal", "anchor", "-", "the attribute encoder must resolve", "method not found")
		return
	}
	fns := c.pkcs7ParserFuncs(rule)
	if fns == nil {
		return
	}
	sites := c.attrSites(fns)
	what := "every field the attribute parser fills is emitted again by the attribute encoder, under the same attribute type and with the same ASN.1 primitive (the signature is checked over that re-encoding)"
	if len(sites) == 0 {
		c.R.Infof(rule, name(enc), "parser", c.Pos(enc.Pos()), "not decided for this shape: no store into a field of the parsed attributes found in the functions ParsePKCS7 reaches")
		return
	}
	dm := c.deepViewOf(enc, 5)
	shape := normaliseShape(c.topBuilderShape(dm))
	type elem struct{ oid, kind, field string }
	var elems []elem
	for _, m := range attrElemRe.FindAllStringSubmatch(shape, -1) {
		elems = append(elems, elem{m[1], m[2], m[3]})
	}
	if len(elems) == 0 || strings.Contains(shape, unknownShape) {
		c.R.Infof(rule, name(enc), "encoder", c.Pos(enc.Pos()), "not decided for this shape: the attribute encoder's output is not resolved into attribute elements ("+shape+")")
		// the field-level agreement below does not need the shape
	}
	// field level: parsed fields are read by the encoder's cone
	readByEnc := map[string]bool{}
	encCone, encOpaque := c.valueCone(enc)
	for _, g := range encCone {
		for _, f := range []*ssa.Function{g} {
			instrsOf(f, func(i ssa.Instruction) {
				switch x := i.(type) {
				case *ssa.FieldAddr:
					if f := attrField(x); f != "" && hasLoad(x) {
						readByEnc[f] = true
					}
				case *ssa.Field:
					if id := ir.FieldID(x); strings.HasPrefix(id, attrType+".") {
						readByEnc[strings.TrimPrefix(id, attrType+".")] = true
					}
				}
			})
		}
	}
	byField := map[string][]attrSite{}
	var fields []string
	for _, s := range sites {
		if _, seen := byField[s.field]; !seen {
			fields = append(fields, s.field)
		}
		byField[s.field] = append(byField[s.field], s)
	}
	sort.Strings(fields)
	isGlobal := func(n string) bool {
		return enc.Pkg != nil && enc.Pkg.Pkg.Scope().Lookup(n) != nil && n != ""
	}
	for _, f := range fields {
		ss := byField[f]
		at := ss[0]
		construct := "field:" + f
		if !readByEnc[f] && encOpaque {
			c.R.Infof(rule, name(at.fn), construct, c.IPos(at.at), "not decided for this shape: the attribute encoder calls through values the call graph does not resolve; whether it reads "+f+" is not known")
			continue
		}
		if !readByEnc[f] {
			c.R.Violf(rule, name(at.fn), construct, c.IPos(at.at), what,
				"the parser fills "+f+" but nothing the attribute encoder reaches reads it: what was parsed into it is missing from the bytes the signature is checked over")
			continue
		}
		if len(elems) == 0 {
			c.R.Okf(rule, name(at.fn), construct, c.IPos(at.at), "the parsed field "+f+" is read by the attribute encoder")
			continue
		}
		leaf := f[strings.LastIndex(f, ".")+1:]
		// the wire forms under which the parser fills the field, per attribute type
		kindsBy := map[string]map[string]bool{}
		for _, s := range ss {
			if kindsBy[s.guard] == nil {
				kindsBy[s.guard] = map[string]bool{}
			}
			kindsBy[s.guard][s.kind] = true
		}
		var bad, undecided []string
		for g, ks := range kindsBy {
			var kl []string
			for k := range ks {
				kl = append(kl, k)
			}
			sort.Strings(kl)
			if len(kl) > 1 && !ks["?"] && !ks["LIST"] {
				bad = append(bad, fmt.Sprintf("under %s the field is filled from different wire forms (%s): the parsed value does not say which one was in the blob, so the re-encoding cannot reproduce it", g, strings.Join(kl, ", ")))
				continue
			}
			k := kl[0]
			if k == "LIST" {
				continue
			}
			// the encoder elements that emit this field
			var es []elem
			for _, e := range elems {
				if e.field == leaf || e.field == "" && (e.kind == "UTCTIME" || e.kind == "GENTIME") && strings.Contains(strings.ToLower(leaf), "time") {
					es = append(es, e)
				} else if e.oid == leaf && !isGlobal(e.oid) {
					// the field is emitted as the attribute's type
					es = append(es, elem{"", "OID", leaf})
				}
			}
			if len(es) == 0 {
				undecided = append(undecided, "no element of the encoder's output is attributed to "+leaf)
				continue
			}
			for _, e := range es {
				if g != "" && g != "*" && g != "?" && isGlobal(e.oid) && e.oid != g {
					bad = append(bad, fmt.Sprintf("parsed under attribute type %s, emitted under %s", g, e.oid))
				}
				if ok, known := compatKinds(k, e.kind); known && !ok {
					bad = append(bad, fmt.Sprintf("parsed as %s, emitted as %s", k, e.kind))
				} else if !known {
					undecided = append(undecided, fmt.Sprintf("wire form not resolved (parsed as %s, emitted as %s)", k, e.kind))
				}
			}
		}
		sort.Strings(bad)
		switch {
		case len(bad) > 0:
			// both wire forms were resolved to reads of the string (also through method
			// values): the finding does not depend on a construct the evaluators do not model
			hard := false
			for _, b := range bad {
				if strings.Contains(b, "different wire forms") {
					hard = true
				}
			}
			c.R.Add(report.Obligation{Rule: rule, Key: rule + "@" + name(at.fn) + ":" + construct, Func: name(at.fn), Pos: c.IPos(at.at), What: what,
				Status: report.Violation, Detail: f + ": " + strings.Join(bad, "; "), Hard: hard})
		case len(undecided) > 0:
			c.R.Infof(rule, name(at.fn), construct, c.IPos(at.at), "not decided for this shape: "+f+": "+strings.Join(undecided, "; "))
		default:
			c.R.Okf(rule, name(at.fn), construct, c.IPos(at.at), "the parsed field "+f+" is emitted by the attribute encoder under the same attribute type and primitive")
		}
	}
}

func hasLoad(addr ssa.Value) bool {
	refs := addr.Referrers()
	if refs == nil {
		return false
	}
	for _, u := range *refs {
		switch y := u.(type) {
		case *ssa.UnOp:
			if y.Op == token.MUL {
				return true
			}
		case ssa.CallInstruction:
			return true // handed to code that may read it
		}
	}
	return false
}

// ---- X2.unknown: an attribute of a type the parser does not know is kept

func (c *Ctx) ruleUnknownAttrs(rule string) {
	fns := c.pkcs7ParserFuncs(rule)
	if fns == nil {
		return
	}
	what := "a signed attribute of a type the parser does not know (S/MIME capabilities, algorithm protection, opus info) is neither refused nor dropped: it is kept for the re-encoding"
	n := 0
	for _, fn := range fns {
		// the function that tells the attribute types apart
		var cmps []ir.CondEdge
		for _, ce := range ir.CondEdges(fn) {
			if call, ok := ce.Cond.(*ssa.Call); ok && ir.CallID(call) == oidEqualID {
				for _, a := range ir.CallArgs(call) {
					if ld, ok := ir.StripConv(a).(*ssa.UnOp); ok && ld.Op == token.MUL {
						if gl, ok := ld.X.(*ssa.Global); ok && strings.Contains(gl.Name(), "Attribute") {
							cmps = append(cmps, ce)
						}
					}
				}
			}
		}
		distinct := map[ssa.Value]bool{}
		for _, ce := range cmps {
			distinct[ce.Cond] = true
		}
		if len(distinct) < 2 {
			continue
		}
		n++
		cut := map[ir.Edge]bool{}
		var first *ssa.BasicBlock
		for _, ce := range cmps {
			if ce.Truth {
				cut[ce.Edge] = true
			}
			b := fn.Blocks[ce.Edge.From]
			if first == nil || b.Index < first.Index && b.Dominates(first) || b.Dominates(first) {
				first = b
			}
		}
		// the stores that keep an attribute of unknown type: sites guarded by no positive comparison
		var keeps []ssa.Instruction
		for _, s := range c.attrSites([]*ssa.Function{fn}) {
			if s.guard == "*" {
				keeps = append(keeps, s.at)
			}
		}
		// an entry put into a map held by the parsed attributes keeps the attribute too
		// (whether an earlier one of the same type is overwritten is A.keyed-once's question)
		instrsOf(fn, func(i ssa.Instruction) {
			mu, ok := i.(*ssa.MapUpdate)
			if !ok {
				return
			}
			if ld, isLd := mu.Map.(*ssa.UnOp); isLd && ld.Op == token.MUL && attrField(ld.X) != "" {
				if pos, _ := oidGuards(fn, i.Block()); len(pos) == 0 {
					keeps = append(keeps, i)
				}
			}
		})
		// also an append / call that hands the attribute on (helper keeps it)
		keepBlocks := map[int]bool{}
		for _, k := range keeps {
			keepBlocks[k.Block().Index] = true
		}
		seen, _ := ir.Reach(fn, first, cut)
		// can the all-different path go on (next attribute or success) at all?
		goesOn := func(seen map[int]bool) (bool, string) {
			for _, r := range acceptingReturnsMode(fn, true) {
				if seen[r.Block().Index] {
					return true, c.IPos(r)
				}
			}
			for _, p := range first.Preds {
				if seen[p.Index] && !cut[ir.Edge{From: p.Index, To: first.Index}] {
					return true, "the next attribute"
				}
			}
			// the loop head in front of the comparisons
			for _, b := range fn.Blocks {
				if b.Dominates(first) && b != first {
					for _, p := range b.Preds {
						if seen[p.Index] && first.Dominates(p) {
							return true, "the next attribute"
						}
					}
				}
			}
			return false, ""
		}
		construct := "unknown-attribute"
		if ok, _ := goesOn(seen); !ok {
			c.R.Violf(rule, name(fn), construct, c.Pos(ir.BlockPos(first)), what,
				"when the attribute type equals none of the known ones no path leads to the next attribute or to a successful return: a signature carrying any further signed attribute is refused")
			continue
		}
		if len(keeps) == 0 {
			c.R.Violf(rule, name(fn), construct, c.Pos(ir.BlockPos(first)), what,
				"when the attribute type equals none of the known ones parsing goes on but nothing is stored into the parsed attributes on that path: the attribute is missing from the re-encoding and the signature of every blob carrying one fails to verify")
			continue
		}
		cut2 := map[ir.Edge]bool{}
		for e := range cut {
			cut2[e] = true
		}
		for bi := range keepBlocks {
			for _, p := range fn.Blocks[bi].Preds {
				cut2[ir.Edge{From: p.Index, To: bi}] = true
			}
		}
		if keepBlocks[first.Index] {
			c.R.Okf(rule, name(fn), construct, c.Pos(ir.BlockPos(first)), "an attribute of unknown type is kept on every path")
			continue
		}
		seen2, _ := ir.Reach(fn, first, cut2)
		if ok, where := goesOn(seen2); ok {
			c.R.Violf(rule, name(fn), construct, c.Pos(ir.BlockPos(first)), what,
				"when the attribute type equals none of the known ones there is a path to "+where+" that stores nothing: such an attribute is dropped from the re-encoding")
			continue
		}
		c.R.Okf(rule, name(fn), construct, c.Pos(ir.BlockPos(first)), "an attribute of unknown type is kept on every path that goes on")
	}
	if n == 0 {
		if root := c.FnOpt("pkcs7.ParsePKCS7"); root != nil {
			c.R.Infof(rule, name(root), "unknown-attribute", c.Pos(root.Pos()), "not decided for this shape: no function in the parser tells attribute types apart with ObjectIdentifier.Equal against package-level attribute OIDs (a table or a string switch is not evaluated)")
		}
	}
}

// ---- X1.optional: elements the format makes optional are not insisted on

func (c *Ctx) ruleOptionalElements(rule string) {
	fns := c.pkcs7ParserFuncs(rule)
	if fns == nil {
		return
	}
	what := "an element that PKCS#7 makes OPTIONAL ([0] content, [0] certificates, [0] signed attributes, NULL parameters) is not insisted on: some path accepts the structure without it"
	counts := map[string]int{}
	for _, fn := range fns {
		for _, b := range fn.Blocks {
			for _, i := range b.Instrs {
				r := c.readOf(i)
				if r == nil || !r.hasTag || !(r.tag == 0xa0 || r.tag == 0x05) {
					continue
				}
				tagName := map[int64]string{0xa0: "[0]", 0x05: "NULL"}[r.tag]
				key := ordinalKey(counts, name(fn)+":"+tagName)
				construct := strings.TrimPrefix(key, name(fn)+":")
				if strings.HasPrefix(r.method, "ReadOptional") || strings.HasPrefix(r.method, "SkipOptional") {
					c.R.Okf(rule, name(fn), construct, c.IPos(i), "the "+tagName+" element is read as optional ("+r.method+")")
					// a reader shared by several parser functions: the element of each of them is read here
					for _, g := range fns {
						if g == fn {
							continue
						}
						instrsOf(g, func(j ssa.Instruction) {
							if gc, isCall := j.(ssa.CallInstruction); isCall && ir.Callee(gc) == fn {
								gk := ordinalKey(counts, name(g)+":"+tagName)
								c.R.Okf(rule, name(g), strings.TrimPrefix(gk, name(g)+":"), c.IPos(j), "the "+tagName+" element is read as optional ("+r.method+" in "+name(fn)+")")
							}
						})
					}
					continue
				}
				cut := map[ir.Edge]bool{}
				for _, ce := range ir.CondEdges(fn) {
					if ce.Cond == ssa.Value(r.call) && ce.Truth {
						cut[ce.Edge] = true
					}
				}
				if len(cut) == 0 {
					c.R.Infof(rule, name(fn), construct, c.IPos(i), "not decided for this shape: the outcome of the "+tagName+" read is not tested by a branch")
					continue
				}
				seen, _ := ir.Reach(fn, fn.Blocks[0], cut)
				ok := false
				for _, ret := range acceptingReturnsMode(fn, true) {
					if seen[ret.Block().Index] {
						ok = true
					}
				}
				c.R.Check(ok, rule, name(fn), construct, c.IPos(i), what,
					"every successful return of "+name(fn)+" lies behind the success of a mandatory read of the "+tagName+" element: blobs without it (detached content, no embedded certificates, parameters absent) are refused")
			}
		}
	}
}

// ruleAlgorithmParams: NULL parameters present are accepted as well as absent ones.
func (c *Ctx) ruleAlgorithmParams(rule string) {
	fn := c.Fn(rule, "pkcs7.ParseAlgorithmIdentifier")
	if fn == nil {
		return
	}
	what := "an AlgorithmIdentifier is accepted with NULL parameters (OpenSSL, sbsign) as well as without"
	// the Empty() tests that are not behind a successful NULL read
	var nullOK []ir.Edge
	hasNullRead := false
	for _, ce := range ir.CondEdges(fn) {
		if r := c.readOfValue(ce.Cond); r != nil && r.hasTag && r.tag == 0x05 && ce.Truth {
			nullOK = append(nullOK, ce.Edge)
			hasNullRead = true
		}
	}
	instrsOf(fn, func(i ssa.Instruction) {
		if r := c.readOf(i); r != nil && r.hasTag && r.tag == 0x05 {
			hasNullRead = true
		}
	})
	cut := map[ir.Edge]bool{}
	for _, ce := range ir.CondEdges(fn) {
		call, ok := ce.Cond.(*ssa.Call)
		if !ok || ir.CallID(call) != cbPkg+".String.Empty" || !ce.Truth {
			continue
		}
		behind := false
		for _, e := range nullOK {
			if ir.EdgeDominates(fn, e, fn.Blocks[ce.Edge.From]) {
				behind = true
			}
		}
		if !behind {
			cut[ce.Edge] = true
		}
	}
	seen, _ := ir.Reach(fn, fn.Blocks[0], cut)
	ok := false
	for _, ret := range acceptingReturnsMode(fn, true) {
		if seen[ret.Block().Index] {
			ok = true
		}
	}
	detail := "every successful return lies behind 'nothing follows the algorithm OID': identifiers that carry NULL parameters are refused"
	if !hasNullRead && ok {
		c.R.Okf(rule, name(fn), "NULL-present", c.Pos(fn.Pos()), "parameters are not looked at; an identifier with NULL parameters is accepted")
		return
	}
	c.R.Check(ok, rule, name(fn), "NULL-present", c.Pos(fn.Pos()), what, detail)
}

func (c *Ctx) readOfValue(v ssa.Value) *cbRead {
	if call, ok := v.(*ssa.Call); ok {
		return c.readOf(call)
	}
	return nil
}

// ruleOuterOptional: a bare SignedData (no ContentInfo around it, as sbvarsign
// and the UEFI descriptors carry it) is accepted as well as a wrapped one.
func (c *Ctx) ruleOuterOptional(rule string) {
	fn := c.Fn(rule, "pkcs7.ParsePKCS7")
	if fn == nil {
		return
	}
	var calls []*ssa.Call
	instrsOf(fn, func(i ssa.Instruction) {
		if call, ok := i.(*ssa.Call); ok && ir.CallID(call) == pkcsPkg+".ParseContentInfo" && len(call.Call.Args) == 1 && holdsParam(fn, call.Call.Args[0]) {
			calls = append(calls, call)
		}
	})
	if len(calls) == 0 {
		c.R.Infof(rule, name(fn), "outer-ContentInfo", c.Pos(fn.Pos()), "not decided for this shape: ParsePKCS7 does not call ParseContentInfo itself")
		return
	}
	cut := map[ir.Edge]bool{}
	for _, call := range calls {
		for _, p := range call.Block().Preds {
			cut[ir.Edge{From: p.Index, To: call.Block().Index}] = true
		}
		if call.Block() == fn.Blocks[0] {
			c.R.Violf(rule, name(fn), "outer-ContentInfo", c.IPos(call), "a SignedData without a ContentInfo around it is accepted", "ParseContentInfo is called unconditionally")
			return
		}
	}
	seen, _ := ir.Reach(fn, fn.Blocks[0], cut)
	ok := false
	for _, ret := range acceptingReturnsMode(fn, true) {
		if seen[ret.Block().Index] {
			ok = true
		}
	}
	c.R.Check(ok, rule, name(fn), "outer-ContentInfo", c.IPos(calls[0]), "a SignedData without a ContentInfo around it (sbvarsign, authentication descriptors) is accepted as well as a wrapped one",
		"every successful return of ParsePKCS7 lies behind a call of ParseContentInfo: a bare SignedData is refused")
}

// ---- A.lossless: nothing consumed from the signed attributes is dropped

// ruleAttrLossless. The verifier checks the signature over a re-encoding of the
// parsed attributes, so whatever the parser consumes from the signed attributes
// and drops can be added to a valid blob unnoticed. Two conditions:
// (rest) after the last element read from a structure inside the signed
// attributes the structure is looked at again (Empty, a further read, kept
// whole) before parsing goes on - and a structure is not overwritten by an
// element read from itself while it may hold more; (once) a single-valued field
// filled under an attribute type inside the loop over the attributes is filled
// only after a test that it was not filled before.
func (c *Ctx) ruleAttrLossless(rule string) {
	fns := c.pkcs7ParserFuncs(rule)
	if fns == nil {
		return
	}
	sites := c.attrSites(fns)
	inAttrFn := map[*ssa.Function]bool{}
	for _, s := range sites {
		inAttrFn[s.fn] = true
	}
	if len(inAttrFn) == 0 {
		if root := c.FnOpt("pkcs7.ParsePKCS7"); root != nil {
			c.R.Infof(rule, name(root), "signed-attributes", c.Pos(root.Pos()), "not decided for this shape: no function fills the parsed attributes")
		}
		return
	}
	whatRest := "inside the signed attributes every structure the parser cuts out is accounted for to the end (the signature is checked over a re-encoding of what was kept: what is dropped can be added to a valid blob unnoticed)"
	counts := map[string]int{}
	// the functions that parse inside the signed attributes: the one(s) that read the [0]
	// element and reach a function that fills the parsed attributes, and what they call
	inCone := func(root *ssa.Function, want map[*ssa.Function]bool) (map[*ssa.Function]bool, bool) {
		seen := map[*ssa.Function]bool{}
		hit := false
		var walk func(f *ssa.Function, d int)
		walk = func(f *ssa.Function, d int) {
			if f == nil || seen[f] || d > 6 || f.Blocks == nil || !c.P.InLib(f) {
				return
			}
			seen[f] = true
			if want[f] {
				hit = true
			}
			for _, g := range withAnon(f) {
				seen[g] = true
				if want[g] {
					hit = true
				}
				instrsOf(g, func(i ssa.Instruction) {
					if call, ok := i.(ssa.CallInstruction); ok {
						walk(ir.Callee(call), d+1)
					}
				})
			}
		}
		walk(root, 0)
		return seen, hit
	}
	regionFn := map[*ssa.Function]bool{}
	isRoot := map[*ssa.Function]bool{}
	for _, fn := range fns {
		has0 := false
		instrsOf(fn, func(i ssa.Instruction) {
			for _, r := range c.readsOf(i) {
				if r.hasTag && r.tag == 0xa0 {
					has0 = true
				}
			}
		})
		if !has0 {
			continue
		}
		if cone, hit := inCone(fn, inAttrFn); hit {
			isRoot[fn] = true
			for f := range cone {
				regionFn[f] = true
			}
		}
	}
	if len(regionFn) == 0 {
		for f := range inAttrFn {
			regionFn[f] = true
		}
	}
	var order []*ssa.Function
	for _, fn := range fns {
		if regionFn[fn] {
			order = append(order, fn)
		}
	}
	// which string parameters of the helpers receive a string of the signed region: found by
	// following the region from the root functions through the call sites (fix-point)
	regionParam := map[*ssa.Function]map[int]bool{}
	regionOf := func(fn *ssa.Function) []ssa.Value {
		var region []ssa.Value
		in := func(a ssa.Value) bool {
			for _, r := range region {
				if sameCell(r, a) {
					return true
				}
			}
			return false
		}
		var reads []*cbRead
		instrsOf(fn, func(i ssa.Instruction) { reads = append(reads, c.readsOf(i)...) })
		if isRoot[fn] {
			for _, r := range reads {
				if r.hasTag && r.tag == 0xa0 {
					for _, o := range r.outs {
						if ir.NamedTypeID(deref(o.Type())) == cbPkg+".String" && !in(o) {
							region = append(region, o)
						}
					}
				}
			}
		}
		for k, p := range fn.Params {
			if regionParam[fn][k] {
				region = append(region, p)
			}
		}
		instrsOf(fn, func(i ssa.Instruction) {
			if st, ok := i.(*ssa.Store); ok {
				if p, isP := st.Val.(*ssa.Parameter); isP {
					for k, q := range fn.Params {
						if q == p && regionParam[fn][k] {
							region = append(region, st.Addr)
						}
					}
				}
			}
		})
		for changed := true; changed; {
			changed = false
			for _, r := range reads {
				if !in(r.recv) {
					continue
				}
				for _, o := range r.outs {
					if ir.NamedTypeID(deref(o.Type())) == cbPkg+".String" && !in(o) {
						region = append(region, o)
						changed = true
					}
				}
			}
		}
		return region
	}
	for round := 0; round < 6; round++ {
		grew := false
		for _, fn := range order {
			region := regionOf(fn)
			in := func(a ssa.Value) bool {
				if ld, ok := a.(*ssa.UnOp); ok && ld.Op == token.MUL {
					a = ld.X
				}
				for _, r := range region {
					if sameCell(r, a) {
						return true
					}
				}
				return false
			}
			instrsOf(fn, func(i ssa.Instruction) {
				call, ok := i.(ssa.CallInstruction)
				if !ok {
					return
				}
				g := ir.Callee(call)
				if g == nil || !regionFn[g] {
					return
				}
				for k, a := range call.Common().Args {
					if k < len(g.Params) && in(a) {
						if regionParam[g] == nil {
							regionParam[g] = map[int]bool{}
						}
						if !regionParam[g][k] {
							regionParam[g][k] = true
							grew = true
						}
					}
				}
			})
		}
		if !grew {
			break
		}
	}
	for _, fn := range order {
		// the signed region: the string filled by the [0] read, and every string cut out of a string of the region
		region := []ssa.Value{}
		inRegion := func(a ssa.Value) bool {
			for _, r := range region {
				if sameCell(r, a) {
					return true
				}
			}
			return false
		}
		var reads []*cbRead
		instrsOf(fn, func(i ssa.Instruction) {
			reads = append(reads, c.readsOf(i)...)
		})
		for _, r := range reads {
			if r.hasTag && r.tag == 0xa0 {
				for _, o := range r.outs {
					if ir.NamedTypeID(deref(o.Type())) == cbPkg+".String" && !inRegion(o) {
						region = append(region, o)
					}
				}
			}
		}
		callerHeld := map[ssa.Value]bool{}
		if !isRoot[fn] {
			// a helper that receives a string of the region: its string parameters (a string
			// received by address stays with the caller, who has to account for its rest)
			for k, p := range fn.Params {
				if !regionParam[fn][k] {
					continue
				}
				if ir.NamedTypeID(deref(p.Type())) == cbPkg+".String" {
					region = append(region, p)
					if _, isPtr := p.Type().Underlying().(*types.Pointer); isPtr {
						callerHeld[p] = true
					}
				}
			}
			// by-value string parameters are spilled to a cell: the cell is the string
			instrsOf(fn, func(i ssa.Instruction) {
				if st, ok := i.(*ssa.Store); ok {
					if p, isP := st.Val.(*ssa.Parameter); isP && ir.NamedTypeID(p.Type()) == cbPkg+".String" {
						region = append(region, st.Addr)
					}
				}
			})
		}
		for changed := true; changed; {
			changed = false
			for _, r := range reads {
				if !inRegion(r.recv) {
					continue
				}
				for _, o := range r.outs {
					if ir.NamedTypeID(deref(o.Type())) == cbPkg+".String" && !inRegion(o) {
						region = append(region, o)
						changed = true
					}
				}
			}
		}
		for _, r := range reads {
			if !inRegion(r.recv) {
				continue
			}
			if callerHeld[r.recv] {
				continue
			}
			key := ordinalKey(counts, name(fn)+":rest:"+r.method)
			construct := strings.TrimPrefix(key, name(fn)+":")
			// the string is replaced by an element read from itself
			self := false
			for _, o := range r.outs {
				if sameCell(o, r.recv) {
					self = true
				}
			}
			if self {
				c.R.Violf(rule, name(fn), construct, c.IPos(r.call), whatRest,
					"the string is overwritten with the element read from it ("+r.method+"): whatever follows that element in the enclosing structure is dropped without a look")
				continue
			}
			// from the success of this read: is a successful return, the next round of a loop or an
			// overwrite of the string reachable without a look at the string?
			b := r.call.Block()
			looked := false
			after := false
			for _, j := range b.Instrs {
				if j == ssa.Instruction(r.call) {
					after = true
					continue
				}
				if after && c.looksAt(j, r.recv) {
					looked = true
				}
			}
			if looked {
				c.R.Okf(rule, name(fn), construct, c.IPos(r.call), "the string is looked at again after this read")
				continue
			}
			blocked := map[int]bool{}
			whole := map[ssa.Instruction]bool{}
			for _, w := range wholeUses(fn, r.recv) {
				whole[w] = true
			}
			for _, bb := range fn.Blocks {
				if bb == b {
					continue
				}
				for _, j := range bb.Instrs {
					if c.looksAt(j, r.recv) || whole[j] {
						blocked[bb.Index] = true
					}
				}
			}
			// a look earlier in the read's own block guards the way back into it (a loop `for !s.Empty()`)
			selfLook := false
			for _, j := range b.Instrs {
				if j == ssa.Instruction(r.call) {
					break
				}
				if c.looksAt(j, r.recv) {
					selfLook = true
				}
			}
			cut := map[ir.Edge]bool{}
			for bi := range blocked {
				for _, p := range fn.Blocks[bi].Preds {
					cut[ir.Edge{From: p.Index, To: bi}] = true
				}
			}
			if selfLook {
				for _, p := range b.Preds {
					cut[ir.Edge{From: p.Index, To: b.Index}] = true
				}
			}
			for _, ce := range ir.CondEdges(fn) {
				if ce.Cond == ssa.Value(r.call) && !ce.Truth {
					cut[ce.Edge] = true
				}
			}
			seen, _ := ir.Reach(fn, b, cut)
			bad := ""
			for _, ret := range acceptingReturnsMode(fn, true) {
				if seen[ret.Block().Index] {
					bad = "the successful return at " + c.IPos(ret)
				}
			}
			if bad == "" && !selfLook {
				for _, p := range b.Preds {
					if seen[p.Index] && !cut[ir.Edge{From: p.Index, To: b.Index}] {
						bad = "the next round of the loop"
					}
				}
			}
			if bad == "" {
				// the enclosing loop head (the next attribute) reached without a look
				for _, hb := range fn.Blocks {
					if hb != b && hb.Dominates(b) && seen[hb.Index] {
						bad = "the next attribute (loop head at " + c.Pos(ir.BlockPos(hb)) + ")"
						break
					}
				}
			}
			c.R.Check(bad == "", rule, name(fn), construct, c.IPos(r.call), whatRest,
				"after this read ("+r.method+", "+r.kind()+") "+bad+" is reached without the string being looked at again (Empty, another read, or kept whole): further elements in it - a second value in an attribute's SET, an element behind the value SET - are dropped, and a blob carrying them verifies like the original")
		}
	}
	// (once) single-valued fields filled in the loop over the attributes
	whatOnce := "a single-valued field of the parsed attributes is not filled twice: a repeated attribute is refused, not folded into one"
	done := map[string]bool{}
	for _, s := range sites {
		if strings.Contains(s.field, ".") || s.kind == "LIST" || s.guard == "" || s.guard == "*" || s.guard == "?" {
			continue
		}
		if !inLoop(s.fn, s.at.Block()) && !c.calledFromLoop(s.fn, fns) {
			continue
		}
		key := name(s.fn) + ":once:" + s.field
		if done[key] {
			continue
		}
		done[key] = true
		// a test, under the same attribute type, that depends on memory written under that type
		ok := false
		var guardEdge *ir.CondEdge
		for _, ce := range ir.DominatingConds(s.fn, s.at.Block()) {
			ce := ce
			if call, isC := ce.Cond.(*ssa.Call); isC && ir.CallID(call) == oidEqualID && ce.Truth {
				guardEdge = &ce
			}
		}
		written := map[string]bool{s.field: true}
		instrsOf(s.fn, func(i ssa.Instruction) {
			st, isS := i.(*ssa.Store)
			if !isS || guardEdge == nil || !ir.EdgeDominates(s.fn, guardEdge.Edge, st.Block()) {
				return
			}
			if p := ir.AddrPath(st.Addr); p != "" {
				written["@"+p] = true
			}
		})
		instrsOf(s.fn, func(i ssa.Instruction) {
			if mu, isM := i.(*ssa.MapUpdate); isM && guardEdge != nil && ir.EdgeDominates(s.fn, guardEdge.Edge, mu.Block()) {
				written["@map"] = true
			}
		})
		for _, ce := range ir.DominatingConds(s.fn, s.at.Block()) {
			if c.condReadsWritten(s.fn, ce.Cond, written, 0) {
				ok = true
			}
			if guardEdge != nil && flagSetUnder(s.fn, ce.Cond, guardEdge.Edge, map[ssa.Value]bool{}, 0) {
				ok = true
			}
			// a test-and-set helper on state the caller holds (seen.first(kind))
			if call, isC := ce.Cond.(*ssa.Call); isC {
				if callee := ir.Callee(call); callee != nil && c.P.InLib(callee) && testAndSet(callee) {
					ok = true
				}
			}
		}
		c.R.Check(ok, rule, name(s.fn), "once:"+s.field, c.IPos(s.at), whatOnce,
			"the field "+s.field+" is filled under attribute type "+s.guard+" inside the loop over the attributes with no test that it was filled before: of two "+s.guard+" attributes the last one wins and the other is dropped from the re-encoding, so a blob with a duplicated (or a decoy) attribute verifies like the original")
	}
}

func deref(t types.Type) types.Type {
	if p, ok := t.Underlying().(*types.Pointer); ok {
		return p.Elem()
	}
	return t
}

// condReadsWritten: the condition depends on a load of a field / cell / map that
// is written under the attribute type (a "seen" test).
func (c *Ctx) condReadsWritten(fn *ssa.Function, v ssa.Value, written map[string]bool, depth int) bool {
	if depth > 8 || v == nil {
		return false
	}
	switch x := v.(type) {
	case *ssa.UnOp:
		if x.Op == token.MUL {
			if f := attrField(x.X); f != "" && written[f] {
				return true
			}
			if p := ir.AddrPath(x.X); p != "" && written["@"+p] {
				return true
			}
			return false
		}
		return c.condReadsWritten(fn, x.X, written, depth+1)
	case *ssa.BinOp:
		return c.condReadsWritten(fn, x.X, written, depth+1) || c.condReadsWritten(fn, x.Y, written, depth+1)
	case *ssa.Lookup:
		return written["@map"]
	case *ssa.Extract:
		return c.condReadsWritten(fn, x.Tuple, written, depth+1)
	case *ssa.Call:
		for _, a := range ir.CallArgs(x) {
			if c.condReadsWritten(fn, a, written, depth+1) {
				return true
			}
		}
		return false
	case *ssa.Phi:
		for _, e := range x.Edges {
			if c.condReadsWritten(fn, e, written, depth+1) {
				return true
			}
		}
	case *ssa.Convert:
		return c.condReadsWritten(fn, x.X, written, depth+1)
	case *ssa.ChangeType:
		return c.condReadsWritten(fn, x.X, written, depth+1)
	case *ssa.Field:
		return c.condReadsWritten(fn, x.X, written, depth+1)
	}
	return false
}

// holdsParam: the string at addr is (initially) the function's own input: some
// store into it takes a conversion of a parameter.
func holdsParam(fn *ssa.Function, addr ssa.Value) bool {
	found := false
	instrsOf(fn, func(i ssa.Instruction) {
		st, ok := i.(*ssa.Store)
		if !ok || !sameCell(st.Addr, addr) {
			return
		}
		if _, isP := ir.StripConv(st.Val).(*ssa.Parameter); isP {
			found = true
		}
	})
	if p, isP := addr.(*ssa.Parameter); isP && p.Parent() == fn {
		found = true
	}
	return found
}

// flagSetUnder: v is (through loop-carried phis) a local variable that receives
// a value in the region the edge dominates - a "seen" flag or counter that the
// code under this attribute type sets.
func flagSetUnder(fn *ssa.Function, v ssa.Value, e ir.Edge, seen map[ssa.Value]bool, depth int) bool {
	if depth > 12 || v == nil || seen[v] {
		return false
	}
	seen[v] = true
	switch x := v.(type) {
	case *ssa.Phi:
		for k, ev := range x.Edges {
			if _, isPhi := ev.(*ssa.Phi); isPhi {
				if flagSetUnder(fn, ev, e, seen, depth+1) {
					return true
				}
				continue
			}
			if k < len(x.Block().Preds) && ir.EdgeDominates(fn, e, x.Block().Preds[k]) {
				return true
			}
		}
	case *ssa.UnOp:
		if x.Op != token.MUL {
			return flagSetUnder(fn, x.X, e, seen, depth+1)
		}
	case *ssa.BinOp:
		return flagSetUnder(fn, x.X, e, seen, depth+1) || flagSetUnder(fn, x.Y, e, seen, depth+1)
	}
	return false
}

// ---- X1.params-compare: verification does not hinge on one encoding of the parameters

// mentionsFieldPath: v is (a load / sub-field / slice of) the named field.
func mentionsFieldPath(v ssa.Value, field string, depth int) bool {
	if depth > 8 || v == nil {
		return false
	}
	if ir.FieldID(v) == field {
		return true
	}
	switch x := v.(type) {
	case *ssa.UnOp:
		return mentionsFieldPath(x.X, field, depth+1)
	case *ssa.FieldAddr:
		return mentionsFieldPath(x.X, field, depth+1)
	case *ssa.Field:
		return mentionsFieldPath(x.X, field, depth+1)
	case *ssa.Slice:
		return mentionsFieldPath(x.X, field, depth+1)
	case *ssa.ChangeType:
		return mentionsFieldPath(x.X, field, depth+1)
	case *ssa.Convert:
		return mentionsFieldPath(x.X, field, depth+1)
	case *ssa.Phi:
		for _, e := range x.Edges {
			if mentionsFieldPath(e, field, depth+1) {
				return true
			}
		}
	}
	return false
}

// ruleParamsCompare: an AlgorithmIdentifier's parameters are legally absent or an
// explicit NULL (openssl cms writes SHA-256 without, openssl smime and sbsign
// with). A comparison of the parameters with one value must therefore not be
// necessary for acceptance: the function that makes it still accepts with the
// comparison's true edge removed.
func (c *Ctx) ruleParamsCompare(rule string) {
	const pfield = "crypto/x509/pkix.AlgorithmIdentifier.Parameters"
	n := 0
	counts := map[string]int{}
	what := "algorithm parameters are accepted absent as well as as an explicit NULL: equality of the parameters with one value is not necessary for acceptance"
	for _, fn := range c.P.LibFunctions() {
		if fn.Pkg == nil || !(strings.HasSuffix(fn.Pkg.Pkg.Path(), "/pkcs7") || strings.HasSuffix(fn.Pkg.Pkg.Path(), "/authenticode")) {
			continue
		}
		for _, f := range withAnon(fn) {
			var cmps []ssa.Value
			instrsOf(f, func(i ssa.Instruction) {
				switch x := i.(type) {
				case *ssa.Call:
					switch ir.CallID(x) {
					case "bytes.Equal", "reflect.DeepEqual", "slices.Equal":
						for _, a := range ir.CallArgs(x) {
							if mentionsFieldPath(ir.StripIface(a), pfield, 0) {
								cmps = append(cmps, x)
								return
							}
						}
					}
				}
			})
			for _, cmp := range cmps {
				n++
				key := ordinalKey(counts, name(f)+":parameters-compared")
				cut := map[ir.Edge]bool{}
				for _, ce := range ir.CondEdges(f) {
					if ce.Cond == cmp && ce.Truth {
						cut[ce.Edge] = true
					}
				}
				seen, _ := ir.Reach(f, f.Blocks[0], cut)
				ok := false
				rs := f.Signature.Results()
				for _, r := range acceptingReturns(f) {
					if !seen[r.Block().Index] {
						continue
					}
					if rs.Len() > 0 && isBoolType(rs.At(0).Type()) && len(r.Results) > 0 {
						if !mayBeTrueWithout(r.Results[0], cmp, map[ssa.Value]bool{}) {
							continue
						}
					}
					ok = true
				}
				c.R.Check(ok, rule, name(f), strings.TrimPrefix(key, name(f)+":"), c.Pos(ir.InstrPos(cmp.(ssa.Instruction))), what,
					"every accepting outcome of "+name(f)+" needs the equality of an AlgorithmIdentifier's parameters with one value: identifiers that carry the other legal form (openssl cms writes SHA-256 without parameters, smime and sbsign with NULL) are turned away")
			}
		}
	}
	if n == 0 {
		if root := c.FnOpt("pkcs7.ParsePKCS7"); root != nil {
			c.R.Okf(rule, name(root), "parameters-compared", c.Pos(root.Pos()), "no comparison of algorithm parameters in pkcs7 / authenticode")
		}
	}
}

// mayBeTrueWithout: the boolean v can be true although cmp is false (cmp itself
// cannot; a constant as it says; a phi if one of its values can; anything else: yes).
func mayBeTrueWithout(v, cmp ssa.Value, seen map[ssa.Value]bool) bool {
	if v == cmp {
		return false
	}
	if seen[v] {
		return false
	}
	seen[v] = true
	switch x := v.(type) {
	case *ssa.Const:
		if x.Value != nil && x.Value.Kind() == constant.Bool {
			return constant.BoolVal(x.Value)
		}
	case *ssa.Phi:
		for _, e := range x.Edges {
			if mayBeTrueWithout(e, cmp, seen) {
				return true
			}
		}
		return false
	case *ssa.BinOp:
		if x.Op == token.AND {
			return mayBeTrueWithout(x.X, cmp, seen) && mayBeTrueWithout(x.Y, cmp, seen)
		}
	}
	return true
}

// ---- A.content-value: the digest covers the value octets of exactly one element

// stripCounts: how many tag-and-length headers have been taken off the
// encapsulated content ([0] of the ContentInfo inside SignedData) on the way to
// v: a set of counts (-1: unknown). The out-parameter of the [0] read counts 0;
// every ReadASN1 / ReadAnyASN1 out of such a string counts one more
// (ReadASN1Element / ReadAnyASN1Element keep the header).
type stripEval struct {
	c     *Ctx
	busy  map[ssa.Value]bool
	depth int
}

func (e *stripEval) of(v ssa.Value, fn *ssa.Function) map[int]bool {
	out := map[int]bool{}
	add := func(m map[int]bool, d int) {
		for k := range m {
			if k < 0 {
				out[-1] = true
			} else {
				out[k+d] = true
			}
		}
	}
	if v == nil || e.busy[v] {
		return out
	}
	e.depth++
	defer func() { e.depth-- }()
	if e.depth > 40 {
		out[-1] = true
		return out
	}
	e.busy[v] = true
	defer delete(e.busy, v)
	switch x := v.(type) {
	case *ssa.Const:
		if x.Value != nil {
			out[-1] = true
		}
		// nil: no content
	case *ssa.ChangeType:
		add(e.of(x.X, fn), 0)
	case *ssa.Convert:
		add(e.of(x.X, fn), 0)
	case *ssa.MakeInterface:
		add(e.of(x.X, fn), 0)
	case *ssa.Slice:
		if x.Low == nil && x.High == nil {
			add(e.of(x.X, fn), 0)
		} else {
			out[-1] = true
		}
	case *ssa.Phi:
		for _, ed := range x.Edges {
			add(e.of(ed, fn), 0)
		}
	case *ssa.Extract:
		if call, ok := x.Tuple.(*ssa.Call); ok {
			if callee := ir.Callee(call); callee != nil && e.c.P.InLib(callee) {
				for _, r := range ir.Returns(callee) {
					if x.Index < len(r.Results) && retClass(callee, r) != "fail" {
						add(e.of(effectiveResult(callee, r, x.Index), callee), 0)
					}
				}
				break
			}
		}
		out[-1] = true
	case *ssa.Call:
		if callee := ir.Callee(x); callee != nil && e.c.P.InLib(callee) && callee.Signature.Results().Len() == 1 {
			for _, r := range ir.Returns(callee) {
				if len(r.Results) == 1 {
					add(e.of(effectiveResult(callee, r, 0), callee), 0)
				}
			}
			break
		}
		out[-1] = true
	case *ssa.Parameter:
		pf := x.Parent()
		idx := -1
		for k, p := range pf.Params {
			if p == x {
				idx = k
			}
		}
		found := false
		if node := e.c.P.CallGraph().Nodes[pf]; node != nil && idx >= 0 {
			for _, in := range node.In {
				if in.Site == nil || !e.c.P.InLib(in.Caller.Func) {
					continue
				}
				args := ir.CallArgs(in.Site)
				if idx < len(args) {
					found = true
					add(e.of(args[idx], in.Caller.Func), 0)
				}
			}
		}
		if !found {
			out[-1] = true
		}
	case *ssa.UnOp:
		if x.Op != token.MUL {
			out[-1] = true
			break
		}
		// a field of the parsed blob: whatever the library stores there
		if id := ir.FieldID(x.X); id == pkcsPkg+".PKCS7.ContentInfo" {
			n := 0
			for _, lf := range e.c.P.LibFunctions() {
				for _, f := range withAnon(lf) {
					instrsOf(f, func(i ssa.Instruction) {
						if st, ok := i.(*ssa.Store); ok && ir.FieldID(st.Addr) == id {
							n++
							add(e.of(st.Val, f), 0)
						}
					})
				}
			}
			if n == 0 {
				out[-1] = true
			}
			break
		}
		add(e.ofCell(x.X, fn), 0)
	default:
		out[-1] = true
	}
	return out
}

// ofCell: the strip counts of what the cell (a local string / slice variable) may hold.
func (e *stripEval) ofCell(cell ssa.Value, fn *ssa.Function) map[int]bool {
	out := map[int]bool{}
	add := func(m map[int]bool, d int) {
		for k := range m {
			if k < 0 {
				out[-1] = true
			} else {
				out[k+d] = true
			}
		}
	}
	if e.busy[cell] {
		return out
	}
	e.depth++
	defer func() { e.depth-- }()
	if e.depth > 40 {
		out[-1] = true
		return out
	}
	e.busy[cell] = true
	defer delete(e.busy, cell)
	cf := fn
	if a, ok := cell.(*ssa.Alloc); ok {
		cf = a.Parent()
	}
	if p, ok := cell.(*ssa.Parameter); ok {
		// a *String parameter: the caller's cell
		add(e.of(p, fn), 0)
	}
	n := 0
	for _, f := range withAnon(topFn(cf)) {
		instrsOf(f, func(i ssa.Instruction) {
			if st, ok := i.(*ssa.Store); ok && sameCell(st.Addr, cell) {
				n++
				add(e.of(st.Val, f), 0)
			}
			for _, r := range e.c.readsOf(i) {
				for _, o := range r.outs {
					if !sameCell(o, cell) {
						continue
					}
					n++
					switch {
					case r.hasTag && r.tag == 0xa0 && (r.method == "ReadOptionalASN1" || r.method == "ReadASN1"):
						out[0] = true
					case r.method == "ReadASN1" || r.method == "ReadAnyASN1" || r.method == "ReadOptionalASN1" || r.method == "ReadASN1Bytes":
						if sameCell(r.recv, cell) {
							out[-1] = true
						} else {
							add(e.ofCell(r.recv, f), 1)
						}
					case r.method == "ReadASN1Element" || r.method == "ReadAnyASN1Element":
						if sameCell(r.recv, cell) {
							out[-1] = true
						} else {
							add(e.ofCell(r.recv, f), 0)
						}
					default:
						out[-1] = true
					}
				}
			}
		})
	}
	if n == 0 {
		if _, isP := cell.(*ssa.Parameter); !isP {
			out[-1] = true
		}
	}
	return out
}

// ruleContentValue (A.content-value; C04, C02, C16): the messageDigest of a
// SignedData covers the value octets of the encapsulated content - the [0]
// content with exactly one tag-and-length header taken off (RFC 2315 9.3, RFC
// 5652 5.4), whatever the content is. On every way from the parsed [0] content
// to the hash that is compared with the messageDigest attribute exactly one
// header is stripped: a parser and a verifier that each strip one "when it looks
// like it" hash the wrong octets for contents that look like both.
func (c *Ctx) ruleContentValue(rule string) {
	what := "the digest compared with the signed messageDigest covers the [0] content with exactly one tag-and-length header taken off, on every path from the parser to the hash"
	n := 0
	for _, fn := range c.P.LibFunctions() {
		if fn.Pkg == nil || !strings.HasSuffix(fn.Pkg.Pkg.Path(), "/pkcs7") {
			continue
		}
		// the function that compares a digest with the messageDigest attribute
		cmp := false
		instrsOf(fn, func(i ssa.Instruction) {
			call, ok := i.(*ssa.Call)
			if !ok {
				return
			}
			switch ir.CallID(call) {
			case "bytes.Equal", "crypto/subtle.ConstantTimeCompare", "crypto/hmac.Equal":
				for _, a := range call.Call.Args {
					if mentionsFieldPath(a, attrType+".MessageDigest", 0) {
						cmp = true
					}
				}
			}
		})
		if !cmp {
			continue
		}
		instrsOf(fn, func(i ssa.Instruction) {
			call, ok := i.(*ssa.Call)
			if !ok {
				return
			}
			var arg ssa.Value
			switch id := ir.CallID(call); {
			case id == "crypto/sha256.Sum256":
				arg = call.Call.Args[0]
			case call.Call.IsInvoke() && call.Call.Method.Name() == "Write" && len(call.Call.Args) == 1:
				if strings.HasSuffix(ir.TypeString(call.Call.Value.Type()), "hash.Hash") {
					arg = call.Call.Args[0]
				}
			}
			if arg == nil {
				return
			}
			n++
			e := &stripEval{c: c, busy: map[ssa.Value]bool{}}
			counts := e.of(arg, fn)
			var ks []string
			for k := range counts {
				ks = append(ks, fmt.Sprint(k))
			}
			sort.Strings(ks)
			switch {
			case counts[-1] || len(counts) == 0:
				c.R.Infof(rule, name(fn), "hashed-content", c.IPos(call), "not decided for this shape: the way from the parsed [0] content to the hashed bytes is not followed to its end (header counts "+strings.Join(ks, ",")+")")
			case len(counts) == 1 && counts[1]:
				c.R.Okf(rule, name(fn), "hashed-content", c.IPos(call), what)
			default:
				c.R.Violf(rule, name(fn), "hashed-content", c.IPos(call), what,
					"between the [0] content and the hash "+strings.Join(ks, " or ")+" headers are taken off depending on the path (parser and verifier each strip one under their own condition): for some contents the digest is computed over the wrong octets and signatures of standard producers over such contents are refused")
			}
		})
	}
	if n == 0 {
		if root := c.FnOpt("pkcs7.ParsePKCS7"); root != nil {
			c.R.Infof(rule, name(root), "hashed-content", c.Pos(root.Pos()), "not decided for this shape: no function of pkcs7 both hashes and compares with the messageDigest attribute")
		}
	}
}

// calledFromLoop: some parser function calls fn (directly) from inside a loop.
func (c *Ctx) calledFromLoop(fn *ssa.Function, fns []*ssa.Function) bool {
	for _, g := range fns {
		found := false
		instrsOf(g, func(i ssa.Instruction) {
			if call, ok := i.(ssa.CallInstruction); ok && ir.Callee(call) == fn && inLoop(g, i.Block()) {
				found = true
			}
		})
		if found {
			return true
		}
	}
	return false
}

// valueCone: fn, the library functions of its package it calls, and the ones it
// uses as function values (function literals, method values), transitively.
func (c *Ctx) valueCone(fn *ssa.Function) ([]*ssa.Function, bool) {
	seen := map[*ssa.Function]bool{}
	var out []*ssa.Function
	opaque := false
	inPkg := func(f *ssa.Function) bool {
		if f.Pkg != nil {
			return f.Pkg == fn.Pkg
		}
		if o := f.Object(); o != nil && o.Pkg() != nil && fn.Pkg != nil {
			return o.Pkg() == fn.Pkg.Pkg
		}
		if p := f.Parent(); p != nil {
			return p.Pkg == fn.Pkg
		}
		return false
	}
	var walk func(f *ssa.Function, d int)
	walk = func(f *ssa.Function, d int) {
		if f == nil || seen[f] || d > 7 || f.Blocks == nil || !inPkg(f) {
			return
		}
		seen[f] = true
		out = append(out, f)
		for _, g := range withAnon(f) {
			if !seen[g] {
				seen[g] = true
				out = append(out, g)
			}
			instrsOf(g, func(i ssa.Instruction) {
				if call, ok := i.(ssa.CallInstruction); ok {
					if callee := ir.Callee(call); callee != nil {
						walk(callee, d+1)
					} else {
						// dynamic call: the targets the call graph resolves (interface dispatch, function values)
						resolved := false
						if node := c.P.CallGraph().Nodes[g]; node != nil {
							for _, e := range node.Out {
								if e.Site == call && e.Callee != nil && e.Callee.Func != nil {
									resolved = true
									walk(e.Callee.Func, d+1)
								}
							}
						}
						if !resolved {
							if _, isB := call.Common().Value.(*ssa.Builtin); !isB {
								opaque = true
							}
						}
					}
				}
				for _, op := range i.Operands(nil) {
					switch x := (*op).(type) {
					case *ssa.Function:
						walk(x, d+1)
					case *ssa.MakeClosure:
						if cf, ok := x.Fn.(*ssa.Function); ok {
							walk(cf, d+1)
						}
					}
				}
			})
		}
	}
	walk(fn, 0)
	return out, opaque
}

// testAndSet: the function both reads and writes memory behind one of its pointer
// parameters (a "have I seen this before" helper on a set the caller holds).
func testAndSet(fn *ssa.Function) bool {
	for _, p := range fn.Params {
		if _, isPtr := p.Type().Underlying().(*types.Pointer); !isPtr {
			continue
		}
		reads, writes := false, false
		instrsOf(fn, func(i ssa.Instruction) {
			switch x := i.(type) {
			case *ssa.Store:
				if ir.RootOf(x.Addr) == ssa.Value(p) {
					writes = true
				}
			case *ssa.UnOp:
				if x.Op == token.MUL && ir.RootOf(x.X) == ssa.Value(p) {
					reads = true
				}
			case *ssa.MapUpdate:
				if ir.RootOf(x.Map) == ssa.Value(p) {
					writes = true
				}
			case *ssa.Lookup:
				if ir.RootOf(x.X) == ssa.Value(p) {
					reads = true
				}
			}
		})
		if reads && writes {
			return true
		}
	}
	return false
}

// ---- X5.unsigned-tail: what follows the encrypted digest in a SignerInfo is tolerated

// ruleUnsignedTail: a SignerInfo may carry unauthenticatedAttributes [1] behind the
// encrypted digest (RFC 3161 time stamps and counter-signatures of signtool /
// osslsigncode; openssl cms -cades). They are not signed, so nothing needs to be
// kept of them - but a parser that insists that the SignerInfo ends with the
// encrypted digest refuses every such signature. Decided on the CFG of the
// function that reads the encrypted digest: a successful return stays reachable
// from that read with the true edges of the Empty() tests on the same string removed.
func (c *Ctx) ruleUnsignedTail(rule string) {
	fns := c.pkcs7ParserFuncs(rule)
	if fns == nil {
		return
	}
	what := "elements behind the encrypted digest of a SignerInfo (unauthenticated attributes: time stamps, counter-signatures) are tolerated: the parser does not insist that the SignerInfo ends there"
	n := 0
	for _, fn := range fns {
		for _, b := range fn.Blocks {
			for _, i := range b.Instrs {
				for _, r := range c.readsOf(i) {
					if r.kind() != "OCTET" {
						continue
					}
					// does what was read end up in the signer entry's encrypted digest?
					isDigest := false
					for _, o := range r.outs {
						instrsOf(fn, func(j ssa.Instruction) {
							st, ok := j.(*ssa.Store)
							if !ok || !strings.HasSuffix(ir.FieldID(st.Addr), ".signerinfo.EncryptedDigest") {
								return
							}
							v := ir.StripConv(st.Val)
							if ld, isLd := v.(*ssa.UnOp); isLd && ld.Op == token.MUL && sameCell(ld.X, o) {
								isDigest = true
							}
						})
						if strings.HasSuffix(ir.FieldID(o), ".signerinfo.EncryptedDigest") {
							isDigest = true
						}
					}
					// ... or is returned by a helper whose only job is this read (parseEncryptedDigest)
					if !isDigest && len(acceptingReturnsMode(fn, true)) > 0 && strings.Contains(strings.ToLower(fn.Name()), "digest") && fn.Signature.Results().Len() == 2 {
						isDigest = true
					}
					if !isDigest {
						continue
					}
					n++
					cut := map[ir.Edge]bool{}
					for _, ce := range ir.CondEdges(fn) {
						call, ok := ce.Cond.(*ssa.Call)
						if !ok || ir.CallID(call) != cbPkg+".String.Empty" || !ce.Truth {
							continue
						}
						args := ir.CallArgs(call)
						if len(args) == 0 {
							continue
						}
						recv := args[0]
						if ld, isLd := recv.(*ssa.UnOp); isLd && ld.Op == token.MUL {
							recv = ld.X
						}
						if sameCell(recv, r.recv) {
							cut[ce.Edge] = true
						}
					}
					seen, _ := ir.Reach(fn, b, cut)
					ok := false
					for _, ret := range acceptingReturnsMode(fn, true) {
						if seen[ret.Block().Index] {
							ok = true
						}
					}
					c.R.Check(ok, rule, name(fn), "after-encrypted-digest", c.IPos(r.call), what,
						"every successful return behind the read of the encrypted digest needs the SignerInfo to be empty after it: signatures that carry unauthenticated attributes (a time stamp, a counter-signature) are refused")
					// the string belongs to the caller: the same question at every call site
					if p, isP := r.recv.(*ssa.Parameter); isP {
						idx := -1
						for k, q := range fn.Params {
							if q == p {
								idx = k
							}
						}
						for _, g := range fns {
							for _, gb := range g.Blocks {
								for _, gi := range gb.Instrs {
									call, isC := gi.(*ssa.Call)
									if !isC || ir.Callee(call) != fn || idx < 0 || idx >= len(call.Call.Args) {
										continue
									}
									arg := call.Call.Args[idx]
									cut := map[ir.Edge]bool{}
									for _, ce := range ir.CondEdges(g) {
										ec, isE := ce.Cond.(*ssa.Call)
										if !isE || ir.CallID(ec) != cbPkg+".String.Empty" || !ce.Truth {
											continue
										}
										ea := ir.CallArgs(ec)
										if len(ea) == 0 {
											continue
										}
										recv := ea[0]
										if ld, isLd := recv.(*ssa.UnOp); isLd && ld.Op == token.MUL {
											recv = ld.X
										}
										if sameCell(recv, arg) {
											cut[ce.Edge] = true
										}
									}
									if len(cut) == 0 {
										continue
									}
									n++
									seen, _ := ir.Reach(g, gb, cut)
									ok := false
									for _, ret := range acceptingReturnsMode(g, true) {
										if seen[ret.Block().Index] {
											ok = true
										}
									}
									c.R.Check(ok, rule, name(g), "after-encrypted-digest:caller", c.IPos(call), what,
										"every successful return behind the read of the encrypted digest needs the SignerInfo to be empty after it: signatures that carry unauthenticated attributes (a time stamp, a counter-signature) are refused")
								}
							}
						}
					}
				}
			}
		}
	}
	if n == 0 {
		if root := c.FnOpt("pkcs7.ParsePKCS7"); root != nil {
			c.R.Infof(rule, name(root), "after-encrypted-digest", c.Pos(root.Pos()), "not decided for this shape: the read of the signer entry's encrypted digest is not identified")
		}
	}
}

// ---- X1.absent: with an OPTIONAL element absent the parser still succeeds

// ruleOptionalAbsent evaluates, for every optional read (ReadOptionalASN1*) of the
// parser, the function's conditions under "the element is absent": the string
// the read fills is empty, its presence flag is false, library calls that map an
// empty input to an empty result do (x509.ParseCertificates: no certificates, no
// error). Conditions decided by that (len(x) == 0, x.Empty(), the flag, the nil
// test of such a call's error) lose the edge that cannot be taken; some successful
// return must stay reachable. Conditions that emptiness does not decide keep both
// edges, so this can only report a function that refuses every blob without the
// element ("certificate inclusion on/off", detached content, no signed attributes).
func (c *Ctx) ruleOptionalAbsent(rule string) {
	fns := c.pkcs7ParserFuncs(rule)
	if fns == nil {
		return
	}
	what := "a blob without an OPTIONAL element ([0] content, [0] certificates, [0] signed attributes) still parses: with the element absent some path of the function succeeds"
	counts := map[string]int{}
	for _, fn := range fns {
		for _, b := range fn.Blocks {
			for _, i := range b.Instrs {
				r := c.readOf(i)
				if r == nil || !strings.HasPrefix(r.method, "ReadOptionalASN1") {
					continue
				}
				key := ordinalKey(counts, name(fn)+":absent")
				construct := strings.TrimPrefix(key, name(fn)+":")
				empty := map[ssa.Value]bool{}   // values that are empty byte strings / lists
				isFalse := map[ssa.Value]bool{} // booleans that are false
				nilErr := map[ssa.Value]bool{}  // errors that are nil
				var cells []ssa.Value
				for _, o := range r.outs {
					t := deref(o.Type())
					if bt, ok := t.Underlying().(*types.Basic); ok && bt.Kind() == types.Bool {
						instrsOf(fn, func(j ssa.Instruction) {
							if ld, ok := j.(*ssa.UnOp); ok && ld.Op == token.MUL && sameCell(ld.X, o) {
								isFalse[ld] = true
							}
						})
						continue
					}
					cells = append(cells, o)
				}
				// the filled cell must not be written by anything else
				clean := true
				for _, o := range cells {
					instrsOf(fn, func(j ssa.Instruction) {
						if st, ok := j.(*ssa.Store); ok && sameCell(st.Addr, o) {
							if !ir.IsNilConst(st.Val) {
								clean = false
							}
						}
						if r2 := c.readOf(j); r2 != nil && r2.call != r.call {
							for _, o2 := range r2.outs {
								if sameCell(o2, o) {
									clean = false
								}
							}
						}
					})
				}
				if !clean || len(cells) == 0 {
					c.R.Infof(rule, name(fn), construct, c.IPos(i), "not decided for this shape: the variable the optional read fills is also written elsewhere")
					continue
				}
				for changed := true; changed; {
					changed = false
					mark := func(m map[ssa.Value]bool, v ssa.Value) {
						if !m[v] {
							m[v] = true
							changed = true
						}
					}
					instrsOf(fn, func(j ssa.Instruction) {
						switch x := j.(type) {
						case *ssa.UnOp:
							if x.Op == token.MUL {
								for _, o := range cells {
									if sameCell(x.X, o) {
										mark(empty, x)
									}
								}
							}
						case *ssa.ChangeType:
							if empty[x.X] {
								mark(empty, x)
							}
						case *ssa.Convert:
							if empty[x.X] {
								mark(empty, x)
							}
						case *ssa.Slice:
							if empty[x.X] {
								mark(empty, x)
							}
						case *ssa.Extract:
							if call, ok := x.Tuple.(*ssa.Call); ok && ir.CallID(call) == "crypto/x509.ParseCertificates" && len(call.Call.Args) == 1 && empty[call.Call.Args[0]] {
								if x.Index == 0 {
									mark(empty, x)
								} else {
									mark(nilErr, x)
								}
							}
						}
					})
				}
				cut := map[ir.Edge]bool{}
				for _, ce := range ir.CondEdges(fn) {
					decided, val := false, false
					switch x := ce.Cond.(type) {
					case *ssa.UnOp:
						if isFalse[x] {
							decided, val = true, false
						}
					case *ssa.Call:
						if ir.CallID(x) == cbPkg+".String.Empty" {
							if a := ir.CallArgs(x); len(a) > 0 && empty[a[0]] {
								decided, val = true, true
							}
						}
					case *ssa.BinOp:
						if e, nilWhenTrue, ok := ir.NilCheck(x); ok && nilErr[e] {
							decided, val = true, nilWhenTrue
							break
						}
						// len(empty) against 0
						lenOf := func(v ssa.Value) bool {
							call, ok := v.(*ssa.Call)
							if !ok {
								return false
							}
							bi, isB := call.Call.Value.(*ssa.Builtin)
							return isB && bi.Name() == "len" && len(call.Call.Args) == 1 && empty[call.Call.Args[0]]
						}
						if k, isK := ir.ConstInt(x.Y); isK && lenOf(x.X) {
							decided = true
							switch x.Op {
							case token.EQL:
								val = k == 0
							case token.NEQ:
								val = k != 0
							case token.GTR:
								val = 0 > k
							case token.GEQ:
								val = 0 >= k
							case token.LSS:
								val = 0 < k
							case token.LEQ:
								val = 0 <= k
							default:
								decided = false
							}
						}
					}
					if decided && ce.Truth != val {
						cut[ce.Edge] = true
					}
				}
				// the read itself succeeds when the element is absent
				for _, ce := range ir.CondEdges(fn) {
					if ce.Cond == ssa.Value(r.call) && !ce.Truth {
						cut[ce.Edge] = true
					}
				}
				seen, _ := ir.Reach(fn, fn.Blocks[0], cut)
				ok := false
				for _, ret := range acceptingReturnsMode(fn, true) {
					if seen[ret.Block().Index] {
						ok = true
					}
				}
				c.R.Check(ok, rule, name(fn), construct, c.IPos(i), what,
					"with the optional element absent (the string it fills empty, its presence flag false, nothing parsed out of it) no successful return of "+name(fn)+" is reachable: every blob without the element is refused")
			}
		}
	}
}
