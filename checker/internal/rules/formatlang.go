package rules

import (
	"fmt"
	"go/constant"
	"go/token"
	"go/types"
	"strings"

	"golang.org/x/tools/go/ssa"

	"verif/checker/internal/ir"
)

// Rule family H: the abstract output language of string-building expressions.

type seg struct {
	kind   string // "lit", "hex", "var"
	lit    string
	digits int  // hex: exact digit count, -1 if variable
	upper  bool // hex case
	val    ssa.Value
	note   string
	folded string     // var: the case conversion the value passes through ("" if none)
	fr     *frame     // deep evaluator: the frame val lives in
	origin *hexOrigin // deep evaluator: what a hex group prints
	// plainBytes: a %x without flags or padding that alter the digits of a byte slice
	plainBytes bool
	// fmtWidth / fmtPlainFlags: the width of the verb and whether its flags leave the
	// digits alone (for evaluators that learn the operand's length later)
	fmtWidth      int
	fmtPlainFlags bool
}

func (s seg) String() string {
	switch s.kind {
	case "lit":
		return fmt.Sprintf("%q", s.lit)
	case "hex":
		cs := "lower"
		if s.upper {
			cs = "UPPER"
		}
		if s.digits < 0 {
			return "hex(" + cs + ",variable width)"
		}
		return fmt.Sprintf("hex(%s,%d)", cs, s.digits)
	}
	return "var(" + s.note + ")"
}

func langString(ss []seg) string {
	var p []string
	for _, s := range ss {
		p = append(p, s.String())
	}
	return strings.Join(p, " ")
}

// variadicArgs resolves the elements of the []interface{} passed as variadic
// argument (slice over a local array filled by constant-index stores).
func variadicArgs(v ssa.Value) ([]ssa.Value, bool) {
	if k, ok := v.(*ssa.Const); ok && k.Value == nil {
		return nil, true
	}
	sl, ok := v.(*ssa.Slice)
	if !ok {
		return nil, false
	}
	a, ok := sl.X.(*ssa.Alloc)
	if !ok {
		return nil, false
	}
	arr, ok := a.Type().Underlying().(*types.Pointer).Elem().Underlying().(*types.Array)
	if !ok {
		return nil, false
	}
	out := make([]ssa.Value, arr.Len())
	for _, r := range *a.Referrers() {
		ia, ok := r.(*ssa.IndexAddr)
		if !ok {
			continue
		}
		idx, ok := ir.ConstInt(ia.Index)
		if !ok {
			return nil, false
		}
		for _, rr := range *ia.Referrers() {
			if st, ok := rr.(*ssa.Store); ok && st.Addr == ia {
				val := st.Val
				if mi, ok := val.(*ssa.MakeInterface); ok {
					val = mi.X
				}
				out[idx] = val
			}
		}
	}
	for _, o := range out {
		if o == nil {
			return nil, false
		}
	}
	return out, true
}

// byteLen returns the statically known length of a byte array/slice value.
func byteLen(v ssa.Value) (int64, bool) {
	switch t := v.Type().Underlying().(type) {
	case *types.Array:
		return t.Len(), true
	case *types.Pointer:
		if a, ok := t.Elem().Underlying().(*types.Array); ok {
			return a.Len(), true
		}
	}
	switch x := v.(type) {
	case *ssa.Slice:
		// both bounds constant: the length does not depend on the base
		if x.High != nil {
			if h, okH := ir.ConstInt(x.High); okH {
				l := int64(0)
				okL := true
				if x.Low != nil {
					l, okL = ir.ConstInt(x.Low)
				}
				if okL {
					return h - l, true
				}
			}
		}
		base, ok := byteLen(x.X)
		if !ok {
			return 0, false
		}
		lo, hi := int64(0), base
		if x.Low != nil {
			n, ok := ir.ConstInt(x.Low)
			if !ok {
				return 0, false
			}
			lo = n
		}
		if x.High != nil {
			n, ok := ir.ConstInt(x.High)
			if !ok {
				return 0, false
			}
			hi = n
		}
		return hi - lo, true
	case *ssa.UnOp:
		if x.Op == token.MUL {
			return byteLen(x.X)
		}
	}
	return 0, false
}

func uintWidth(t types.Type) (int, bool) {
	b, ok := t.Underlying().(*types.Basic)
	if !ok {
		return 0, false
	}
	switch b.Kind() {
	case types.Uint8:
		return 1, true
	case types.Uint16:
		return 2, true
	case types.Uint32:
		return 4, true
	case types.Uint64:
		return 8, true
	}
	return 0, false
}

// sprintfLang evaluates a constant format with typed arguments.
func sprintfLang(format string, args []ssa.Value) []seg {
	var out []seg
	lit := ""
	flush := func() {
		if lit != "" {
			out = append(out, seg{kind: "lit", lit: lit})
			lit = ""
		}
	}
	ai := 0
	for i := 0; i < len(format); i++ {
		ch := format[i]
		if ch != '%' {
			lit += string(ch)
			continue
		}
		i++
		if i >= len(format) {
			break
		}
		if format[i] == '%' {
			lit += "%"
			continue
		}
		flags := ""
		for i < len(format) && strings.ContainsRune("#0+- ", rune(format[i])) {
			flags += string(format[i])
			i++
		}
		width := -1
		for i < len(format) && format[i] >= '0' && format[i] <= '9' {
			if width < 0 {
				width = 0
			}
			width = width*10 + int(format[i]-'0')
			i++
		}
		if i < len(format) && format[i] == '.' {
			i++
			for i < len(format) && format[i] >= '0' && format[i] <= '9' {
				i++
			}
		}
		if i >= len(format) {
			break
		}
		verb := format[i]
		flush()
		var arg ssa.Value
		if ai < len(args) {
			arg = args[ai]
		}
		ai++
		switch verb {
		case 'x', 'X':
			s := seg{kind: "hex", upper: verb == 'X', val: arg, digits: -1, fmtWidth: width, fmtPlainFlags: !strings.ContainsAny(flags, "#+- ")}
			if arg != nil && !strings.ContainsAny(flags, "#+- ") {
				// a byte slice printed without flags that change the digits (and without padding)
				if n, ok := byteLen(arg); width < 0 || ok && width <= int(2*n) {
					s.plainBytes = true
				}
				if w, ok := uintWidth(arg.Type()); ok {
					if strings.Contains(flags, "0") && width == 2*w {
						s.digits = width
					}
				} else if n, ok := byteLen(arg); ok {
					if width <= int(2*n) {
						s.digits = int(2 * n)
					}
				}
			}
			out = append(out, s)
		default:
			out = append(out, seg{kind: "var", val: arg, note: "%" + flags + string(verb)})
		}
	}
	flush()
	return out
}

// stringLang evaluates the language of a string-valued SSA expression.
func (c *Ctx) stringLang(v ssa.Value, depth int) []seg {
	if depth > 6 {
		return []seg{{kind: "var", note: "too deep"}}
	}
	switch x := v.(type) {
	case *ssa.Const:
		if x.Value != nil && x.Value.Kind() == constant.String {
			return []seg{{kind: "lit", lit: constant.StringVal(x.Value)}}
		}
	case *ssa.BinOp:
		if x.Op == token.ADD {
			return append(c.stringLang(x.X, depth+1), c.stringLang(x.Y, depth+1)...)
		}
	case *ssa.Call:
		id := ir.CallID(x)
		switch id {
		case "fmt.Sprintf":
			if k, ok := x.Call.Args[0].(*ssa.Const); ok && k.Value != nil && k.Value.Kind() == constant.String {
				if args, ok := variadicArgs(x.Call.Args[1]); ok {
					return sprintfLang(constant.StringVal(k.Value), args)
				}
			}
		case "strings.ToUpper", "strings.ToLower":
			in := c.stringLang(x.Call.Args[0], depth+1)
			for i := range in {
				switch in[i].kind {
				case "hex":
					in[i].upper = id == "strings.ToUpper"
				case "lit":
					if id == "strings.ToUpper" {
						in[i].lit = strings.ToUpper(in[i].lit)
					} else {
						in[i].lit = strings.ToLower(in[i].lit)
					}
				}
			}
			return in
		case "encoding/hex.EncodeToString":
			s := seg{kind: "hex", upper: false, digits: -1, val: x.Call.Args[0]}
			if n, ok := byteLen(x.Call.Args[0]); ok {
				s.digits = int(2 * n)
			} else if mk := makeLenOf(x.Call.Args[0]); mk >= 0 {
				s.digits = int(2 * mk)
			}
			return []seg{s}
		}
		if callee := ir.Callee(x); callee != nil && c.P.InLib(callee) {
			rets := ir.Returns(callee)
			if len(rets) == 1 && len(rets[0].Results) == 1 {
				return c.stringLang(rets[0].Results[0], depth+1)
			}
		}
	}
	return []seg{{kind: "var", note: "opaque " + v.String()}}
}

// makeLenOf: v is (a slice of) make([]byte, k) with constant k.
func makeLenOf(v ssa.Value) int64 {
	switch x := v.(type) {
	case *ssa.MakeSlice:
		if n, ok := ir.ConstInt(x.Len); ok {
			return n
		}
	case *ssa.Slice:
		if x.Low == nil && x.High == nil {
			if a, ok := x.X.(*ssa.Alloc); ok {
				if n, ok := byteLen(a); ok {
					return n
				}
			}
		}
	}
	return -1
}

// ruleGUIDFormat (H1): (*EFIGUID).Format yields 8-4-4-4-12 lower-case hex of
// Data1, Data2, Data3, Data4[0:2], Data4[2:8].
func (c *Ctx) ruleGUIDFormat(rule string) {
	fn := c.Fn(rule, "efi/util.(*EFIGUID).Format")
	if fn == nil {
		return
	}
	rets := ir.Returns(fn)
	if len(rets) != 1 {
		c.R.Undecf(rule, name(fn), "format", c.Pos(fn.Pos()), "GUID text is produced by one expression", fmt.Sprintf("%d returns", len(rets)))
		return
	}
	dv := c.deepViewOf(fn, 3)
	lang := dv.strLang(rets[0].Results[0], dv.root, 0)
	want := []struct {
		digits int
		field  string
		lo, hi int64
	}{{8, "Data1", -1, -1}, {4, "Data2", -1, -1}, {4, "Data3", -1, -1}, {4, "Data4", 0, 2}, {12, "Data4", 2, 8}}
	var problems []string
	// expected shape: hex - hex - hex - hex - hex
	if len(lang) != 9 {
		problems = append(problems, "text is not five hexadecimal groups joined by four dashes")
	} else {
		for k, w := range want {
			s := lang[2*k]
			if s.kind != "hex" || s.digits != w.digits {
				problems = append(problems, fmt.Sprintf("group %d is %s, want exactly %d hexadecimal digits (zero padded)", k+1, s.String(), w.digits))
				continue
			}
			if s.upper {
				problems = append(problems, fmt.Sprintf("group %d is upper case", k+1))
			}
			if !guidOriginIs(s, w.field, w.lo, w.hi) {
				problems = append(problems, fmt.Sprintf("group %d does not print %s%s", k+1, w.field, boundsStr(w.lo, w.hi)))
			}
			if k < 4 {
				if d := lang[2*k+1]; d.kind != "lit" || d.lit != "-" {
					problems = append(problems, fmt.Sprintf("separator %d is %s", k+1, d.String()))
				}
			}
		}
	}
	if len(problems) > 0 && len(lang) == 0 {
		c.R.Infof(rule, name(fn), "language", c.Pos(fn.Pos()), "not decided for this shape: the text is assembled in a way the string evaluator does not follow (no part of it is resolved)")
		return
	}
	if len(problems) > 0 {
		for _, sg := range lang {
			if sg.kind == "var" && (strings.HasPrefix(sg.note, "opaque") || sg.note == "too deep") {
				c.R.Infof(rule, name(fn), "language", c.Pos(fn.Pos()), "not decided for this shape: the text is assembled in a way the string evaluator does not follow [language: "+langString(lang)+"]")
				return
			}
		}
	}
	c.R.Check(len(problems) == 0, rule, name(fn), "language", c.Pos(fn.Pos()),
		"GUID text is the canonical 36-character lower-case form 8-4-4-4-12 over Data1, Data2, Data3, Data4[0:2], Data4[2:8]",
		strings.Join(problems, "; ")+" [language: "+langString(lang)+"]")
}

func boundsStr(lo, hi int64) string {
	if lo < 0 {
		return ""
	}
	return fmt.Sprintf("[%d:%d]", lo, hi)
}

func guidFieldIs(v ssa.Value, field string, lo, hi int64) bool {
	if v == nil {
		return false
	}
	if lo >= 0 {
		sl, ok := v.(*ssa.Slice)
		if !ok {
			return false
		}
		l, h := int64(0), int64(8)
		if sl.Low != nil {
			n, ok := ir.ConstInt(sl.Low)
			if !ok {
				return false
			}
			l = n
		}
		if sl.High != nil {
			n, ok := ir.ConstInt(sl.High)
			if !ok {
				return false
			}
			h = n
		}
		if l != lo || h != hi {
			return false
		}
		return ir.FieldID(sl.X) == M+"/efi/util.EFIGUID."+field
	}
	return ir.FieldID(v) == M+"/efi/util.EFIGUID."+field
}

// guidOriginIs: the hex group prints the given GUID field (byte range lo:hi of Data4).
func guidOriginIs(s seg, field string, lo, hi int64) bool {
	if s.origin == nil {
		return guidFieldIs(s.val, field, lo, hi)
	}
	o := s.origin
	if o.field != M+"/efi/util.EFIGUID."+field {
		return false
	}
	if lo < 0 {
		return o.blo < 0 || o.blo == 0 && o.bhi == int64(s.digits/2)
	}
	return o.blo == lo && o.bhi == hi
}
