package rules

import (
	"go/types"
	"strings"

	"golang.org/x/tools/go/ssa"

	"verif/checker/internal/ir"
)

// Constructs that none of the evaluators model. A rule that fails on a function
// whose code (its own body, its function literals, and the library functions it
// statically calls, four levels deep) uses one of them has not followed the
// code: the obligation is recorded as "not decided", naming the construct.
//
//   - a package-level table of structs or functions (dispatch tables, layout
//     tables): what a row holds is known only by evaluating the initialiser;
//   - an instantiation of a generic library function: the body is analysed once
//     per instantiation by go/ssa, the evaluators do not bind type arguments;
//   - a call of a function value that the code does not fix (a func-typed
//     parameter or field, an element of a table);
//   - a method value of a library method used as a function value.
//
// Callbacks handed to code outside the library (sort comparators, cryptobyte
// builder continuations) are modelled where they matter and are not in this
// list. The unchanged tree uses none of the four constructs in the cones of the
// anchored functions; the check prints them when it finds one.

// InstallSoften wires the "not decided" policy into the run.
func (c *Ctx) InstallSoften() {
	c.installGlobalValues()
	byName := map[string]*ssa.Function{}
	for _, fn := range c.P.LibFunctions() {
		byName[name(fn)] = fn
		// instantiations of a generic function are reported under the generic's name too
		if o := fn.Origin(); o != nil && o != fn {
			byName[name(o)] = fn
			if k := strings.Index(name(fn), "["); k > 0 {
				byName[name(fn)[:k]] = fn
			}
		}
	}
	cache := map[*ssa.Function]string{}
	c.R.Soften = func(fnName, rule string) string {
		fn := byName[fnName]
		if fn == nil {
			return ""
		}
		if w, ok := cache[fn]; ok {
			return w
		}
		w := c.unmodelledConstruct(fn)
		cache[fn] = w
		return w
	}
}

func (c *Ctx) unmodelledConstruct(root *ssa.Function) string {
	seen := map[*ssa.Function]bool{}
	why := ""
	var walk func(f *ssa.Function, depth int)
	walk = func(f0 *ssa.Function, depth int) {
		if f0 == nil || seen[f0] || depth > 4 || why != "" || f0.Blocks == nil {
			return
		}
		seen[f0] = true
		for _, f := range withAnon(f0) {
			if len(f.TypeArgs()) > 0 && c.P.InLib(f) {
				why = "generic function " + name(f) + " is instantiated in the call cone"
				return
			}
			instrsOf(f, func(i ssa.Instruction) {
				if why != "" {
					return
				}
				// (a) package-level tables of structs / functions
				for _, op := range i.Operands(nil) {
					g, ok := (*op).(*ssa.Global)
					if !ok || g.Pkg == nil || !strings.HasPrefix(g.Pkg.Pkg.Path(), M) {
						continue
					}
					var elem types.Type
					switch t := g.Type().Underlying().(*types.Pointer).Elem().Underlying().(type) {
					case *types.Slice:
						elem = t.Elem()
					case *types.Array:
						elem = t.Elem()
					case *types.Map:
						elem = t.Elem()
					}
					if elem == nil {
						// a package-level object of a library struct type that carries behaviour
						// (an encoding, a function): a codec or strategy value shared by the functions
						if n, isN := g.Type().Underlying().(*types.Pointer).Elem().(*types.Named); isN && n.Obj().Pkg() != nil && strings.HasPrefix(n.Obj().Pkg().Path(), M) {
							if st, isS := n.Underlying().(*types.Struct); isS {
								for k := 0; k < st.NumFields(); k++ {
									switch st.Field(k).Type().Underlying().(type) {
									case *types.Interface, *types.Signature:
										why = "the package-level object " + g.Name() + " (" + n.Obj().Name() + ", carrying an interface or function value) is used in " + name(f)
										return
									}
								}
							}
						}
						continue
					}
					if p, isP := elem.Underlying().(*types.Pointer); isP {
						elem = p.Elem()
					}
					switch elem.Underlying().(type) {
					case *types.Struct, *types.Signature:
						if ir.NamedTypeID(elem) == M+"/efi/util.EFIGUID" {
							continue
						}
						why = "the package-level table " + g.Name() + " (rows of structs or functions) is consulted in " + name(f)
						return
					}
				}
				switch x := i.(type) {
				case *ssa.MakeClosure:
					if fnc, ok := x.Fn.(*ssa.Function); ok && strings.HasSuffix(fnc.Name(), "$bound") {
						why = "a method value (" + fnc.Name() + ") is used as a function value in " + name(f)
					}
				case ssa.CallInstruction:
					cc := x.Common()
					if cc.IsInvoke() {
						return
					}
					if _, isB := cc.Value.(*ssa.Builtin); isB {
						return
					}
					callee := ir.Callee(x)
					if callee == nil {
						why = "a function value that the code does not fix is called at " + c.IPos(i)
						return
					}
					if c.P.InLib(callee) {
						if len(callee.TypeArgs()) > 0 {
							why = "generic function " + name(callee) + " is instantiated in the call cone"
							return
						}
						walk(callee, depth+1)
					}
				}
			})
		}
	}
	walk(root, 0)
	return why
}
