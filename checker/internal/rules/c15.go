package rules

import (
	"golang.org/x/tools/go/ssa"
	"strings"

	"verif/checker/internal/ir"
)

func init() { Registry["C15"] = checkC15 }

// c15Roots: the operations the property names.
func (c *Ctx) c15Roots() []*ssa.Function {
	var roots []*ssa.Function
	for _, s := range []string{
		"pkcs7.SignPKCS7", "authenticode.SignAuthenticode", "authenticode.Parse",
		"authenticode.(*PECOFFBinary).Hash", "authenticode.(*PECOFFBinary).Sign", "authenticode.(*PECOFFBinary).Verify",
		"authenticode.(*Authenticode).Verify", "efi/signature.SignEFIVariable",
		"efivarfs.(*EFIFS).WriteVar", "efivarfs.(*EFIFS).GetVar", "efivarfs.(*EFIFS).GetVarWithAttributes",
		"efivarfs/fswrapper.(*FSWrapper).WriteEfivarsWithGuid", "efivarfs/fswrapper.(*FSWrapper).ReadEfivarsFile",
		"efivarfs/fswrapper.(*FSWrapper).ReadEfivarsWithGuid", "efivarfs/fswrapper.(*FSWrapper).ParseEfivars",
		"efi/attributes.WriteEfivarsWithGuid", "efi/attributes.WriteEfivars", "efi/attributes.ReadEfivarsFile",
		"efi/attributes.ReadEfivarsWithGuid", "efi/attributes.ReadEfivars", "efi/attributes.ParseEfivars",
	} {
		if fn := c.Fn("C.anchor", s); fn != nil {
			roots = append(roots, fn)
		}
	}
	// every exported method of *Efivarfs (WriteSignedUpdate, Get*)
	for _, fn := range c.ExportedAPI("efivarfs") {
		if fn.Signature.Recv() != nil && ir.NamedTypeID(fn.Signature.Recv().Type()) == M+"/efivarfs.Efivarfs" {
			roots = append(roots, fn)
		}
	}
	return roots
}

func checkC15(c *Ctx) {
	roots := c.c15Roots()
	reach, prev := c.Reachable(roots)
	inScope := func(fn *ssa.Function) bool { return reach[fn] && c.P.InLib(fn) }
	chain := func(fn *ssa.Function) string { return c.Chain(prev, fn) }
	n := 0
	for fn := range reach {
		if c.P.InLib(fn) {
			n++
		}
	}
	c.R.Extra["functions_in_scope"] = n
	c.R.Extra["not_judged"] = []string{"(*PECOFFBinary).Bytes/Open (re-serialisation has no error result and is not among the property's operations)",
		"(*FSWrapper).ReadFile/WriteFile (not reachable from a listed operation)", "legacy package efi (anchored only by C18)"}
	c.RuleC(inScope)
	c.RuleC5(inScope)
	c.RuleB("C3.term", reach, chain, map[string]bool{"DEPENDENCY": true})
	c.ruleOrder()
	c.ruleShortWrite("C4.shortwrite")
	c.ruleShortRead("C6.shortread", inScope)
	// a failure is not reported with an error variable that is nil at that point
	c.ruleStaleNil("N3.stalenil", inScope)
	// a variable file that ends early is an error, not an empty or zero-filled value (F7, shared with C11)
	for _, s := range []string{"efivarfs/fswrapper.(*FSWrapper).ParseEfivars", "efi/attributes.ParseEfivars"} {
		if fn := c.FnOpt(s); fn != nil {
			c.judgeReadShape(fn)
		}
	}
	c.R.Floor("C1.dropped", 15)
	c.R.Floor("C2.surface", 15)
	c.R.Floor("C.order", 3)
	c.R.Floor("C4.shortwrite", 1)
}

// ruleOrder: C-order-1/2 — effects only behind the success edge of signing.
func (c *Ctx) ruleOrder() {
	// (*PECOFFBinary).Sign: receiver mutations behind SignAuthenticode's success
	if fn := c.Fn("C.order", "authenticode.(*PECOFFBinary).Sign"); fn != nil {
		c.orderIn(fn, func(call ssa.CallInstruction) bool {
			callee := ir.Callee(call)
			return callee != nil && c.reachesSigner(callee)
		}, c.receiverMutation(fn), "mutation of the image object")
	}
	// (*PECOFFBinary).Sign: once the signature is on the image object, Sign does not report failure
	if fn := c.Fn("C.order", "authenticode.(*PECOFFBinary).Sign"); fn != nil {
		isMut := c.receiverMutation(fn)
		bad := ""
		n := 0
		instrsOf(fn, func(i ssa.Instruction) {
			if !isMut(i) {
				return
			}
			n++
			starts := []struct {
				b    *ssa.BasicBlock
				pred int
			}{}
			if call, isC := i.(ssa.CallInstruction); isC {
				if e, kept := errValue(call); kept && e != nil {
					// from the edge on which the mutator itself reported success
					for _, ce := range ir.CondEdges(fn) {
						if v, isNil := errIsNil(ce.RawCond, ce.RawTruth); v != nil && isNil && sameErrValueAt(v, e) {
							starts = append(starts, struct {
								b    *ssa.BasicBlock
								pred int
							}{fn.Blocks[ce.Edge.To], ce.Edge.From})
						}
					}
				}
			}
			if len(starts) == 0 {
				for _, s := range i.Block().Succs {
					starts = append(starts, struct {
						b    *ssa.BasicBlock
						pred int
					}{s, i.Block().Index})
				}
			}
			for _, st := range starts {
				for r, cl := range retClassesFrom(fn, st.b, st.pred) {
					if cl == "fail" {
						bad = c.IPos(r)
					}
				}
			}
		})
		if n > 0 {
			c.R.Check(bad == "", "C.order", name(fn), "no-failure-after-effect", c.Pos(fn.Pos()), "after the signature was put on the image object Sign does not return an error",
				"the failing return at "+bad+" is reachable after the image object was changed: the caller is told that signing failed while the object already carries the new signature")
		}
	}
	// (*PECOFFBinary).Hash: whatever it keeps on the image object is kept only after the image was read completely
	if fn := c.Fn("C.order", "authenticode.(*PECOFFBinary).Hash"); fn != nil {
		var rd *ssa.Call
		instrsOf(fn, func(i ssa.Instruction) {
			if call, ok := i.(*ssa.Call); ok {
				switch ir.CallID(call) {
				case "io.Copy", "io.ReadAll", "bytes.Buffer.ReadFrom", "io.CopyN", "io.CopyBuffer":
					rd = call
				}
			}
		})
		isMut := c.receiverMutation(fn)
		var muts []ssa.Instruction
		instrsOf(fn, func(i ssa.Instruction) {
			if isMut(i) {
				muts = append(muts, i)
			}
			if mu, ok := i.(*ssa.MapUpdate); ok && paramRoot(loadAddr(ir.RootOf(mu.Map)), fn) == fn.Params[0] {
				muts = append(muts, i)
			}
		})
		switch {
		case len(muts) == 0:
			c.R.Okf("C.order", name(fn), "state-after-read", c.Pos(fn.Pos()), "hashing keeps nothing on the image object")
		case rd == nil:
			c.R.Infof("C.order", name(fn), "state-after-read", c.Pos(fn.Pos()), "not decided for this shape: the image object is updated and the read of the image is not identified in "+name(fn))
		default:
			e, kept := errValue(rd)
			ok, where := true, ""
			for _, m := range muts {
				if !kept || e == nil || !successDominates(fn, e, m.Block()) {
					ok, where = false, c.IPos(m)
				}
			}
			c.R.Check(ok, "C.order", name(fn), "state-after-read", c.IPos(rd), "state kept on the image object is stored only behind the success edge of reading the image",
				"the image object is updated at "+where+" before (or regardless of whether) the image was read without error: after a failed read a later call finds the half-fed state")
		}
	}
	// (*Efivarfs).WriteSignedUpdate: WriteVar behind SignEFIVariable's success
	if fn := c.Fn("C.order", "efivarfs.(*Efivarfs).WriteSignedUpdate"); fn != nil {
		c.orderIn(fn, func(call ssa.CallInstruction) bool {
			callee := ir.Callee(call)
			return callee != nil && c.reachesSigner(callee)
		}, func(i ssa.Instruction) bool {
			call, ok := i.(ssa.CallInstruction)
			if !ok {
				return false
			}
			cc := call.Common()
			if cc.IsInvoke() {
				if cc.Method.Name() == "WriteVar" || dependencyKind(cc.Value.Type()) == "filesystem" {
					return true
				}
				// a method of the backend reached through another interface (a type
				// assertion on e.EFIVars): what the call graph resolves it to
				if node := c.P.CallGraph().Nodes[fn]; node != nil {
					for _, out := range node.Out {
						if out.Site == call && c.P.InLib(out.Callee.Func) && c.reachesFsMutation(out.Callee.Func) {
							return true
						}
					}
				}
				return false
			}
			callee := ir.Callee(call)
			return callee != nil && c.P.InLib(callee) && c.reachesFsWrite(callee)
		}, "write of the variable")
	}
	// SignPKCS7: success return only behind signer.Sign's success
	if fn := c.Fn("C.order", "pkcs7.SignPKCS7"); fn != nil {
		var signErr ssa.Value
		var signCall ssa.CallInstruction
		for _, f := range withAnon(fn) {
			instrsOf(f, func(i ssa.Instruction) {
				if call, ok := i.(ssa.CallInstruction); ok && call.Common().IsInvoke() &&
					dependencyKind(call.Common().Value.Type()) == "signer" && call.Common().Method.Name() == "Sign" {
					if e, kept := errValue(call); kept && e != nil && f == fn {
						signErr, signCall = e, call
					}
				}
			})
		}
		if signCall == nil {
			// the signer may be called in a helper; then the helper's error plays the role
			instrsOf(fn, func(i ssa.Instruction) {
				if call, ok := i.(ssa.CallInstruction); ok {
					if callee := ir.Callee(call); callee != nil && c.P.InLib(callee) && c.reachesSigner(callee) {
						if e, kept := errValue(call); kept && e != nil {
							signErr, signCall = e, call
						}
					}
				}
			})
		}
		if signCall == nil {
			c.R.Undecf("C.order", name(fn), "sign-call", "-", "the call that invokes the caller's signer must be identifiable", "no call reaching crypto.Signer.Sign with a kept error result found")
		} else {
			ok := true
			where := ""
			for _, r := range ir.Returns(fn) {
				if len(r.Results) == 0 {
					continue
				}
				ev := r.Results[len(r.Results)-1]
				if definitelyNonNilErr(ev, 0) || derivesFromErr(ev, signErr, 0) && !isPhi(ev) {
					continue
				}
				// a return that may report success: must be behind the success edge
				seen, _ := ir.Reach(fn, signCall.Block(), nil)
				if !seen[r.Block().Index] {
					continue // cannot follow the sign call at all (early exits before signing)
				}
				if !successDominates(fn, signErr, r.Block()) {
					ok = false
					where = c.IPos(r)
				}
			}
			c.R.Check(ok, "C.order", name(fn), "success-after-sign", c.IPos(signCall),
				"a signature blob is returned as success only behind the success edge of the signer call",
				"return at "+where+" may report success although the signer failed")
		}
	}
}

// orderIn: every effect instruction must be dominated by the nil-error edge of
// the (unique) trigger call.
func (c *Ctx) orderIn(fn *ssa.Function, isTrigger func(ssa.CallInstruction) bool, isEffect func(ssa.Instruction) bool, what string) {
	var trig ssa.CallInstruction
	var e ssa.Value
	instrsOf(fn, func(i ssa.Instruction) {
		if call, ok := i.(ssa.CallInstruction); ok && isTrigger(call) {
			if ev, kept := errValue(call); kept && ev != nil {
				trig, e = call, ev
			} else if trig == nil {
				trig = call
			}
		}
	})
	if trig == nil {
		c.R.Undecf("C.order", name(fn), "trigger", "-", "the signing call must be identifiable", "no call reaching the caller's signer found in "+name(fn))
		return
	}
	if e == nil {
		c.R.Violf("C.order", name(fn), "effect-after-sign", c.IPos(trig), what+" only after signing succeeded", "the error of the signing call is dropped")
		return
	}
	ok := true
	where := ""
	effects := 0
	instrsOf(fn, func(i ssa.Instruction) {
		if i == ssa.Instruction(trig) || !isEffect(i) {
			return
		}
		effects++
		if !successDominates(fn, e, i.Block()) {
			ok = false
			where = c.IPos(i)
		}
	})
	if effects == 0 {
		c.R.Undecf("C.order", name(fn), "effect", c.IPos(trig), "the effect guarded by signing must be identifiable", "no "+what+" found in "+name(fn))
		return
	}
	c.R.Check(ok, "C.order", name(fn), "effect-after-sign", c.IPos(trig), what+" happens only behind the success edge of the signing call",
		what+" at "+where+" is not dominated by the success edge of the signing call")
}

func (c *Ctx) reachesSigner(fn *ssa.Function) bool {
	reach, _ := c.Reachable([]*ssa.Function{fn})
	for f := range reach {
		if !c.P.InLib(f) {
			continue
		}
		hit := false
		instrsOf(f, func(i ssa.Instruction) {
			if call, ok := i.(ssa.CallInstruction); ok && call.Common().IsInvoke() && dependencyKind(call.Common().Value.Type()) == "signer" {
				hit = true
			}
		})
		if hit {
			return true
		}
	}
	return false
}

func (c *Ctx) reachesFsWrite(fn *ssa.Function) bool {
	reach, _ := c.Reachable([]*ssa.Function{fn})
	for f := range reach {
		if !c.P.InLib(f) {
			continue
		}
		hit := false
		instrsOf(f, func(i ssa.Instruction) {
			if call, ok := i.(ssa.CallInstruction); ok && call.Common().IsInvoke() && dependencyKind(call.Common().Value.Type()) == "filesystem" {
				hit = true
			}
		})
		if hit {
			return true
		}
	}
	return false
}

// reachesFsMutation: the function (transitively, in the library) changes the
// caller's filesystem: a mutating method, or an OpenFile that can create,
// truncate or write.
func (c *Ctx) reachesFsMutation(fn *ssa.Function) bool {
	oR, _ := c.constInt("os", "O_RDONLY")
	reach, _ := c.Reachable([]*ssa.Function{fn})
	for f := range reach {
		if !c.P.InLib(f) {
			continue
		}
		hit := false
		instrsOf(f, func(i ssa.Instruction) {
			call, ok := i.(ssa.CallInstruction)
			if !ok || !call.Common().IsInvoke() || dependencyKind(call.Common().Value.Type()) != "filesystem" {
				return
			}
			switch m := call.Common().Method.Name(); {
			case fsMutators[m], m == "Write":
				hit = true
			case m == "OpenFile" && len(call.Common().Args) >= 2:
				if k, isK := evalConst(call.Common().Args[1]); !isK || k != oR {
					hit = true
				}
			}
		})
		if hit {
			return true
		}
	}
	return false
}

// writesReceiver: the method (transitively, in the library) stores through its receiver.
func (c *Ctx) writesReceiver(fn *ssa.Function) bool { return c.writesReceiverDepth(fn, 0) }

func (c *Ctx) writesReceiverDepth(fn *ssa.Function, depth int) bool {
	if len(fn.Params) == 0 || depth > 3 {
		return false
	}
	hit := false
	instrsOf(fn, func(i ssa.Instruction) {
		switch x := i.(type) {
		case *ssa.Store:
			if ir.RootOf(x.Addr) == ssa.Value(fn.Params[0]) {
				hit = true
			}
		case ssa.CallInstruction:
			// writes into objects held by the receiver (p.certTable.Write)
			for _, a := range ir.CallArgs(x) {
				if ir.RootOf(a) == ssa.Value(fn.Params[0]) && a != ssa.Value(fn.Params[0]) {
					id := ir.CallID(x)
					if id == "bytes.Buffer.Write" || id == "encoding/binary.Write" || id == "bytes.Buffer.WriteString" {
						hit = true
					}
				}
			}
			// a library function handed the receiver (or an object it holds) that writes through it
			if callee := ir.Callee(x); callee != nil && callee != fn && c.P.InLib(callee) && callee.Blocks != nil {
				for k, a := range ir.CallArgs(x) {
					if k < len(callee.Params) && ir.RootOf(a) == ssa.Value(fn.Params[0]) {
						if k == 0 && c.writesReceiverDepth(callee, depth+1) {
							hit = true
						} else if k > 0 && c.writesThroughParam(callee, k) {
							hit = true
						}
					}
				}
			}
		}
	})
	return hit
}

// receiverMutation: the instruction mutates the receiver of fn — a store through
// it, or a call of a library method on it that writes receiver state (the
// receiver may have been spilled to a cell because a function literal captures it).
func (c *Ctx) receiverMutation(fn *ssa.Function) func(i ssa.Instruction) bool {
	return func(i ssa.Instruction) bool {
		// mutation of the receiver: stores through it, or calls to repo
		// methods on it that write receiver state
		switch x := i.(type) {
		case *ssa.Store:
			return ir.RootOf(x.Addr) == ssa.Value(fn.Params[0]) || paramRoot(loadAddr(ir.RootOf(x.Addr)), fn) == fn.Params[0] && ir.RootOf(x.Addr) != loadAddr(ir.RootOf(x.Addr))
		case ssa.CallInstruction:
			callee := ir.Callee(x)
			if callee == nil || !c.P.InLib(callee) || len(x.Common().Args) == 0 {
				return false
			}
			recv := x.Common().Args[0]
			isRecv := ir.RootOf(recv) == ssa.Value(fn.Params[0])
			if !isRecv {
				// the receiver spilled to a cell because a function literal captures it
				switch y := ir.RootOf(recv).(type) {
				case *ssa.UnOp:
					isRecv = paramRoot(y.X, fn) == fn.Params[0]
				case *ssa.Alloc:
					isRecv = paramRoot(y, fn) == fn.Params[0]
				}
			}
			return isRecv && c.writesReceiver(callee)
		}
		return false
	}
}

// ruleShortRead (C6.shortread): io.Reader.Read may return fewer bytes than
// asked for together with a nil error. A direct Read on a caller-supplied
// reader or file whose count is thrown away treats a short read as a full one:
// the rest of the buffer keeps its zero bytes and the value is reported as
// read. (io.ReadFull, io.ReadAll, binary.Read and io.Copy loop themselves.)
func (c *Ctx) ruleShortRead(rule string, in func(*ssa.Function) bool) int {
	n := 0
	counts := map[string]int{}
	for _, fn := range c.P.LibFunctions() {
		if in != nil && !in(fn) {
			continue
		}
		fn := fn
		instrsOf(fn, func(i ssa.Instruction) {
			call, ok := i.(ssa.CallInstruction)
			if !ok || !call.Common().IsInvoke() || call.Common().Method.Name() != "Read" || len(call.Common().Args) != 1 || !isByteSlice(call.Common().Args[0].Type()) {
				return
			}
			n++
			key := ordinalKey(counts, name(fn)+":Read")
			construct := strings.TrimPrefix(key, name(fn)+":")
			used := false
			if v, isV := call.(*ssa.Call); isV && v.Referrers() != nil {
				for _, r := range *v.Referrers() {
					if ex, ok := r.(*ssa.Extract); ok && ex.Index == 0 && ex.Referrers() != nil && len(*ex.Referrers()) > 0 {
						used = true
					}
				}
			}
			if !used && c.contentNeverRead(call.Common().Args[0]) {
				// a drain: the bytes go into a scratch buffer that nothing ever reads from, so
				// there is no value that a short read could leave half filled
				c.R.Okf(rule, name(fn), construct, c.IPos(i), "the buffer handed to Read is scratch space whose content is never read: the data is thrown away, the count does not matter")
				return
			}
			c.R.Check(used, rule, name(fn), construct, c.IPos(i), "the byte count of a direct Read on a dependency is looked at",
				"the count returned by Read is discarded: a short read with a nil error leaves the rest of the buffer zero and is taken for the whole value")
		})
	}
	if n == 0 {
		c.R.Okf(rule, "-", "scan", "-", "no direct Read on an interface value in the operations' call cone (reads go through io.ReadFull / binary.Read / io.ReadAll / io.Copy)")
	}
	return n
}

// writesThroughParam: callee stores through (or Buffer.Writes into) its k-th parameter.
func (c *Ctx) writesThroughParam(callee *ssa.Function, k int) bool {
	hit := false
	p := callee.Params[k]
	instrsOf(callee, func(i ssa.Instruction) {
		switch x := i.(type) {
		case *ssa.Store:
			if ir.RootOf(x.Addr) == ssa.Value(p) {
				hit = true
			}
		case ssa.CallInstruction:
			for _, a := range ir.CallArgs(x) {
				if ir.RootOf(a) == ssa.Value(p) {
					switch ir.CallID(x) {
					case "bytes.Buffer.Write", "encoding/binary.Write", "bytes.Buffer.WriteString", "bytes.Buffer.Reset", "bytes.Buffer.Truncate":
						hit = true
					}
				}
			}
		}
	})
	return hit
}
