package rules

import (
	"go/token"
	"go/types"
	"strings"

	"golang.org/x/tools/go/ssa"

	"verif/checker/internal/ir"
)

// Taint is the whole-library input-derived-value analysis (rule family T).
// Field based for struct fields, value based inside functions, with
// parameter/return summaries computed to a fix-point over library functions.
type Taint struct {
	c      *Ctx
	Fields map[*types.Var]string      // tainted struct fields -> reason
	Vals   map[ssa.Value]string       // tainted SSA values -> reason
	Params map[*ssa.Parameter]string  // tainted parameters
	Rets   map[*ssa.Function][]string // per result index: reason ("" = clean)
	Cells  map[ssa.Value]string       // tainted allocs/globals (address values)
	Extent map[ssa.Value]bool         // values that are readers with input-derived extent
}

var peHeaderTypes = map[string]bool{
	"debug/pe.FileHeader": true, "debug/pe.OptionalHeader32": true, "debug/pe.OptionalHeader64": true,
	"debug/pe.SectionHeader": true, "debug/pe.DataDirectory": true, "debug/pe.SectionHeader32": true,
	"debug/pe.COFFSymbol": true,
}

func (c *Ctx) taint() *Taint {
	if c.taintCache != nil {
		return c.taintCache
	}
	t := &Taint{c: c, Fields: map[*types.Var]string{}, Vals: map[ssa.Value]string{}, Params: map[*ssa.Parameter]string{},
		Rets: map[*ssa.Function][]string{}, Cells: map[ssa.Value]string{}, Extent: map[ssa.Value]bool{}}
	t.run()
	c.taintCache = t
	return t
}

// taintStructFields marks all (nested) fields of struct type T.
func (t *Taint) taintStructFields(T types.Type, why string, depth int) {
	if depth > 4 {
		return
	}
	if p, ok := T.Underlying().(*types.Pointer); ok {
		T = p.Elem()
	}
	switch u := T.Underlying().(type) {
	case *types.Struct:
		for i := 0; i < u.NumFields(); i++ {
			f := u.Field(i)
			if _, ok := t.Fields[f]; !ok {
				t.Fields[f] = why
			}
			t.taintStructFields(f.Type(), why, depth+1)
		}
	case *types.Array:
		t.taintStructFields(u.Elem(), why, depth+1)
	case *types.Slice:
		t.taintStructFields(u.Elem(), why, depth+1)
	}
}

// boxedPointers resolves the data argument of binary.Read to the pointer
// values it may hold (direct, or through the []interface{}{&a,&b} idiom).
func boxedValues(v ssa.Value) []ssa.Value {
	var out []ssa.Value
	seen := map[ssa.Value]bool{}
	var visit func(v ssa.Value)
	visit = func(v ssa.Value) {
		if v == nil || seen[v] {
			return
		}
		seen[v] = true
		switch x := v.(type) {
		case *ssa.MakeInterface:
			out = append(out, x.X)
		case *ssa.Phi:
			for _, e := range x.Edges {
				visit(e)
			}
		case *ssa.ChangeInterface:
			visit(x.X)
		case *ssa.UnOp:
			if x.Op != token.MUL {
				return
			}
			var match func(addr ssa.Value) bool
			switch a := x.X.(type) {
			case *ssa.Alloc:
				match = func(addr ssa.Value) bool { return addr == a }
			case *ssa.IndexAddr:
				root := ir.RootOf(a.X)
				if _, ok := root.(*ssa.Alloc); !ok {
					return
				}
				match = func(addr ssa.Value) bool {
					ia, ok := addr.(*ssa.IndexAddr)
					return ok && ir.RootOf(ia.X) == root
				}
			default:
				return
			}
			for _, f := range withAnon(topFn(x.Parent())) {
				instrsOf(f, func(i ssa.Instruction) {
					if st, ok := i.(*ssa.Store); ok && match(st.Addr) {
						visit(st.Val)
					}
				})
			}
		}
	}
	visit(v)
	return out
}

func (t *Taint) seedFields() {
	// by fiat: debug/pe header structs are filled from the image
	for _, fn := range t.c.P.LibFunctions() {
		instrsOf(fn, func(i ssa.Instruction) {
			var base ssa.Value
			switch x := i.(type) {
			case *ssa.FieldAddr:
				base = x.X
			case *ssa.Field:
				base = x.X
			default:
				return
			}
			id := ir.NamedTypeID(base.Type())
			if peHeaderTypes[id] || id == "debug/pe.Section" {
				if f := ir.FieldOf(i.(ssa.Value)); f != nil {
					if _, ok := t.Fields[f]; !ok {
						t.Fields[f] = "field of " + id + " (decoded from the image by debug/pe)"
					}
				}
			}
		})
	}
	// binary.Read(r, order, &x.F) / &x / idiom
	for _, fn := range t.c.P.LibFunctions() {
		instrsOf(fn, func(i ssa.Instruction) {
			call, ok := ir.IsCall(i, "encoding/binary.Read")
			if !ok {
				return
			}
			for _, p := range boxedValues(call.Common().Args[2]) {
				why := "filled by binary.Read in " + name(fn)
				switch a := p.(type) {
				case *ssa.FieldAddr:
					if f := ir.FieldOf(a); f != nil {
						t.Fields[f] = why
						t.taintStructFields(f.Type(), why, 0)
					}
				case *ssa.Alloc:
					t.Cells[a] = why
					t.taintStructFields(a.Type(), why, 0)
				default:
					// pointer parameter or other: taint the pointee type's fields
					t.taintStructFields(p.Type(), why, 0)
					if pp, ok := p.(*ssa.Parameter); ok {
						_ = pp
					}
				}
			}
		})
	}
}

func isUintNN(id string) bool {
	if !strings.HasPrefix(id, "encoding/binary.") {
		return false
	}
	for _, s := range []string{".Uint16", ".Uint32", ".Uint64"} {
		if strings.HasSuffix(id, s) {
			return true
		}
	}
	return false
}

func (t *Taint) run() {
	t.seedFields()
	fns := t.c.P.LibFunctions()
	for iter := 0; iter < 12; iter++ {
		changed := false
		for _, fn := range fns {
			if t.propagate(fn) {
				changed = true
			}
		}
		if !changed {
			break
		}
	}
}

func (t *Taint) mark(v ssa.Value, why string) bool {
	if _, ok := t.Vals[v]; ok {
		return false
	}
	t.Vals[v] = why
	return true
}

// Why returns the taint reason of v ("" if clean).
func (t *Taint) Why(v ssa.Value) string {
	if v == nil {
		return ""
	}
	return t.Vals[v]
}

func (t *Taint) propagate(fn *ssa.Function) bool {
	changed := false
	for _, p := range fn.Params {
		if why, ok := t.Params[p]; ok {
			if t.mark(p, why) {
				changed = true
			}
		}
	}
	for pass := 0; pass < 3; pass++ {
		local := false
		instrsOf(fn, func(i ssa.Instruction) {
			switch x := i.(type) {
			case *ssa.UnOp:
				if x.Op == token.MUL {
					if f := ir.FieldOf(x.X); f != nil {
						if why, ok := t.Fields[f]; ok && isNumeric(x.Type()) {
							local = t.mark(x, "load of input field "+f.Name()+" ("+why+")") || local
						} else if ok && t.Extent[x.X] {
							// handled below
						}
					}
					if why, ok := t.Cells[cellOf(x.X)]; ok && isNumeric(x.Type()) {
						local = t.mark(x, "load of cell holding input-derived value ("+why+")") || local
					}
					if t.Extent[x.X] || t.extentField(x.X) {
						if !t.Extent[x] {
							t.Extent[x] = true
							local = true
						}
					}
				} else if w := t.Why(x.X); w != "" && x.Op != token.NOT {
					local = t.mark(x, w) || local
				}
			case *ssa.Field:
				if f := ir.FieldOf(x); f != nil {
					if why, ok := t.Fields[f]; ok && isNumeric(x.Type()) {
						local = t.mark(x, "input field "+f.Name()+" ("+why+")") || local
					}
				}
			case *ssa.BinOp:
				switch x.Op {
				case token.EQL, token.NEQ, token.LSS, token.LEQ, token.GTR, token.GEQ, token.LAND, token.LOR:
					return
				}
				if isRoundUp(x) {
					return // ((y+k) &^ m) - y is bounded by the block size
				}
				if x.Op == token.REM || x.Op == token.AND {
					// x % c and x & c are bounded by the untainted operand
					if t.Why(x.Y) == "" {
						return
					}
				}
				if (x.Op == token.AND_NOT || x.Op == token.AND) && t.Why(x.X) == "" {
					// c &^ x and c & x keep only bits of c: bounded by the untainted left operand
					return
				}
				if w := t.Why(x.X); w != "" {
					local = t.mark(x, w) || local
				} else if w := t.Why(x.Y); w != "" {
					local = t.mark(x, w) || local
				}
			case *ssa.Convert:
				if w := t.Why(x.X); w != "" && isNumeric(x.Type()) {
					local = t.mark(x, w) || local
				}
			case *ssa.ChangeType:
				if w := t.Why(x.X); w != "" {
					local = t.mark(x, w) || local
				}
				if t.Extent[x.X] && !t.Extent[x] {
					t.Extent[x] = true
					local = true
				}
			case *ssa.MakeInterface:
				if t.Extent[x.X] && !t.Extent[x] {
					t.Extent[x] = true
					local = true
				}
			case *ssa.Phi:
				for _, e := range x.Edges {
					if w := t.Why(e); w != "" {
						local = t.mark(x, w) || local
					}
					if t.Extent[e] && !t.Extent[x] {
						t.Extent[x] = true
						local = true
					}
				}
			case *ssa.Extract:
				if c, ok := x.Tuple.(*ssa.Call); ok {
					if callee := ir.Callee(c); callee != nil {
						if rs := t.Rets[callee]; x.Index < len(rs) && rs[x.Index] != "" {
							local = t.mark(x, rs[x.Index]) || local
						}
					}
				}
			case *ssa.Store:
				if w := t.Why(x.Val); w != "" {
					if f := ir.FieldOf(x.Addr); f != nil {
						if _, ok := t.Fields[f]; !ok {
							t.Fields[f] = "stored input-derived value in " + name(fn)
							local = true
						}
					} else if cell := cellOf(x.Addr); cell != nil {
						if _, ok := t.Cells[cell]; !ok {
							t.Cells[cell] = w
							local = true
						}
					}
				}
				if t.Extent[x.Val] {
					if f := ir.FieldOf(x.Addr); f != nil {
						if !t.extentFields()[f] {
							t.extentFields()[f] = true
							local = true
						}
					} else if !t.Extent[x.Addr] {
						t.Extent[x.Addr] = true
						local = true
					}
				}
			case ssa.CallInstruction:
				t.call(fn, x, &local)
			case *ssa.Return:
				rs := t.Rets[fn]
				if rs == nil {
					rs = make([]string, len(x.Results))
					t.Rets[fn] = rs
				}
				for k, r := range x.Results {
					if k < len(rs) && rs[k] == "" {
						if w := t.Why(r); w != "" {
							rs[k] = w
							local = true
						}
					}
				}
			}
		})
		if local {
			changed = true
		} else {
			break
		}
	}
	return changed
}

var extentFieldSet map[*types.Var]bool

func (t *Taint) extentFields() map[*types.Var]bool {
	if extentFieldSet == nil {
		extentFieldSet = map[*types.Var]bool{}
	}
	return extentFieldSet
}

func (t *Taint) extentField(addr ssa.Value) bool {
	if f := ir.FieldOf(addr); f != nil {
		return t.extentFields()[f]
	}
	return false
}

// cellOf returns the alloc/global/freevar an address denotes directly.
func cellOf(addr ssa.Value) ssa.Value {
	switch x := addr.(type) {
	case *ssa.Alloc:
		return x
	case *ssa.Global:
		return x
	case *ssa.FreeVar:
		// resolve to the captured cell
		fn := x.Parent()
		for i, fv := range fn.FreeVars {
			if fv == x && fn.Parent() != nil {
				var found ssa.Value
				for _, f := range withAnon(topFn(fn)) {
					instrsOf(f, func(in ssa.Instruction) {
						if mc, ok := in.(*ssa.MakeClosure); ok && mc.Fn == fn && i < len(mc.Bindings) {
							found = mc.Bindings[i]
						}
					})
				}
				if found != nil {
					return cellOf(found)
				}
			}
		}
		return x
	}
	return nil
}

func isNumeric(T types.Type) bool {
	b, ok := T.Underlying().(*types.Basic)
	return ok && b.Info()&types.IsInteger != 0
}

// isRoundUp recognises ((y + k) &^ m) - y.
func isRoundUp(x *ssa.BinOp) bool {
	if x.Op != token.SUB {
		return false
	}
	a, ok := ir.StripConv(x.X).(*ssa.BinOp)
	if !ok || a.Op != token.AND_NOT {
		return false
	}
	y := ir.StripConv(x.Y)
	found := false
	var walk func(v ssa.Value, d int)
	walk = func(v ssa.Value, d int) {
		if d > 4 || found {
			return
		}
		v = ir.StripConv(v)
		if v == y {
			found = true
			return
		}
		if b, ok := v.(*ssa.BinOp); ok && (b.Op == token.ADD || b.Op == token.SUB) {
			walk(b.X, d+1)
			walk(b.Y, d+1)
		}
	}
	walk(a.X, 0)
	return found
}

func (t *Taint) call(fn *ssa.Function, call ssa.CallInstruction, local *bool) {
	id := ir.CallID(call)
	cc := call.Common()
	v, _ := call.(ssa.Value)
	switch {
	case isUintNN(id):
		if v != nil {
			*local = t.mark(v, "decoded with "+id) || *local
		}
		return
	case id == "io.NewSectionReader":
		for _, a := range cc.Args[1:] {
			if t.Why(a) != "" && v != nil && !t.Extent[v] {
				t.Extent[v] = true
				*local = true
			}
		}
		return
	case id == "builtin.min" || id == "builtin.max":
		return
	}
	// Size() on a reader whose extent is input-derived
	if v != nil && (strings.HasSuffix(id, ".Size")) {
		var recv ssa.Value
		if cc.IsInvoke() {
			recv = cc.Value
		} else if len(cc.Args) > 0 {
			recv = cc.Args[0]
		}
		if recv != nil && t.Extent[recv] {
			*local = t.mark(v, "Size() of a section reader whose extent comes from header fields") || *local
		}
	}
	callee := ir.Callee(call)
	if callee == nil || !t.c.P.InModule(callee) {
		return
	}
	// arguments -> parameters
	args := cc.Args
	for k, p := range callee.Params {
		if k >= len(args) {
			break
		}
		if w := t.Why(args[k]); w != "" {
			if _, ok := t.Params[p]; !ok {
				t.Params[p] = w + " (argument of " + name(callee) + " at " + name(fn) + ")"
				*local = true
			}
		}
		if t.Extent[args[k]] && !t.Extent[p] {
			t.Extent[p] = true
			*local = true
		}
	}
	// single result
	if v != nil {
		if rs := t.Rets[callee]; len(rs) == 1 && rs[0] != "" {
			*local = t.mark(v, rs[0]) || *local
		}
		// constructors returning an extent-tainted reader (copySectionReader etc.)
		for _, r := range ir.Returns(callee) {
			for _, res := range r.Results {
				if t.Extent[res] && !t.Extent[v] {
					t.Extent[v] = true
					*local = true
				}
			}
		}
	}
}
