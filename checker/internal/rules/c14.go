package rules

func init() {
	Registry["C14"] = checkC14
}

func checkC14(c *Ctx) {
	c.RuleB("B.term", nil, nil, nil)
	c.R.Floor("B.term", 10)
}
