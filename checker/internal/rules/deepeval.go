package rules

import (
	"fmt"
	"go/constant"
	"go/token"
	"go/types"
	"sort"
	"strings"

	"golang.org/x/tools/go/ssa"

	"verif/checker/internal/ir"
)

// Symbolic evaluation on a deep view: integer expressions as affine forms,
// slices built by append as item lists, section readers as [start, end)
// ranges. Values are followed across helper calls, closures, local cells and
// locally built struct values, so the layout rules read the same whether the
// computation is written inline or split into helpers.

// caseSel selects one arm of a branch (a type-switch case): where several
// definitions of a value exist in that frame, the ones inside the arm are taken.
type caseSel struct {
	fr    *frame
	block *ssa.BasicBlock
}

func (cs *caseSel) selects(fr *frame, b *ssa.BasicBlock) bool {
	return cs != nil && b != nil && fr == cs.fr && b.Parent() == cs.block.Parent() && (b == cs.block || cs.block.Dominates(b))
}

type storeAt struct {
	st *ssa.Store
	fr *frame
}

// pick chooses among several definitions: those inside the selected arm if
// there are any, else all; unique or nothing.
func pickStore(cands []storeAt, cs *caseSel) *storeAt {
	var sel []storeAt
	for _, s := range cands {
		if cs.selects(s.fr, s.st.Block()) {
			sel = append(sel, s)
		}
	}
	if len(sel) == 0 {
		sel = cands
	}
	if len(sel) == 1 {
		return &sel[0]
	}
	return nil
}

// fieldStores: stores into field idx of the struct object obj (an Alloc in a frame).
func (d *deepView) fieldStores(obj dval, idx int) []storeAt {
	var out []storeAt
	for _, di := range d.order {
		st, ok := di.i.(*ssa.Store)
		if !ok {
			continue
		}
		fa, ok := st.Addr.(*ssa.FieldAddr)
		if !ok || fa.Field != idx {
			continue
		}
		if d.resolve(fa.X, di.fr).same(obj) {
			out = append(out, storeAt{st, di.fr})
		}
	}
	return out
}

// structField evaluates field idx of a struct-typed value (or of the struct a
// pointer denotes) to the value stored there, if the struct is built locally
// somewhere in the view.
func (d *deepView) structField(x ssa.Value, fr *frame, idx int, cs *caseSel, depth int) (dval, bool) {
	if depth > 12 {
		return dval{}, false
	}
	r := d.resolveSel(x, fr, cs)
	switch y := r.v.(type) {
	case *ssa.UnOp: // load of a whole struct
		if y.Op == token.MUL {
			return d.structField(y.X, r.fr, idx, cs, depth+1)
		}
	case *ssa.IndexAddr:
		if el, ok := d.literalElemField(y, r.fr, idx); ok {
			return el, true
		}
	case *ssa.Alloc:
		// a whole-struct store into the cell
		var whole []storeAt
		var zeroInit []storeAt
		fstores := d.fieldStores(r, idx)
		d.eachStoreTo(y, r.fr, func(st *ssa.Store, f *frame) {
			// an explicit zero value written before the real assignments (var x T = T{})
			if k, isK := st.Val.(*ssa.Const); isK && k.Value == nil {
				switch k.Type().Underlying().(type) {
				case *types.Struct, *types.Array:
					zeroInit = append(zeroInit, storeAt{st, f})
					return
				}
			}
			// ... also in the form of an empty composite literal (a fresh local nothing is stored into)
			if ld, isLd := st.Val.(*ssa.UnOp); isLd && ld.Op == token.MUL {
				if za, isA := ld.X.(*ssa.Alloc); isA && za.Comment == "complit" {
					stored := false
					for _, r := range *za.Referrers() {
						switch rr := r.(type) {
						case *ssa.Store:
							stored = true
						case *ssa.FieldAddr:
							for _, r2 := range *rr.Referrers() {
								if _, isSt := r2.(*ssa.Store); isSt {
									stored = true
								}
							}
						case *ssa.IndexAddr:
							stored = true
						}
					}
					if !stored {
						zeroInit = append(zeroInit, storeAt{st, f})
						return
					}
				}
			}
			whole = append(whole, storeAt{st, f})
		})
		if len(whole) == 0 {
			// only field-wise construction (plus, possibly, an explicit zero value first)
			if s := pickStore(fstores, cs); s != nil {
				return dval{s.st.Val, s.fr}, true
			}
			if len(fstores) > 0 {
				return dval{}, false
			}
			whole = zeroInit
		} else if len(fstores) > 0 {
			// the variable is initialised field by field and assigned as a whole later
			// (x := T{A: 0}; switch { case ..: x = y }): the zero initialiser stands for
			// the zero value, anything else is not decided here
			allZero := true
			for _, s := range fstores {
				if k, isK := s.st.Val.(*ssa.Const); !isK || !isZeroConst(k) {
					allZero = false
				}
			}
			if !allZero {
				if s := pickStore(fstores, cs); s != nil {
					return dval{s.st.Val, s.fr}, true
				}
				return dval{}, false
			}
		}
		if s := pickStore(whole, cs); s != nil {
			return d.structField(s.st.Val, s.fr, idx, cs, depth+1)
		}
	case *ssa.Phi:
		if e, ok := d.phiEdge(y, r.fr, cs); ok {
			return d.structField(e, r.fr, idx, cs, depth+1)
		}
	case *ssa.MakeInterface:
		return d.structField(y.X, r.fr, idx, cs, depth+1)
	case *ssa.FieldAddr:
		// a struct nested in another one: the inner struct is what was stored
		// as a whole into the outer field, provided nothing in the view writes
		// a single field of the inner struct in place
		outer := d.resolve(y.X, r.fr)
		for _, di := range d.order {
			st, ok := di.i.(*ssa.Store)
			if !ok {
				continue
			}
			in, ok := st.Addr.(*ssa.FieldAddr)
			if !ok {
				continue
			}
			if mid, ok := in.X.(*ssa.FieldAddr); ok && mid.Field == y.Field && d.resolve(mid.X, di.fr).same(outer) {
				return dval{}, false
			}
		}
		if inner, ok := d.structField(y.X, r.fr, y.Field, cs, depth+1); ok {
			return d.structField(inner.v, inner.fr, idx, cs, depth+1)
		}
	}
	return dval{}, false
}

// phiEdge: the incoming value of a phi under the selected arm.
func (d *deepView) phiEdge(ph *ssa.Phi, fr *frame, cs *caseSel) (ssa.Value, bool) {
	if cs == nil || fr != cs.fr {
		return nil, false
	}
	var out ssa.Value
	n := 0
	for j, p := range ph.Block().Preds {
		if cs.selects(fr, p) {
			if out != ph.Edges[j] {
				n++
			}
			out = ph.Edges[j]
		}
	}
	return out, n == 1
}

// resolveSel is resolve() with the selected arm applied to multi-return
// helpers, multiply assigned cells and phis.
func (d *deepView) resolveSel(v ssa.Value, fr *frame, cs *caseSel) dval {
	r := dval{v, fr}
	for i := 0; i < 24; i++ {
		n := d.resolve(r.v, r.fr)
		switch x := n.v.(type) {
		case *ssa.Phi:
			if e, ok := d.phiEdge(x, n.fr, cs); ok {
				n = dval{e, n.fr}
			}
		case *ssa.Extract:
			if call, ok := x.Tuple.(*ssa.Call); ok && cs != nil {
				if child := d.frameOfCall(n.fr, call); child != nil && child == cs.fr && !d.stopAt[ir.CallID(call)] {
					if rv := selectedResult(child.fn, x.Index, cs); rv != nil {
						n = dval{rv, child}
					}
				}
			}
		case *ssa.Call:
			if child := d.frameOfCall(n.fr, x); child != nil && cs != nil && child == cs.fr && child.fn.Signature.Results().Len() == 1 && !d.stopAt[ir.CallID(x)] {
				if rv := selectedResult(child.fn, 0, cs); rv != nil {
					n = dval{rv, child}
				}
			}
		case *ssa.UnOp:
			if x.Op == token.MUL {
				cell := d.resolve(x.X, n.fr)
				if a, ok := cell.v.(*ssa.Alloc); ok {
					var cands []storeAt
					d.eachStoreTo(a, cell.fr, func(st *ssa.Store, f *frame) { cands = append(cands, storeAt{st, f}) })
					if len(cands) > 1 {
						if s := pickStore(cands, cs); s != nil {
							n = dval{s.st.Val, s.fr}
						}
					}
				}
			}
		}
		if n.same(r) {
			break
		}
		r = n
	}
	return r
}

// selectedResult: the value returned at idx by the returns inside the selected arm.
func selectedResult(fn *ssa.Function, idx int, cs *caseSel) ssa.Value {
	var out ssa.Value
	for _, r := range ir.Returns(fn) {
		if idx >= len(r.Results) || !(r.Block() == cs.block || cs.block.Dominates(r.Block())) {
			continue
		}
		if out != nil && out != r.Results[idx] {
			return nil
		}
		out = r.Results[idx]
	}
	return out
}

// pathName names a storage path or value independent of the frame it is seen from.
func (d *deepView) pathName(v ssa.Value, fr *frame, depth int) string {
	if depth > 12 || v == nil {
		return "…"
	}
	r := d.resolve(v, fr)
	switch x := r.v.(type) {
	case *ssa.UnOp:
		if x.Op == token.MUL {
			return d.pathName(x.X, r.fr, depth+1)
		}
	case *ssa.FieldAddr:
		b := d.canonStruct(x.X, r.fr, 0)
		return d.pathName(b.v, b.fr, depth+1) + "." + ir.FieldOf(x).Name()
	case *ssa.Field:
		st, _ := x.X.Type().Underlying().(*types.Struct)
		n := fmt.Sprint(x.Field)
		if st != nil {
			n = st.Field(x.Field).Name()
		}
		b := d.canonStruct(x.X, r.fr, 0)
		return d.pathName(b.v, b.fr, depth+1) + "." + n
	case *ssa.IndexAddr:
		ix := "*"
		if k, ok := ir.ConstInt(x.Index); ok {
			ix = fmt.Sprint(k)
		}
		return d.pathName(x.X, r.fr, depth+1) + "[" + ix + "]"
	case *ssa.Parameter:
		return "param:" + x.Name()
	case *ssa.Alloc:
		return "alloc:" + fnReg(x)
	case *ssa.Global:
		return "global:" + x.String()
	case *ssa.Extract:
		if ta, ok := x.Tuple.(*ssa.TypeAssert); ok {
			return d.pathName(ta.X, r.fr, depth+1) + ".(" + types.TypeString(ta.AssertedType, nil) + ")"
		}
		return d.pathName(x.Tuple, r.fr, depth+1) + "#" + fmt.Sprint(x.Index)
	case *ssa.TypeAssert:
		return d.pathName(x.X, r.fr, depth+1) + ".(" + types.TypeString(x.AssertedType, nil) + ")"
	case *ssa.Call:
		// a decoded integer is named by the field it is decoded into
		if _, _, put, isU := uintCallWidth(ir.CallID(x)); isU && !put {
			if sink := d.fieldSink(dval{x, r.fr}, 0); sink != "" {
				return "decoded:" + sink
			}
		}
		// a library decoding helper (generic or not) whose result is kept in a field
		if callee := ir.Callee(x); callee != nil && d.c.P.InLib(callee) {
			if sink := d.fieldSink(dval{x, r.fr}, 0); sink != "" {
				return "decoded:" + sink
			}
		}
		return fmt.Sprintf("call:%s@%d", ir.CallID(x), x.Pos())
	case *ssa.Convert:
		return d.pathName(x.X, r.fr, depth+1)
	case *ssa.ChangeType:
		return d.pathName(x.X, r.fr, depth+1)
	case *ssa.MakeInterface:
		return d.pathName(x.X, r.fr, depth+1)
	case *ssa.Slice:
		return d.pathName(x.X, r.fr, depth+1) + "[:]"
	}
	return fnReg(r.v)
}

// canonStruct follows a struct value (or the address of one) back through plain
// copies — by-value parameters, local copies assigned once as a whole — to the
// object it was copied from, so that the same field reached through different
// copies gets one name.
func (d *deepView) canonStruct(v ssa.Value, fr *frame, depth int) dval {
	r := d.resolve(v, fr)
	if depth > 10 {
		return r
	}
	switch x := r.v.(type) {
	case *ssa.UnOp:
		if x.Op == token.MUL {
			if _, isStruct := x.Type().Underlying().(*types.Struct); isStruct {
				return d.canonStruct(x.X, r.fr, depth+1)
			}
		}
	case *ssa.Alloc:
		if _, isStruct := x.Type().Underlying().(*types.Pointer).Elem().Underlying().(*types.Struct); !isStruct {
			return r
		}
		// field stores make it an object of its own
		hasField := false
		for _, ref := range *x.Referrers() {
			if fa, ok := ref.(*ssa.FieldAddr); ok {
				for _, rr := range *fa.Referrers() {
					if st, isSt := rr.(*ssa.Store); isSt && st.Addr == ssa.Value(fa) {
						hasField = true
					}
				}
			}
		}
		if hasField {
			return r
		}
		var whole []storeAt
		d.eachStoreTo(x, r.fr, func(st *ssa.Store, f *frame) { whole = append(whole, storeAt{st, f}) })
		if len(whole) == 1 {
			return d.canonStruct(whole[0].st.Val, whole[0].fr, depth+1)
		}
	}
	return r
}

// affine evaluates an integer expression across the view.
func (d *deepView) affine(v ssa.Value, fr *frame, cs *caseSel, depth int) Affine {
	if v == nil {
		return newAffine()
	}
	sym := func(r dval) Affine { return symAffine(d.pathName(r.v, r.fr, 0), r.v) }
	if depth > 40 {
		return sym(dval{v, fr})
	}
	if n, ok := ir.ConstInt(v); ok {
		a := newAffine()
		a.K = n
		return a
	}
	r := d.resolveSel(v, fr, cs)
	if n, ok := ir.ConstInt(r.v); ok {
		a := newAffine()
		a.K = n
		return a
	}
	switch x := r.v.(type) {
	case *ssa.Convert:
		if isNumeric(x.X.Type()) {
			return d.affine(x.X, r.fr, cs, depth+1)
		}
	case *ssa.ChangeType:
		return d.affine(x.X, r.fr, cs, depth+1)
	case *ssa.BinOp:
		switch x.Op {
		case token.ADD:
			return d.affine(x.X, r.fr, cs, depth+1).add(d.affine(x.Y, r.fr, cs, depth+1), 1)
		case token.SUB:
			return d.affine(x.X, r.fr, cs, depth+1).add(d.affine(x.Y, r.fr, cs, depth+1), -1)
		case token.MUL:
			l, rr := d.affine(x.X, r.fr, cs, depth+1), d.affine(x.Y, r.fr, cs, depth+1)
			if l.isConst() {
				return rr.scale(l.K)
			}
			if rr.isConst() {
				return l.scale(rr.K)
			}
		case token.SHL:
			rr := d.affine(x.Y, r.fr, cs, depth+1)
			if rr.isConst() && rr.K >= 0 && rr.K < 62 {
				return d.affine(x.X, r.fr, cs, depth+1).scale(1 << uint(rr.K))
			}
		}
	case *ssa.UnOp:
		switch x.Op {
		case token.SUB:
			return d.affine(x.X, r.fr, cs, depth+1).scale(-1)
		case token.MUL:
			// load of a field of a locally built struct
			if fa, ok := x.X.(*ssa.FieldAddr); ok {
				if fv, ok := d.structField(fa.X, r.fr, fa.Field, cs, 0); ok {
					return d.affine(fv.v, fv.fr, cs, depth+1)
				}
			}
			// a package-level variable nothing but its initialiser assigns
			if g, isG := x.X.(*ssa.Global); isG && affineGlobal != nil {
				if iv := affineGlobal(g); iv != nil {
					if a := affineOf(iv, 0); a.isConst() {
						return a
					}
				}
			}
		}
	case *ssa.Field:
		if fv, ok := d.structField(x.X, r.fr, x.Field, cs, 0); ok {
			return d.affine(fv.v, fv.fr, cs, depth+1)
		}
	case *ssa.Call:
		id := ir.CallID(x)
		if id == "builtin.len" || id == "builtin.cap" {
			return symAffine("len("+d.pathName(x.Call.Args[0], r.fr, 0)+")", x)
		}
		if id == "encoding/binary.Size" {
			if n := binarySize(ir.StripIface(x.Call.Args[0]).Type()); n >= 0 {
				a := newAffine()
				a.K = int64(n)
				return a
			}
		}
		if strings.HasSuffix(id, ".Len") || strings.HasSuffix(id, ".Size") {
			args := ir.CallArgs(x)
			if len(args) == 1 {
				return symAffine("len("+d.pathName(args[0], r.fr, 0)+")", x)
			}
		}
	}
	return sym(r)
}

// ---------------------------------------------------------------- lists

type listItem struct {
	v      dval
	loop   bool // appended inside a loop: stands for any number of items
	opaque bool // a run of items the evaluator could not enumerate
	at     ssa.Instruction
	idx    map[ssa.Value]int64 // index bindings of an unrolled range-over-literal loop
}

// under evaluates f with the item's index bindings in force.
func (d *deepView) under(it listItem, f func()) {
	old := d.idxEnv
	d.idxEnv = it.idx
	defer func() { d.idxEnv = old }()
	f()
}

// rangeLiteral: the value is computed from the element of a local array literal
// at the running index of a range loop; returns the index value and the length.
func (d *deepView) rangeLiteral(v ssa.Value, fr *frame) (ssa.Value, int64, bool) {
	seen := map[ssa.Value]bool{}
	var idxV ssa.Value
	var n int64
	var walk func(v ssa.Value, depth int)
	walk = func(v ssa.Value, depth int) {
		if v == nil || seen[v] || depth > 8 || idxV != nil {
			return
		}
		seen[v] = true
		if ia, ok := v.(*ssa.IndexAddr); ok {
			if _, isK := ir.ConstInt(ia.Index); !isK {
				if a, _, ok := d.literalArray(ia.X, fr); ok {
					// the counted form: i = phi(0, i+1), every element visited while
					// i < len(literal) (other conjuncts of the loop condition only end
					// the loop early, on a path that is not the complete one)
					if ph, ok := ia.Index.(*ssa.Phi); ok && len(ph.Edges) == 2 {
						alen := a.Type().Underlying().(*types.Pointer).Elem().Underlying().(*types.Array).Len()
						c0, ok0 := ir.ConstInt(ph.Edges[0])
						inc, isInc := ph.Edges[1].(*ssa.BinOp)
						if ok0 && c0 == 0 && isInc && inc.Op == token.ADD && inc.X == ssa.Value(ph) {
							if k, isK := ir.ConstInt(inc.Y); isK && k == 1 {
								bounded, other := false, false
								for _, r := range *ph.Referrers() {
									cmp, isCmp := r.(*ssa.BinOp)
									if !isCmp || cmp == inc {
										continue
									}
									switch cmp.Op {
									case token.LSS:
										if cmp.X != ssa.Value(ph) {
											other = true
											continue
										}
										if n, isK := ir.ConstInt(cmp.Y); isK && n == alen {
											bounded = true
										} else if lc, isC := cmp.Y.(*ssa.Call); isC && ir.CallID(lc) == "builtin.len" {
											if la, _, okA := d.literalArray(lc.Call.Args[0], fr); okA && la == a {
												bounded = true
											} else {
												other = true
											}
										} else {
											other = true
										}
									case token.EQL, token.NEQ, token.LEQ, token.GTR, token.GEQ, token.SUB, token.MUL:
										other = true
									}
								}
								if bounded && !other {
									idxV = ia.Index
									n = alen
									return
								}
							}
						}
					}
					// the canonical range index: phi(-1, phi+1) + 1
					if bo, ok := ia.Index.(*ssa.BinOp); ok && bo.Op == token.ADD {
						if ph, ok := bo.X.(*ssa.Phi); ok && len(ph.Edges) >= 2 {
							if k, isK := ir.ConstInt(bo.Y); isK && k == 1 {
								c0, ok0 := ir.ConstInt(ph.Edges[0])
								back := true
								for _, e := range ph.Edges[1:] {
									if e != ssa.Value(bo) {
										back = false
									}
								}
								if ok0 && c0 == -1 && back {
									idxV = ia.Index
									n = a.Type().Underlying().(*types.Pointer).Elem().Underlying().(*types.Array).Len()
									return
								}
							}
						}
					}
				}
			}
		}
		// the same loop over an array literal ranged by value: the element is read by
		// value indexing of the loaded array (for _, e := range [...]T{a, b, c})
		if ix, ok := v.(*ssa.Index); ok {
			if _, isK := ir.ConstInt(ix.Index); !isK {
				if ld, isLd := ix.X.(*ssa.UnOp); isLd && ld.Op == token.MUL {
					if a, _, ok := d.literalArray(ld.X, fr); ok {
						if bo, ok := ix.Index.(*ssa.BinOp); ok && bo.Op == token.ADD {
							if ph, ok := bo.X.(*ssa.Phi); ok && len(ph.Edges) >= 2 {
								if k, isK := ir.ConstInt(bo.Y); isK && k == 1 {
									c0, ok0 := ir.ConstInt(ph.Edges[0])
									back := true
									for _, e := range ph.Edges[1:] {
										if e != ssa.Value(bo) {
											back = false
										}
									}
									if ok0 && c0 == -1 && back {
										idxV = ix.Index
										n = a.Type().Underlying().(*types.Pointer).Elem().Underlying().(*types.Array).Len()
										return
									}
								}
							}
						}
					}
				}
			}
		}
		if in, ok := v.(ssa.Instruction); ok {
			for _, op := range in.Operands(nil) {
				if *op != nil {
					walk(*op, depth+1)
				}
			}
		}
	}
	walk(v, 0)
	return idxV, n, idxV != nil
}

// list enumerates, in order, the items of a slice built with append / slice
// literals anywhere in the view.
func (d *deepView) list(v ssa.Value, fr *frame) []listItem {
	seen := map[string]bool{}
	var rec func(v ssa.Value, fr *frame, depth int) []listItem
	literal := func(sl *ssa.Slice, fr *frame) ([]listItem, bool) {
		a, ok := sl.X.(*ssa.Alloc)
		if !ok {
			return nil, false
		}
		if _, isArr := a.Type().Underlying().(*types.Pointer).Elem().Underlying().(*types.Array); !isArr {
			return nil, false
		}
		type el struct {
			k int64
			v ssa.Value
			i ssa.Instruction
		}
		var els []el
		for _, r := range *a.Referrers() {
			if ia, ok := r.(*ssa.IndexAddr); ok {
				k, isK := ir.ConstInt(ia.Index)
				if !isK {
					return nil, false
				}
				for _, rr := range *ia.Referrers() {
					if st, ok := rr.(*ssa.Store); ok && st.Addr == ssa.Value(ia) {
						els = append(els, el{k, st.Val, st})
					}
				}
			}
		}
		sort.SliceStable(els, func(i, j int) bool { return els[i].k < els[j].k })
		var out []listItem
		for _, e := range els {
			out = append(out, listItem{v: dval{e.v, fr}, at: e.i})
		}
		return out, true
	}
	rec = func(v ssa.Value, fr *frame, depth int) []listItem {
		if v == nil || depth > 30 {
			return []listItem{{v: dval{v, fr}, opaque: true}}
		}
		r := d.resolve(v, fr)
		key := fmt.Sprintf("%p|%s", r.v, r.fr.id)
		if seen[key] {
			return nil
		}
		seen[key] = true
		defer delete(seen, key)
		switch x := r.v.(type) {
		case *ssa.Const:
			if x.IsNil() {
				return nil
			}
		case *ssa.MakeSlice:
			if k, ok := ir.ConstInt(x.Len); ok && k == 0 {
				return nil
			}
		case *ssa.Slice:
			if items, ok := literal(x, r.fr); ok {
				return items
			}
			// s[:0] of a list: empty
			if x.High != nil {
				if k, ok := ir.ConstInt(x.High); ok && k == 0 {
					return nil
				}
			}
		case *ssa.Call:
			if ir.CallID(x) == "builtin.append" {
				out := rec(x.Call.Args[0], r.fr, depth+1)
				loop := inLoop(x.Parent(), x.Block())
				var add []listItem
				if len(x.Call.Args) > 1 {
					add = rec(x.Call.Args[1], r.fr, depth+1)
				}
				for _, it := range add {
					if loop && !it.loop && !it.opaque {
						// a range over a slice literal contributes one item per element
						if iv, n, ok := d.rangeLiteral(it.v.v, it.v.fr); ok && n <= 16 {
							for k := int64(0); k < n; k++ {
								u := it
								u.at = x
								u.idx = map[ssa.Value]int64{iv: k}
								out = append(out, u)
							}
							continue
						}
					}
					it.loop = it.loop || loop
					if it.at == nil || loop {
						it.at = x
					}
					out = append(out, it)
				}
				return out
			}
		case *ssa.Phi:
			var entry []ssa.Value
			var back []ssa.Value
			for j, e := range x.Edges {
				if e == ssa.Value(x) {
					continue
				}
				if x.Block().Preds[j].Index < x.Block().Index {
					entry = append(entry, e)
				} else {
					back = append(back, e)
				}
			}
			if len(entry) == 1 {
				out := rec(entry[0], r.fr, depth+1)
				for _, b := range back {
					for _, it := range rec(b, r.fr, depth+1) {
						if it.idx == nil {
							it.loop = true
						}
						out = append(out, it)
					}
				}
				return out
			}
			// a conditional merge: common prefix plus an opaque rest
			if len(entry) == 2 && len(back) == 0 {
				a, b := rec(entry[0], r.fr, depth+1), rec(entry[1], r.fr, depth+1)
				if len(a) > len(b) {
					a, b = b, a
				}
				prefix := true
				for k := range a {
					if !a[k].v.same(b[k].v) {
						prefix = false
					}
				}
				if prefix {
					out := append([]listItem{}, a...)
					for _, it := range b[len(a):] {
						it.loop = true // zero or one time: treated like a repeated item
						out = append(out, it)
					}
					return out
				}
			}
		}
		return []listItem{{v: r, opaque: true}}
	}
	return rec(v, fr, 0)
}

// ---------------------------------------------------------------- section readers

type sectRange struct {
	src        dval
	start, end Affine
	call       *ssa.Call
	fr         *frame
}

// sectionRangeOf resolves a reader value to the io.NewSectionReader call that
// builds it (through helpers and closures) and evaluates its extent.
func (d *deepView) sectionRangeOf(v ssa.Value, fr *frame, cs *caseSel) (sectRange, bool) {
	r := dval{v, fr}
	for i := 0; i < 8; i++ {
		n := d.resolveSel(ir.StripConv(ir.StripIface(r.v)), r.fr, cs)
		if n.same(r) {
			break
		}
		r = n
	}
	call, ok := r.v.(*ssa.Call)
	if !ok || ir.CallID(call) != "io.NewSectionReader" {
		return sectRange{}, false
	}
	off := d.affine(call.Call.Args[1], r.fr, cs, 0)
	n := d.affine(call.Call.Args[2], r.fr, cs, 0)
	return sectRange{src: d.objectOf(call.Call.Args[0], r.fr), start: off, end: off.add(n, 1), call: call, fr: r.fr}, true
}

// typeArms lists the arms of comma-ok type assertions to the given named types
// anywhere in the view: the block entered when the assertion holds.
type typeArm struct {
	T   types.Type
	val ssa.Value
	sel *caseSel
}

func (d *deepView) typeArms(ids ...string) []typeArm {
	want := map[string]bool{}
	for _, id := range ids {
		want[id] = true
	}
	var out []typeArm
	for _, di := range d.order {
		ta, ok := di.i.(*ssa.TypeAssert)
		if !ok || !ta.CommaOk || !want[ir.NamedTypeID(ta.AssertedType)] {
			continue
		}
		var val, okv ssa.Value
		for _, r := range *ta.Referrers() {
			if ex, isEx := r.(*ssa.Extract); isEx {
				if ex.Index == 0 {
					val = ex
				} else {
					okv = ex
				}
			}
		}
		for _, ce := range ir.CondEdges(di.fr.fn) {
			if ce.Cond == okv && ce.Truth {
				T := ta.AssertedType
				if p, isP := T.(*types.Pointer); isP {
					T = p.Elem()
				}
				out = append(out, typeArm{T, val, &caseSel{di.fr, di.fr.fn.Blocks[ce.Edge.To]}})
			}
		}
	}
	return out
}

// fieldOrigin: the struct field a value is derived from through conversions
// and constructors/accessors all of whose non-constant arguments lead to that
// same field ("" if the derivation forks or ends elsewhere).
func (d *deepView) fieldOrigin(v ssa.Value, fr *frame, depth int) string {
	if depth > 10 || v == nil {
		return ""
	}
	// a call: what its arguments derive from decides first (p.f.method() is a view
	// of p.f whatever the method does inside)
	if call, isCall := ir.StripConv(ir.StripIface(v)).(*ssa.Call); isCall {
		var args []ssa.Value
		for _, a := range ir.CallArgs(call) {
			if _, isK := a.(*ssa.Const); !isK {
				args = append(args, a)
			}
		}
		out := ""
		okAll := len(args) > 0
		for _, a := range args {
			o := d.fieldOrigin(a, fr, depth+1)
			if o == "" || out != "" && o != out {
				okAll = false
				break
			}
			out = o
		}
		if okAll {
			return out
		}
	}
	r := d.resolveConv(ir.StripIface(v), fr)
	// outerField: name the field of the root object a nested path starts with
	// (p.certTable.raw -> certTable), not the innermost one
	outer := func(fa ssa.Value) string {
		id := ir.FieldID(fa)
		if !d.outerField {
			return id
		}
		cfr := r.fr
		for k := 0; k < 8; k++ {
			x, ok := fa.(*ssa.FieldAddr)
			if !ok {
				break
			}
			base := x.X
			if ld, isLd := base.(*ssa.UnOp); isLd && ld.Op == token.MUL {
				base = ld.X
			}
			if _, isFA := base.(*ssa.FieldAddr); !isFA {
				// a receiver/parameter of a helper: what the caller passed
				rb := d.resolve(x.X, cfr)
				nb := rb.v
				if ld, isLd := nb.(*ssa.UnOp); isLd && ld.Op == token.MUL {
					nb = ld.X
				}
				if _, isFA2 := nb.(*ssa.FieldAddr); !isFA2 || rb.v == x.X && rb.fr == cfr {
					break
				}
				base, cfr = nb, rb.fr
			}
			fa = base
			id = ir.FieldID(fa)
		}
		return id
	}
	switch x := r.v.(type) {
	case *ssa.MakeInterface:
		return d.fieldOrigin(x.X, r.fr, depth+1)
	case *ssa.UnOp:
		if x.Op == token.MUL {
			if id := outer(x.X); id != "" {
				return id
			}
		}
	case *ssa.Field:
		return ir.FieldID(x)
	case *ssa.FieldAddr:
		return outer(x)
	case *ssa.Slice:
		return d.fieldOrigin(x.X, r.fr, depth+1)
	case *ssa.Call:
		var args []ssa.Value
		for _, a := range ir.CallArgs(x) {
			if _, isK := a.(*ssa.Const); !isK {
				args = append(args, a)
			}
		}
		// every non-constant argument must lead to the same field
		out := ""
		for _, a := range args {
			o := d.fieldOrigin(a, r.fr, depth+1)
			if o == "" || out != "" && o != out {
				return ""
			}
			out = o
		}
		return out
	}
	return ""
}

// isZeroConst: the constant is the zero value of its type.
func isZeroConst(k *ssa.Const) bool {
	if k.Value == nil {
		return true
	}
	switch k.Value.Kind() {
	case constant.Int, constant.Float:
		return constant.Sign(k.Value) == 0
	case constant.Bool:
		return !constant.BoolVal(k.Value)
	case constant.String:
		return constant.StringVal(k.Value) == ""
	}
	return false
}
