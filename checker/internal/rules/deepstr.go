package rules

import (
	"go/constant"
	"go/token"
	"go/types"
	"strings"

	"golang.org/x/tools/go/ssa"

	"verif/checker/internal/ir"
)

// The output language of string-building expressions on the deep view: the
// same abstract language as stringLang (literals, fixed-width hexadecimal
// groups, opaque variables), followed through helpers, with fmt.Sprintf,
// concatenation, path.Join, strings.Join over a literal list, case mapping,
// encoding/hex over a resolved byte sequence and re-slicing of the result.

// origin of a hex group: the value printed and, for byte arrays, the byte range.
type hexOrigin struct {
	v        dval
	field    string // FieldID of the value if it is (a slice of) a struct field
	blo, bhi int64  // byte range within the field's bytes, -1 = whole value
}

func (d *deepView) originOf(v ssa.Value, fr *frame) hexOrigin {
	r := d.resolveConv(v, fr)
	o := hexOrigin{v: r, blo: -1, bhi: -1}
	x := r.v
	if sl, ok := x.(*ssa.Slice); ok {
		lo, hi := int64(0), int64(-1)
		if sl.Low != nil {
			if k, isK := ir.ConstInt(sl.Low); isK {
				lo = k
			} else {
				return o
			}
		}
		if sl.High != nil {
			if k, isK := ir.ConstInt(sl.High); isK {
				hi = k
			} else {
				return o
			}
		}
		if hi < 0 {
			if n, ok := byteLen(sl.X); ok {
				hi = n
			}
		}
		o.field = ir.FieldID(sl.X)
		o.blo, o.bhi = lo, hi
		return o
	}
	o.field = fieldIDOf(x)
	return o
}

// strLang evaluates the language of a string-valued expression in the view.
func (d *deepView) strLang(v ssa.Value, fr *frame, depth int) []seg {
	if depth > 12 || v == nil {
		return []seg{{kind: "var", note: "too deep"}}
	}
	// string(b) of a byte slice that is written element-wise after it was made
	// (a template like []byte("Boot0000") filled in place): not the template's text
	if cv, ok := d.resolve(v, fr).v.(*ssa.Convert); ok && isByteSlice(cv.X.Type()) && bytesWrittenInPlace(cv.X, 0) {
		return []seg{{kind: "var", val: cv, fr: fr, note: "opaque bytes filled in place"}}
	}
	r := d.resolveConv(v, fr)
	opaque := func() []seg {
		return []seg{{kind: "var", val: r.v, fr: r.fr, note: "opaque " + d.pathName(r.v, r.fr, 0)}}
	}
	switch x := r.v.(type) {
	case *ssa.Const:
		if x.Value != nil && x.Value.Kind() == constant.String {
			if s := constant.StringVal(x.Value); s != "" {
				return []seg{{kind: "lit", lit: s}}
			}
			return nil
		}
	case *ssa.BinOp:
		if x.Op == token.ADD {
			return append(d.strLang(x.X, r.fr, depth+1), d.strLang(x.Y, r.fr, depth+1)...)
		}
	case *ssa.Slice:
		// s[a:b] of a string whose language is known: cut at digit/character positions
		if types.Identical(x.X.Type().Underlying(), types.Typ[types.String]) {
			inner := d.strLang(x.X, r.fr, depth+1)
			lo, hi := int64(0), int64(-1)
			if x.Low != nil {
				k, ok := ir.ConstInt(x.Low)
				if !ok {
					return opaque()
				}
				lo = k
			}
			if x.High != nil {
				k, ok := ir.ConstInt(x.High)
				if !ok {
					return opaque()
				}
				hi = k
			}
			if out, ok := cutLang(inner, lo, hi); ok {
				return out
			}
			return opaque()
		}
	case *ssa.Call:
		id := ir.CallID(x)
		switch id {
		case "fmt.Sprintf":
			if k, ok := x.Call.Args[0].(*ssa.Const); ok && k.Value != nil && k.Value.Kind() == constant.String {
				if args, ok := variadicArgs(x.Call.Args[1]); ok {
					var out []seg
					for _, s := range sprintfLang(constant.StringVal(k.Value), args) {
						switch {
						case s.kind == "var" && (s.note == "%s" || s.note == "%v") && s.val != nil && types.Identical(ir.StripIface(s.val).Type().Underlying(), types.Typ[types.String]):
							out = append(out, d.strLang(ir.StripIface(s.val), r.fr, depth+1)...)
						case s.kind == "hex" && s.val != nil && isByteSlice(ir.StripIface(s.val).Type()) && !s.upper && (s.plainBytes || s.fmtPlainFlags && d.paddingIdle(ir.StripIface(s.val), r.fr, s.fmtWidth)):
							// %x of a byte slice: two digits per byte, whatever the bytes were built from
							if hs, ok := d.hexOfBytes(ir.StripIface(s.val), r.fr); ok {
								out = append(out, hs...)
							} else {
								s.fr = r.fr
								out = append(out, s)
							}
						case s.kind == "hex" && s.val != nil:
							o := d.originOf(ir.StripIface(s.val), r.fr)
							s.origin = &o
							s.fr = r.fr
							out = append(out, s)
						default:
							s.fr = r.fr
							out = append(out, s)
						}
					}
					return out
				}
			}
		case "path.Join", "path/filepath.Join", "strings.Join":
			sep := "/"
			listArg := x.Call.Args[0]
			if id == "strings.Join" {
				k, ok := d.resolveConv(x.Call.Args[1], r.fr).v.(*ssa.Const)
				if !ok || k.Value == nil || k.Value.Kind() != constant.String {
					return opaque()
				}
				sep = constant.StringVal(k.Value)
			}
			items := d.list(listArg, r.fr)
			var out []seg
			for k, it := range items {
				if it.opaque || it.loop {
					return opaque()
				}
				if k > 0 && sep != "" {
					out = append(out, seg{kind: "lit", lit: sep})
				}
				var part []seg
				d.under(it, func() { part = d.strLang(it.v.v, it.v.fr, depth+1) })
				out = append(out, part...)
			}
			return out
		case "strings.ToUpper", "strings.ToLower":
			in := d.strLang(x.Call.Args[0], r.fr, depth+1)
			for i := range in {
				switch in[i].kind {
				case "hex":
					in[i].upper = id == "strings.ToUpper"
				case "lit":
					if id == "strings.ToUpper" {
						in[i].lit = strings.ToUpper(in[i].lit)
					} else {
						in[i].lit = strings.ToLower(in[i].lit)
					}
				case "var":
					in[i].note = id + "(" + in[i].note + ")"
					in[i].folded = id
				}
			}
			return in
		case "encoding/hex.EncodeToString":
			if out, ok := d.hexOfBytes(x.Call.Args[0], r.fr); ok {
				return out
			}
			return opaque()
		case "strings.Builder.String":
			if out, ok := d.builderLang(x, r.fr, depth); ok {
				return out
			}
			return opaque()
		}
	}
	return opaque()
}

// builderLang: the text of a local strings.Builder at a String() call: the
// concatenation of what the WriteString / WriteByte / WriteRune calls on it put
// in, when every one of them is made exactly once before the String call
// (straight-line code of the same activation, no loop, no reset, the builder is
// not handed to anything else).
func (d *deepView) builderLang(str *ssa.Call, fr *frame, depth int) ([]seg, bool) {
	if len(str.Call.Args) == 0 {
		return nil, false
	}
	a, ok := str.Call.Args[0].(*ssa.Alloc)
	if !ok || a.Parent() != fr.fn {
		return nil, false
	}
	var writes []*ssa.Call
	for _, ref := range *a.Referrers() {
		switch y := ref.(type) {
		case *ssa.DebugRef:
		case *ssa.Call:
			if y.Call.IsInvoke() || len(y.Call.Args) == 0 || y.Call.Args[0] != ssa.Value(a) {
				return nil, false
			}
			for _, other := range y.Call.Args[1:] {
				if other == ssa.Value(a) {
					return nil, false
				}
			}
			switch ir.CallID(y) {
			case "strings.Builder.String", "strings.Builder.Len", "strings.Builder.Cap", "strings.Builder.Grow":
			case "strings.Builder.WriteString", "strings.Builder.WriteByte", "strings.Builder.WriteRune":
				before := y.Block() == str.Block() && precedes(y, str) || y.Block() != str.Block() && y.Block().Dominates(str.Block())
				if !before || inLoop(fr.fn, y.Block()) {
					return nil, false
				}
				writes = append(writes, y)
			default:
				return nil, false
			}
		default:
			return nil, false
		}
	}
	if inLoop(fr.fn, str.Block()) {
		return nil, false
	}
	// all of them dominate the String call, so they are totally ordered
	for i := 1; i < len(writes); i++ {
		for j := i; j > 0; j-- {
			p, q := writes[j-1], writes[j]
			if q.Block() == p.Block() && precedes(q, p) || q.Block() != p.Block() && q.Block().Dominates(p.Block()) {
				writes[j-1], writes[j] = q, p
			}
		}
	}
	var out []seg
	for _, w := range writes {
		arg := w.Call.Args[1]
		if ir.CallID(w) == "strings.Builder.WriteString" {
			out = append(out, d.strLang(arg, fr, depth+1)...)
			continue
		}
		if k, isK := ir.ConstInt(d.resolveConv(arg, fr).v); isK && k > 0 && (k < 0x80 || k < 0x110000 && ir.CallID(w) == "strings.Builder.WriteRune") {
			out = append(out, seg{kind: "lit", lit: string(rune(k))})
			continue
		}
		out = append(out, seg{kind: "var", val: arg, fr: fr, note: "opaque character"})
	}
	return out, true
}

// hexOfBytes: the lower-case hexadecimal rendering of a byte sequence, as hex
// groups over the values the bytes encode (big-endian encodings print the digits
// of the value; raw byte runs print their bytes).
func (d *deepView) hexOfBytes(arg ssa.Value, fr *frame) ([]seg, bool) {
	bs, ok := d.byteSeq(arg, fr, 0)
	if !ok {
		// what is printed is not resolved, but it is lower-case hexadecimal
		s := seg{kind: "hex", upper: false, digits: -1, val: arg, fr: fr}
		if n, ok := byteLen(arg); ok {
			s.digits = int(2 * n)
		} else if mk := makeLenOf(d.resolve(arg, fr).v); mk >= 0 {
			s.digits = int(2 * mk)
		}
		return []seg{s}, true
	}
	var out []seg
	for _, b := range bs {
		if !b.width.isConst() || b.cond {
			return nil, false
		}
		w := b.width.K
		switch {
		case b.kind == "enc" && (b.order == "BE" || b.order == "-"):
			o := d.originOf(b.v.v, b.v.fr)
			if arr, isArr := b.v.v.Type().Underlying().(*types.Array); isArr && binarySize(arr.Elem()) == 1 && o.blo < 0 {
				o.blo, o.bhi = 0, arr.Len()
			}
			out = append(out, seg{kind: "hex", digits: int(2 * w), val: b.v.v, fr: b.v.fr, origin: &o})
		case b.kind == "bytes":
			o := d.originOf(b.v.v, b.v.fr)
			if o.blo < 0 {
				o.blo, o.bhi = 0, w
			}
			if b.boff != 0 || o.bhi-o.blo != w {
				o.blo += b.boff
				o.bhi = o.blo + w
			}
			out = append(out, seg{kind: "hex", digits: int(2 * w), val: b.v.v, fr: b.v.fr, origin: &o})
		default:
			// little-endian encodings print byte-swapped: not a hex group of the value
			out = append(out, seg{kind: "var", note: "hex of " + b.String()})
		}
	}
	return out, true
}

// cutLang cuts a language at character positions [lo, hi) (hi < 0: to the end);
// only literals and fixed-width hex groups have known widths.
func cutLang(in []seg, lo, hi int64) ([]seg, bool) {
	var out []seg
	pos := int64(0)
	for _, s := range in {
		var w int64
		switch s.kind {
		case "lit":
			w = int64(len(s.lit))
		case "hex":
			if s.digits < 0 {
				return nil, false
			}
			w = int64(s.digits)
		default:
			return nil, false
		}
		a, b := pos, pos+w
		pos = b
		if hi >= 0 && a >= hi {
			break
		}
		if b <= lo {
			continue
		}
		ca, cb := a, b
		if ca < lo {
			ca = lo
		}
		if hi >= 0 && cb > hi {
			cb = hi
		}
		if ca == a && cb == b {
			out = append(out, s)
			continue
		}
		switch s.kind {
		case "lit":
			t := s
			t.lit = s.lit[ca-a : cb-a]
			out = append(out, t)
		case "hex":
			// a byte-aligned part of a hex group over a byte range
			if (ca-a)%2 != 0 || (cb-a)%2 != 0 || s.origin == nil || s.origin.blo < 0 {
				return nil, false
			}
			t := s
			o := *s.origin
			o.blo, o.bhi = s.origin.blo+(ca-a)/2, s.origin.blo+(cb-a)/2
			t.origin = &o
			t.digits = int(cb - ca)
			out = append(out, t)
		}
	}
	if hi >= 0 && pos < hi {
		return nil, false
	}
	return out, true
}

// paddingIdle: the byte slice printed with %<width>x has a length the deep view
// can evaluate, and two digits per byte already fill the width (the padding
// never adds a character).
func (d *deepView) paddingIdle(v ssa.Value, fr *frame, width int) bool {
	n := d.sliceLen(v, fr)
	return n.isConst() && int64(width) <= 2*n.K
}

// bytesWrittenInPlace: the byte slice value has elements stored into it, or is
// the destination of copy / PutUint / a Read.
func bytesWrittenInPlace(b ssa.Value, depth int) bool {
	if b == nil || b.Referrers() == nil || depth > 3 {
		return false
	}
	for _, r := range *b.Referrers() {
		switch x := r.(type) {
		case *ssa.IndexAddr:
			for _, rr := range *x.Referrers() {
				if st, ok := rr.(*ssa.Store); ok && st.Addr == ssa.Value(x) {
					return true
				}
			}
		case *ssa.Slice:
			if bytesWrittenInPlace(x, depth+1) {
				return true
			}
		case ssa.CallInstruction:
			id := ir.CallID(x)
			args := ir.CallArgs(x)
			if id == "builtin.copy" && len(args) > 0 && args[0] == b {
				return true
			}
			if strings.Contains(id, "PutUint") || strings.HasSuffix(id, ".Read") || id == "io.ReadFull" || id == "encoding/hex.Encode" {
				return true
			}
		}
	}
	return false
}
