package rules

import (
	"go/types"
	"strings"

	"golang.org/x/tools/go/ssa"

	"verif/checker/internal/ir"
	"verif/checker/internal/report"
)

// Rule family P: recycled storage. An object handed back to a sync.Pool is
// reused by the next caller that takes one from the pool. If what a function
// returns still points into such an object (the bytes of a pooled buffer, a
// reader over them, a builder's output grown in a pooled slice), the result
// changes under the caller's hands as soon as anybody else runs the function:
// two results held at once, or two goroutines, see each other's data. The
// rule follows aliases — not data dependence: a copy (bytes.Clone, append to a
// fresh slice, string conversion, copy into a new buffer) ends the trail.

// aliasCtors: library calls whose result shares storage with (or holds a
// reference to) one of their arguments. Value: indices of the aliasing arguments.
var aliasCtors = map[string][]int{
	"bytes.Buffer.Bytes": {0}, "bytes.Buffer.Next": {0}, "bytes.NewReader": {0}, "bytes.NewBuffer": {0},
	"io.NewSectionReader": {0}, "io.LimitReader": {0}, "io.TeeReader": {0, 1}, "bufio.NewReader": {0}, "bufio.NewWriter": {0},
	"io.MultiReader": {0}, "io.MultiWriter": {0},
	"golang.org/x/crypto/cryptobyte.NewBuilder": {0}, "golang.org/x/crypto/cryptobyte.NewFixedBuilder": {0},
	"golang.org/x/crypto/cryptobyte.Builder.Bytes": {0}, "golang.org/x/crypto/cryptobyte.Builder.BytesOrPanic": {0},
	"bytes.TrimSpace": {0}, "bytes.TrimRight": {0}, "bytes.TrimLeft": {0}, "bytes.Trim": {0}, "bytes.TrimPrefix": {0}, "bytes.TrimSuffix": {0},
	"slices.Grow": {0}, "slices.Clip": {0},
}

type recycle struct {
	c    *Ctx
	dv   *deepView
	pool map[ssa.Value]bool // the values that denote pooled objects (results of Get, arguments of Put)
	memo map[dval]int       // 0 unknown, 1 yes, 2 no, 3 busy
}

func (p *recycle) alias(v ssa.Value, fr *frame, depth int) bool {
	if v == nil || depth > 40 {
		return false
	}
	if !pointerLike(v.Type()) {
		return false
	}
	key := dval{v, fr}
	switch p.memo[key] {
	case 1:
		return true
	case 2, 3:
		return false
	}
	p.memo[key] = 3
	r := p.aliasUncached(v, fr, depth)
	if r {
		p.memo[key] = 1
	} else {
		p.memo[key] = 2
	}
	return r
}

func (p *recycle) aliasUncached(v ssa.Value, fr *frame, depth int) bool {
	d := p.dv
	if p.pool[v] {
		return true
	}
	res := d.resolve(v, fr)
	if res.v != v || res.fr != fr {
		if p.pool[res.v] {
			return true
		}
		if p.alias(res.v, res.fr, depth+1) {
			return true
		}
		// resolve picks one origin; the structural cases below still apply to v itself
	}
	switch x := v.(type) {
	case *ssa.TypeAssert:
		return p.alias(x.X, fr, depth+1)
	case *ssa.ChangeType:
		return p.alias(x.X, fr, depth+1)
	case *ssa.ChangeInterface:
		return p.alias(x.X, fr, depth+1)
	case *ssa.MakeInterface:
		return p.alias(x.X, fr, depth+1)
	case *ssa.Convert:
		// []byte <-> string conversions copy
		_, fromStr := x.X.Type().Underlying().(*types.Basic)
		_, toStr := x.Type().Underlying().(*types.Basic)
		if fromStr || toStr {
			return false
		}
		return p.alias(x.X, fr, depth+1)
	case *ssa.Slice:
		return p.alias(x.X, fr, depth+1)
	case *ssa.FieldAddr:
		return p.alias(x.X, fr, depth+1)
	case *ssa.Field:
		return p.alias(x.X, fr, depth+1)
	case *ssa.IndexAddr:
		return p.alias(x.X, fr, depth+1)
	case *ssa.Index:
		return p.alias(x.X, fr, depth+1)
	case *ssa.Lookup:
		return p.alias(x.X, fr, depth+1)
	case *ssa.Extract:
		if call, ok := x.Tuple.(*ssa.Call); ok {
			return p.aliasCall(call, fr, x.Index, depth)
		}
		if nx, ok := x.Tuple.(*ssa.Next); ok {
			if rg, ok := nx.Iter.(*ssa.Range); ok {
				return p.alias(rg.X, fr, depth+1)
			}
		}
		return p.alias(x.Tuple, fr, depth+1)
	case *ssa.Phi:
		for _, e := range x.Edges {
			if p.alias(e, fr, depth+1) {
				return true
			}
		}
	case *ssa.UnOp:
		if x.Op.String() != "*" {
			return false
		}
		// the content of a cell / a field: anything stored there
		switch a := x.X.(type) {
		case *ssa.Alloc:
			found := false
			d.eachStoreTo(a, fr, func(st *ssa.Store, f *frame) {
				if !found && p.alias(st.Val, f, depth+1) {
					found = true
				}
			})
			if found {
				return true
			}
			return p.holds(a, fr, depth)
		case *ssa.FieldAddr:
			obj := d.resolve(a.X, fr)
			for _, s := range d.fieldStores(obj, a.Field) {
				if p.alias(s.st.Val, s.fr, depth+1) {
					return true
				}
			}
			return p.alias(a.X, fr, depth+1)
		case *ssa.IndexAddr:
			return p.alias(a.X, fr, depth+1)
		}
		return p.alias(x.X, fr, depth+1)
	case *ssa.Alloc:
		return p.holds(x, fr, depth)
	case *ssa.Call:
		return p.aliasCall(x, fr, 0, depth)
	case *ssa.MakeClosure:
		for _, b := range x.Bindings {
			if p.alias(b, fr, depth+1) {
				return true
			}
		}
	}
	return false
}

// holds: a local object (struct, array, cell) into which an alias was stored.
func (p *recycle) holds(a *ssa.Alloc, fr *frame, depth int) bool {
	if a.Referrers() == nil {
		return false
	}
	for _, r := range *a.Referrers() {
		switch y := r.(type) {
		case *ssa.FieldAddr, *ssa.IndexAddr:
			for _, rr := range *y.(ssa.Value).Referrers() {
				if st, ok := rr.(*ssa.Store); ok && st.Addr == y.(ssa.Value) && p.alias(st.Val, fr, depth+1) {
					return true
				}
			}
		case *ssa.Store:
			if y.Addr == ssa.Value(a) && p.alias(y.Val, fr, depth+1) {
				return true
			}
		}
	}
	return false
}

func (p *recycle) aliasCall(call *ssa.Call, fr *frame, result int, depth int) bool {
	d := p.dv
	id := ir.CallID(call)
	args := ir.CallArgs(call)
	if id == "builtin.append" && len(args) > 0 {
		if p.alias(args[0], fr, depth+1) {
			return true
		}
		// elements that are themselves references
		if len(args) > 1 {
			if sl, ok := args[1].Type().Underlying().(*types.Slice); ok && pointerLike(sl.Elem()) && !isByteSlice(args[1].Type()) {
				return p.alias(args[1], fr, depth+1)
			}
		}
		return false
	}
	if idxs, ok := aliasCtors[id]; ok {
		if result != 0 {
			return false
		}
		for _, k := range idxs {
			if k < len(args) && p.alias(args[k], fr, depth+1) {
				return true
			}
		}
		// variadic constructors (io.MultiReader)
		if strings.HasPrefix(id, "io.Multi") {
			for _, a := range args {
				if p.alias(a, fr, depth+1) {
					return true
				}
			}
		}
		return false
	}
	// a library function of the module: what it returns
	if child := d.frameOfCall(fr, call); child != nil {
		for _, r := range ir.Returns(child.fn) {
			if result < len(r.Results) && p.alias(effectiveResult(child.fn, r, result), child, depth+1) {
				return true
			}
		}
	}
	return false
}

// ruleRecycle (P.recycle): no function of the given set returns (or stores into
// its receiver) storage of an object that it hands back to a sync.Pool.
func (c *Ctx) ruleRecycle(rule string, in func(*ssa.Function) bool) {
	// library functions that (within four calls) put something into a pool
	puts := func(fn *ssa.Function) bool {
		found := false
		for _, g := range c.cone(fn) {
			for _, h := range withAnon(g) {
				instrsOf(h, func(i ssa.Instruction) {
					if call, ok := i.(ssa.CallInstruction); ok && ir.CallID(call) == "sync.Pool.Put" {
						found = true
					}
				})
			}
		}
		return found
	}
	n := 0
	for _, fn := range c.P.LibFunctions() {
		if fn.Parent() != nil || fn.Synthetic != "" || fn.Blocks == nil || (in != nil && !in(fn)) {
			continue
		}
		if fn.Signature.Results().Len() == 0 || !puts(fn) {
			continue
		}
		n++
		dv := c.deepViewOf(fn, 4)
		p := &recycle{c: c, dv: dv, pool: map[ssa.Value]bool{}, memo: map[dval]int{}}
		where := ""
		for _, di := range dv.order {
			call, ok := di.i.(ssa.CallInstruction)
			if !ok {
				continue
			}
			switch ir.CallID(call) {
			case "sync.Pool.Put":
				args := ir.CallArgs(call)
				if len(args) > 1 {
					o := dv.resolve(ir.StripIface(args[1]), di.fr)
					p.pool[o.v] = true
					p.pool[ir.StripIface(args[1])] = true
					where = c.IPos(di.i)
				}
			case "sync.Pool.Get":
				if v, isV := call.(ssa.Value); isV {
					p.pool[v] = true
				}
			}
		}
		bad := ""
		for _, r := range ir.Returns(fn) {
			for k := range r.Results {
				res := effectiveResult(fn, r, k)
				if isErrorType(res.Type()) {
					continue
				}
				if p.alias(res, dv.root, 0) {
					bad = "the value returned at " + c.IPos(r) + " still points into the object handed back to the pool at " + where
				}
			}
		}
		c.R.Check(bad == "", rule, name(fn), "pooled-storage", c.Pos(fn.Pos()),
			"nothing that is handed back to a sync.Pool stays reachable from the result", bad+": the next caller that takes the object from the pool overwrites this result (two results held at once, or two goroutines)")
	}
	if n == 0 {
		c.R.Okf(rule, "-", "scan", "-", "no function in scope hands an object back to a sync.Pool")
	}
}

// rulePoolReset (P.reset): an object with state (a hash, a buffer) that goes
// back into a sync.Pool is reset on every path that used it — or is reset
// right after it was taken out, before any use. Otherwise the state left by a
// call that ended early (an error return with a deferred Put) is what the next
// caller continues from.
func (c *Ctx) rulePoolReset(rule string, in func(*ssa.Function) bool) int {
	n := 0
	counts := map[string]int{}
	for _, fn := range c.P.LibFunctions() {
		if in != nil && !in(fn) {
			continue
		}
		fn := fn
		instrsOf(fn, func(i ssa.Instruction) {
			call, ok := i.(ssa.CallInstruction)
			if !ok || ir.CallID(call) != "sync.Pool.Put" {
				return
			}
			args := ir.CallArgs(call)
			obj := args[len(args)-1]
			// the values that stand for the pooled object in this function
			alias := map[ssa.Value]bool{}
			var grow func(v ssa.Value, d int)
			grow = func(v ssa.Value, d int) {
				if v == nil || alias[v] || d > 8 {
					return
				}
				alias[v] = true
				switch x := v.(type) {
				case *ssa.Phi:
					for _, e := range x.Edges {
						grow(e, d+1)
					}
				case *ssa.TypeAssert:
					grow(x.X, d+1)
				case *ssa.Extract:
					grow(x.Tuple, d+1)
				case *ssa.MakeInterface:
					grow(x.X, d+1)
				case *ssa.ChangeInterface:
					grow(x.X, d+1)
				}
				if v.Referrers() != nil {
					for _, r := range *v.Referrers() {
						switch y := r.(type) {
						case *ssa.Phi, *ssa.TypeAssert, *ssa.MakeInterface, *ssa.ChangeInterface:
							grow(y.(ssa.Value), d+1)
						case *ssa.Extract:
							grow(y, d+1)
						}
					}
				}
			}
			grow(obj, 0)
			var uses, resets []ssa.Instruction
			instrsOf(fn, func(j ssa.Instruction) {
				cj, isC := j.(ssa.CallInstruction)
				if !isC || j == i {
					return
				}
				touches := false
				if cj.Common().IsInvoke() && alias[cj.Common().Value] {
					touches = true
				}
				for _, a := range cj.Common().Args {
					if alias[a] {
						touches = true
					}
				}
				if !touches {
					return
				}
				id := ir.CallID(cj)
				switch {
				case id == "sync.Pool.Put" || id == "sync.Pool.Get":
				case cj.Common().IsInvoke() && cj.Common().Method.Name() == "Reset", strings.HasSuffix(id, ".Reset"):
					resets = append(resets, j)
				case cj.Common().IsInvoke() && (cj.Common().Method.Name() == "Sum" || cj.Common().Method.Name() == "Size" || cj.Common().Method.Name() == "BlockSize"):
				default:
					uses = append(uses, j)
				}
			})
			if len(uses) == 0 {
				return
			}
			n++
			key := ordinalKey(counts, name(fn)+":pool-put")
			construct := strings.TrimPrefix(key, name(fn)+":")
			// (A) reset before any use
			for _, r := range resets {
				all := true
				for _, u := range uses {
					if !precedesInCFG(fn, r, u) {
						all = false
					}
				}
				if all {
					c.R.Okf(rule, name(fn), construct, c.IPos(i), "the pooled object is reset before it is used")
					return
				}
			}
			// (B) no way from a use to where the object goes back without a reset
			cut := map[ir.Edge]bool{}
			resetBlock := map[int]bool{}
			for _, r := range resets {
				resetBlock[r.Block().Index] = true
				for _, s := range r.Block().Succs {
					cut[ir.Edge{From: r.Block().Index, To: s.Index}] = true
				}
			}
			_, deferred := i.(*ssa.Defer)
			bad := ""
			for _, u := range uses {
				seen, _ := ir.Reach(fn, u.Block(), cut)
				if resetBlock[u.Block().Index] {
					// a reset after the use in the same block covers the paths through it
					covered := false
					for _, r := range resets {
						if r.Block() == u.Block() && precedes(u, r) {
							covered = true
						}
					}
					if covered {
						continue
					}
				}
				if deferred {
					for _, r := range ir.Returns(fn) {
						if seen[r.Block().Index] && !resetBlock[r.Block().Index] {
							bad = c.IPos(r)
						}
					}
				} else if seen[i.Block().Index] && !resetBlock[i.Block().Index] {
					bad = c.IPos(i)
				}
			}
			what := "an object that goes back into a pool was reset on every path that used it"
			if bad == "" {
				c.R.Okf(rule, name(fn), construct, c.IPos(i), what)
				return
			}
			// how the rest of the function is written does not change this
			c.R.Add(report.Obligation{Rule: rule, Key: rule + "@" + name(fn) + ":" + construct, Func: name(fn), Pos: c.IPos(i), What: what, Status: report.Violation, Hard: true,
				Detail: "the object put into the pool can reach " + bad + " after it was used without a Reset on the way (an early return, say): the next call that takes it out continues from the state that was left"})
		})
	}
	if n == 0 {
		c.R.Okf(rule, "-", "scan", "-", "no stateful object is put into a sync.Pool after use")
	}
	return n
}
