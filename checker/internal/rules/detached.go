package rules

import (
	"go/constant"
	"go/token"

	"golang.org/x/tools/go/ssa"

	"verif/checker/internal/ir"
)

// ruleDetachedData: a SignedData over id-data is detached — SignPKCS7 embeds no
// content when the content type is OIDData, whatever the content is. (UEFI
// authenticated variables carry a detached signature; firmware rejects an
// update whose SignedData encapsulates the signed buffer.)
//
// Decided by evaluating, in the function that holds the embedding call, the
// branch conditions on the way to it under the assumption
// "oid.Equal(OIDData) is true and len(content) > 0": the embedding must not be
// reached. Conditions are followed into library helpers that compute them; a
// condition the evaluation cannot decide leaves the rule undecided.
func (c *Ctx) ruleDetachedData(rule string) {
	fn := c.FnOpt("pkcs7.SignPKCS7")
	if fn == nil {
		return
	}
	dv := c.deepViewOf(fn, 6)
	dv.throughFields = true
	contentP := paramBytes(fn)
	oidP := paramByNamed(fn, "encoding/asn1.ObjectIdentifier")
	if contentP == nil || oidP == nil {
		c.R.Infof(rule, name(fn), "id-data-detached", c.Pos(fn.Pos()), "not decided for this shape: SignPKCS7 does not take (oid, content) parameters the rule can identify")
		return
	}
	isRoot := func(v ssa.Value, fr *frame, p *ssa.Parameter) bool {
		r := dv.resolveConv(v, fr)
		return r.fr == dv.root && r.v == ssa.Value(p)
	}
	// the embedding: AddBytes(content) inside the builder continuations
	var embed *dinstr
	for k := range dv.order {
		di := dv.order[k]
		call, ok := di.i.(*ssa.Call)
		if !ok || ir.CallID(call) != cbPkg+".Builder.AddBytes" {
			continue
		}
		if isRoot(call.Call.Args[len(call.Call.Args)-1], di.fr, contentP) {
			embed = &dv.order[k]
		}
	}
	if embed == nil {
		c.R.Infof(rule, name(fn), "id-data-detached", c.Pos(fn.Pos()), "not decided for this shape: no AddBytes(content) found in the builder continuations of SignPKCS7")
		return
	}
	ev := &boolEval{dv: dv, steps: 0}
	ev.atom = func(v ssa.Value, fr *frame) (bool, bool) {
		switch x := v.(type) {
		case *ssa.Call:
			if x.Call.IsInvoke() {
				return false, false
			}
			if id := ir.CallID(x); id == "encoding/asn1.ObjectIdentifier.Equal" {
				args := ir.CallArgs(x)
				if len(args) == 2 {
					a, b := args[0], args[1]
					isData := func(v ssa.Value) bool { return isGlobalLoad(dv.resolveConv(v, fr).v, M+"/pkcs7.OIDData") }
					if isRoot(a, fr, oidP) && isData(b) || isRoot(b, fr, oidP) && isData(a) {
						return true, true
					}
				}
			}
		case *ssa.BinOp:
			lx, ly := x.X, x.Y
			op := x.Op
			if _, isK := ir.ConstInt(lx); isK {
				lx, ly, op = ly, lx, flip(op)
			}
			lc, isLen := ir.StripConv(lx).(*ssa.Call)
			k, isK := ir.ConstInt(ly)
			if !isLen || !isK || ir.CallID(lc) != "builtin.len" || !isRoot(lc.Call.Args[0], fr, contentP) {
				return false, false
			}
			switch {
			case k == 0:
				switch op {
				case token.GTR, token.NEQ, token.GEQ:
					return true, true
				case token.EQL, token.LEQ, token.LSS:
					return false, true
				}
			case k == 1:
				switch op {
				case token.GEQ:
					return true, true
				case token.LSS:
					return false, true
				}
			}
		}
		return false, false
	}
	ev.related = func(v ssa.Value, fr *frame) bool {
		// whether an earlier step failed is not a test of the content type
		if x, _, isNC := ir.NilCheck(v); isNC && isErrorType(x.Type()) {
			return false
		}
		sl := dv.sliceDeep(v, fr)
		if sl[contentP] || sl[oidP] {
			return true
		}
		// a flag kept in a variable: where it is set may depend on the assumed
		// values (a switch over them that assigns true or false)
		for x := range sl {
			ld, ok := x.(*ssa.UnOp)
			if !ok || ld.Op != token.MUL {
				continue
			}
			a, isA := cellOf(ld.X).(*ssa.Alloc)
			if !isA || a.Parent() == nil {
				continue
			}
			for _, f := range withAnon(topFn(a.Parent())) {
				for _, b := range f.Blocks {
					for _, in := range b.Instrs {
						st, isSt := in.(*ssa.Store)
						if !isSt || cellOf(st.Addr) != ssa.Value(a) {
							continue
						}
						for _, ce := range ir.DominatingConds(f, b) {
							cs := c.sliceOf(ce.RawCond)
							if cs[contentP] || cs[oidP] {
								return true
							}
						}
					}
				}
			}
		}
		return false
	}
	// the embedding sits in nested builder continuations: it is reached when its
	// block is reached in its function, the call that runs that function is
	// reached in the enclosing one, and so on up to SignPKCS7 itself
	reach, certain := true, true
	for fr, blk := embed.fr, embed.i.Block(); fr != nil && reach; {
		r, cert := ev.reaches(fr, blk)
		reach, certain = r, certain && cert
		switch {
		case fr.parent != nil && fr.site != nil:
			blk, fr = fr.site.Block(), fr.parent
		case fr.mk != nil && fr.mkFr != nil:
			// a continuation run by the builder: where it was made and handed over
			blk, fr = fr.mk.Block(), fr.mkFr
		default:
			fr = nil
		}
	}
	switch {
	case ev.steps > evalLimit:
		c.R.Infof(rule, name(fn), "id-data-detached", c.IPos(embed.i), "not decided for this shape: the conditions in front of the embedding are too many to evaluate")
	case reach && certain:
		c.R.Violf(rule, name(fn), "id-data-detached", c.IPos(embed.i), "no content is embedded when the content type is id-data (the signature is detached)",
			"with oid.Equal(OIDData) true and non-empty content the conditions in front of the embedding of the content evaluate to 'embed': a variable update would carry an encapsulating SignedData, which is not the detached signature the format requires")
	case reach:
		c.R.Infof(rule, name(fn), "id-data-detached", c.IPos(embed.i), "not decided for this shape: a condition in front of the embedding is not one the evaluation decides")
	default:
		c.R.Okf(rule, name(fn), "id-data-detached", c.IPos(embed.i), "with the content type id-data the embedding of the content is not reached")
	}
}

const evalLimit = 4000

// boolEval walks a function from its entry and follows the branches whose
// conditions evaluate to a known truth value under a set of assumed atoms.
type boolEval struct {
	dv   *deepView
	atom func(v ssa.Value, fr *frame) (val bool, known bool)
	// related: the condition depends on the values the assumptions are about
	related func(v ssa.Value, fr *frame) bool
	steps   int
}

// reaches: can control reach target from the entry of the frame's function
// under the assumptions? certain: along that path every branch was decided.
func (e *boolEval) reaches(fr *frame, target *ssa.BasicBlock) (reach, certain bool) {
	fn := fr.fn
	type st struct {
		b, prev *ssa.BasicBlock
		certain bool
	}
	seen := map[[2]int]bool{}
	var walk func(s st) (bool, bool)
	walk = func(s st) (bool, bool) {
		e.steps++
		if e.steps > evalLimit {
			return false, false
		}
		if s.b == target {
			return true, s.certain
		}
		pi := -1
		if s.prev != nil {
			pi = s.prev.Index
		}
		key := [2]int{s.b.Index, pi}
		if seen[key] {
			return false, false
		}
		seen[key] = true
		last := s.b.Instrs[len(s.b.Instrs)-1]
		iff, isIf := last.(*ssa.If)
		if !isIf {
			for _, nx := range s.b.Succs {
				if r, cert := walk(st{nx, s.b, s.certain}); r {
					return true, cert
				}
			}
			return false, false
		}
		val, known := e.value(iff.Cond, fr, s.prev, 0)
		if known {
			nx := s.b.Succs[1]
			if val {
				nx = s.b.Succs[0]
			}
			return walk(st{nx, s.b, s.certain})
		}
		// undecided: a condition that has nothing to do with the assumed values
		// (an error test, say) is free; one that looks at them some other way
		// makes the outcome uncertain
		cert := s.certain && !(e.related != nil && e.related(iff.Cond, fr))
		for _, nx := range s.b.Succs {
			if r, c2 := walk(st{nx, s.b, cert}); r {
				return true, c2
			}
		}
		return false, false
	}
	_ = fn
	return walk(st{fn.Blocks[0], nil, true})
}

// value evaluates a boolean SSA value in a frame; prev is the block control
// came from (selects the incoming value of a phi in the current block).
func (e *boolEval) value(v ssa.Value, fr *frame, prev *ssa.BasicBlock, depth int) (bool, bool) {
	e.steps++
	if depth > 12 || e.steps > evalLimit {
		return false, false
	}
	if k, ok := v.(*ssa.Const); ok && k.Value != nil && k.Value.Kind() == constant.Bool {
		return constant.BoolVal(k.Value), true
	}
	if val, known := e.atom(v, fr); known {
		return val, true
	}
	switch x := v.(type) {
	case *ssa.UnOp:
		if x.Op == token.NOT {
			val, known := e.value(x.X, fr, prev, depth+1)
			return !val, known
		}
	case *ssa.BinOp:
		if isBoolType(x.X.Type()) && (x.Op == token.EQL || x.Op == token.NEQ) {
			a, ka := e.value(x.X, fr, prev, depth+1)
			b, kb := e.value(x.Y, fr, prev, depth+1)
			if ka && kb {
				return (a == b) == (x.Op == token.EQL), true
			}
		}
	case *ssa.Phi:
		// short-circuit values: the operand that flows in from the block control came from;
		// without that block, all incoming values must agree
		if prev != nil {
			for k, p := range x.Block().Preds {
				if p == prev {
					return e.value(x.Edges[k], fr, nil, depth+1)
				}
			}
		}
		first, have := false, false
		for _, ed := range x.Edges {
			val, known := e.value(ed, fr, nil, depth+1)
			if !known || have && val != first {
				return false, false
			}
			first, have = val, true
		}
		return first, have
	case *ssa.Call:
		// a library predicate: every return reachable under the assumptions agrees
		child := e.dv.frameOfCall(fr, x)
		if child == nil || child.fn.Blocks == nil || child.fn.Signature.Results().Len() != 1 {
			return false, false
		}
		return e.result(child, depth+1)
	}
	return false, false
}

// result evaluates the single boolean result of a helper frame: the value at
// the returns that are reachable under the assumptions, if they agree.
func (e *boolEval) result(fr *frame, depth int) (bool, bool) {
	type st struct{ b, prev *ssa.BasicBlock }
	var outs []bool
	undecided := false
	seen := map[[2]int]bool{}
	var walk func(s st)
	walk = func(s st) {
		e.steps++
		if e.steps > evalLimit || undecided {
			undecided = true
			return
		}
		pi := -1
		if s.prev != nil {
			pi = s.prev.Index
		}
		key := [2]int{s.b.Index, pi}
		if seen[key] {
			return
		}
		seen[key] = true
		switch last := s.b.Instrs[len(s.b.Instrs)-1].(type) {
		case *ssa.Return:
			val, known := e.value(last.Results[0], fr, s.prev, depth+1)
			// a phi in the return block is selected by the block control came from
			if ph, isPhi := last.Results[0].(*ssa.Phi); isPhi && ph.Block() == s.b && s.prev != nil {
				for k, p := range s.b.Preds {
					if p == s.prev {
						val, known = e.value(ph.Edges[k], fr, nil, depth+1)
					}
				}
			}
			if !known {
				undecided = true
				return
			}
			outs = append(outs, val)
		case *ssa.If:
			val, known := e.value(last.Cond, fr, s.prev, depth+1)
			if known {
				nx := s.b.Succs[1]
				if val {
					nx = s.b.Succs[0]
				}
				walk(st{nx, s.b})
				return
			}
			for _, nx := range s.b.Succs {
				walk(st{nx, s.b})
			}
		default:
			for _, nx := range s.b.Succs {
				walk(st{nx, s.b})
			}
		}
	}
	walk(st{fr.fn.Blocks[0], nil})
	if undecided || len(outs) == 0 {
		return false, false
	}
	for _, o := range outs[1:] {
		if o != outs[0] {
			return false, false
		}
	}
	return outs[0], true
}
