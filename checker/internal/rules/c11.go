package rules

import (
	"fmt"
	"go/constant"
	"go/token"
	"go/types"
	"sort"
	"strings"

	"golang.org/x/tools/go/ssa"

	"verif/checker/internal/ir"
)

func init() {
	Registry["C11"] = checkC11
	Registry["C12"] = checkC12
}

func checkC11(c *Ctx) {
	c.exactOpenFlags = true
	c.ruleWriteShape()
	c.ruleShortWrite("F5.shortwrite")
	c.ruleReadShape()
	c.ruleGUIDFormat("H1.guidtext")
	c.R.Floor("F1.onewrite", 2)
	c.R.Floor("F2.flags", 1)
	c.R.Floor("F3.buffer", 1)
	c.R.Floor("F4.path", 1)
	c.R.Floor("F5.shortwrite", 1)
	c.R.Floor("F6.gate", 3)
	c.R.Floor("F7.read", 1)
	c.R.Floor("F8.args", 1)
	c.ruleGUIDByName("F13.guidname")
	if c.ruleDefinitionAttrs("F12.def") == 0 {
		c.R.Infof("F12.def", "-", "definition", "-", "not decided for this shape: every variable definition handed to the store by the typed accessors is a parameter of a helper")
	}
}

func checkC12(c *Ctx) {
	oT, _ := c.constInt("os", "O_TRUNC")
	oA, _ := c.constInt("os", "O_APPEND")
	// ---- F9: old content is discarded on a non-append rewrite
	if fn := c.Fn("F9.truncate", "efivarfs/fswrapper.(*FSWrapper).WriteEfivarsWithGuid"); fn != nil {
		// the open call wherever the writer's call cone makes it
		dv := c.deepViewOf(fn, 3)
		opens := dv.fsInvokes("OpenFile")
		creates := dv.fsInvokes("Create")
		removes := append(dv.fsInvokes("Remove"), dv.fsInvokes("Truncate")...)
		switch {
		case len(creates) > 0 || len(removes) > 0:
			c.R.Okf("F9.truncate", name(fn), "OpenFile.flags", c.Pos(fn.Pos()), "old content is discarded before a non-append write (Create/Remove/Truncate)")
		case len(opens) == 1:
			open := opens[0].i.(ssa.CallInstruction)
			flagV := dv.resolve(open.Common().Args[1], opens[0].fr)
			cases, ok := c.flagCases(flagV.v, 0)
			if !ok {
				c.R.Undecf("F9.truncate", name(fn), "OpenFile.flags", c.IPos(open), "open flags must be a finite set of constants", "not constant")
			} else {
				good := true
				for _, fc := range cases {
					if fc.val&oA == 0 && fc.val&oT == 0 {
						good = false
					}
				}
				c.R.Check(good, "F9.truncate", name(fn), "OpenFile.flags", c.IPos(open),
					"a non-append write opens the variable file with O_TRUNC (MemMapFs keeps the old tail otherwise)",
					"non-append flag set lacks O_TRUNC: a shorter value leaves the tail of the previous value behind")
			}
		default:
			c.R.Undecf("F9.truncate", name(fn), "OpenFile", c.Pos(fn.Pos()), "the open call must be identifiable", "no single OpenFile")
		}
	}
	// ---- F10: descriptor stripping table == authenticated variables
	want := c.authenticatedVarNames()
	if fn := c.Fn("F10.strip", "efivarfs/testfs.(*TestFS).WriteVar"); fn != nil {
		c.ruleStrip(fn, want)
	}
	// what is read back is as long as what was stored (F7, shared with C11)
	if fn := c.FnOpt("efivarfs/fswrapper.(*FSWrapper).ParseEfivars"); fn != nil {
		c.judgeReadShape(fn)
	}
	// F11: fresh buffers on the read path (a cached/shared buffer is drained by the first reader)
	c.ruleFreshRead()
	// a register per variable: each definition maps to its own file, opened in append mode only for append writes
	c.ruleWriteShape()
	c.ruleArgMapping()
	// writing a prepared value does not use it up: the same value can be written again
	c.rulePure([]string{"efi/signature.(efibytes).Marshal", "efi/signature.(efibytes).Bytes", "efivarfs.(efibytes).Marshal", "efivarfs.(efibytes).Bytes", "efi/signature.(*SignatureDatabase).Marshal"})
	c.R.Floor("E.pure", 5)
	c.R.Floor("F9.truncate", 1)
	c.R.Floor("F10.strip", 1)
	// a value read into a holder that was used before replaces what the holder held
	c.ruleDecodeReplaces("G14.replace", func(f *ssa.Function) bool {
		return strings.Contains(name(f), "efi/signature.") || strings.Contains(name(f), "/efivar.") || strings.HasPrefix(name(f), "(*efivar.")
	})
	// a file that holds the attributes and nothing else is the empty value
	c.ruleBoundary("F14.empty", []string{"efivarfs/fswrapper.(*FSWrapper).ParseEfivars", "efi/attributes.ParseEfivars"}, func(need Affine) bool {
		if need.isConst() {
			return need.K == 4
		}
		if len(need.T) == 1 && need.K == 0 {
			for sym, cf := range need.T {
				return cf == 1 && strings.HasSuffix(sym, "attributes.SizeofAttributes")
			}
		}
		return false
	}, "a variable file of exactly 4 bytes (attributes, empty value) is read as the empty value")
	// the store strips the descriptor only if the descriptor decoder accepts it: it must accept every legal timestamp
	c.ruleTimeRange("G17.time", "efi/signature.ReadEFIVariableAuthencation2")
	c.R.Floor("F11.fresh", 1)
}

func (c *Ctx) ruleFreshRead() {
	if fn := c.Fn("F11.fresh", "efivarfs/fswrapper.(*FSWrapper).ParseEfivars"); fn != nil {
		c.judgeFresh(fn, "the returned value buffer is freshly constructed on every call", "a buffer not constructed in this call is handed out")
	}
	for _, s := range []string{"efivarfs/fswrapper.(*FSWrapper).ReadEfivarsFile", "efivarfs/fswrapper.(*FSWrapper).ReadEfivarsWithGuid"} {
		if fn := c.Fn("F11.fresh", s); fn != nil {
			c.judgeFresh(fn, "the returned value buffer is the parser's freshly constructed buffer", "the buffer does not come from the parser's fresh result (a cached buffer is drained by the first Unmarshal)")
		}
	}
}

func sortedSet(m map[string]bool) []string {
	var out []string
	for k := range m {
		out = append(out, k)
	}
	sort.Strings(out)
	return out
}

// authenticatedVarNames reads the efivar package initialiser: the Name of every
// Efivar whose Attributes constant carries TIME_BASED_AUTHENTICATED_WRITE_ACCESS.
func (c *Ctx) authenticatedVarNames() map[string]bool {
	out := map[string]bool{}
	bit, ok := c.constInt(M+"/efi/attributes", "EFI_VARIABLE_TIME_BASED_AUTHENTICATED_WRITE_ACCESS")
	sp := c.P.SSAPkgs[M+"/efivar"]
	if !ok || sp == nil {
		return out
	}
	init := sp.Func("init")
	if init == nil {
		return out
	}
	names := map[ssa.Value]string{}
	attrs := map[ssa.Value]int64{}
	instrsOf(init, func(i ssa.Instruction) {
		st, ok := i.(*ssa.Store)
		if !ok {
			return
		}
		fa, ok := st.Addr.(*ssa.FieldAddr)
		if !ok {
			return
		}
		g, ok := fa.X.(*ssa.Global)
		if !ok || ir.NamedTypeID(g.Type()) != M+"/efivar.Efivar" {
			return
		}
		switch ir.FieldOf(fa).Name() {
		case "Name":
			if k, ok := st.Val.(*ssa.Const); ok && k.Value != nil && k.Value.Kind() == constant.String {
				names[g] = constant.StringVal(k.Value)
			}
		case "Attributes":
			if n, ok := evalConst(st.Val); ok {
				attrs[g] = n
			}
		}
	})
	for g, n := range names {
		if attrs[g]&bit != 0 {
			out[n] = true
		}
	}
	return out
}

// stringSetPredicate: fn(p string) bool is true exactly for a finite set of
// constant strings. Decided by walking fn's branches for each constant it
// compares its parameter with, and for a value different from all of them.
func (c *Ctx) stringSetPredicate(fn *ssa.Function) (map[string]bool, bool) {
	if fn == nil || fn.Blocks == nil || len(fn.Params) != 1 || fn.Signature.Results().Len() != 1 {
		return nil, false
	}
	p := fn.Params[0]
	isString := false
	if b, ok := p.Type().Underlying().(*types.Basic); ok && b.Kind() == types.String {
		isString = true
	} else if ir.NamedTypeID(p.Type()) != M+"/efivar.Efivar" {
		return nil, false
	}
	if b, ok := fn.Signature.Results().At(0).Type().Underlying().(*types.Basic); !ok || b.Kind() != types.Bool {
		return nil, false
	}
	// the subject of the tests: the string parameter, or the Name of the variable parameter
	subject := func(v ssa.Value) bool {
		if isString {
			return v == ssa.Value(p)
		}
		switch y := v.(type) {
		case *ssa.Field:
			return y.X == ssa.Value(p) && ir.FieldID(y) == M+"/efivar.Efivar.Name"
		case *ssa.UnOp:
			if fa, ok := y.X.(*ssa.FieldAddr); ok && y.Op == token.MUL && ir.FieldID(fa) == M+"/efivar.Efivar.Name" {
				if a, ok := fa.X.(*ssa.Alloc); ok {
					n := 0
					fromP := false
					for _, r := range *a.Referrers() {
						if st, ok := r.(*ssa.Store); ok && st.Addr == ssa.Value(a) {
							n++
							fromP = st.Val == ssa.Value(p)
						}
					}
					return n == 1 && fromP
				}
			}
		}
		return false
	}
	consts := map[string]bool{}
	supported := true
	instrsOf(fn, func(i ssa.Instruction) {
		switch x := i.(type) {
		case *ssa.Field, *ssa.FieldAddr, *ssa.Alloc, *ssa.Store:
			if isString {
				supported = false
			}
		case *ssa.UnOp:
			if !subject(x) {
				supported = false
			}
		case *ssa.BinOp:
			k, isK := x.Y.(*ssa.Const)
			v := x.X
			if !isK {
				k, isK = x.X.(*ssa.Const)
				v = x.Y
			}
			if (x.Op == token.EQL || x.Op == token.NEQ) && isK && subject(v) && k.Value != nil && k.Value.Kind() == constant.String {
				consts[constant.StringVal(k.Value)] = true
				return
			}
			supported = false
		case *ssa.If, *ssa.Jump, *ssa.Return, *ssa.Phi, *ssa.DebugRef:
		default:
			supported = false
		}
	})
	if !supported || len(consts) == 0 {
		return nil, false
	}
	// evaluate for a concrete choice of the parameter (other = "" with ok=false)
	eval := func(val string, isOther bool) (bool, bool) {
		var prev *ssa.BasicBlock
		b := fn.Blocks[0]
		var value func(v ssa.Value) (bool, bool)
		value = func(v ssa.Value) (bool, bool) {
			switch x := v.(type) {
			case *ssa.Const:
				if x.Value != nil && x.Value.Kind() == constant.Bool {
					return constant.BoolVal(x.Value), true
				}
			case *ssa.BinOp:
				k, isK := x.Y.(*ssa.Const)
				if !isK {
					k, _ = x.X.(*ssa.Const)
				}
				eq := !isOther && k != nil && constant.StringVal(k.Value) == val
				if x.Op == token.NEQ {
					return !eq, true
				}
				return eq, true
			case *ssa.Phi:
				for j, pr := range x.Block().Preds {
					if pr == prev {
						return value(x.Edges[j])
					}
				}
			}
			return false, false
		}
		for steps := 0; steps < 64; steps++ {
			last := b.Instrs[len(b.Instrs)-1]
			switch t := last.(type) {
			case *ssa.Return:
				return value(t.Results[0])
			case *ssa.Jump:
				prev, b = b, b.Succs[0]
			case *ssa.If:
				cv, ok := value(t.Cond)
				if !ok {
					return false, false
				}
				if cv {
					prev, b = b, b.Succs[0]
				} else {
					prev, b = b, b.Succs[1]
				}
			default:
				return false, false
			}
		}
		return false, false
	}
	out := map[string]bool{}
	for k := range consts {
		r, ok := eval(k, false)
		if !ok {
			return nil, false
		}
		if r {
			out[k] = true
		}
	}
	if r, ok := eval("", true); !ok || r {
		return nil, false // true for names outside the finite set
	}
	return out, true
}

// ruleStrip (F10): the test filesystem strips the authentication descriptor
// exactly for the authenticated variables, selected by name.
func (c *Ctx) ruleStrip(fn *ssa.Function, want map[string]bool) {
	fname := name(fn)
	dv := c.deepViewOf(fn, 3)
	// the descriptor decode, as the method or as the reader function (outermost call in the view)
	descDec := map[string]int{M + "/efi/signature.EFIVariableAuthentication2.Unmarshal": 1, M + "/efi/signature.ReadEFIVariableAuthencation2": 0}
	payDec := map[string]int{M + "/efi/signature.SignatureDatabase.Unmarshal": 1, M + "/efi/signature.ReadSignatureDatabase": 0}
	outermost := func(ids map[string]int) []dinstr {
		var out []dinstr
		for _, di := range dv.order {
			call, ok := di.i.(*ssa.Call)
			if !ok {
				continue
			}
			if _, is := ids[ir.CallID(call)]; !is {
				continue
			}
			inner := false
			for f := di.fr; f != nil; f = f.parent {
				if f.site != nil {
					if _, is := ids[ir.CallID(f.site)]; is {
						inner = true
					}
				}
			}
			if !inner {
				out = append(out, di)
			}
		}
		return out
	}
	strips := outermost(descDec)
	if len(strips) == 0 {
		// the value is wrapped, in the view, into a library type whose own method makes the
		// descriptor decode: the stripping happens when the store marshals the wrapped value,
		// behind an interface call that the view does not follow
		for _, di := range dv.order {
			mi, isMI := di.i.(*ssa.MakeInterface)
			if !isMI {
				continue
			}
			nt, isNamed := mi.X.Type().(*types.Named)
			if !isNamed || nt.Obj().Pkg() == nil || !strings.HasPrefix(nt.Obj().Pkg().Path(), M) {
				continue
			}
			ms := c.P.SSA.MethodSets.MethodSet(mi.X.Type())
			for k := 0; k < ms.Len(); k++ {
				m := c.P.SSA.MethodValue(ms.At(k))
				if m == nil || m.Blocks == nil || !c.P.InLib(m) {
					continue
				}
				for _, dj := range c.deepViewOf(m, 3).order {
					call, isC := dj.i.(*ssa.Call)
					if !isC {
						continue
					}
					if _, is := descDec[ir.CallID(call)]; is {
						c.R.Infof("F10.strip", fname, "descriptor-decode", c.IPos(mi), "not decided for this shape: the value handed to the store is wrapped in "+ir.TypeString(mi.X.Type())+", whose method "+m.Name()+" decodes the descriptor when the store marshals it (an interface call the evaluator does not follow)")
						return
					}
				}
			}
		}
	}
	if len(strips) != 1 {
		c.R.Undecf("F10.strip", fname, "descriptor-decode", c.Pos(fn.Pos()), "the descriptor stripping step must be identifiable", fmt.Sprintf("%d EFIVariableAuthentication2.Unmarshal calls in the view of WriteVar", len(strips)))
		return
	}
	strip := strips[0].i.(*ssa.Call)
	sfr := strips[0].fr
	vP := paramByNamed(fn, M+"/efivar.Efivar")
	fromName := func(v ssa.Value, fr *frame) bool {
		sl := dv.sliceDeep(v, fr)
		return vP != nil && sl[vP] && ir.HasField(sl, M+"/efivar.Efivar.Name")
	}
	// walk the chain of frames from the strip call up to the root: in each
	// function the target (the strip call, or the call that leads to it) may be
	// gated by name tests
	got := map[string]bool{}
	gated := false
	tableUnknown := false // a membership test on the name whose table is not resolved
	var target ssa.Instruction = strip
	for fr := sfr; fr != nil; fr = fr.parent {
		f := fr.fn
		if target.Parent() != f {
			break
		}
		type gate struct {
			edge  ir.Edge
			names map[string]bool
		}
		var gates []gate
		for _, ce := range ir.CondEdges(f) {
			// the edge on which the test says "the name is one of these": the true edge of
			// an equality / membership test, the false edge of an inequality, through negations
			cond, truth := ce.Cond, ce.Truth
			for {
				u, isNot := cond.(*ssa.UnOp)
				if !isNot || u.Op != token.NOT {
					break
				}
				cond, truth = u.X, !truth
			}
			if bo, isBO := cond.(*ssa.BinOp); isBO && bo.Op == token.NEQ {
				truth = !truth
			}
			if !truth {
				continue
			}
			// membership in a package-level []string that is only read: slices.Contains(table, name)
			if call, isCall := cond.(*ssa.Call); isCall && ir.CallID(call) == "slices.Contains" && len(call.Call.Args) == 2 && fromName(call.Call.Args[1], fr) {
				if set, ok := c.globalStringList(dv.resolve(call.Call.Args[0], fr).v); ok {
					gates = append(gates, gate{ce.Edge, set})
				} else {
					tableUnknown = true
				}
				continue
			}
			switch x := cond.(type) {
			case *ssa.BinOp:
				if x.Op != token.EQL && x.Op != token.NEQ {
					continue
				}
				k, isK := x.Y.(*ssa.Const)
				v := x.X
				if !isK {
					k, isK = x.X.(*ssa.Const)
					v = x.Y
				}
				if !isK || k.Value == nil || k.Value.Kind() != constant.String || !fromName(v, fr) {
					continue
				}
				gates = append(gates, gate{ce.Edge, map[string]bool{constant.StringVal(k.Value): true}})
			case *ssa.Lookup:
				// membership in a package-level map[string]bool that only init fills
				if x.CommaOk || !fromName(x.Index, fr) {
					continue
				}
				if set, ok := c.globalStringSet(x.X); ok {
					gates = append(gates, gate{ce.Edge, set})
				}
			case *ssa.Call:
				callee := ir.Callee(x)
				if callee == nil || !c.P.InLib(callee) || len(x.Call.Args) != 1 {
					continue
				}
				if whole := dv.resolve(x.Call.Args[0], fr); !(fromName(x.Call.Args[0], fr) || vP != nil && whole.fr == dv.root && whole.v == ssa.Value(vP)) {
					continue
				}
				if set, ok := c.stringSetPredicate(callee); ok {
					gates = append(gates, gate{ce.Edge, set})
				}
			}
		}
		cut := map[ir.Edge]bool{}
		local := map[string]bool{}
		for _, g := range gates {
			seen, _ := ir.Reach(f, f.Blocks[g.edge.To], nil)
			if seen[target.Block().Index] {
				cut[g.edge] = true
				for n := range g.names {
					local[n] = true
				}
			}
		}
		if len(cut) > 0 {
			if seen, _ := ir.Reach(f, f.Blocks[0], cut); !seen[target.Block().Index] {
				gated = true
				for n := range local {
					got[n] = true
				}
			}
		}
		if fr.site == nil {
			break
		}
		target = fr.site
	}
	gs, ws := sortedSet(got), sortedSet(want)
	ok := gated && strings.Join(gs, ",") == strings.Join(ws, ",")
	det := "stripped for names {" + strings.Join(gs, ",") + "}, authenticated variables defined in efivar: {" + strings.Join(ws, ",") + "}"
	if !gated {
		det += "; the stripping step is reachable without a variable-name test"
	}
	if !ok && tableUnknown {
		c.R.Infof("F10.strip", fname, "name-table", c.IPos(strip), "not decided for this shape: the variable name is looked up in a table that is not a package-level list of constant strings which the library only reads")
	} else {
		c.R.Check(ok, "F10.strip", fname, "name-table", c.IPos(strip), "the descriptor is stripped exactly for the variables defined with TIME_BASED_AUTHENTICATED_WRITE_ACCESS, selected by name", det)
	}
	// the buffer that is decoded is a fresh local filled by Marshal of the caller's value
	sf := sfr.fn
	bufOK, bufDet := false, "the buffer handed to the descriptor decoder is not a local buffer filled by this call's Marshal"
	bufObj := dv.objectOf(strip.Call.Args[descDec[ir.CallID(strip)]], sfr)
	// the decoder may be given a second buffer built over (a copy of) the marshalled bytes
	marshalObj := bufObj
	if nb, isNB := bufObj.v.(*ssa.Call); isNB && (ir.CallID(nb) == "bytes.NewBuffer" || ir.CallID(nb) == "bytes.NewReader") {
		for v := range dv.sliceDeep(nb.Call.Args[0], bufObj.fr) {
			if bc, isB := v.(*ssa.Call); isB && ir.CallID(bc) == "bytes.Buffer.Bytes" {
				for _, di := range dv.order {
					if di.i == ssa.Instruction(bc) {
						marshalObj = dv.objectOf(bc.Call.Args[0], di.fr)
					}
				}
			}
		}
	}
	if a, isA := marshalObj.v.(*ssa.Alloc); isA && ir.NamedTypeID(a.Type()) == "bytes.Buffer" {
		marshalBefore := false
		for _, di := range dv.order {
			call, ok := di.i.(ssa.CallInstruction)
			if !ok || !call.Common().IsInvoke() || call.Common().Method.Name() != "Marshal" || len(call.Common().Args) != 1 {
				continue
			}
			if !dv.objectOf(call.Common().Args[0], di.fr).same(marshalObj) {
				continue
			}
			if di.fr == sfr && (call.Block() == strip.Block() && precedes(call, strip) || call.Block() != strip.Block() && call.Block().Dominates(strip.Block())) {
				marshalBefore = true
			} else if di.fr != sfr && di.seq < strips[0].seq {
				marshalBefore = true
			}
		}
		bufOK = marshalBefore
		if !marshalBefore {
			bufDet = "the local buffer is not filled by Marshal before the descriptor is decoded"
		}
	}
	c.R.Check(bufOK, "F10.strip", fname, "scratch-buffer", c.IPos(strip), "the value is marshalled into a fresh local buffer before the descriptor is decoded from it", bufDet)
	// the payload decode reads the same buffer, behind the success edge of the descriptor decode
	pOK, pDet := false, "no SignatureDatabase.Unmarshal of the remaining bytes found"
	for _, di := range outermost(payDec) {
		payload := di.i.(*ssa.Call)
		e, kept := errValue(strip)
		same := dv.objectOf(payload.Call.Args[payDec[ir.CallID(payload)]], di.fr).same(bufObj)
		switch {
		case !same:
			pDet = "the payload is decoded from a different buffer than the descriptor"
		case di.fr != sfr || !kept || e == nil || !successDominates(sf, e, payload.Block()):
			pDet = "the payload decode is not behind the success edge of the descriptor decode"
		default:
			pOK = true
		}
	}
	c.R.Check(pOK, "F10.strip", fname, "payload-after-descriptor", c.IPos(strip), "the stored value is decoded from the bytes that follow the descriptor in the same buffer", pDet)
	// once the descriptor decoded, what goes to the store is the payload on every path:
	// no further condition may send the original value (descriptor included) there
	tP := paramByNamed(fn, M+"/efivar.Marshallable")
	e, kept := errValue(strip)
	if sfr != dv.root || tP == nil || !kept || e == nil {
		c.R.Infof("F10.strip", fname, "always-payload", c.IPos(strip), "not decided for this shape: the descriptor is decoded in a helper or its error is not tested in "+fname)
		return
	}
	var succTargets []*ssa.BasicBlock
	for _, b := range fn.Blocks {
		if len(b.Succs) != 2 {
			continue
		}
		ifi, ok := b.Instrs[len(b.Instrs)-1].(*ssa.If)
		if !ok {
			continue
		}
		v, nilWhenTrue, ok := ir.NilCheck(ifi.Cond)
		if !ok || !sameErrValue(v, e) {
			continue
		}
		if nilWhenTrue {
			succTargets = append(succTargets, b.Succs[0])
		} else {
			succTargets = append(succTargets, b.Succs[1])
		}
	}
	var stores []*ssa.Call
	instrsOf(fn, func(i ssa.Instruction) {
		call, ok := i.(*ssa.Call)
		if !ok {
			return
		}
		if call.Call.IsInvoke() && call.Call.Method.Name() == "WriteVar" {
			stores = append(stores, call)
		} else if cal := ir.Callee(call); cal != nil && cal != fn && cal.Name() == "WriteVar" {
			stores = append(stores, call)
		}
	})
	if len(succTargets) == 0 || len(stores) != 1 {
		c.R.Infof("F10.strip", fname, "always-payload", c.IPos(strip), "not decided for this shape: the success edge of the descriptor decode or the single store call is not identified")
		return
	}
	bad := ""
	var walk func(v ssa.Value, depth int)
	walk = func(v ssa.Value, depth int) {
		ph, isPhi := v.(*ssa.Phi)
		if !isPhi || depth > 4 {
			return
		}
		for k, ev := range ph.Edges {
			if ir.StripIface(ev) == ssa.Value(tP) || ev == ssa.Value(tP) {
				pred := ph.Block().Preds[k]
				for _, st := range succTargets {
					seen, prev := ir.Reach(fn, st, nil)
					if seen[pred.Index] {
						bad = "after the descriptor decoded successfully the caller's value, descriptor included, still reaches the store along " + ir.PathTo(fn, prev, st.Index, pred.Index, c.Pos)
					}
				}
				continue
			}
			walk(ev, depth+1)
		}
	}
	walk(stores[0].Call.Args[len(stores[0].Call.Args)-1], 0)
	c.R.Check(bad == "", "F10.strip", fname, "always-payload", c.IPos(stores[0]), "whenever the descriptor decodes, the payload (and not the signed update) is what is stored", bad)
}

// globalStringSet: m is the load of a package-level map[string]bool that is
// built once in the package initialiser and never updated by library code;
// returns the keys mapped to true.
func (c *Ctx) globalStringSet(m ssa.Value) (map[string]bool, bool) {
	ld, ok := m.(*ssa.UnOp)
	if !ok || ld.Op != token.MUL {
		return nil, false
	}
	g, ok := ld.X.(*ssa.Global)
	if !ok || g.Pkg == nil {
		return nil, false
	}
	// no library function stores to the global or updates the map loaded from it
	for _, fn := range c.P.LibFunctions() {
		if fn.Pkg != g.Pkg || fn.Name() == "init" {
			continue
		}
		bad := false
		instrsOf(fn, func(i ssa.Instruction) {
			switch x := i.(type) {
			case *ssa.Store:
				if x.Addr == ssa.Value(g) {
					bad = true
				}
			case *ssa.MapUpdate:
				if l, ok := x.Map.(*ssa.UnOp); ok && l.X == ssa.Value(g) {
					bad = true
				}
			}
		})
		if bad {
			return nil, false
		}
	}
	init := g.Pkg.Func("init")
	if init == nil {
		return nil, false
	}
	var mk ssa.Value
	n := 0
	instrsOf(init, func(i ssa.Instruction) {
		if st, ok := i.(*ssa.Store); ok && st.Addr == ssa.Value(g) {
			mk, n = st.Val, n+1
		}
	})
	if n != 1 {
		return nil, false
	}
	if _, isMake := mk.(*ssa.MakeMap); !isMake {
		return nil, false
	}
	out := map[string]bool{}
	ok = true
	instrsOf(init, func(i ssa.Instruction) {
		mu, isMU := i.(*ssa.MapUpdate)
		if !isMU || mu.Map != mk {
			return
		}
		k, isK := mu.Key.(*ssa.Const)
		v, isV := mu.Value.(*ssa.Const)
		if !isK || !isV || k.Value == nil || k.Value.Kind() != constant.String || v.Value == nil || v.Value.Kind() != constant.Bool {
			ok = false
			return
		}
		if constant.BoolVal(v.Value) {
			out[constant.StringVal(k.Value)] = true
		}
	})
	return out, ok && len(out) > 0
}

// globalStringList: v is the load of a package-level []string that the package
// initialiser sets once to a literal of constant strings and that library code
// only reads (element reads, len, range, slices.Contains / slices.Index);
// returns the elements.
func (c *Ctx) globalStringList(v ssa.Value) (map[string]bool, bool) {
	ld, ok := v.(*ssa.UnOp)
	if !ok || ld.Op != token.MUL {
		return nil, false
	}
	g, ok := ld.X.(*ssa.Global)
	if !ok || g.Pkg == nil {
		return nil, false
	}
	init := g.Pkg.Func("init")
	if init == nil {
		return nil, false
	}
	// the only store: in init, a full slice of a fresh array
	var lit ssa.Value
	n := 0
	readOnly := true
	var readOnlyUse func(x ssa.Value, depth int) bool
	readOnlyUse = func(x ssa.Value, depth int) bool {
		refs := x.Referrers()
		if refs == nil || depth > 4 {
			return false
		}
		for _, r := range *refs {
			switch y := r.(type) {
			case *ssa.DebugRef:
			case *ssa.UnOp:
				if y.Op != token.MUL {
					return false
				}
				if _, isPtr := x.Type().Underlying().(*types.Pointer); isPtr {
					if _, isStr := y.Type().Underlying().(*types.Basic); isStr {
						continue // an element read
					}
				}
				if !readOnlyUse(y, depth+1) {
					return false
				}
			case *ssa.IndexAddr:
				if y.X != x || !readOnlyUse(y, depth+1) {
					return false
				}
			case *ssa.Range, *ssa.Phi:
				if _, isPhi := y.(*ssa.Phi); isPhi && !readOnlyUse(y.(ssa.Value), depth+1) {
					return false
				}
			case *ssa.Call:
				switch ir.CallID(y) {
				case "slices.Contains", "slices.Index", "builtin.len", "builtin.cap":
				default:
					return false
				}
			case *ssa.BinOp, *ssa.If:
			default:
				return false
			}
		}
		return true
	}
	for _, fn := range c.P.LibFunctions() {
		instrsOf(fn, func(i ssa.Instruction) {
			switch x := i.(type) {
			case *ssa.Store:
				if x.Addr == ssa.Value(g) {
					if fn == init {
						lit, n = x.Val, n+1
					} else {
						readOnly = false
					}
				} else if x.Val == ssa.Value(g) {
					readOnly = false
				}
			case *ssa.UnOp:
				if x.X == ssa.Value(g) && x.Op == token.MUL && !readOnlyUse(x, 0) {
					readOnly = false
				}
			default:
				if _, isDbg := i.(*ssa.DebugRef); isDbg {
					return
				}
				for _, op := range i.Operands(nil) {
					if op != nil && *op == ssa.Value(g) {
						readOnly = false // the address of the table is handed on
					}
				}
			}
		})
	}
	if !readOnly || n != 1 {
		return nil, false
	}
	sl, isSl := lit.(*ssa.Slice)
	if !isSl || sl.Low != nil || sl.High != nil || sl.Max != nil {
		return nil, false
	}
	arr, isA := sl.X.(*ssa.Alloc)
	if !isA {
		return nil, false
	}
	at, isArr := arr.Type().Underlying().(*types.Pointer).Elem().Underlying().(*types.Array)
	if !isArr {
		return nil, false
	}
	out := map[string]bool{}
	stores := int64(0)
	for _, r := range *arr.Referrers() {
		switch y := r.(type) {
		case *ssa.Slice, *ssa.DebugRef:
			if y != ssa.Instruction(sl) {
				if _, isDbg := y.(*ssa.DebugRef); !isDbg {
					return nil, false
				}
			}
		case *ssa.IndexAddr:
			for _, rr := range *y.Referrers() {
				st, isSt := rr.(*ssa.Store)
				if !isSt || st.Addr != ssa.Value(y) {
					return nil, false
				}
				k, isK := st.Val.(*ssa.Const)
				if !isK || k.Value == nil || k.Value.Kind() != constant.String {
					return nil, false
				}
				out[constant.StringVal(k.Value)] = true
				stores++
			}
		default:
			return nil, false
		}
	}
	if stores != at.Len() {
		return nil, false // an element of the literal is not a constant written once
	}
	return out, len(out) > 0
}

// ruleDefinitionAttrs (F12.def): the typed accessors hand the variable store a
// definition whose required attributes are the ones of the definitions table
// (package efivar). A definition assembled by hand without the attributes asks
// for the empty mask, and the attribute gate of the read path lets every
// stored mask through.
func (c *Ctx) ruleDefinitionAttrs(rule string) int {
	efivarPkg := M + "/efivar"
	n := 0
	for _, fn := range c.P.LibFunctions() {
		if fn.Pkg == nil || fn.Pkg.Pkg.Path() != M+"/efivarfs" || fn.Signature.Recv() == nil || fn.Parent() != nil || fn.Synthetic != "" {
			continue
		}
		if !strings.Contains(fn.Signature.Recv().Type().String(), "Efivarfs") {
			continue
		}
		dv := c.deepViewOf(fn, 3)
		var origin func(v ssa.Value, fr *frame, depth int) string
		fromTable := func(v ssa.Value, fr *frame) string {
			r := dv.resolve(ir.StripConv(v), fr)
			if k, isK := r.v.(*ssa.Const); isK {
				if isZeroConst(k) {
					return "zero"
				}
				return "unknown"
			}
			for x := range c.sliceOf(r.v) {
				if g, ok := x.(*ssa.Global); ok && g.Pkg != nil && (g.Pkg.Pkg.Path() == efivarPkg || strings.HasSuffix(g.Pkg.Pkg.Path(), "/efi/attributes")) {
					return "table"
				}
			}
			return "unknown"
		}
		join := func(a, b string) string {
			switch {
			case a == "":
				return b
			case a == b:
				return a
			case a == "zero" || b == "zero":
				return "zero"
			}
			return "unknown"
		}
		origin = func(v ssa.Value, fr *frame, depth int) string {
			if depth > 8 {
				return "unknown"
			}
			r := dv.resolve(v, fr)
			switch x := r.v.(type) {
			case *ssa.Parameter:
				return "param"
			case *ssa.Const:
				return "zero"
			case *ssa.UnOp:
				if x.Op != token.MUL {
					return "unknown"
				}
				switch a := x.X.(type) {
				case *ssa.Global:
					if a.Pkg != nil && a.Pkg.Pkg.Path() == efivarPkg {
						return "table"
					}
				case *ssa.Alloc:
					fields, out := 0, ""
					for _, rf := range *a.Referrers() {
						fa, ok := rf.(*ssa.FieldAddr)
						if !ok {
							continue
						}
						for _, rr := range *fa.Referrers() {
							if st, ok := rr.(*ssa.Store); ok && st.Addr == ssa.Value(fa) {
								fields++
								if ir.FieldID(fa) == efivarPkg+".Efivar.Attributes" {
									out = join(out, fromTable(st.Val, r.fr))
								}
							}
						}
					}
					if out != "" {
						return out
					}
					whole := ""
					dv.eachStoreTo(a, r.fr, func(st *ssa.Store, f *frame) { whole = join(whole, origin(st.Val, f, depth+1)) })
					if whole != "" {
						return whole
					}
					if fields > 0 {
						return "zero"
					}
				}
			case *ssa.Call:
				if child := dv.frameOfCall(r.fr, x); child != nil {
					out := ""
					for _, ret := range ir.Returns(child.fn) {
						if len(ret.Results) > 0 {
							out = join(out, origin(effectiveResult(child.fn, ret, 0), child, depth+1))
						}
					}
					if out != "" {
						return out
					}
				}
			case *ssa.Phi:
				out := ""
				for _, e := range x.Edges {
					out = join(out, origin(e, r.fr, depth+1))
				}
				return out
			}
			return "unknown"
		}
		counts := map[string]int{}
		instrsOf(fn, func(i ssa.Instruction) {
			call, ok := i.(ssa.CallInstruction)
			if !ok {
				return
			}
			var mname string
			if call.Common().IsInvoke() {
				mname = call.Common().Method.Name()
			} else if cal := ir.Callee(call); cal != nil {
				mname = cal.Name()
			}
			if mname != "GetVar" && mname != "WriteVar" && mname != "GetVarWithAttributes" {
				return
			}
			for _, a := range ir.CallArgs(call) {
				if ir.NamedTypeID(a.Type()) != efivarPkg+".Efivar" {
					continue
				}
				o := origin(a, dv.root, 0)
				if o == "param" {
					continue
				}
				n++
				key := ordinalKey(counts, name(fn)+":definition")
				construct := strings.TrimPrefix(key, name(fn)+":")
				switch o {
				case "table":
					c.R.Okf(rule, name(fn), construct, c.IPos(i), "the variable definition handed to the store carries the attributes of the definitions table")
				case "zero":
					c.R.Violf(rule, name(fn), construct, c.IPos(i), "the variable definition handed to the store carries the attributes of the definitions table", "the definition is assembled without attributes: the accessor asks for the empty mask, so the attribute gate of the read path accepts whatever mask is stored")
				default:
					c.R.Infof(rule, name(fn), construct, c.IPos(i), "not decided for this shape: where the attributes of the variable definition come from is not evaluated")
				}
			}
		})
	}
	return n
}

// ruleGUIDByName (F13.guidname): the legacy access functions choose the vendor
// GUID of a well-known variable by looking its name up in the table of image
// security databases. A test on part of the name (a prefix, a substring) puts
// dbDefault, dbxDefault, ... under the wrong GUID, i.e. into another file.
func (c *Ctx) ruleGUIDByName(rule string) {
	n := 0
	for _, spec := range []string{"efi/attributes.ReadEfivars", "efi/attributes.WriteEfivars"} {
		fn := c.FnOpt(spec)
		if fn == nil {
			continue
		}
		n++
		partial, table := "", false
		for _, g := range c.cone(fn) {
			instrsOf(g, func(i ssa.Instruction) {
				switch x := i.(type) {
				case *ssa.Call:
					switch ir.CallID(x) {
					case "strings.HasPrefix", "strings.HasSuffix", "strings.Contains", "strings.Index", "strings.EqualFold", "strings.ToLower", "strings.ToUpper":
						for _, a := range x.Call.Args {
							for v := range localOperands(a) {
								if p, ok := v.(*ssa.Parameter); ok && isStringType(p.Type()) {
									partial = ir.CallID(x) + " at " + c.IPos(x)
								}
							}
						}
					}
				case *ssa.Lookup:
					if ir.HasGlobal(c.sliceOf(x.X), M+"/efi/attributes.ImageSecurityDatabases") {
						table = true
					}
				}
			})
		}
		switch {
		case partial != "":
			c.R.Violf(rule, name(fn), "guid-by-name", c.Pos(fn.Pos()), "the vendor GUID of a well-known variable is chosen by an exact lookup of its name", "the name is examined with "+partial+": names that merely begin with (or contain) a database name get that database's GUID and are read from / written to another file")
		case table:
			c.R.Okf(rule, name(fn), "guid-by-name", c.Pos(fn.Pos()), "the vendor GUID is chosen by looking the name up in the table of image security databases")
		default:
			c.R.Infof(rule, name(fn), "guid-by-name", c.Pos(fn.Pos()), "not decided for this shape: how the vendor GUID is chosen from the name is not identified")
		}
	}
	if n == 0 {
		c.R.Infof(rule, "-", "guid-by-name", "-", "not decided for this shape: the legacy access functions are not present")
	}
}
