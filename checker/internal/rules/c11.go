package rules

import (
	"go/constant"
	"go/token"
	"sort"
	"strings"

	"golang.org/x/tools/go/ssa"

	"verif/checker/internal/ir"
)

func init() {
	Registry["C11"] = checkC11
	Registry["C12"] = checkC12
}

func checkC11(c *Ctx) {
	c.ruleWriteShape()
	c.ruleShortWrite("F5.shortwrite")
	c.ruleReadShape()
	c.ruleGUIDFormat("H1.guidtext")
	c.R.Floor("F1.onewrite", 2)
	c.R.Floor("F2.flags", 1)
	c.R.Floor("F3.buffer", 1)
	c.R.Floor("F4.path", 1)
	c.R.Floor("F5.shortwrite", 1)
	c.R.Floor("F6.gate", 3)
	c.R.Floor("F7.read", 1)
	c.R.Floor("F8.args", 1)
}

func checkC12(c *Ctx) {
	oT, _ := c.constInt("os", "O_TRUNC")
	oA, _ := c.constInt("os", "O_APPEND")
	// ---- F9: old content is discarded on a non-append rewrite
	if fn := c.Fn("F9.truncate", "efivarfs/fswrapper.(*FSWrapper).WriteEfivarsWithGuid"); fn != nil {
		opens := c.fsCalls(fn, "OpenFile")
		creates := c.fsCalls(fn, "Create")
		removes := append(c.fsCalls(fn, "Remove"), c.fsCalls(fn, "Truncate")...)
		switch {
		case len(creates) > 0 || len(removes) > 0:
			c.R.Okf("F9.truncate", name(fn), "OpenFile.flags", c.Pos(fn.Pos()), "old content is discarded before a non-append write (Create/Remove/Truncate)")
		case len(opens) == 1:
			cases, ok := c.flagCases(opens[0].Common().Args[1], 0)
			if !ok {
				c.R.Undecf("F9.truncate", name(fn), "OpenFile.flags", c.IPos(opens[0]), "open flags must be a finite set of constants", "not constant")
			} else {
				good := true
				for _, fc := range cases {
					if fc.val&oA == 0 && fc.val&oT == 0 {
						good = false
					}
				}
				c.R.Check(good, "F9.truncate", name(fn), "OpenFile.flags", c.IPos(opens[0]),
					"a non-append write opens the variable file with O_TRUNC (MemMapFs keeps the old tail otherwise)",
					"non-append flag set lacks O_TRUNC: a shorter value leaves the tail of the previous value behind")
			}
		default:
			c.R.Undecf("F9.truncate", name(fn), "OpenFile", c.Pos(fn.Pos()), "the open call must be identifiable", "no single OpenFile")
		}
	}
	// ---- F10: descriptor stripping table == authenticated variables
	want := c.authenticatedVarNames()
	if fn := c.Fn("F10.strip", "efivarfs/testfs.(*TestFS).WriteVar"); fn != nil {
		fname := name(fn)
		var strip *ssa.Call // the descriptor decode
		instrsOf(fn, func(i ssa.Instruction) {
			if call, ok := i.(*ssa.Call); ok && ir.CallID(call) == M+"/efi/signature.EFIVariableAuthentication2.Unmarshal" {
				strip = call
			}
		})
		if strip == nil {
			c.R.Undecf("F10.strip", fname, "descriptor-decode", c.Pos(fn.Pos()), "the descriptor stripping step must be identifiable", "no EFIVariableAuthentication2.Unmarshal call")
		} else {
			got := map[string]bool{}
			vP := paramByNamed(fn, M+"/efivar.Efivar")
			for _, ce := range ir.CondEdges(fn) {
				cmp, ok := ce.Cond.(*ssa.BinOp)
				if !ok || cmp.Op != token.EQL || !ce.Truth {
					continue
				}
				k, isK := cmp.Y.(*ssa.Const)
				x := cmp.X
				if !isK {
					k, isK = cmp.X.(*ssa.Const)
					x = cmp.Y
				}
				if !isK || k.Value == nil || k.Value.Kind() != constant.String {
					continue
				}
				xs := c.Slicer().Slice(x)
				if vP == nil || !xs[vP] || !ir.HasField(xs, M+"/efivar.Efivar.Name") {
					continue
				}
				// the true edge must lead to the strip call
				seen, _ := ir.Reach(fn, fn.Blocks[ce.Edge.To], nil)
				if seen[strip.Block().Index] {
					got[constant.StringVal(k.Value)] = true
				}
			}
			// every path to the strip call is through one of the name tests
			cut := map[ir.Edge]bool{}
			for _, ce := range ir.CondEdges(fn) {
				if cmp, ok := ce.Cond.(*ssa.BinOp); ok && cmp.Op == token.EQL && ce.Truth {
					if k, isK := cmp.Y.(*ssa.Const); isK && k.Value != nil && k.Value.Kind() == constant.String && got[constant.StringVal(k.Value)] {
						cut[ce.Edge] = true
					}
				}
			}
			seen, _ := ir.Reach(fn, fn.Blocks[0], cut)
			gs, ws := sortedSet(got), sortedSet(want)
			ok := strings.Join(gs, ",") == strings.Join(ws, ",") && !seen[strip.Block().Index]
			det := "stripped for names {" + strings.Join(gs, ",") + "}, authenticated variables defined in efivar: {" + strings.Join(ws, ",") + "}"
			if seen[strip.Block().Index] {
				det += "; the stripping step is reachable without a variable-name test"
			}
			c.R.Check(ok, "F10.strip", fname, "name-table", c.IPos(strip), "the descriptor is stripped exactly for the variables defined with TIME_BASED_AUTHENTICATED_WRITE_ACCESS, selected by name", det)
			// the buffer that is decoded is a fresh local filled by t.Marshal
			bufOK, bufDet := false, "the buffer handed to the descriptor decoder is not a local buffer filled by this call's Marshal"
			if a, isA := ir.RootOf(strip.Call.Args[1]).(*ssa.Alloc); isA && ir.NamedTypeID(a.Type()) == "bytes.Buffer" {
				marshalBefore := false
				for _, r := range *a.Referrers() {
					if call, ok := r.(ssa.CallInstruction); ok && call.Common().IsInvoke() && call.Common().Method.Name() == "Marshal" {
						if call.Block() == strip.Block() || call.Block().Dominates(strip.Block()) {
							marshalBefore = true
						}
					}
				}
				bufOK = marshalBefore
				if !marshalBefore {
					bufDet = "the local buffer is not filled by t.Marshal before the descriptor is decoded"
				}
			}
			c.R.Check(bufOK, "F10.strip", fname, "scratch-buffer", c.IPos(strip), "the value is marshalled into a fresh local buffer before the descriptor is decoded from it", bufDet)
			// the payload decode reads the same buffer, behind the success edge of the descriptor decode
			var payload *ssa.Call
			instrsOf(fn, func(i ssa.Instruction) {
				if call, ok := i.(*ssa.Call); ok && ir.CallID(call) == M+"/efi/signature.SignatureDatabase.Unmarshal" {
					payload = call
				}
			})
			pOK, pDet := false, "no SignatureDatabase.Unmarshal of the remaining bytes found"
			if payload != nil {
				e, kept := errValue(strip)
				same := ir.RootOf(payload.Call.Args[1]) == ir.RootOf(strip.Call.Args[1])
				switch {
				case !same:
					pDet = "the payload is decoded from a different buffer than the descriptor"
				case !kept || e == nil || !successDominates(fn, e, payload.Block()):
					pDet = "the payload decode is not behind the success edge of the descriptor decode"
				default:
					pOK = true
				}
			}
			c.R.Check(pOK, "F10.strip", fname, "payload-after-descriptor", c.IPos(strip), "the stored value is decoded from the bytes that follow the descriptor in the same buffer", pDet)
		}
	}
	// F11: fresh buffers on the read path (a cached/shared buffer is drained by the first reader)
	c.ruleFreshRead()
	c.R.Floor("F9.truncate", 1)
	c.R.Floor("F10.strip", 3)
	c.R.Floor("F11.fresh", 1)
}

func (c *Ctx) ruleFreshRead() {
	for _, s := range []string{"efivarfs/fswrapper.(*FSWrapper).ParseEfivars"} {
		fn := c.Fn("F11.fresh", s)
		if fn == nil {
			continue
		}
		fresh := true
		for _, r := range ir.Returns(fn) {
			if len(r.Results) < 2 || ir.IsNilConst(r.Results[1]) {
				continue
			}
			if call, isC := r.Results[1].(*ssa.Call); !isC || ir.CallID(call) != "bytes.NewBuffer" {
				fresh = false
			}
		}
		c.R.Check(fresh, "F11.fresh", name(fn), "returned-buffer", c.Pos(fn.Pos()), "the returned value buffer is freshly constructed on every call", "a return hands out a buffer not constructed in this call")
	}
	for _, s := range []string{"efivarfs/fswrapper.(*FSWrapper).ReadEfivarsFile", "efivarfs/fswrapper.(*FSWrapper).ReadEfivarsWithGuid"} {
		fn := c.Fn("F11.fresh", s)
		if fn == nil {
			continue
		}
		fresh, det := true, ""
		for _, r := range ir.Returns(fn) {
			if len(r.Results) < 2 || ir.IsNilConst(r.Results[1]) {
				continue
			}
			if !c.freshBufferValue(fn, r, r.Results[1], 0) {
				fresh, det = false, "return at "+c.IPos(r)+" hands out a buffer that does not come from the parser's fresh result (a cached buffer is drained by the first Unmarshal)"
			}
		}
		c.R.Check(fresh, "F11.fresh", name(fn), "returned-buffer", c.Pos(fn.Pos()), "the returned value buffer is the parser's freshly constructed buffer", det)
	}
}

func sortedSet(m map[string]bool) []string {
	var out []string
	for k := range m {
		out = append(out, k)
	}
	sort.Strings(out)
	return out
}

// authenticatedVarNames reads the efivar package initialiser: the Name of every
// Efivar whose Attributes constant carries TIME_BASED_AUTHENTICATED_WRITE_ACCESS.
func (c *Ctx) authenticatedVarNames() map[string]bool {
	out := map[string]bool{}
	bit, ok := c.constInt(M+"/efi/attributes", "EFI_VARIABLE_TIME_BASED_AUTHENTICATED_WRITE_ACCESS")
	sp := c.P.SSAPkgs[M+"/efivar"]
	if !ok || sp == nil {
		return out
	}
	init := sp.Func("init")
	if init == nil {
		return out
	}
	names := map[ssa.Value]string{}
	attrs := map[ssa.Value]int64{}
	instrsOf(init, func(i ssa.Instruction) {
		st, ok := i.(*ssa.Store)
		if !ok {
			return
		}
		fa, ok := st.Addr.(*ssa.FieldAddr)
		if !ok {
			return
		}
		g, ok := fa.X.(*ssa.Global)
		if !ok || ir.NamedTypeID(g.Type()) != M+"/efivar.Efivar" {
			return
		}
		switch ir.FieldOf(fa).Name() {
		case "Name":
			if k, ok := st.Val.(*ssa.Const); ok && k.Value != nil && k.Value.Kind() == constant.String {
				names[g] = constant.StringVal(k.Value)
			}
		case "Attributes":
			if n, ok := evalConst(st.Val); ok {
				attrs[g] = n
			}
		}
	})
	for g, n := range names {
		if attrs[g]&bit != 0 {
			out[n] = true
		}
	}
	return out
}
