package rules

import (
	"fmt"
	"go/constant"
	"go/token"
	"go/types"
	"sort"
	"strings"

	"golang.org/x/tools/go/ssa"

	"verif/checker/internal/ir"
)

// Byte sequences on the deep view: what a []byte value (or the content of a
// bytes.Buffer) consists of, as a concatenation of segments. The evaluator
// understands the idioms the repository and its plausible rewrites use:
// append chains, ByteOrder.AppendUintNN, bytes.Buffer filled with
// encoding/binary.Write / Write / io.Copy (+ Truncate), fixed buffers packed
// with ByteOrder.PutUintNN / copy, io.ReadAll, re-slicing, and helpers that
// return such values. Anything else makes the evaluation fail (ok=false), which
// the rules report as "not decided", never as a violation.

type bseg struct {
	kind  string // "enc": fixed-width binary encoding of v; "bytes": the bytes of v; "stream": all bytes read from reader v; "zero": zero bytes; "lit": constant bytes
	v     dval
	order string // enc: LE / BE / - (single byte)
	width Affine // length in bytes (enc: constant; bytes: len(v))
	cut   *Affine
	unk   bool  // zero: a gap in a buffer that was also handed to a helper (may be filled there)
	boff  int64 // bytes / byte-array enc: offset of this part within the bytes of v
	cond  bool  // written under a condition / in a loop
	at    ssa.Instruction
}

func (s bseg) String() string {
	switch s.kind {
	case "enc":
		return fmt.Sprintf("enc(%s,%s)", s.order, s.width.String())
	case "bytes":
		if s.cut != nil {
			return "bytes[:" + s.cut.String() + "]"
		}
		return "bytes"
	case "stream":
		if s.cut != nil {
			return "stream[:" + s.cut.String() + "]"
		}
		return "stream"
	}
	return s.kind
}

func constAffine(k int64) Affine { a := newAffine(); a.K = k; return a }

func isByteSlice(t types.Type) bool {
	sl, ok := t.Underlying().(*types.Slice)
	return ok && binarySize(sl.Elem()) == 1
}

// byteSeq evaluates a []byte / string valued expression.
func (d *deepView) byteSeq(v ssa.Value, fr *frame, depth int) ([]bseg, bool) {
	if depth > 16 || v == nil {
		return nil, false
	}
	r := d.resolveConv(ir.StripIface(v), fr)
	switch x := r.v.(type) {
	case *ssa.Const:
		if x.IsNil() {
			return nil, true
		}
		if x.Value != nil && x.Value.Kind() == constant.String {
			s := constant.StringVal(x.Value)
			if s == "" {
				return nil, true
			}
			return []bseg{{kind: "lit", v: r, width: constAffine(int64(len(s)))}}, true
		}
	case *ssa.Parameter, *ssa.FreeVar, *ssa.Field, *ssa.Extract:
		return []bseg{{kind: "bytes", v: r, width: symAffine("len("+d.pathName(r.v, r.fr, 0)+")", r.v)}}, true
	case *ssa.UnOp:
		if x.Op == token.MUL {
			return []bseg{{kind: "bytes", v: r, width: symAffine("len("+d.pathName(r.v, r.fr, 0)+")", r.v)}}, true
		}
	case *ssa.MakeSlice:
		return d.packedSeq(r, x.Len, r.fr, depth)
	case *ssa.Slice:
		lo := constAffine(0)
		if x.Low != nil {
			lo = d.affine(x.Low, r.fr, nil, 0)
		}
		// buf[:0]: an empty prefix (make([]byte, 0, n) lowers to this)
		if x.High != nil {
			if h := d.affine(x.High, r.fr, nil, 0); h.isConst() && h.K == 0 && lo.isConst() && lo.K == 0 {
				return nil, true
			}
		}
		// the full slice of a local array: packed buffer
		if a, ok := x.X.(*ssa.Alloc); ok && x.High == nil && lo.isConst() && lo.K == 0 {
			if arr, isArr := a.Type().Underlying().(*types.Pointer).Elem().Underlying().(*types.Array); isArr && binarySize(arr.Elem()) == 1 {
				return d.packedSeqArray(dval{a, r.fr}, arr.Len(), depth)
			}
		}
		// a slice of a byte array that is not a local packing buffer (a struct field, a global)
		if pt, ok := x.X.Type().Underlying().(*types.Pointer); ok {
			if arr, isArr := pt.Elem().Underlying().(*types.Array); isArr && binarySize(arr.Elem()) == 1 {
				if _, isAlloc := x.X.(*ssa.Alloc); !isAlloc {
					hi := constAffine(arr.Len())
					if x.High != nil {
						hi = d.affine(x.High, r.fr, nil, 0)
					}
					return []bseg{{kind: "bytes", v: r, width: hi.add(lo, -1)}}, true
				}
			}
		}
		var inner []bseg
		var ok bool
		if a, isA := x.X.(*ssa.Alloc); isA {
			// a region of a local packing array
			arr, isArr := a.Type().Underlying().(*types.Pointer).Elem().Underlying().(*types.Array)
			if !isArr || binarySize(arr.Elem()) != 1 {
				return nil, false
			}
			inner, ok = d.packedSeqArray(dval{a, r.fr}, arr.Len(), depth)
		} else {
			inner, ok = d.byteSeq(x.X, r.fr, depth+1)
		}
		if !ok {
			return nil, false
		}
		if x.High == nil && lo.isConst() && lo.K == 0 {
			return inner, true
		}
		// cut at segment boundaries; a prefix of a single variable segment keeps a cut mark
		var hi *Affine
		if x.High != nil {
			h := d.affine(x.High, r.fr, nil, 0)
			hi = &h
		}
		// constant bounds over constant-width segments: byte runs may be cut anywhere
		if lo.isConst() && (hi == nil || hi.isConst()) {
			byteRun := func(sg bseg) bool {
				if sg.kind == "bytes" || sg.kind == "zero" {
					return true
				}
				if sg.kind == "enc" {
					// a byte array encodes to its bytes whatever the byte order
					if arr, isArr := ir.StripConv(sg.v.v).Type().Underlying().(*types.Array); isArr && binarySize(arr.Elem()) == 1 {
						return true
					}
					return sg.order == "-" && sg.width.isConst() && sg.width.K == 1
				}
				return false
			}
			var out []bseg
			pos := int64(0)
			okCut := true
			for _, sg := range inner {
				if !sg.width.isConst() {
					// everything wanted must lie before a variable segment
					if hi == nil || pos < hi.K {
						okCut = false
					}
					break
				}
				a, b := pos, pos+sg.width.K
				pos = b
				if hi != nil && a >= hi.K {
					break
				}
				if b <= lo.K {
					continue
				}
				ca, cb := a, b
				if ca < lo.K {
					ca = lo.K
				}
				if hi != nil && cb > hi.K {
					cb = hi.K
				}
				if ca == a && cb == b {
					out = append(out, sg)
					continue
				}
				if !byteRun(sg) {
					okCut = false
					break
				}
				part := sg
				part.boff = sg.boff + (ca - a)
				part.width = constAffine(cb - ca)
				if part.kind == "enc" {
					part.kind = "bytes"
				}
				out = append(out, part)
			}
			if okCut && (hi == nil || pos >= hi.K) {
				return out, true
			}
		}
		pos := constAffine(0)
		var out []bseg
		started := lo.isConst() && lo.K == 0
		for _, s := range inner {
			if !started {
				if pos.equal(lo) {
					started = true
				} else {
					pos = pos.add(s.width, 1)
					continue
				}
			}
			if hi != nil && pos.equal(*hi) {
				return out, true
			}
			end := pos.add(s.width, 1)
			if hi != nil && !end.equal(*hi) && len(inner) == 1 && (s.kind == "stream" || s.kind == "bytes") && s.cut == nil {
				c := hi.add(pos, -1)
				s.cut = &c
				s.width = c
				return append(out, s), true
			}
			out = append(out, s)
			pos = end
		}
		if !started {
			return nil, false
		}
		if hi == nil || pos.equal(*hi) {
			return out, true
		}
		return nil, false
	case *ssa.Call:
		id := ir.CallID(x)
		args := ir.CallArgs(x)
		switch {
		case id == "bytes.Clone" || strings.HasPrefix(id, "slices.Clone") || id == "bytes.TrimSpace" && false:
			// a copy of all bytes of the argument
			return d.byteSeq(args[0], r.fr, depth+1)
		case id == "builtin.append":
			head, ok := d.byteSeq(x.Call.Args[0], r.fr, depth+1)
			if !ok {
				return nil, false
			}
			if len(x.Call.Args) < 2 {
				return head, true
			}
			if elems, isLit := variadicElems(x.Call.Args[1]); isLit {
				for _, e := range elems {
					head = append(head, bseg{kind: "enc", v: dval{e, r.fr}, order: "-", width: constAffine(1), at: x})
				}
				return head, true
			}
			tail, ok := d.byteSeq(x.Call.Args[1], r.fr, depth+1)
			if !ok {
				return nil, false
			}
			return append(head, tail...), true
		case strings.HasPrefix(id, "encoding/binary.") && strings.Contains(id, ".AppendUint"):
			w, order := appendUintWidth(id)
			if w == 0 {
				return nil, false
			}
			head, ok := d.byteSeq(args[len(args)-2], r.fr, depth+1)
			if !ok {
				return nil, false
			}
			return append(head, bseg{kind: "enc", v: d.resolveConv(args[len(args)-1], r.fr), order: order, width: constAffine(int64(w)), at: x}), true
		case id == "bytes.Buffer.Bytes" || id == "bytes.Buffer.String":
			return d.bufferSeq(d.objectOf(args[0], r.fr), x, r.fr, depth)
		case id == "io.ReadAll":
			return []bseg{{kind: "stream", v: d.objectOf(args[0], r.fr), width: symAffine(fmt.Sprintf("len(call:io.ReadAll@%d)", x.Pos()), x), at: x}}, true
		case id == "bytes.Clone" || id == "slices.Clone":
			return d.byteSeq(args[0], r.fr, depth+1)
		}
	}
	if isByteSlice(r.v.Type()) || types.Identical(r.v.Type().Underlying(), types.Typ[types.String]) {
		// a value the evaluator does not look into: opaque bytes of that value
		if _, isCall := r.v.(*ssa.Call); !isCall {
			return []bseg{{kind: "bytes", v: r, width: symAffine("len("+d.pathName(r.v, r.fr, 0)+")", r.v)}}, true
		}
	}
	return nil, false
}

func appendUintWidth(id string) (int, string) {
	order := ""
	switch {
	case strings.Contains(id, "ittleEndian"):
		order = "LE"
	case strings.Contains(id, "igEndian"):
		order = "BE"
	default:
		return 0, ""
	}
	switch {
	case strings.HasSuffix(id, "Uint16"):
		return 2, order
	case strings.HasSuffix(id, "Uint32"):
		return 4, order
	case strings.HasSuffix(id, "Uint64"):
		return 8, order
	}
	return 0, ""
}

// unconditional: the instruction runs on every path of its function that
// reaches a non-failing return, and not inside a loop.
func unconditional(i ssa.Instruction) bool {
	fn := i.Parent()
	if inLoop(fn, i.Block()) {
		return false
	}
	for _, r := range ir.Returns(fn) {
		if retClass(fn, r) == "fail" || r.Block() == fn.Recover {
			continue
		}
		if !(i.Block() == r.Block() || i.Block().Dominates(r.Block())) {
			return false
		}
	}
	return true
}

// encSegs: the segments encoding/binary.Write(order, datum) emits.
func (d *deepView) encSegs(datum ssa.Value, fr *frame, order string, at ssa.Instruction, depth int) ([]bseg, bool) {
	v := d.resolveAll(datum, fr)
	t := v.v.Type()
	// pointer to a value: the pointee is encoded
	if p, ok := t.Underlying().(*types.Pointer); ok {
		t = p.Elem()
	}
	if isByteSlice(t) {
		if _, isPtr := v.v.Type().Underlying().(*types.Pointer); isPtr {
			return nil, false
		}
		return d.byteSeq(v.v, v.fr, depth+1)
	}
	n := binarySize(t)
	if n < 0 {
		return nil, false
	}
	return []bseg{{kind: "enc", v: v, order: order, width: constAffine(int64(n)), at: at}}, true
}

// bufferSeq: the content of a local bytes.Buffer at the point `at`.
func (d *deepView) bufferSeq(obj dval, at ssa.Instruction, atFr *frame, depth int) ([]bseg, bool) {
	var out []bseg
	// initial content
	switch x := obj.v.(type) {
	case *ssa.Alloc:
	case *ssa.Call:
		switch ir.CallID(x) {
		case "bytes.NewBuffer", "bytes.NewBufferString":
			init, ok := d.byteSeq(x.Call.Args[0], obj.fr, depth+1)
			if !ok {
				return nil, false
			}
			out = init
		default:
			return nil, false
		}
	default:
		return nil, false
	}
	limit := d.seqOf(at, atFr)
	for _, di := range d.order {
		if limit >= 0 && di.seq >= limit {
			break
		}
		call, ok := di.i.(ssa.CallInstruction)
		if !ok {
			continue
		}
		args := ir.CallArgs(call)
		touches := -1
		for k, a := range args {
			if isBufferish(a.Type()) && d.objectOf(a, di.fr).same(obj) {
				touches = k
			}
		}
		if touches < 0 {
			continue
		}
		id := ir.CallID(call)
		cond := !unconditional(di.i)
		var add []bseg
		okAdd := true
		// the range-over-literal idiom: one write per element of the literal
		// ... also when the write sits in a helper called from the loop body with
		// the element as its argument
		var loopVal ssa.Value
		loopFr, loopAt := di.fr, ssa.Instruction(di.i)
		if id == "encoding/binary.Write" && len(args) > 2 {
			loopVal = args[2]
		}
		for hops := 0; hops < 3 && loopVal != nil && !inLoop(loopFr.fn, loopAt.Block()); hops++ {
			p, isP := loopVal.(*ssa.Parameter)
			if !isP || loopFr.parent == nil || loopFr.site == nil || p.Parent() != loopFr.fn {
				break
			}
			if _, isClosure := loopFr.site.Common().Value.(*ssa.MakeClosure); isClosure {
				break
			}
			idx := -1
			for k, q := range loopFr.fn.Params {
				if q == p {
					idx = k
				}
			}
			pargs := ir.CallArgs(loopFr.site)
			if idx < 0 || idx >= len(pargs) {
				break
			}
			loopVal, loopAt, loopFr = pargs[idx], loopFr.site, loopFr.parent
		}
		if loopVal != nil && touches == 0 && inLoop(loopFr.fn, loopAt.Block()) {
			if iv, n, isLit := d.rangeLiteral(loopVal, loopFr); isLit && n <= 32 {
				order := byteOrderOf(d.resolve(args[1], di.fr).v)
				if o := byteOrderOf(args[1]); o != "?" {
					order = o
				}
				for k := int64(0); k < n && okAdd; k++ {
					var part []bseg
					d.under(listItem{idx: map[ssa.Value]int64{iv: k}}, func() { part, okAdd = d.encSegs(args[2], di.fr, order, di.i, depth) })
					add = append(add, part...)
				}
				if !okAdd {
					return nil, false
				}
				out = append(out, add...)
				continue
			}
		}
		switch {
		case id == "encoding/binary.Write" && touches == 0:
			add, okAdd = d.encSegs(args[2], di.fr, byteOrderOf(d.resolve(args[1], di.fr).v), di.i, depth)
			if o := byteOrderOf(args[1]); o != "?" {
				add, okAdd = d.encSegs(args[2], di.fr, o, di.i, depth)
			}
		case (id == "bytes.Buffer.Write" || id == "bytes.Buffer.WriteString") && touches == 0:
			add, okAdd = d.byteSeq(args[1], di.fr, depth+1)
		case id == "bytes.Buffer.WriteByte" && touches == 0:
			add = []bseg{{kind: "enc", v: dval{args[1], di.fr}, order: "-", width: constAffine(1), at: di.i}}
		case (id == "io.Copy" || id == "bytes.Buffer.ReadFrom") && touches == 0:
			add = []bseg{{kind: "stream", v: d.objectOf(args[1], di.fr), width: symAffine(fmt.Sprintf("len(stream@%d)", di.i.Pos()), nil), at: di.i}}
		case id == "bytes.Buffer.Truncate" && touches == 0:
			n := d.affine(args[1], di.fr, nil, 0)
			if len(out) == 1 && (out[0].kind == "stream" || out[0].kind == "bytes") && out[0].cut == nil && !cond {
				out[0].cut = &n
				out[0].width = n
				continue
			}
			return nil, false
		case id == "bytes.Buffer.Len" || id == "bytes.Buffer.Bytes" || id == "bytes.Buffer.String" || id == "bytes.Buffer.Cap" || id == "bytes.Buffer.Grow":
			continue
		default:
			// a library helper that receives the buffer is part of the view (its
			// own calls are visited); anything else is opaque
			if callee := calleeOrClosure2(call); callee != nil && d.inlinable(callee) && d.frameOfCall(di.fr, call) != nil {
				continue
			}
			return nil, false
		}
		if !okAdd {
			return nil, false
		}
		for k := range add {
			add[k].cond = add[k].cond || cond
		}
		out = append(out, add...)
	}
	return out, true
}

func isBufferish(t types.Type) bool {
	if ir.NamedTypeID(t) == "bytes.Buffer" {
		return true
	}
	_, isIface := t.Underlying().(*types.Interface)
	return isIface
}

// packedSeq: a make([]byte, n) buffer filled by PutUintNN / copy / element stores.
func (d *deepView) packedSeq(buf dval, lenV ssa.Value, fr *frame, depth int) ([]bseg, bool) {
	total := d.affine(lenV, fr, nil, 0)
	segs, ok := d.packedWrites(buf, depth)
	if !ok {
		return nil, false
	}
	if len(segs) == 0 {
		if total.isConst() && total.K == 0 {
			return nil, true
		}
		return []bseg{{kind: "zero", width: total}}, true
	}
	return d.arrangePacked(segs, total)
}

func (d *deepView) packedSeqArray(buf dval, n int64, depth int) ([]bseg, bool) {
	segs, ok := d.packedWrites(buf, depth)
	if !ok {
		return nil, false
	}
	// the array variable assigned as a whole (ts := encode(x)): the value assigned
	if a, isA := buf.v.(*ssa.Alloc); isA {
		var whole []storeAt
		d.eachStoreTo(a, buf.fr, func(st *ssa.Store, f *frame) {
			// written back to itself at a return (named results)
			if lu, isLd := st.Val.(*ssa.UnOp); isLd && lu.Op == token.MUL && lu.X == ssa.Value(a) {
				return
			}
			whole = append(whole, storeAt{st, f})
		})
		if len(whole) > 0 {
			if len(whole) != 1 || len(segs) != 0 || depth > 12 {
				return nil, false
			}
			r := d.resolve(whole[0].st.Val, whole[0].fr)
			switch y := r.v.(type) {
			case *ssa.Const:
				return []bseg{{kind: "zero", width: constAffine(n)}}, true
			case *ssa.UnOp:
				if src, isSrc := y.X.(*ssa.Alloc); isSrc && y.Op == token.MUL && !(src == a && r.fr == buf.fr) {
					return d.packedSeqArray(dval{src, r.fr}, n, depth+1)
				}
			case *ssa.Call:
				return nil, false
			}
			return []bseg{{kind: "bytes", v: r, width: constAffine(n)}}, true
		}
	}
	if len(segs) == 0 {
		return []bseg{{kind: "zero", width: constAffine(n)}}, true
	}
	return d.arrangePacked(segs, constAffine(n))
}

type packedWrite struct {
	off Affine
	seg bseg
}

// sliceBase: v is buf[lo:...] of the buffer object; returns lo.
func (d *deepView) sliceBase(v ssa.Value, fr *frame, buf dval) (Affine, bool) {
	r := d.resolve(v, fr)
	if r.same(buf) {
		return constAffine(0), true
	}
	if sl, ok := r.v.(*ssa.Slice); ok {
		inner, ok := d.sliceBase(sl.X, r.fr, buf)
		if !ok {
			return Affine{}, false
		}
		if sl.Low == nil {
			return inner, true
		}
		return inner.add(d.affine(sl.Low, r.fr, nil, 0), 1), true
	}
	return Affine{}, false
}

func (d *deepView) packedWrites(buf dval, depth int) ([]packedWrite, bool) {
	var out []packedWrite
	for _, di := range d.order {
		switch x := di.i.(type) {
		case *ssa.Call:
			id := ir.CallID(x)
			args := ir.CallArgs(x)
			if w, order, put, ok := uintCallWidth(id); ok && put {
				off, isBuf := d.sliceBase(args[len(args)-2], di.fr, buf)
				if !isBuf {
					continue
				}
				out = append(out, packedWrite{off, bseg{kind: "enc", v: d.resolveConv(args[len(args)-1], di.fr), order: order, width: constAffine(int64(w)), at: x, cond: !unconditional(x)}})
				continue
			}
			if id == "builtin.copy" {
				off, isBuf := d.sliceBase(x.Call.Args[0], di.fr, buf)
				if !isBuf {
					continue
				}
				src, ok := d.byteSeq(x.Call.Args[1], di.fr, depth+1)
				if !ok {
					return nil, false
				}
				for _, s := range src {
					s.cond = s.cond || !unconditional(x)
					out = append(out, packedWrite{off, s})
					off = off.add(s.width, 1)
				}
				continue
			}
			// the buffer handed to anything else that may fill it
			for _, a := range args {
				if isByteSlice(a.Type()) {
					if _, isBuf := d.sliceBase(a, di.fr, buf); isBuf {
						if callee := calleeOrClosure2(x); callee != nil && d.inlinable(callee) && d.frameOfCall(di.fr, x) != nil {
							// filled (perhaps) by a helper whose writes are looked for in its frame
							d.helperFilled = true
							continue
						}
						if id == "builtin.len" || id == "builtin.cap" || id == "builtin.append" || strings.HasSuffix(id, ".Write") || id == "bytes.NewBuffer" || id == "bytes.NewReader" || id == "bytes.Equal" {
							continue
						}
						return nil, false
					}
				}
			}
		case *ssa.Store:
			ia, ok := x.Addr.(*ssa.IndexAddr)
			if !ok {
				continue
			}
			off, isBuf := d.sliceBase(ia.X, di.fr, buf)
			if !isBuf {
				if a, isA := buf.v.(*ssa.Alloc); !isA || d.resolve(ia.X, di.fr).v != ssa.Value(a) {
					continue
				}
				off = constAffine(0)
			}
			k := d.affine(ia.Index, di.fr, nil, 0)
			out = append(out, packedWrite{off.add(k, 1), bseg{kind: "enc", v: d.resolveConv(x.Val, di.fr), order: "-", width: constAffine(1), at: x, cond: !unconditional(x)}})
		}
	}
	return out, true
}

// arrangePacked orders the writes by offset and requires them to tile [0, total).
func (d *deepView) arrangePacked(ws []packedWrite, total Affine) ([]bseg, bool) {
	for _, w := range ws {
		if !w.off.isConst() {
			// offsets must be comparable: allow symbolic offsets only when they chain exactly
			goto chain
		}
	}
	sort.SliceStable(ws, func(i, j int) bool { return ws[i].off.K < ws[j].off.K })
chain:
	var out []bseg
	pos := constAffine(0)
	used := make([]bool, len(ws))
	for n := 0; n < len(ws); n++ {
		found := -1
		for k, w := range ws {
			if !used[k] && w.off.equal(pos) {
				found = k
				break
			}
		}
		if found < 0 {
			// a gap of zero bytes up to the next constant offset
			next := int64(-1)
			for k, w := range ws {
				if !used[k] && w.off.isConst() && pos.isConst() && w.off.K > pos.K && (next < 0 || w.off.K < next) {
					next = w.off.K
				}
			}
			if next < 0 {
				return nil, false
			}
			out = append(out, bseg{kind: "zero", width: constAffine(next - pos.K), unk: d.helperFilled})
			pos = constAffine(next)
			n--
			continue
		}
		used[found] = true
		out = append(out, ws[found].seg)
		pos = pos.add(ws[found].seg.width, 1)
	}
	if !pos.equal(total) {
		rest := total.add(pos, -1)
		if rest.isConst() && rest.K > 0 {
			out = append(out, bseg{kind: "zero", width: rest, unk: d.helperFilled})
		} else if !(rest.isConst() && rest.K == 0) {
			return nil, false
		}
	}
	return out, true
}

func bseqString(ss []bseg) string {
	var p []string
	for _, s := range ss {
		p = append(p, s.String())
	}
	return strings.Join(p, " ++ ")
}

// exactBytes: the byte slice v is exactly the bytes of want — the same value, or
// a copy of all of it — with nothing added, cut or padded. decided=false if the
// way v is built is not evaluated.
func (d *deepView) exactBytes(v ssa.Value, fr *frame, want dval, depth int) (exact, decided bool) {
	if depth > 6 {
		return false, false
	}
	r := d.resolveConv(v, fr)
	if w := d.resolveConv(want.v, want.fr); ir.StripConv(r.v) == ir.StripConv(want.v) || ir.StripConv(r.v) == ir.StripConv(w.v) && r.fr == w.fr {
		return true, true
	}
	// a variable that is reassigned (captured by a function literal, so kept in a cell):
	// every value stored into it must be exactly those bytes; a store computed from the
	// variable itself (x = bytes.Clone(x)) is judged with the variable taken as exact
	if ld, ok := r.v.(*ssa.UnOp); ok && ld.Op == token.MUL {
		cell := d.resolve(ld.X, r.fr)
		if a, isA := cell.v.(*ssa.Alloc); isA {
			if d.exactBusy == nil {
				d.exactBusy = map[*ssa.Alloc]bool{}
			}
			if d.exactBusy[a] {
				return true, true
			}
			d.exactBusy[a] = true
			defer delete(d.exactBusy, a)
			all, dec, n := true, true, 0
			d.eachStoreTo(a, cell.fr, func(st *ssa.Store, f *frame) {
				if ir.IsNilConst(st.Val) {
					return
				}
				n++
				ex, de := d.exactBytes(st.Val, f, want, depth+1)
				all = all && ex
				dec = dec && de
			})
			if n > 0 {
				if dec && !all {
					return false, true
				}
				return all && dec, dec
			}
		}
	}
	if ph, ok := r.v.(*ssa.Phi); ok {
		all, dec := true, true
		for _, e := range ph.Edges {
			if e == ssa.Value(ph) || ir.IsNilConst(e) {
				continue // the zero value of a variable assigned on the success path only
			}
			ex, de := d.exactBytes(e, r.fr, want, depth+1)
			if de && !ex {
				return false, true
			}
			all = all && ex
			dec = dec && de
		}
		return all && dec, dec
	}
	segs, ok := d.byteSeq(r.v, r.fr, 0)
	if !ok {
		return false, false
	}
	if len(segs) == 1 && (segs[0].kind == "bytes") && segs[0].cut == nil && segs[0].boff == 0 && !segs[0].cond {
		sv, w := d.resolveConv(segs[0].v.v, segs[0].v.fr), d.resolveConv(want.v, want.fr)
		if ir.StripConv(sv.v) == ir.StripConv(want.v) || ir.StripConv(sv.v) == ir.StripConv(w.v) && sv.fr == w.fr {
			return true, true
		}
		// all bytes of a variable: judged by what the variable holds
		if ld, isLd := sv.v.(*ssa.UnOp); isLd && ld.Op == token.MUL && !(sv.v == r.v && sv.fr == r.fr) {
			return d.exactBytes(sv.v, sv.fr, want, depth+1)
		}
		if ld, isLd := sv.v.(*ssa.UnOp); isLd && ld.Op == token.MUL {
			if a, isA := d.resolve(ld.X, sv.fr).v.(*ssa.Alloc); isA && d.exactBusy[a] {
				return true, true
			}
		}
	}
	return false, true
}
