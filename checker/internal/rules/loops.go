package rules

import "golang.org/x/tools/go/ssa"

// RuleR is filled in by loops2.go
func (c *Ctx) RuleR(rule string, in func(*ssa.Function) bool) int { return c.ruleR(rule, in) }
