// Package rules contains the repository-specific rule families. Every rule
// inspects the resolved program (types, SSA, call graph); nothing is executed.
package rules

import (
	"fmt"
	"go/token"
	"go/types"
	"sort"
	"strings"

	"golang.org/x/tools/go/callgraph"
	"golang.org/x/tools/go/ssa"

	"verif/checker/internal/ir"
	"verif/checker/internal/load"
	"verif/checker/internal/report"
)

const M = load.Module

// Ctx is the per-configuration context handed to every rule.
type Ctx struct {
	P     *load.Program
	R     *report.Run
	Tier  string
	Depth int // inlining depth of the slicer

	taintCache    *Taint
	readConeCache map[*ssa.Function]bool
	depCache      *depInfo
	consumerCache map[*ssa.Function]bool
	wrapperCache  map[*ssa.Function]*wrapperInfo
	// exactOpenFlags: F2 also rejects open flags beyond O_WRONLY|O_CREATE[|O_APPEND]
	// (the efivarfs contract of C11; the in-memory register of C12 does not fix them)
	exactOpenFlags bool
}

func (c *Ctx) Pos(p token.Pos) string { return c.P.Pos(p) }
func (c *Ctx) IPos(i ssa.Instruction) string {
	return c.P.Pos(ir.InstrPos(i))
}
func (c *Ctx) Slicer() *ir.Slicer {
	return ir.NewSlicer(c.P.InModule, c.P.CallGraph(), c.Depth)
}

// Fn resolves an anchor; a missing anchor is UNDECIDED (fail closed).
func (c *Ctx) Fn(rule, spec string) *ssa.Function {
	fn := c.P.Func(M + "/" + spec)
	if fn == nil || fn.Blocks == nil {
		c.R.Undecf(rule, spec, "anchor", "-", "exported API anchor must resolve",
			"function "+spec+" not found in the analysed tree (renamed or removed exported API?)")
		return nil
	}
	c.R.Funcs[load.FuncName(fn)] = true
	return fn
}

// FnOpt resolves an optional anchor (nil if absent, no report).
func (c *Ctx) FnOpt(spec string) *ssa.Function {
	fn := c.P.Func(M + "/" + spec)
	if fn == nil || fn.Blocks == nil {
		return nil
	}
	return fn
}

func name(fn *ssa.Function) string { return load.FuncName(fn) }

// ExportedAPI returns the exported functions and the methods of exported types
// of the given library packages (all library packages if none given).
func (c *Ctx) ExportedAPI(pkgs ...string) []*ssa.Function {
	want := map[string]bool{}
	for _, p := range pkgs {
		want[M+"/"+p] = true
		if p == "" {
			want[M] = true
		}
	}
	var out []*ssa.Function
	seen := map[*ssa.Function]bool{}
	for path := range c.P.Lib {
		if len(want) > 0 && !want[path] {
			continue
		}
		sp := c.P.SSAPkgs[path]
		if sp == nil {
			continue
		}
		for _, m := range sp.Members {
			switch x := m.(type) {
			case *ssa.Function:
				if x.Object() != nil && x.Object().Exported() && x.Blocks != nil && !seen[x] {
					seen[x] = true
					out = append(out, x)
				}
			case *ssa.Type:
				if !x.Object().Exported() {
					// methods of unexported types are reachable through interfaces
					// (e.g. efibytes as efivar.Marshallable): include exported methods too
				}
				for _, T := range []types.Type{x.Type(), types.NewPointer(x.Type())} {
					ms := c.P.SSA.MethodSets.MethodSet(T)
					for i := 0; i < ms.Len(); i++ {
						sel := ms.At(i)
						if !sel.Obj().Exported() {
							continue
						}
						fn := c.P.SSA.MethodValue(sel)
						if fn == nil {
							continue
						}
						// unwrap synthetic wrappers to the declared method
						if fn.Synthetic != "" {
							if o, ok := sel.Obj().(*types.Func); ok {
								if d := c.P.SSA.FuncValue(o); d != nil {
									fn = d
								}
							}
						}
						if fn.Blocks == nil || !c.P.InLib(fn) || seen[fn] {
							continue
						}
						seen[fn] = true
						out = append(out, fn)
					}
				}
			}
		}
	}
	sort.Slice(out, func(i, j int) bool { return name(out[i]) < name(out[j]) })
	return out
}

// Reachable computes the functions reachable from roots in the VTA call graph.
// prev records one caller edge per function for witnesses.
func (c *Ctx) Reachable(roots []*ssa.Function) (map[*ssa.Function]bool, map[*ssa.Function]*callgraph.Edge) {
	cg := c.P.CallGraph()
	seen := map[*ssa.Function]bool{}
	prev := map[*ssa.Function]*callgraph.Edge{}
	var q []*ssa.Function
	for _, r := range roots {
		if r != nil && !seen[r] {
			seen[r] = true
			q = append(q, r)
		}
	}
	for len(q) > 0 {
		f := q[0]
		q = q[1:]
		push := func(g *ssa.Function, e *callgraph.Edge) {
			if g != nil && !seen[g] {
				seen[g] = true
				prev[g] = e
				q = append(q, g)
			}
		}
		if n := cg.Nodes[f]; n != nil {
			for _, e := range n.Out {
				push(e.Callee.Func, e)
			}
		}
		// closures created here may be invoked by anyone the value reaches
		for _, an := range f.AnonFuncs {
			push(an, nil)
		}
	}
	return seen, prev
}

// Chain renders the call chain root -> ... -> fn.
func (c *Ctx) Chain(prev map[*ssa.Function]*callgraph.Edge, fn *ssa.Function) string {
	var parts []string
	for i := 0; fn != nil && i < 40; i++ {
		parts = append(parts, name(fn))
		e, ok := prev[fn]
		if !ok {
			break
		}
		if e == nil {
			fn = fn.Parent()
			continue
		}
		fn = e.Caller.Func
	}
	for i, j := 0, len(parts)-1; i < j; i, j = i+1, j-1 {
		parts[i], parts[j] = parts[j], parts[i]
	}
	// keep module functions and the first/last stdlib hop only
	var out []string
	for i, p := range parts {
		if strings.Contains(p, "go-uefi") || !strings.Contains(p, "/") && strings.Contains(p, ".") && false {
			out = append(out, p)
			continue
		}
		if i == 0 || i == len(parts)-1 || isModuleName(p) {
			out = append(out, p)
		} else if len(out) > 0 && out[len(out)-1] != "…" {
			out = append(out, "…")
		}
	}
	return strings.Join(out, " -> ")
}

func isModuleName(s string) bool {
	for _, p := range []string{"authenticode.", "pkcs7.", "efi/", "efi.", "efivar.", "efivarfs", "asntest."} {
		if strings.HasPrefix(strings.TrimPrefix(strings.TrimPrefix(s, "("), "*"), p) {
			return true
		}
	}
	return false
}

func ordinalKey(counts map[string]int, base string) string {
	counts[base]++
	if counts[base] == 1 {
		return base
	}
	return fmt.Sprintf("%s#%d", base, counts[base])
}

// instrsOf iterates all instructions of fn in block order.
func instrsOf(fn *ssa.Function, f func(ssa.Instruction)) {
	for _, b := range fn.Blocks {
		for _, i := range b.Instrs {
			f(i)
		}
	}
}

// withAnon returns fn and all closures nested in it.
func withAnon(fn *ssa.Function) []*ssa.Function {
	out := []*ssa.Function{fn}
	for _, a := range fn.AnonFuncs {
		out = append(out, withAnon(a)...)
	}
	return out
}

// sortByPos orders instructions by source position (numerically).
func sortByPos(xs []ssa.Instruction) {
	sort.SliceStable(xs, func(i, j int) bool { return ir.InstrPos(xs[i]) < ir.InstrPos(xs[j]) })
}

func shortID(id string) string {
	id = strings.ReplaceAll(id, M+"/", "")
	return id
}

// isErrorType reports whether t is the predeclared error interface.
func isErrorType(t types.Type) bool {
	return types.Identical(t, types.Universe.Lookup("error").Type())
}

func reportObl(rule, fn, construct, pos, what, status string) report.Obligation {
	return report.Obligation{Rule: rule, Key: rule + "@" + fn + ":" + construct, Func: fn, Pos: pos, What: what, Status: report.Status(status)}
}

// Registry maps property ids to their check functions.
var Registry = map[string]func(*Ctx){}

// Extras: rules added to a property's check from separate files (run after the
// property's own check function, in the same context and run).
var Extras = map[string][]func(*Ctx){}

// RunCheck runs the check of a property with its extra rules.
func RunCheck(id string, c *Ctx) {
	Registry[id](c)
	for _, f := range Extras[id] {
		f(c)
	}
}

// Meta holds the static description of each property's check.
type Meta struct {
	Explanation string
	Decided     []string
	NotDecided  []string
	Assumptions []string
}

var Metas = map[string]Meta{}

// scopeGuard replaces instance-count floors for rules whose instance counts
// legitimately change under refactoring (sites may appear and disappear): the
// rule is non-vacuous as long as it scanned a scope of plausible size.
func (c *Ctx) scopeGuard(rule string, n, min int, what string) {
	if n >= min {
		c.R.Okf(rule, "-", "scope", "-", fmt.Sprintf("%d %s were scanned (at least %d expected)", n, what, min))
		return
	}
	c.R.Undecf(rule, "-", "scope", "-", "the rule must scan a scope of plausible size", fmt.Sprintf("only %d %s: entry points moved or the call graph is broken", n, what))
}
