package rules

import (
	"fmt"
	"go/constant"
	"go/token"
	"sort"
	"strings"

	"golang.org/x/tools/go/ssa"

	"verif/checker/internal/ir"
)

// Rule family K (C09, shared with C07): check-then-act shape of the database
// editing operations and the EFI_SIGNATURE_LIST size equations.

func init() { Registry["C09"] = checkC09 }

const (
	fListSize   = sigPkg + ".SignatureList.ListSize"
	fSize       = sigPkg + ".SignatureList.Size"
	fSignatures = sigPkg + ".SignatureList.Signatures"
)

// cone: fn and the library functions of its package it (transitively) calls.
func (c *Ctx) cone(fn *ssa.Function) []*ssa.Function {
	seen := map[*ssa.Function]bool{}
	var out []*ssa.Function
	var walk func(f *ssa.Function, d int)
	walk = func(f *ssa.Function, d int) {
		if f == nil || seen[f] || d > 5 || f.Blocks == nil || !c.P.InLib(f) {
			return
		}
		seen[f] = true
		out = append(out, f)
		for _, g := range withAnon(f) {
			instrsOf(g, func(i ssa.Instruction) {
				if call, ok := i.(ssa.CallInstruction); ok {
					if callee := ir.Callee(call); callee != nil && callee.Pkg == fn.Pkg {
						walk(callee, d+1)
					}
				}
			})
		}
	}
	walk(fn, 0)
	return out
}

// listMutations returns the instructions of fn that change a signature list's
// entry collection or size fields, or overwrite the whole list / database.
func (c *Ctx) listMutations(fn *ssa.Function) []ssa.Instruction {
	var out []ssa.Instruction
	instrsOf(fn, func(i ssa.Instruction) {
		st, ok := i.(*ssa.Store)
		if !ok {
			return
		}
		switch ir.FieldID(st.Addr) {
		case fListSize, fSize, fSignatures:
			if _, isAlloc := ir.RootOf(st.Addr).(*ssa.Alloc); !isAlloc {
				out = append(out, i)
			}
			return
		}
		// whole-object store through a pointer parameter/receiver (*sl = ..., *sd = ...)
		if p, isParam := st.Addr.(*ssa.Parameter); isParam {
			id := ir.NamedTypeID(p.Type())
			if id == sigPkg+".SignatureList" || id == sigPkg+".SignatureDatabase" {
				out = append(out, i)
			}
		}
		// element store into an entry slice (swap-style edits)
		if ia, isIA := st.Addr.(*ssa.IndexAddr); isIA {
			if ld, ok := ia.X.(*ssa.UnOp); ok && ir.FieldID(ld.X) == fSignatures {
				out = append(out, i)
			}
		}
	})
	return out
}

// mutatorCalls: calls in fn to repo functions that (transitively) mutate a list.
func (c *Ctx) mutatorCalls(fn *ssa.Function) []*ssa.Call {
	var out []*ssa.Call
	instrsOf(fn, func(i ssa.Instruction) {
		call, ok := i.(*ssa.Call)
		if !ok {
			return
		}
		callee := ir.Callee(call)
		if callee == nil || !c.P.InLib(callee) || callee == fn {
			return
		}
		if c.isMutator(callee, 0) {
			out = append(out, call)
		}
	})
	return out
}

func (c *Ctx) isMutator(fn *ssa.Function, depth int) bool {
	if depth > 4 || fn.Blocks == nil {
		return false
	}
	if len(c.listMutations(fn)) > 0 {
		return true
	}
	hit := false
	instrsOf(fn, func(i ssa.Instruction) {
		if call, ok := i.(*ssa.Call); ok {
			if callee := ir.Callee(call); callee != nil && c.P.InLib(callee) && callee != fn && callee.Pkg == fn.Pkg {
				if c.isMutator(callee, depth+1) {
					hit = true
				}
			}
		}
	})
	return hit
}

// ruleErrorChangesNothing (K0b): no failing return is reachable from a mutation.
// A call to a repo mutator counts as a mutation only on its nil-error edge; a
// tail delegation `return g(...)` is judged inside g.
func (c *Ctx) ruleErrorChangesNothing(fn *ssa.Function) {
	type mpoint struct {
		blk  *ssa.BasicBlock
		at   ssa.Instruction
		desc string
		// for calls: only blocks behind the success edge
		call *ssa.Call
	}
	var pts []mpoint
	for _, m := range c.listMutations(fn) {
		pts = append(pts, mpoint{blk: m.Block(), at: m, desc: "store at " + c.IPos(m)})
	}
	for _, call := range c.mutatorCalls(fn) {
		pts = append(pts, mpoint{blk: call.Block(), at: call, desc: "call of " + name(ir.Callee(call)) + " at " + c.IPos(call), call: call})
	}
	ok, det := true, ""
	for _, p := range pts {
		var starts []*ssa.BasicBlock
		if p.call != nil {
			e, kept := errValue(p.call)
			if !kept || e == nil {
				// result returned directly or dropped
				if isTailCall(fn, p.call) {
					continue
				}
				starts = append(starts, p.blk)
			} else {
				// success edges only
				for _, b := range fn.Blocks {
					if len(b.Succs) != 2 {
						continue
					}
					ifi, isIf := b.Instrs[len(b.Instrs)-1].(*ssa.If)
					if !isIf {
						continue
					}
					if v, nilWhenTrue, isNil := ir.NilCheck(ifi.Cond); isNil && sameErrValue(v, e) {
						if nilWhenTrue {
							starts = append(starts, b.Succs[0])
						} else {
							starts = append(starts, b.Succs[1])
						}
					}
					// errors.Is(err, sentinel): the false edge may still be success
					if call, isCall := ifi.Cond.(*ssa.Call); isCall && ir.CallID(call) == "github.com/pkg/errors.Is" || isCall && ir.CallID(call) == "errors.Is" {
						if sameErrValue(call.Call.Args[0], e) || call.Call.Args[0] == e {
							starts = append(starts, b.Succs[1])
						}
					}
				}
				if isTailCall(fn, p.call) {
					continue
				}
			}
		} else {
			starts = append(starts, p.blk)
		}
		for _, st := range starts {
			// the error operand of each return, evaluated along the paths from the mutation
			for r, cls := range retClassesFrom(fn, st, -1) {
				switch cls {
				case "fail":
					ok, det = false, "the failing return at "+c.IPos(r)+" is reachable after the "+p.desc
				case "maybe":
					// an error handed on from a later call: the operation can still fail after it changed the collection
					later := (*ssa.Call)(nil)
					if len(r.Results) > 0 {
						later = callOf(r.Results[len(r.Results)-1])
					}
					// a further step of the same operation on the receiver itself is judged as that
					// mutator's own atomicity; a failure of a call on another object (the entry or
					// list being validated) after the collection was changed is not
					sameRecv := later != nil && len(later.Call.Args) > 0 && len(fn.Params) > 0 && ir.StripConv(later.Call.Args[0]) == ssa.Value(fn.Params[0])
					// ... and it really comes after the change (not a call whose success was
					// observed before the collection was touched)
					after := false
					if later != nil {
						if later.Block() == st {
							after = p.at == nil || later.Block() != p.at.Block() || precedes(p.at, later)
						} else {
							seen, _ := ir.Reach(fn, st, nil)
							after = seen[later.Block().Index] && !later.Block().Dominates(st)
						}
					}
					if later != nil && later != p.call && !sameRecv && after {
						ok, det = false, "the return at "+c.IPos(r)+" hands on the error of a later call ("+ir.CallID(callOf(r.Results[len(r.Results)-1]))+") after the "+p.desc+": a failure there leaves the collection modified"
					}
				}
			}
		}
	}
	c.R.Check(ok, "K0.atomic", name(fn), "error=>unchanged", c.Pos(fn.Pos()), "an operation that reports an error has not modified the collection", det)
}

func isTailCall(fn *ssa.Function, call *ssa.Call) bool {
	for _, r := range ir.Returns(fn) {
		for _, v := range r.Results {
			if v == ssa.Value(call) {
				return true
			}
		}
	}
	return false
}

// guardedMutations: every mutation reachable from fn's entry — in fn or in the
// library functions it hands the work to — lies behind an evidence edge. An
// evidence edge is a branch that tests the guard itself, or one that observes
// the accepting result (true / nil error / non-nil lookup) of a helper all of
// whose accepting returns lie behind the guard (the accept engine's
// inheritance). A call of a mutating helper that is reachable without evidence
// is accepted if the helper guards its own mutations.
func (c *Ctx) guardedMutations(rule string, fn *ssa.Function, construct, what string, isEvidence func(ce ir.CondEdge) bool, only func(ssa.Instruction) bool) {
	e := c.accept()
	f := &fact{id: rule + ":" + construct, what: what, direct: func(c *Ctx, fn *ssa.Function, ce ir.CondEdge) bool {
		if ce.If == nil {
			// a value handed on as the verdict (return ok): the test itself
			return isEvidence(ce)
		}
		return isEvidence(ce) || boolPhiEvidence(ce, isEvidence)
	}}
	cnt, nEv := 0, 0
	ok, det := true, ""
	visited := map[*ssa.Function]bool{}
	var judge func(g *ssa.Function, depth int)
	judge = func(g *ssa.Function, depth int) {
		if visited[g] || depth > 4 {
			return
		}
		visited[g] = true
		cut := map[ir.Edge]bool{}
		for _, ed := range e.evidenceEdges(g, f) {
			cut[ed] = true
			nEv++
		}
		seen, prev := ir.ReachF(g, g.Blocks[0], cut)
		for _, m := range c.listMutations(g) {
			if only != nil && !only(m) {
				continue
			}
			cnt++
			if seen[m.Block().Index] {
				ok = false
				det = "mutation at " + c.IPos(m) + " is reachable without the check; bypass: " + ir.PathTo(g, prev, 0, m.Block().Index, c.Pos)
			}
		}
		for _, call := range c.mutatorCalls(g) {
			callee := ir.Callee(call)
			if only != nil && !c.hasMutation(callee, only, 0) {
				continue
			}
			cnt++
			if seen[call.Block().Index] {
				// not guarded here: the helper must guard itself
				judge(callee, depth+1)
			}
		}
	}
	judge(fn, 0)
	if cnt == 0 {
		c.R.Undecf(rule, name(fn), construct, c.Pos(fn.Pos()), what, "no mutation found in "+name(fn)+" or the helpers it calls")
		return
	}
	if nEv == 0 && ok {
		ok, det = false, "no such check found in "+name(fn)+" or the helpers it calls"
	}
	c.R.Check(ok, rule, name(fn), construct, c.Pos(fn.Pos()), what, det)
}

// hasMutation: fn (or a same-package helper it calls) contains a mutation selected by only.
func (c *Ctx) hasMutation(fn *ssa.Function, only func(ssa.Instruction) bool, depth int) bool {
	if fn == nil || fn.Blocks == nil || depth > 4 {
		return false
	}
	for _, m := range c.listMutations(fn) {
		if only(m) {
			return true
		}
	}
	for _, call := range c.mutatorCalls(fn) {
		if c.hasMutation(ir.Callee(call), only, depth+1) {
			return true
		}
	}
	return false
}

func checkC09(c *Ctx) {
	ab := c.Fn("K", "efi/signature.(*SignatureList).AppendBytes")
	rb := c.Fn("K", "efi/signature.(*SignatureList).RemoveBytes")
	ap := c.Fn("K", "efi/signature.(*SignatureDatabase).Append")
	rm := c.Fn("K", "efi/signature.(*SignatureDatabase).Remove")
	for _, fn := range []*ssa.Function{ab, rb, ap, rm} {
		if fn != nil {
			c.ruleErrorChangesNothing(fn)
		}
	}
	if ab != nil {
		// K0: duplicate check before mutation
		c.guardedMutations("K0.guard", ab, "not-duplicate", "entries are appended only behind the edge on which the duplicate check failed to find the entry", func(ce ir.CondEdge) bool {
			found, ok := c.membershipEdge(ce)
			return ok && !found
		}, nil)
		// SHA-256 entries are 32 bytes
		c.sha256Len(ab)
		// K1: the value checked is the value stored
		c.sameDataChecked(ab)
		c.ruleUniformSize(ab)
	}
	if c.ruleNormalise("K8.normalise") == 0 {
		c.R.Infof("K8.normalise", "-", "pem-or-unchanged", "-", "not decided for this shape: no function of the signature package hands a byte-slice parameter to pem.Decode and returns bytes")
	}
	if ap != nil {
		// known-type guard
		c.guardedMutations("K0.guard", ap, "known-type", "the database is modified only for signature types found in the table of valid schemes", func(ce ir.CondEdge) bool {
			ex, ok := ce.Cond.(*ssa.Extract)
			if !ok || ex.Index != 1 || !ce.Truth {
				return false
			}
			lk, ok := ex.Tuple.(*ssa.Lookup)
			if !ok {
				return false
			}
			return ir.HasGlobal(c.sliceOf(lk.X), sigPkg+".ValidEFISignatureSchemes")
		}, nil)
		c.normalisedSelection(ap)
		c.ruleScopedDuplicate("K9.scope", ap)
		c.ruleRefusalSurfaces("K9.refused", ap)
	}
	c.ruleHandledErrors("K9.errors", rm, rb)
	c.ruleListNotShared("K10.share")
	if rb != nil {
		c.guardedMutations("K0.guard", rb, "found", "an entry is removed only behind the edge on which it was found", func(ce ir.CondEdge) bool {
			found, ok := c.membershipEdge(ce)
			return ok && found
		}, nil)
		c.orderPreservingRemoval(rb)
	}
	if rm != nil {
		c.removeContinuesSearch(rm)
		c.emptiedListDropped(rm)
	}
	c.ruleSizeEquations("K")
	c.R.Floor("K0.atomic", 4)
	c.R.Floor("K0.guard", 3)
	c.R.Floor("K1.same", 1)
	c.R.Floor("K2.paired", 1)
	c.R.Floor("K4.uniform", 1)
}

// sha256Len: the SHA-256 append path crosses len(data) == 32.
func (c *Ctx) sha256Len(ab *ssa.Function) {
	found := false
	ok, det := true, ""
	for _, g := range c.cone(ab) {
		cut := map[ir.Edge]bool{}
		var starts []*ssa.BasicBlock
		for _, ce := range ir.CondEdges(g) {
			if cmp, isB := ce.Cond.(*ssa.BinOp); isB {
				op := cmp.Op
				if !ce.Truth {
					op = negate(op)
				}
				if lc, isC := ir.StripConv(cmp.X).(*ssa.Call); isC && ir.CallID(lc) == "builtin.len" {
					if k, isK := ir.ConstInt(cmp.Y); isK && k == 32 && op == token.EQL {
						cut[ce.Edge] = true
					}
				}
				// type == CERT_SHA256_GUID (struct comparison lowers to a BinOp on the structs)
				if op == token.EQL {
					sx, sy := c.sliceOf(cmp.X), c.sliceOf(cmp.Y)
					if ir.HasGlobal(sx, sigPkg+".CERT_SHA256_GUID") || ir.HasGlobal(sy, sigPkg+".CERT_SHA256_GUID") {
						starts = append(starts, g.Blocks[ce.Edge.To])
					}
				}
			}
		}
		if len(starts) == 0 {
			continue
		}
		found = true
		// what must not be reached from the SHA-256 branch without the length test:
		// a mutation, or (in a pure check helper) an accepting return
		for _, st := range starts {
			seen, _ := ir.ReachF(g, st, cut)
			muts := c.listMutations(g)
			for _, call := range c.mutatorCalls(g) {
				muts = append(muts, call)
			}
			for _, m := range muts {
				if seen[m.Block().Index] {
					ok, det = false, "mutation at "+c.IPos(m)+" is reachable from the SHA-256 branch without len(data) == 32"
				}
			}
			if len(muts) == 0 {
				for _, r := range acceptingReturns(g) {
					if seen[r.Block().Index] {
						ok, det = false, "the check helper "+name(g)+" accepts at "+c.IPos(r)+" on the SHA-256 branch without len(data) == 32"
					}
				}
			}
		}
	}
	if !found {
		c.R.Infof("K0.guard", name(ab), "sha256-len", c.Pos(ab.Pos()), "not decided for this shape: no comparison of the list type with CERT_SHA256_GUID found in the append path")
		return
	}
	c.R.Check(ok, "K0.guard", name(ab), "sha256-len", c.Pos(ab.Pos()), "a SHA-256 entry is appended only with 32 bytes of data", det)
}

// sameDataChecked (K1): the Data handed to the duplicate check and the Data
// appended are the same SSA value.
func (c *Ctx) sameDataChecked(ab *ssa.Function) {
	// Data of a local SignatureData struct
	dataOf := func(a *ssa.Alloc) []ssa.Value {
		var out []ssa.Value
		for _, r := range *a.Referrers() {
			if fa, ok := r.(*ssa.FieldAddr); ok && ir.FieldID(fa) == sigPkg+".SignatureData.Data" {
				for _, rr := range *fa.Referrers() {
					if st, ok := rr.(*ssa.Store); ok && st.Addr == ssa.Value(fa) {
						out = append(out, st.Val)
					}
				}
			}
		}
		return out
	}
	var checked, stored []ssa.Value
	instrsOf(ab, func(i ssa.Instruction) {
		call, ok := i.(*ssa.Call)
		if !ok {
			return
		}
		switch ir.CallID(call) {
		case sigPkg + ".SignatureList.Exists":
			if a, isA := ir.RootOf(call.Call.Args[1]).(*ssa.Alloc); isA {
				checked = append(checked, dataOf(a)...)
			}
		case "builtin.append":
			// only the append whose result becomes the list's entries
			isEntries := false
			for _, r := range *call.Referrers() {
				if st, ok := r.(*ssa.Store); ok && ir.FieldID(st.Addr) == fSignatures {
					isEntries = true
				}
			}
			if !isEntries || len(call.Call.Args) < 2 {
				return
			}
			elems, ok := variadicElems(call.Call.Args[1])
			if !ok {
				return
			}
			for _, e := range elems {
				if ld, isLd := e.(*ssa.UnOp); isLd && ld.Op == token.MUL {
					if a, isA := ld.X.(*ssa.Alloc); isA {
						stored = append(stored, dataOf(a)...)
					}
				}
			}
		}
	})
	if len(checked) == 0 || len(stored) == 0 {
		c.R.Infof("K1.same", name(ab), "checked==stored", c.Pos(ab.Pos()), fmt.Sprintf("not decided for this shape: found %d checked and %d stored Data values built as local SignatureData literals", len(checked), len(stored)))
		return
	}
	ok, det := true, ""
	for _, a := range checked {
		for _, b := range stored {
			if a != b {
				ok, det = false, "the duplicate check compares a different value than the one that is stored (e.g. PEM input checked, DER stored)"
			}
		}
	}
	c.R.Check(ok, "K1.same", name(ab), "checked==stored", c.Pos(ab.Pos()), "the entry data handed to the duplicate check is the value that is appended", det)
	// K7: the signature size recorded for the list is computed from the bytes that are stored
	instrsOf(ab, func(i ssa.Instruction) {
		st, isSt := i.(*ssa.Store)
		if !isSt || ir.FieldID(st.Addr) != fSize {
			return
		}
		var lens []*ssa.Call
		for v := range c.sliceOf(st.Val) {
			if call, isC := v.(*ssa.Call); isC && ir.CallID(call) == "builtin.len" && isByteSlice(call.Call.Args[0].Type()) {
				lens = append(lens, call)
			}
		}
		if len(lens) == 0 {
			c.R.Infof("K7.sized", name(ab), "size-of-stored", c.IPos(st), "not decided for this shape: the size written to the list is not computed from len() of a byte slice in this function")
			return
		}
		// a value read back from the field of a local struct is the value stored there
		var origin func(v ssa.Value, depth int) ssa.Value
		origin = func(v ssa.Value, depth int) ssa.Value {
			if ld, ok := v.(*ssa.UnOp); ok && ld.Op == token.MUL && depth < 4 {
				if fa, ok := ld.X.(*ssa.FieldAddr); ok {
					if _, isA := ir.RootOf(fa.X).(*ssa.Alloc); isA {
						var vals []ssa.Value
						instrsOf(ab, func(j ssa.Instruction) {
							if st2, ok := j.(*ssa.Store); ok {
								if fb, ok := st2.Addr.(*ssa.FieldAddr); ok && fb.Field == fa.Field && ir.RootOf(fb.X) == ir.RootOf(fa.X) {
									vals = append(vals, st2.Val)
								}
							}
						})
						if len(vals) == 1 {
							return origin(vals[0], depth+1)
						}
					}
				}
			}
			// measured inside a helper: the argument the helper is called with here
			if p, ok := v.(*ssa.Parameter); ok && p.Parent() != ab && depth < 4 {
				var args []ssa.Value
				instrsOf(ab, func(j ssa.Instruction) {
					if call, ok := j.(*ssa.Call); ok && call.Call.StaticCallee() == p.Parent() {
						as := ir.CallArgs(call)
						for k, q := range p.Parent().Params {
							if q == p && k < len(as) {
								args = append(args, as[k])
							}
						}
					}
				})
				if len(args) == 1 {
					return origin(args[0], depth+1)
				}
			}
			return v
		}
		okS, detS := true, ""
		for _, lc := range lens {
			same := false
			for _, b := range stored {
				if origin(lc.Call.Args[0], 0) == origin(b, 0) {
					same = true
				}
			}
			if !same {
				okS, detS = false, "the size is computed from len() of a value ("+c.IPos(lc)+") that is not the data appended to the list (e.g. the PEM text measured, the DER stored)"
			}
		}
		c.R.Check(okS, "K7.sized", name(ab), "size-of-stored", c.IPos(st), "the signature size recorded in the list is the owner GUID plus the length of the bytes that are stored", detS)
	})
}

// normalisedSelection (K1 at database level): if the append path normalises
// the data (PEM -> DER), the list is selected by the length of the normalised
// value.
func (c *Ctx) normalisedSelection(ap *ssa.Function) {
	// does anything reachable from Append call pem.Decode?
	reach, _ := c.Reachable([]*ssa.Function{ap})
	var normaliser *ssa.Function
	for f := range reach {
		if !c.P.InLib(f) {
			continue
		}
		instrsOf(f, func(i ssa.Instruction) {
			if call, ok := i.(*ssa.Call); ok && ir.CallID(call) == "encoding/pem.Decode" {
				normaliser = f
			}
		})
	}
	if normaliser == nil {
		c.R.Okf("K1.same", name(ap), "select-by-stored-length", c.Pos(ap.Pos()), "the append path does not normalise its input, the given length is the stored length")
		return
	}
	ok, det, n := true, "", 0
	instrsOf(ap, func(i ssa.Instruction) {
		lc, isC := i.(*ssa.Call)
		if !isC || ir.CallID(lc) != "builtin.len" {
			return
		}
		if _, isBytes := lc.Call.Args[0].Type().Underlying().(interface{ Elem() interface{} }); isBytes {
			_ = isBytes
		}
		dataP := paramBytes(ap)
		sl := c.Slicer().Slice(lc.Call.Args[0])
		if dataP == nil || !sl[dataP] {
			return
		}
		n++
		if len(ir.CallsIn(sl, "encoding/pem.Decode")) == 0 && !sliceCalls(sl, normaliser) {
			ok, det = false, "len() at "+c.IPos(lc)+" is taken of the data as given, but "+name(normaliser)+" stores the PEM-decoded form: the same certificate given as PEM selects a different list"
		}
	})
	if n == 0 {
		c.R.Okf("K1.same", name(ap), "select-by-stored-length", c.Pos(ap.Pos()), "the database append does not select by length")
		return
	}
	c.R.Check(ok, "K1.same", name(ap), "select-by-stored-length", c.Pos(ap.Pos()), "the list is selected by the length of the value that will be stored", det)
}

func sliceCalls(sl map[ssa.Value]bool, fn *ssa.Function) bool {
	for v := range sl {
		if call, ok := v.(*ssa.Call); ok && ir.Callee(call) == fn {
			return true
		}
	}
	return false
}

// orderPreservingRemoval (K5): removal is append(s[:i], s[i+1:]...) with i the
// index returned by the membership test; no element stores.
func (c *Ctx) orderPreservingRemoval(rb *ssa.Function) {
	ok, det := false, "no order-preserving removal (append(s[:i], s[i+1:]...) or copy(s[i:], s[i+1:]) + reslice) of Signatures found"
	overwritten := ""
	isSigs := func(v ssa.Value) bool {
		ld, isLd := v.(*ssa.UnOp)
		return isLd && ir.FieldID(ld.X) == fSignatures
	}
	for _, g := range c.cone(rb) {
		instrsOf(g, func(i ssa.Instruction) {
			switch x := i.(type) {
			case *ssa.Store:
				if ia, isIA := x.Addr.(*ssa.IndexAddr); isIA && isSigs(ia.X) {
					overwritten = "an element of Signatures is overwritten at " + c.IPos(x) + " (swap-style removal changes the relative order of the remaining entries)"
					return
				}
				if ir.FieldID(x.Addr) != fSignatures {
					return
				}
				app, isApp := x.Val.(*ssa.Call)
				if !isApp || ir.CallID(app) != "builtin.append" || len(app.Call.Args) != 2 {
					return
				}
				head, hok := app.Call.Args[0].(*ssa.Slice)
				tail, tok := app.Call.Args[1].(*ssa.Slice)
				if !hok || !tok || head.Low != nil || head.High == nil || tail.Low == nil || tail.High != nil {
					return
				}
				d := affineOf(tail.Low, 0).add(affineOf(head.High, 0), -1)
				if d.isConst() && d.K == 1 {
					ok, det = true, ""
				}
			case *ssa.Call:
				// copy(s[i:], s[i+1:]) followed by s = s[:len(s)-1]
				if ir.CallID(x) != "builtin.copy" {
					return
				}
				dst, dok := x.Call.Args[0].(*ssa.Slice)
				src, sok := x.Call.Args[1].(*ssa.Slice)
				if !dok || !sok || !isSigs(dst.X) || !isSigs(src.X) || dst.Low == nil || src.Low == nil || dst.High != nil || src.High != nil {
					return
				}
				d := affineOf(src.Low, 0).add(affineOf(dst.Low, 0), -1)
				if !d.isConst() || d.K != 1 {
					return
				}
				// the reslice that drops the last slot
				instrsOf(g, func(j ssa.Instruction) {
					st, isSt := j.(*ssa.Store)
					if !isSt || ir.FieldID(st.Addr) != fSignatures {
						return
					}
					if rs, isRs := st.Val.(*ssa.Slice); isRs && isSigs(rs.X) && rs.Low == nil && rs.High != nil {
						h := affineOf(rs.High, 0)
						// ... written with the number of elements the copy moved: copy(s[i:], s[i+1:])
						// returns len(s)-i-1 (the shorter of the two), so s[:i+moved] is s[:len(s)-1]
						for sym, cf := range h.T {
							if cf == 1 && ir.StripConv(h.Sym[sym]) == ssa.Value(x) {
								if r := h.add(symAffine(sym, x), -1).add(affineOf(dst.Low, 0), -1); r.isConst() && r.K == 0 {
									ok, det = true, ""
								}
							}
						}
						if h.K == -1 && len(h.T) == 1 {
							for sym, cf := range h.T {
								if cf == 1 && strings.HasPrefix(sym, "len(") {
									ok, det = true, ""
								}
							}
						}
					}
				})
			}
		})
	}
	if overwritten != "" {
		ok, det = false, overwritten
	}
	c.R.Check(ok, "K5.order", name(rb), "remove-keeps-order", c.Pos(rb.Pos()), "removing an entry keeps the relative order of all other entries", det)
}

// removeContinuesSearch (K6): a miss in one list continues with the next list.
func (c *Ctx) removeContinuesSearch(rm *ssa.Function) {
	ok, det := false, "no test of the list-level removal's not-found error that continues the loop"
	top := rm
	for _, rm := range c.cone(top) {
		if ok {
			break
		}
		c.removeContinuesSearchIn(rm, &ok, &det)
	}
	if !ok && det == "no test of the list-level removal's not-found error that continues the loop" {
		// the entry is looked up first (membership query) and removed by position: there is
		// no not-found error to test; whether the search continues is a question about that lookup
		found := false
		for _, f := range c.cone(top) {
			instrsOf(f, func(i ssa.Instruction) {
				if call, isC := i.(*ssa.Call); isC {
					if id := ir.CallID(call); id == sigPkg+".SignatureList.RemoveBytes" || id == sigPkg+".SignatureList.RemoveSignature" {
						if e, kept := errValue(call); kept && e != nil {
							found = true
						}
					}
				}
			})
		}
		if !found {
			c.R.Infof("K6.search", name(top), "miss-continues", c.Pos(top.Pos()), "not decided for this shape: the database-level removal does not go through the list-level removal and its not-found error")
			return
		}
	}
	c.R.Check(ok, "K6.search", name(top), "miss-continues", c.Pos(top.Pos()), "a miss in one matching list continues the search in the following lists", det)
}

func (c *Ctx) removeContinuesSearchIn(rm *ssa.Function, okp *bool, detp *string) {
	ok, det := *okp, *detp
	defer func() { *okp, *detp = ok, det }()
	loops := naturalLoops(rm)
	for _, ce := range ir.CondEdges(rm) {
		var errv ssa.Value
		isSentinel := false
		if call, isC := ce.Cond.(*ssa.Call); isC && (ir.CallID(call) == "github.com/pkg/errors.Is" || ir.CallID(call) == "errors.Is") && ce.Truth {
			errv = call.Call.Args[0]
			isSentinel = isGlobalLoad(call.Call.Args[1], sigPkg+".ErrNotFoundSigData")
		} else if cmp, isB := ce.Cond.(*ssa.BinOp); isB && cmp.Op == token.EQL && ce.Truth {
			if isGlobalLoad(cmp.Y, sigPkg+".ErrNotFoundSigData") {
				errv, isSentinel = cmp.X, true
			}
		}
		if !isSentinel {
			// any failure of the list-level removal (the miss included) goes on with the next list
			if v, isNil := errIsNil(ce.RawCond, ce.RawTruth); v != nil && !isNil && ce.If != nil {
				errv, isSentinel = v, true
			}
		}
		if !isSentinel || errv == nil {
			continue
		}
		fromRemove := false
		for _, oc := range errorOrigins(errv, map[ssa.Value]bool{}) {
			if ir.CallID(oc) == sigPkg+".SignatureList.RemoveBytes" || ir.CallID(oc) == sigPkg+".SignatureList.RemoveSignature" {
				fromRemove = true
			}
		}
		if !fromRemove {
			continue
		}
		for _, l := range loops {
			if c.staysInLoop(rm, l, rm.Blocks[ce.Edge.To]) {
				ok, det = true, ""
			}
		}
		if !ok {
			det = "the not-found outcome at " + c.Pos(ir.BlockPos(rm.Blocks[ce.Edge.To])) + " leaves the loop"
		}
	}
}

// emptiedListDropped: Remove drops a list that became empty.
func (c *Ctx) emptiedListDropped(rm *ssa.Function) {
	ok, det := false, "no edge len(l.Signatures) == 0 leading to the removal of the list"
	top := rm
	for _, rm := range c.cone(top) {
		c.emptiedListDroppedIn(rm, &ok, &det)
	}
	c.R.Check(ok, "K2.paired", name(top), "emptied-list-dropped", c.Pos(top.Pos()), "a list that becomes empty is removed from the database", det)
}

func (c *Ctx) emptiedListDroppedIn(rm *ssa.Function, okp *bool, detp *string) {
	ok, det := *okp, *detp
	defer func() { *okp, *detp = ok, det }()
	for _, ce := range ir.CondEdges(rm) {
		cmp, isB := ce.Cond.(*ssa.BinOp)
		if !isB {
			continue
		}
		op := cmp.Op
		if !ce.Truth {
			op = negate(op)
		}
		lc, isC := ir.StripConv(cmp.X).(*ssa.Call)
		if !isC || ir.CallID(lc) != "builtin.len" {
			continue
		}
		ld, isLd := lc.Call.Args[0].(*ssa.UnOp)
		if !isLd || ir.FieldID(ld.X) != fSignatures {
			continue
		}
		if k, isK := ir.ConstInt(cmp.Y); !isK || !(k == 0 && (op == token.EQL || op == token.LEQ) || k == 1 && op == token.LSS) {
			continue
		}
		// the edge leads to RemoveList / removeslice
		seen, _ := ir.Reach(rm, rm.Blocks[ce.Edge.To], nil)
		instrsOf(rm, func(i ssa.Instruction) {
			if call, isCall := i.(*ssa.Call); isCall && seen[call.Block().Index] {
				id := ir.CallID(call)
				if id == sigPkg+".SignatureDatabase.RemoveList" || id == sigPkg+".SignatureDatabase.removeslice" {
					ok, det = true, ""
				}
			}
		})
	}
}

// ruleSizeEquations (K2): every store to ListSize outside the decoder and the
// constructor adds or subtracts exactly the list's own Size, next to a
// one-element append / removal on the same list.
func (c *Ctx) ruleSizeEquations(prefix string) {
	counts := map[string]int{}
	for _, fn := range c.P.LibFunctions() {
		if fn.Pkg == nil || fn.Pkg.Pkg.Path() != sigPkg {
			continue
		}
		fn := fn
		instrsOf(fn, func(i ssa.Instruction) {
			st, ok := i.(*ssa.Store)
			if !ok || ir.FieldID(st.Addr) != fListSize {
				return
			}
			if _, isAlloc := ir.RootOf(st.Addr).(*ssa.Alloc); isAlloc {
				return // constructor / decoder filling a fresh value
			}
			key := ordinalKey(counts, name(fn)+":ListSize")
			base := ir.AccessPath(st.Addr.(*ssa.FieldAddr).X)
			a := affineOf(st.Val, 0)
			old := "*" + base + ".ListSize"
			sz := "*" + base + ".Size"
			ok2 := a.K == 0 && len(a.T) == 2 && a.T[old] == 1 && (a.T[sz] == 1 || a.T[sz] == -1)
			if !ok2 && a.T[old] == 1 {
				// the list's Size was assigned just before on this path: the change may be
				// written with the assigned value instead of re-reading the field
				var last *ssa.Store
				instrsOf(fn, func(j ssa.Instruction) {
					s2, isSt := j.(*ssa.Store)
					if !isSt || s2 == st || ir.FieldID(s2.Addr) != fSize {
						return
					}
					if fa, isFA := s2.Addr.(*ssa.FieldAddr); !isFA || ir.AccessPath(fa.X) != base {
						return
					}
					if s2.Block() == st.Block() && precedes(s2, st) || s2.Block() != st.Block() && s2.Block().Dominates(st.Block()) {
						last = s2
					}
					// or it is assigned right after, on every way out from here (the two
					// assignments written in the other order): the Size the list ends up with
					if last == nil && (s2.Block() == st.Block() && precedes(st, s2) || s2.Block() != st.Block() && st.Block().Dominates(s2.Block()) && everyExitPasses(fn, st.Block(), s2.Block())) {
						last = s2
					}
				})
				if last != nil {
					delta := a.clone()
					delete(delta.T, old)
					if nv := affineOf(last.Val, 0); delta.equal(nv) || delta.equal(nv.scale(-1)) {
						ok2 = true
					}
				}
			}
			det := ""
			if !ok2 {
				det = "new ListSize is " + a.String() + ", want old ListSize ± Size of the same list (ListSize = 28 + n·Size must keep holding)"
			} else {
				// exactly one entry added/removed in this function on the same list
				n := 0
				instrsOf(fn, func(j ssa.Instruction) {
					if s2, isSt := j.(*ssa.Store); isSt && ir.FieldID(s2.Addr) == fSignatures {
						switch v := s2.Val.(type) {
						case *ssa.Call:
							if ir.CallID(v) == "builtin.append" {
								n++
							}
						case *ssa.Slice:
							n++ // reslice after an in-place shift
						}
					}
				})
				if n != 1 {
					ok2, det = false, fmt.Sprintf("%d changes of the entry slice accompany the size update", n)
				}
			}
			c.R.Check(ok2, prefix+"2.paired", name(fn), strings.TrimPrefix(key, name(fn)+":"), c.IPos(st),
				"ListSize changes by exactly ±Size together with a one-entry change of the same list", det)
		})
	}
}

// ruleUniformSize (K4): the list's Size changes only if the list is empty or
// the new entry has the current size.
func (c *Ctx) ruleUniformSize(ab *ssa.Function) {
	c.guardedMutations("K4.uniform", ab, "size-uniform", "the list's signature size changes only if the list is empty or the new entry has the current size", func(ce ir.CondEdge) bool {
		cmp, ok := ce.Cond.(*ssa.BinOp)
		if !ok {
			return false
		}
		op := cmp.Op
		if !ce.Truth {
			op = negate(op)
		}
		// len(sl.Signatures) == 0
		if lc, ok := ir.StripConv(cmp.X).(*ssa.Call); ok && ir.CallID(lc) == "builtin.len" {
			if ld, ok := lc.Call.Args[0].(*ssa.UnOp); ok && ir.FieldID(ld.X) == fSignatures {
				if k, isK := ir.ConstInt(cmp.Y); isK && (k == 0 && (op == token.EQL || op == token.LEQ) || k == 1 && op == token.LSS) {
					return true
				}
			}
		}
		// size == sl.Size
		if op == token.EQL {
			x, y := ir.StripConv(cmp.X), ir.StripConv(cmp.Y)
			isSize := func(v ssa.Value) bool { return ir.FieldID(v) == fSize }
			isNew := func(v ssa.Value) bool {
				a := affineOf(v, 0)
				for k := range a.T {
					if strings.HasPrefix(k, "len(") {
						return true
					}
				}
				// computed by a helper from the length of the data
				return len(ir.CallsIn(c.sliceOf(v), "builtin.len")) > 0 && ir.FieldID(v) != fSize
			}
			return isSize(x) && isNew(y) || isSize(y) && isNew(x)
		}
		return false
	}, func(i ssa.Instruction) bool {
		st, ok := i.(*ssa.Store)
		return ok && ir.FieldID(st.Addr) == fSize
	})
}

// ruleNormalise (K8): wherever the library turns PEM input into the stored
// form, the input is returned unchanged only if the signature type is not a
// certificate type or pem.Decode found no block: a shortcut that skips the
// decoder for some inputs stores (and compares) the armoured text.
func (c *Ctx) ruleNormalise(rule string) int {
	n := 0
	for _, g := range c.P.LibFunctions() {
		if g.Pkg == nil || g.Pkg.Pkg.Path() != sigPkg || g.Signature.Results().Len() != 1 || !isByteSlice(g.Signature.Results().At(0).Type()) {
			continue
		}
		var dec *ssa.Call
		instrsOf(g, func(i ssa.Instruction) {
			if call, ok := i.(*ssa.Call); ok && ir.CallID(call) == "encoding/pem.Decode" {
				dec = call
			}
		})
		if dec == nil {
			continue
		}
		in, isP := ir.StripConv(dec.Call.Args[0]).(*ssa.Parameter)
		if !isP {
			continue
		}
		n++
		// edges that justify returning the input: no PEM block found; the type parameter says "not PEM-able"
		cut := map[ir.Edge]bool{}
		decReach := func(b *ssa.BasicBlock) bool {
			seen, _ := ir.Reach(g, b, nil)
			return seen[dec.Block().Index]
		}
		for _, ce := range ir.CondEdges(g) {
			if v, nilWhenTrue, ok := ir.NilCheck(ce.Cond); ok {
				if ex, isEx := v.(*ssa.Extract); isEx && ex.Tuple == ssa.Value(dec) && ex.Index == 0 && ce.Truth == nilWhenTrue {
					cut[ce.Edge] = true
					continue
				}
			}
			dependsOnInput := false
			dependsOnOther := false
			for v := range localOperands(ce.Cond) {
				if p, ok := v.(*ssa.Parameter); ok {
					if p == in {
						dependsOnInput = true
					} else {
						dependsOnOther = true
					}
				}
			}
			if dependsOnOther && !dependsOnInput && !decReach(g.Blocks[ce.Edge.To]) {
				cut[ce.Edge] = true
			}
		}
		seen, prev := ir.ReachF(g, g.Blocks[0], cut)
		bad := ""
		for _, r := range ir.Returns(g) {
			res := r.Results[0]
			if ph, isPhi := res.(*ssa.Phi); isPhi {
				for k, e := range ph.Edges {
					p := ph.Block().Preds[k]
					if ir.StripConv(e) == ssa.Value(in) && seen[p.Index] && !cut[ir.Edge{From: p.Index, To: ph.Block().Index}] {
						bad = ir.PathTo(g, prev, 0, p.Index, c.Pos)
					}
				}
				continue
			}
			if ir.StripConv(res) == ssa.Value(in) && seen[r.Block().Index] {
				bad = ir.PathTo(g, prev, 0, r.Block().Index, c.Pos)
			}
		}
		c.R.Check(bad == "", rule, name(g), "pem-or-unchanged", c.Pos(g.Pos()), "the input is stored unchanged only when pem.Decode finds no block (or the signature type is not a certificate)",
			"the input is returned unchanged on a path that neither asked pem.Decode nor depends on the signature type alone: "+bad)
	}
	return n
}

// localOperands: the values v is computed from inside its own function
// (operands followed transitively; nothing beyond parameters and calls' arguments).
func localOperands(v ssa.Value) map[ssa.Value]bool {
	out := map[ssa.Value]bool{}
	var walk func(x ssa.Value, depth int)
	walk = func(x ssa.Value, depth int) {
		if x == nil || out[x] || depth > 30 {
			return
		}
		out[x] = true
		if in, ok := x.(ssa.Instruction); ok {
			for _, op := range in.Operands(nil) {
				if *op != nil {
					walk(*op, depth+1)
				}
			}
		}
	}
	walk(v, 0)
	return out
}

// boolPhiEvidence: the tested value is a boolean computed earlier with || (a
// phi of the constant true from the blocks where an operand held, and the last
// operand). On its true edge one of the operands held; the edge is evidence if
// every operand is.
func boolPhiEvidence(ce ir.CondEdge, isEvidence func(ir.CondEdge) bool) bool {
	ph, ok := ce.Cond.(*ssa.Phi)
	if !ok || !ce.Truth || !isBoolType(ph.Type()) {
		return false
	}
	n := 0
	for k, ev := range ph.Edges {
		pred := ph.Block().Preds[k]
		if kc, isK := ev.(*ssa.Const); isK {
			if kc.Value == nil || !constant.BoolVal(kc.Value) {
				continue // contributes false: not on the true edge
			}
			ifi, isIf := pred.Instrs[len(pred.Instrs)-1].(*ssa.If)
			if !isIf {
				return false
			}
			core, neg := ir.Peel(ifi.Cond)
			truth := pred.Succs[0] == ph.Block()
			if !isEvidence(ir.CondEdge{Edge: ir.Edge{From: pred.Index, To: ph.Block().Index}, If: ifi, Cond: core, Truth: truth != neg, RawCond: ifi.Cond, RawTruth: truth}) {
				return false
			}
			n++
			continue
		}
		core, neg := ir.Peel(ev)
		if !isEvidence(ir.CondEdge{Edge: ce.Edge, If: ce.If, Cond: core, Truth: !neg, RawCond: ev, RawTruth: true}) {
			return false
		}
		n++
	}
	return n > 0
}

// membershipEdge: the edge tests the outcome of the list's membership search —
// Exists (found, index), or a library helper of the package that compares the
// entry's data with the stored entries and returns found/index. Reports whether
// the edge is the "found" side.
func (c *Ctx) membershipEdge(ce ir.CondEdge) (found bool, ok bool) {
	isSearch := func(call *ssa.Call) bool {
		if call == nil {
			return false
		}
		if ir.CallID(call) == sigPkg+".SignatureList.Exists" {
			return true
		}
		callee := ir.Callee(call)
		if callee == nil || callee.Pkg == nil || callee.Pkg.Pkg.Path() != sigPkg {
			return false
		}
		hit := false
		for _, g := range c.cone(callee) {
			instrsOf(g, func(i ssa.Instruction) {
				if cl, isC := i.(*ssa.Call); isC && (ir.CallID(cl) == "bytes.Equal" || ir.CallID(cl) == "bytes.Compare") {
					for _, a := range cl.Call.Args {
						if ir.HasField(c.sliceOf(a), sigPkg+".SignatureData.Data") {
							hit = true
						}
					}
				}
			})
		}
		return hit
	}
	// boolean outcome
	if call := callOf(ce.Cond); call != nil && isBoolType(ce.Cond.Type()) {
		if isSearch(call) {
			return ce.Truth, true
		}
		return false, false
	}
	// index outcome compared with a constant
	bo, isB := ce.Cond.(*ssa.BinOp)
	if !isB {
		return false, false
	}
	x, y, op := ir.StripConv(bo.X), ir.StripConv(bo.Y), bo.Op
	if _, isK := ir.ConstInt(x); isK {
		x, y, op = y, x, flip(op)
	}
	k, isK := ir.ConstInt(y)
	if !isK || !isSearch(callOf(x)) || !isNumeric(x.Type()) {
		return false, false
	}
	if !ce.Truth {
		op = negate(op)
	}
	switch {
	case op == token.GEQ && k == 0, op == token.GTR && k == -1, op == token.NEQ && k == -1:
		return true, true
	case op == token.LSS && k == 0, op == token.LEQ && k == -1, op == token.EQL && k == -1:
		return false, true
	}
	return false, false
}

// ruleScopedDuplicate (K9.scope): Append refuses an entry as a duplicate only
// on the word of the list it selected (same type, same size). A membership
// test over the whole database that sends Append to a failing return ignores
// the signature type: the same bytes under another type are a different entry.
func (c *Ctx) ruleScopedDuplicate(rule string, ap *ssa.Function) {
	bad := ""
	n := 0
	for _, ce := range ir.CondEdges(ap) {
		call := callOf(ce.Cond)
		if bo, isB := ce.Cond.(*ssa.BinOp); isB && call == nil {
			call = callOf(ir.StripConv(bo.X))
		}
		if call == nil {
			continue
		}
		callee := ir.Callee(call)
		if callee == nil || callee.Signature.Recv() == nil || ir.NamedTypeID(callee.Signature.Recv().Type()) != sigPkg+".SignatureDatabase" {
			continue
		}
		found, ok := c.membershipEdge(ce)
		if !ok || !found {
			continue
		}
		n++
		// does the found edge lead to failing returns only?
		fails := true
		for _, cl := range retClassesFrom(ap, ap.Blocks[ce.Edge.To], ce.Edge.From) {
			if cl != "fail" {
				fails = false
			}
		}
		if fails {
			bad = c.IPos(ce.If)
		}
	}
	if n == 0 {
		c.R.Okf(rule, name(ap), "list-scoped", c.Pos(ap.Pos()), "no database-wide membership test decides whether Append refuses")
		return
	}
	c.R.Check(bad == "", rule, name(ap), "list-scoped", c.Pos(ap.Pos()), "an entry is refused as a duplicate only by the list selected for its type and size",
		"a membership test over the whole database at "+bad+" makes Append fail: entries with the same bytes under another signature type (or in a list of another size) are refused although they are different entries")
}

// ruleHandledErrors (K9.errors): Remove goes on to "removed" after RemoveBytes
// unless the error is one it tests for. Every error RemoveBytes can return must
// therefore be tested (or the error compared with nil): an untested one ends in
// a successful return although nothing was removed.
func (c *Ctx) ruleHandledErrors(rule string, rm, rb *ssa.Function) {
	if rm == nil || rb == nil {
		return
	}
	sentinel := func(v ssa.Value) string {
		v = ir.StripIface(v)
		if ld, ok := v.(*ssa.UnOp); ok && ld.Op == token.MUL {
			if g, isG := ld.X.(*ssa.Global); isG {
				return g.Name()
			}
		}
		return ""
	}
	can := map[string]bool{}
	for _, g := range c.cone(rb) {
		if g != rb {
			continue
		}
		for _, r := range ir.Returns(g) {
			ev := effectiveResult(g, r, len(r.Results)-1)
			if ir.IsNilConst(ev) {
				continue
			}
			if s := sentinel(ev); s != "" {
				can[s] = true
			} else {
				can["(other error at "+c.IPos(r)+")"] = true
			}
		}
	}
	for _, f := range withAnon(rm) {
		for _, b := range f.Blocks {
			for _, i := range b.Instrs {
				call, ok := i.(*ssa.Call)
				if !ok || ir.Callee(call) != rb {
					continue
				}
				e, kept := errValue(call)
				if !kept || e == nil {
					c.R.Violf(rule, name(rm), "errors-of-RemoveBytes", c.IPos(call), "every error of the list-level removal is told apart from success", "the error of "+name(rb)+" is dropped")
					return
				}
				handled := map[string]bool{}
				nilTested := false
				for _, ce := range ir.CondEdges(f) {
					if v, _, isNil := ir.NilCheck(ce.RawCond); isNil && sameErrValue(v, e) {
						nilTested = true
					}
					if ev, isEq := isErrTest(ce.Cond); isEq && sameErrValue(ev.err, e) {
						handled[ev.sentinel] = true
					}
				}
				if nilTested {
					c.R.Okf(rule, name(rm), "errors-of-RemoveBytes", c.IPos(call), "the error of the list-level removal is compared with nil")
					return
				}
				var missing []string
				for s := range can {
					if !handled[s] {
						missing = append(missing, s)
					}
				}
				sort.Strings(missing)
				c.R.Check(len(missing) == 0, rule, name(rm), "errors-of-RemoveBytes", c.IPos(call), "every error of the list-level removal is told apart from success",
					name(rb)+" can return "+strings.Join(missing, ", ")+", which "+name(rm)+" neither tests for nor compares with nil: such a failure ends in the successful return")
				return
			}
		}
	}
	c.R.Infof(rule, name(rm), "errors-of-RemoveBytes", c.Pos(rm.Pos()), "not decided for this shape: no direct call of the list-level removal")
}

type errTest struct {
	err      ssa.Value
	sentinel string
}

// isErrTest: errors.Is(err, pkg.ErrX) or err == pkg.ErrX.
func isErrTest(cond ssa.Value) (errTest, bool) {
	glob := func(v ssa.Value) string {
		v = ir.StripIface(v)
		if ld, ok := v.(*ssa.UnOp); ok && ld.Op == token.MUL {
			if g, isG := ld.X.(*ssa.Global); isG {
				return g.Name()
			}
		}
		return ""
	}
	switch x := cond.(type) {
	case *ssa.Call:
		id := ir.CallID(x)
		if (id == "errors.Is" || id == "github.com/pkg/errors.Is") && len(x.Call.Args) == 2 {
			if g := glob(x.Call.Args[1]); g != "" {
				return errTest{x.Call.Args[0], g}, true
			}
		}
	case *ssa.BinOp:
		if x.Op == token.EQL || x.Op == token.NEQ {
			if g := glob(x.Y); g != "" {
				return errTest{x.X, g}, true
			}
			if g := glob(x.X); g != "" {
				return errTest{x.Y, g}, true
			}
		}
	}
	return errTest{}, false
}

// ruleListNotShared (K10.share): a list put into a database is either the
// caller's list object itself or a copy with entries of its own. A copy of the
// list header alone (l := *sl; &l) leaves two headers over one array of
// entries: an append or a removal through one of them rewrites the other's
// entries while its length and sizes stay.
func (c *Ctx) ruleListNotShared(rule string) {
	for _, spec := range []string{"efi/signature.(*SignatureDatabase).AppendList", "efi/signature.(*SignatureDatabase).AppendDatabase"} {
		fn := c.FnOpt(spec)
		if fn == nil {
			continue
		}
		bad := ""
		for _, g := range withAnon(fn) {
			instrsOf(g, func(i ssa.Instruction) {
				st, ok := i.(*ssa.Store)
				if !ok {
					return
				}
				al, isA := st.Addr.(*ssa.Alloc)
				if !isA || ir.NamedTypeID(al.Type()) != sigPkg+".SignatureList" {
					return
				}
				ld, isLd := st.Val.(*ssa.UnOp)
				if !isLd || ld.Op != token.MUL {
					return
				}
				if _, fromParam := ir.RootOf(ld.X).(*ssa.Parameter); !fromParam {
					if _, isExtract := ld.X.(*ssa.Extract); !isExtract {
						if _, isIdx := ld.X.(*ssa.UnOp); !isIdx {
							return
						}
					}
				}
				// the copy's entries replaced by a slice of their own?
				own := false
				for _, r := range *al.Referrers() {
					if fa, isFA := r.(*ssa.FieldAddr); isFA && ir.FieldID(fa) == fSignatures {
						for _, rr := range *fa.Referrers() {
							if s2, isSt := rr.(*ssa.Store); isSt && s2.Addr == ssa.Value(fa) {
								own = true
							}
						}
					}
				}
				// does the copy's address escape into the database?
				escapes := false
				for _, r := range *al.Referrers() {
					switch r.(type) {
					case *ssa.Store, *ssa.FieldAddr, *ssa.UnOp:
					default:
						escapes = true
					}
					if s2, isSt := r.(*ssa.Store); isSt && s2.Val == ssa.Value(al) {
						escapes = true
					}
				}
				if !own && escapes {
					bad = c.IPos(st)
				}
			})
		}
		c.R.Check(bad == "", rule, name(fn), "own-entries", c.Pos(fn.Pos()), "a list stored in the database is the caller's list object or a copy with entries of its own",
			"the list header is copied at "+bad+" and the copy is stored: both headers share one array of entries, so an append or removal through one rewrites the other's entries")
	}
}

// ruleRefusalSurfaces (K9.refused): when a list of the database refuses the
// entry (it is there already), Append reports that; it does not go on and
// store the entry somewhere else. From the edge on which the list-level append
// returned an error every return of Append carries an error, unless the edge
// is taken only for the "wrong size for this list" refusal.
func (c *Ctx) ruleRefusalSurfaces(rule string, ap *ssa.Function) {
	if ap == nil {
		return
	}
	n := 0
	counts := map[string]int{}
	for _, f := range withAnon(ap) {
		f := f
		instrsOf(f, func(i ssa.Instruction) {
			call, ok := i.(*ssa.Call)
			if !ok {
				return
			}
			id := ir.CallID(call)
			if id != sigPkg+".SignatureList.AppendBytes" && id != sigPkg+".SignatureList.AppendSignature" {
				return
			}
			n++
			key := ordinalKey(counts, name(ap)+":refusal")
			construct := strings.TrimPrefix(key, name(ap)+":")
			e, kept := errValue(call)
			if !kept || e == nil {
				c.R.Violf(rule, name(ap), construct, c.IPos(call), "a refusal by the list is reported", "the error of the list-level append is dropped")
				return
			}
			// a value handed straight on (return l.AppendBytes(...)) is reported as it is
			fail, _, tested := failureEdges(f, e)
			if !tested {
				c.R.Okf(rule, name(ap), construct, c.IPos(call), "the error of the list-level append is returned as it is")
				return
			}
			sizeOnly := false
			for _, ce := range ir.CondEdges(f) {
				if ev, isEq := isErrTest(ce.Cond); isEq && sameErrValue(ev.err, e) && ev.sentinel == "ErrSigDataSize" {
					sizeOnly = true
				}
			}
			bad := ""
			for _, fe := range fail {
				for r, cl := range retClassesFrom(f, f.Blocks[fe.To], fe.From) {
					if cl == "success" {
						bad = c.IPos(r)
					}
				}
			}
			switch {
			case bad == "":
				c.R.Okf(rule, name(ap), construct, c.IPos(call), "after a refusal by the list every return of Append carries an error")
			case sizeOnly:
				c.R.Infof(rule, name(ap), construct, c.IPos(call), "not decided for this shape: the refusal is told apart by ErrSigDataSize; which refusals go on to another list is not evaluated")
			default:
				c.R.Violf(rule, name(ap), construct, c.IPos(call), "a refusal by the list is reported",
					"after the list-level append returned an error Append can still return successfully at "+bad+": a duplicate that the list refused is stored in another (new) list and the caller is told it went well")
			}
		})
	}
	if n == 0 {
		c.R.Infof(rule, name(ap), "refusal", c.Pos(ap.Pos()), "not decided for this shape: Append does not call the list-level append itself")
	}
}
