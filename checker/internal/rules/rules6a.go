package rules

import (
	"fmt"
	"go/token"
	"go/types"
	"os"
	"sort"
	"strings"

	"golang.org/x/tools/go/ssa"

	"verif/checker/internal/ir"
)

// Sixth round, signature database cluster (C07, C08, C09).
//
//   G4.surface   (C08, C07) in the decoders a failing read or sub-decoder fails the decoder
//   A-d.size-min (C08)      a list is accepted only with SignatureSize >= 16
//   G12.exact    (C08, C07) :stream-rebound - the decoder's stream is not re-bound to a read-ahead wrapper
//   K11.exact    (C09)      the membership predicate answers "found" only for equal owner and equal data
//   K0.atomic    (C09)      :loop - a mutator that can run twice in one operation must not be able to fail the operation
//   K2.decoded   (C09)      every entry the list decoder reads is kept (the size fields come from the stream)
//   K2.paired    (C07)      shared: emptied-list-dropped

func init() {
	Extras["C08"] = append(Extras["C08"], func(c *Ctx) {
		rl := c.FnOpt("efi/signature.ReadSignatureList")
		rd := c.FnOpt("efi/signature.ReadSignatureData")
		db := c.FnOpt("efi/signature.ReadSignatureDatabase")
		if rl == nil || rd == nil || db == nil {
			return // the property's own check reported the missing anchor
		}
		c.ruleErrorsSurface("G4.surface", db, rl, rd)
		c.R.Floor("G4.surface", 1)
		c.accept().Require("A-d", rl, []*fact{factSizeMin})
		c.ruleStreamRebound("G12.exact", rl, rd)
	})
	Extras["C07"] = append(Extras["C07"], func(c *Ctx) {
		rl := c.FnOpt("efi/signature.ReadSignatureList")
		rd := c.FnOpt("efi/signature.ReadSignatureData")
		db := c.FnOpt("efi/signature.ReadSignatureDatabase")
		if rl != nil && rd != nil && db != nil {
			// a dropped error hands out a database that is not what the stream holds
			c.ruleErrorsSurface("G4.surface", db, rl, rd)
			c.R.Floor("G4.surface", 1)
			// each list decoder call consumes exactly its list: the database is the concatenation
			c.ruleExactConsumption("G12.exact", "efi/signature.ReadSignatureList", "efi/signature.ReadSignatureData")
			c.ruleStreamRebound("G12.exact", rl, rd)
			c.R.Floor("G12.exact", 2)
		}
		// a removal leaves the lists it did not empty where they are (shared with C09)
		if rm := c.FnOpt("efi/signature.(*SignatureDatabase).Remove"); rm != nil {
			c.emptiedListDropped(rm)
		}
	})
	Extras["C09"] = append(Extras["C09"], func(c *Ctx) {
		c.ruleExactMembership("K11.exact")
		for _, spec := range []string{"efi/signature.(*SignatureList).AppendBytes", "efi/signature.(*SignatureList).RemoveBytes",
			"efi/signature.(*SignatureDatabase).Append", "efi/signature.(*SignatureDatabase).Remove"} {
			if fn := c.FnOpt(spec); fn != nil {
				c.ruleRepeatedMutator("K0.atomic", fn)
			}
		}
		if rl := c.FnOpt("efi/signature.ReadSignatureList"); rl != nil {
			c.ruleDecodedEntriesKept("K2.decoded", rl, c.FnOpt("efi/signature.ReadSignatureDatabase"))
		}
	})
}

// ---------------------------------------------------------------- G4.surface

// hasErrLast: the call's signature ends in an error result.
func hasErrLast(call ssa.CallInstruction) bool {
	var sig *types.Signature
	if call.Common().IsInvoke() {
		sig, _ = call.Common().Method.Type().(*types.Signature)
	} else {
		sig = call.Common().Signature()
	}
	if sig == nil || sig.Results().Len() == 0 {
		return false
	}
	return isErrorType(sig.Results().At(sig.Results().Len() - 1).Type())
}

// errUse describes what a function does with an error value.
type errUse struct {
	returned, tested, handed, stored bool
}

// usesOfErr follows error value e through phis, interface conversions and local
// cells (flow-insensitively: every load of a cell e is stored to) and records
// how it is used.
func usesOfErr(e ssa.Value) errUse {
	var u errUse
	seen := map[ssa.Value]bool{}
	var walk func(v ssa.Value, depth int)
	walk = func(v ssa.Value, depth int) {
		if v == nil || seen[v] || depth > 12 || v.Referrers() == nil {
			return
		}
		seen[v] = true
		for _, r := range *v.Referrers() {
			switch x := r.(type) {
			case *ssa.Return:
				u.returned = true
			case *ssa.Phi:
				walk(x, depth+1)
			case *ssa.ChangeInterface:
				walk(x, depth+1)
			case *ssa.MakeInterface:
				walk(x, depth+1)
			case *ssa.ChangeType:
				walk(x, depth+1)
			case *ssa.TypeAssert:
				u.tested = true
			case *ssa.BinOp:
				u.tested = true
			case *ssa.If:
				u.tested = true
			case *ssa.Store:
				if x.Val != v {
					continue
				}
				root := ir.RootOf(x.Addr)
				a, isLocal := root.(*ssa.Alloc)
				if !isLocal {
					// a field of a caller-visible object, a global, a captured variable
					if fv, isFV := root.(*ssa.FreeVar); isFV {
						if b, ok := ir.FreeVarBinding(fv).(*ssa.Alloc); ok {
							walkCell(b, x.Addr, &u, walk, depth)
							continue
						}
					}
					u.stored = true
					continue
				}
				walkCell(a, x.Addr, &u, walk, depth)
			case ssa.CallInstruction:
				id := ir.CallID(x)
				if id == "errors.Is" || id == "errors.As" || id == "github.com/pkg/errors.Is" || id == "github.com/pkg/errors.As" || id == "github.com/pkg/errors.Cause" {
					u.tested = true
					continue
				}
				u.handed = true
				// a decorator's result carries the error on
				if cv, isVal := x.(*ssa.Call); isVal && isFreshErrorCall(cv) {
					walk(cv, depth+1)
				}
			case *ssa.DebugRef:
			default:
				u.handed = true
			}
		}
	}
	walk(e, 0)
	return u
}

// walkCell: the value was stored at addr inside local cell a; every load of the
// cell (in the function and in the literals nested in it) may see it. A cell
// that is a variadic argument array is followed to the call it is handed to.
func walkCell(a *ssa.Alloc, addr ssa.Value, u *errUse, walk func(ssa.Value, int), depth int) {
	for _, f := range withAnon(topFn(a.Parent())) {
		instrsOf(f, func(i ssa.Instruction) {
			switch x := i.(type) {
			case *ssa.UnOp:
				if x.Op == token.MUL && ir.RootOf(x.X) == ssa.Value(a) {
					walk(x, depth+1)
				} else if x.Op == token.MUL {
					if fv, ok := ir.RootOf(x.X).(*ssa.FreeVar); ok && ir.FreeVarBinding(fv) == ssa.Value(a) {
						walk(x, depth+1)
					}
				}
			case *ssa.Slice:
				if ir.RootOf(x.X) == ssa.Value(a) {
					// variadic argument array: the call that takes it sees the value
					if x.Referrers() != nil {
						for _, r := range *x.Referrers() {
							if cv, isCall := r.(*ssa.Call); isCall {
								u.handed = true
								if isFreshErrorCall(cv) {
									walk(cv, depth+1)
								}
							}
						}
					}
				}
			}
		})
	}
	// a named result is returned by being stored
	if cellReadBackAfterDefers(a) {
		u.returned = true
	}
	for _, p := range a.Parent().Params {
		_ = p
	}
}

// ruleErrorsSurface (G4.surface): in the call cone of the decoders, a failure
// of a read primitive or of a library function is a failure of the decoder:
// its error is not dropped, and once it is known to be non-nil no successful
// return can be reached (other than through the end-of-input test, which the
// G4.eof rules judge).
func (c *Ctx) ruleErrorsSurface(rule string, roots ...*ssa.Function) {
	consumers := c.consumerFuncs()
	done := map[*ssa.Function]bool{}
	var fns []*ssa.Function
	for _, root := range roots {
		for _, g := range c.cone(root) {
			for _, f := range withAnon(g) {
				if !done[f] {
					done[f] = true
					fns = append(fns, f)
				}
			}
		}
	}
	sort.SliceStable(fns, func(i, j int) bool { return name(fns[i]) < name(fns[j]) })
	sites := 0
	for _, f := range fns {
		f := f
		counts := map[string]int{}
		instrsOf(f, func(i ssa.Instruction) {
			ci, ok := i.(ssa.CallInstruction)
			if !ok || !hasErrLast(ci) {
				return
			}
			var callee *ssa.Function
			if cv, isVal := ci.(*ssa.Call); isVal {
				callee = calleeOrClosure(cv)
			} else {
				callee = ir.Callee(ci)
			}
			inLib := callee != nil && c.P.InLib(callee)
			if !inLib && !c.isConsumingCall(ci, consumers) {
				return
			}
			label := shortID(ir.CallID(ci))
			if label == "" && callee != nil {
				label = name(callee)
			}
			if label == "" {
				label = "call"
			}
			construct := strings.TrimPrefix(ordinalKey(counts, name(f)+":err<-"+label), name(f)+":")
			what := "a failing read or sub-decoder fails the decoder: its error is used, and no successful return follows a non-nil error"
			call, isVal := ci.(*ssa.Call)
			if !isVal {
				// defer / go: the result cannot be looked at
				c.R.Infof(rule, name(f), construct, c.IPos(i), "not decided for this shape: the call is deferred or started as a goroutine, its error result is not visible in the function")
				return
			}
			sites++
			e, kept := errValue(call)
			if !kept || e == nil {
				if isTailCall(f, call) {
					c.R.Okf(rule, name(f), construct, c.IPos(i), what)
					return
				}
				c.R.Violf(rule, name(f), construct, c.IPos(i), what,
					"the error result of "+label+" is dropped: a read that failed (truncated input) goes unnoticed and the decoder hands out what it has as if the input had been complete")
				return
			}
			u := usesOfErr(e)
			if !u.returned && !u.tested && !u.handed && !u.stored {
				c.R.Violf(rule, name(f), construct, c.IPos(i), what,
					"the error result of "+label+" is only assigned to a variable that is never read: a read that failed (truncated input) goes unnoticed")
				return
			}
			fail, eofCut, tested := failureEdges(f, e)
			if !tested {
				if u.returned || u.stored {
					c.R.Okf(rule, name(f), construct, c.IPos(i), what)
				} else if u.tested {
					c.R.Infof(rule, name(f), construct, c.IPos(i), "not decided for this shape: the error of "+label+" is tested, but not by a comparison with nil the rule evaluates")
				} else {
					c.R.Infof(rule, name(f), construct, c.IPos(i), "not decided for this shape: the error of "+label+" is handed to another function and neither tested nor returned here")
				}
				return
			}
			if !hasErrorResult(f) {
				c.R.Infof(rule, name(f), construct, c.IPos(i), "not decided for this shape: "+name(f)+" has no error result; how it reports the failure of "+label+" is not evaluated")
				return
			}
			bad := ""
			// edges that cannot be taken once e is non-nil: the end-of-input branch of an
			// EOF test of e (judged by G4.eof) and the "is nil" side of a further nil test of e
			cut := map[ir.Edge]bool{}
			for ed := range eofCut {
				cut[ed] = true
			}
			for _, ce := range ir.CondEdges(f) {
				if v, isNil := errIsNil(ce.RawCond, ce.RawTruth); v != nil && isNil && ce.If != nil && carriesErr(v, e, 0) {
					cut[ce.Edge] = true
				}
			}
			// the failure edges in the jump-threaded view: a nil test that is an operand of a
			// short-circuit expression (case err == nil && ...:) leaves its block straight
			// to the successor its outcome selects
			var tfail []ir.Edge
			for _, ce := range ir.CondEdges(f) {
				if v, isNil := errIsNil(ce.RawCond, ce.RawTruth); v != nil && !isNil && ce.If != nil && sameErrValue(v, e) {
					if _, _, isNC := ir.NilCheck(ce.RawCond); isNC {
						tfail = append(tfail, ce.Edge)
					}
				}
			}
			if len(tfail) > 0 {
				fail = tfail
			}
			for _, fe := range fail {
				start := f.Blocks[fe.To]
				var free map[int]bool
				for r, cl := range retClassesFrom(f, start, fe.From) {
					if cl != "success" {
						continue
					}
					if free == nil {
						free, _ = ir.Reach(f, start, cut)
					}
					if !free[r.Block().Index] {
						continue
					}
					// the return hands on this very error (known to be non-nil here)
					if len(r.Results) > 0 && derivesFromErr(r.Results[len(r.Results)-1], e, 0) {
						continue
					}
					bad = c.IPos(r)
				}
			}
			c.R.Check(bad == "", rule, name(f), construct, c.IPos(i), what,
				"after the error of "+label+" was found to be non-nil the successful return at "+bad+" is still reachable (the error went into a variable that is not the one returned, or the branch falls through): a truncated or failing input is handed out as a decoded value with a nil error")
		})
	}
	c.scopeGuard(rule, sites, 4, "error-returning reads and sub-decoder calls in the cone of the signature decoders")
}

// carriesErr: v is e, a load of the cell e was stored to, or a phi that
// (through further phis) takes e on one of its edges.
func carriesErr(v, e ssa.Value, depth int) bool {
	if sameErrValue(v, e) {
		return true
	}
	if ph, ok := v.(*ssa.Phi); ok && depth < 6 {
		for _, ed := range ph.Edges {
			if ed != v && carriesErr(ed, e, depth+1) {
				return true
			}
		}
	}
	return false
}

// ---------------------------------------------------------------- A-d.size-min

// factSizeMin: the list's SignatureSize is at least 16 (the owner GUID): an
// edge on which a comparison of the Size field with a constant implies it.
var factSizeMin = &fact{id: "size-min", what: "the list's signature size is at least 16, the size of the signature owner (whatever the number of entries)",
	subject: []string{fSize},
	direct: func(c *Ctx, fn *ssa.Function, ce ir.CondEdge) bool {
		cmp, ok := ce.Cond.(*ssa.BinOp)
		if !ok {
			return false
		}
		x, y, op := cmp.X, cmp.Y, cmp.Op
		if _, isK := ir.ConstInt(x); isK {
			x, y, op = y, x, flip(op)
		}
		k, isK := ir.ConstInt(y)
		if !isK {
			return false
		}
		if !ce.Truth {
			op = negate(op)
		}
		switch {
		case op == token.GEQ && k >= 16, op == token.GTR && k >= 15, op == token.EQL && k >= 16:
		default:
			return false
		}
		x = ir.StripConv(x)
		return ir.FieldID(x) == fSize || copiedIntoField(fn, x, fSize)
	},
	undecided: func(c *Ctx, fn *ssa.Function) string {
		// the bound is tested on a copy of the field (a parameter of a validation helper
		// that reads no input itself): which calls it stands for is not evaluated
		for _, g := range c.cone(fn) {
			if g == fn || c.readCone()[g] {
				continue
			}
			for _, h := range withAnon(g) {
				for _, ce := range ir.CondEdges(h) {
					if k, op, x, ok := constCompare(ce); ok && sizeMinImplied(op, k) && isListSizeField(c, h, x) {
						return "the lower bound is tested in " + name(h) + " on a copy of the field"
					}
				}
			}
		}
		return ""
	}}

func sizeMinImplied(op token.Token, k int64) bool {
	return op == token.GEQ && k >= 16 || op == token.GTR && k >= 15 || op == token.EQL && k >= 16
}

// constCompare decodes the edge as "x op k" with k a constant (op as it holds on the edge).
func constCompare(ce ir.CondEdge) (k int64, op token.Token, x ssa.Value, ok bool) {
	cmp, isB := ce.Cond.(*ssa.BinOp)
	if !isB {
		return 0, 0, nil, false
	}
	x, y, op := cmp.X, cmp.Y, cmp.Op
	if _, isK := ir.ConstInt(x); isK {
		x, y, op = y, x, flip(op)
	}
	k, isK := ir.ConstInt(y)
	if !isK {
		return 0, 0, nil, false
	}
	switch op {
	case token.EQL, token.NEQ, token.LSS, token.LEQ, token.GTR, token.GEQ:
	default:
		return 0, 0, nil, false
	}
	if !ce.Truth {
		op = negate(op)
	}
	return k, op, x, true
}

// isListSizeField: v is the SignatureSize of the list being decoded: a load of
// the Size field, a header field copied into it, or a plain copy of it (a
// parameter or local the field was handed to) - not a number computed from it.
func isListSizeField(c *Ctx, fn *ssa.Function, v ssa.Value) bool {
	v = ir.StripConv(v)
	if ir.FieldID(v) == fSize || copiedIntoField(fn, v, fSize) {
		return true
	}
	switch v.(type) {
	case *ssa.Parameter, *ssa.Phi, *ssa.UnOp, *ssa.FreeVar:
	default:
		return false
	}
	if u, isU := v.(*ssa.UnOp); isU && u.Op != token.MUL {
		return false
	}
	sl := c.sliceOf(v)
	if !ir.HasField(sl, fSize) {
		return false
	}
	for w := range sl {
		switch x := w.(type) {
		case *ssa.BinOp:
			// arithmetic on the way: not the field itself
			switch x.Op {
			case token.ADD, token.SUB, token.MUL, token.QUO, token.REM, token.SHL, token.SHR, token.AND, token.OR, token.XOR:
				return false
			}
		case *ssa.FieldAddr, *ssa.Field:
			if id := ir.FieldID(x.(ssa.Value)); strings.HasPrefix(id, sigPkg+".SignatureList.") && id != fSize {
				return false
			}
		}
	}
	return true
}

// ---------------------------------------------------------------- G12.exact (re-bound stream)

// ruleStreamRebound complements ruleExactConsumption, which identifies the
// stream by the decoder's parameter object: when the parameter variable is
// assigned a second value (f = bufio.NewReader(f)) its later uses no longer
// resolve to the parameter. Here every read-ahead / read-to-end consumer in the
// decoder's call cone is looked at from its own side: the value it drains must
// not derive from a stream parameter of the decoder.
func (c *Ctx) ruleStreamRebound(rule string, decoders ...*ssa.Function) {
	over := map[string]int{
		"bufio.NewReader": 0, "bufio.NewReaderSize": 0, "bufio.NewScanner": 0, "io.ReadAll": 0, "io/ioutil.ReadAll": 0,
		"io.Copy": 1, "io.CopyBuffer": 1, "bytes.Buffer.ReadFrom": 1, "bufio.Reader.Reset": 1,
	}
	for _, dec := range decoders {
		var streams []*ssa.Parameter
		for _, p := range dec.Params {
			if isStreamType(p.Type()) {
				streams = append(streams, p)
			}
		}
		if len(streams) == 0 {
			continue // ruleExactConsumption reports the missing stream
		}
		n := 0
		bad := ""
		doneF := map[*ssa.Function]bool{}
		for _, g := range c.cone(dec) {
			if g != dec {
				// a helper is judged with its own stream parameters (they carry the decoder's stream)
				found := false
				for _, p := range g.Params {
					if isStreamType(p.Type()) {
						found = true
					}
				}
				if !found {
					continue
				}
			}
			for _, f := range withAnon(g) {
				if doneF[f] {
					continue
				}
				doneF[f] = true
				instrsOf(f, func(i ssa.Instruction) {
					call, ok := i.(*ssa.Call)
					if !ok {
						return
					}
					idx, isOver := over[ir.CallID(call)]
					args := ir.CallArgs(call)
					if !isOver || idx >= len(args) {
						return
					}
					n++
					if p := streamParamBehind(args[idx], 0, map[ssa.Value]bool{}); p != nil && topFn(p.Parent()) == topFn(g) {
						bad = "the decoder's input stream is handed to " + ir.CallID(call) + " at " + c.IPos(call) + ", which reads ahead of (or past) the declared length: the bytes that follow the structure are taken from the caller's stream and lost with the wrapper"
					}
				})
			}
		}
		c.R.Check(bad == "", rule, name(dec), "stream-rebound", c.Pos(dec.Pos()),
			fmt.Sprintf("no read-ahead or read-to-end consumer in the decoder's call cone drains a value derived from its stream parameter (%d such consumer call(s) examined)", n), bad)
	}
}

// streamParamBehind: v is a stream parameter itself, seen through interface
// conversions, type assertions, phis and the variable it was spilled to (every
// value stored to that variable counts) - not through a call: a bounded view
// (io.LimitReader) or any other wrapper is a different reader.
func streamParamBehind(v ssa.Value, depth int, seen map[ssa.Value]bool) *ssa.Parameter {
	if v == nil || depth > 10 || seen[v] {
		return nil
	}
	seen[v] = true
	switch x := v.(type) {
	case *ssa.Parameter:
		if isStreamType(x.Type()) {
			return x
		}
	case *ssa.MakeInterface:
		return streamParamBehind(x.X, depth+1, seen)
	case *ssa.ChangeInterface:
		return streamParamBehind(x.X, depth+1, seen)
	case *ssa.ChangeType:
		return streamParamBehind(x.X, depth+1, seen)
	case *ssa.TypeAssert:
		return streamParamBehind(x.X, depth+1, seen)
	case *ssa.Extract:
		if ta, ok := x.Tuple.(*ssa.TypeAssert); ok && x.Index == 0 {
			return streamParamBehind(ta.X, depth+1, seen)
		}
	case *ssa.Phi:
		for _, e := range x.Edges {
			if p := streamParamBehind(e, depth+1, seen); p != nil {
				return p
			}
		}
	case *ssa.UnOp:
		if x.Op != token.MUL {
			return nil
		}
		var cell *ssa.Alloc
		switch a := x.X.(type) {
		case *ssa.Alloc:
			cell = a
		case *ssa.FreeVar:
			cell, _ = ir.FreeVarBinding(a).(*ssa.Alloc)
		}
		if cell == nil {
			return nil
		}
		for _, f := range withAnon(topFn(cell.Parent())) {
			var hit *ssa.Parameter
			instrsOf(f, func(i ssa.Instruction) {
				st, ok := i.(*ssa.Store)
				if !ok || hit != nil {
					return
				}
				target := st.Addr
				if fv, isFV := target.(*ssa.FreeVar); isFV {
					target = ir.FreeVarBinding(fv)
				}
				if target == ssa.Value(cell) {
					hit = streamParamBehind(st.Val, depth+1, seen)
				}
			})
			if hit != nil {
				return hit
			}
		}
	}
	return nil
}

// ---------------------------------------------------------------- K11.exact

func sigDataTyped(v ssa.Value) bool {
	return ir.NamedTypeID(ir.StripIface(v).Type()) == sigPkg+".SignatureData"
}

// equalityOver: the edge is the "equal" outcome of a comparison both of whose
// operands derive from field fieldID of a signature entry (or are whole
// entries), one of them from the entries of a list and the other not only.
func equalityOver(c *Ctx, ce ir.CondEdge, fieldID string) bool {
	var a, b ssa.Value
	switch x := ce.Cond.(type) {
	case *ssa.Call:
		switch ir.CallID(x) {
		case M + "/efi/util.CmpEFIGUID", "bytes.Equal", "reflect.DeepEqual", "slices.Equal":
			if len(x.Call.Args) != 2 || !ce.Truth {
				return false
			}
			a, b = x.Call.Args[0], x.Call.Args[1]
		default:
			return false
		}
	case *ssa.BinOp:
		switch {
		case x.Op == token.EQL && ce.Truth, x.Op == token.NEQ && !ce.Truth:
			a, b = x.X, x.Y
			// bytes.Compare(a, b) == 0
			if k, isK := ir.ConstInt(b); isK && k == 0 {
				if call := callOf(ir.StripConv(a)); call != nil && ir.CallID(call) == "bytes.Compare" && len(call.Call.Args) == 2 {
					a, b = call.Call.Args[0], call.Call.Args[1]
				}
			}
		default:
			return false
		}
	default:
		return false
	}
	// each operand is the field of an entry (or a whole entry), and they are two entries
	oa, ob := entryOperand(a, fieldID), entryOperand(b, fieldID)
	if os.Getenv("VCHECK_DEBUG") == "k11" {
		fmt.Fprintf(os.Stderr, "k11 %s: %v | a=%v(%q) b=%v(%q)\n", fieldID, ce.Cond, a, oa, b, ob)
	}
	return oa != "" && ob != "" && oa != ob
}

// entryOperand: v is field fieldID of a signature entry, or a whole entry (by
// value, by pointer, or its serialisation): the access path of the entry ("" if not).
func entryOperand(v ssa.Value, fieldID string) string {
	v = ir.StripIface(ir.StripConv(v))
	if call := callOf(v); call != nil && ir.CallID(call) == sigPkg+".SignatureData.Bytes" && len(call.Call.Args) > 0 {
		return "entry:" + ir.AccessPath(call.Call.Args[0])
	}
	if sl, ok := v.(*ssa.Slice); ok {
		v = sl.X
	}
	if isWholeEntry(v) {
		if u, ok := v.(*ssa.UnOp); ok && u.Op == token.MUL {
			return "entry:" + ir.AddrPath(u.X)
		}
		return "entry:" + ir.AccessPath(v)
	}
	if ir.FieldID(v) != fieldID {
		return ""
	}
	switch x := v.(type) {
	case *ssa.UnOp:
		if fa, ok := x.X.(*ssa.FieldAddr); ok {
			return "entry:" + ir.AddrPath(fa.X)
		}
	case *ssa.Field:
		return "entry:" + ir.AccessPath(x.X)
	case *ssa.FieldAddr:
		return "entry:" + ir.AddrPath(x.X)
	}
	return ""
}

func isWholeEntry(v ssa.Value) bool {
	t := ir.StripIface(v).Type()
	if p, ok := t.Underlying().(*types.Pointer); ok {
		t = p.Elem()
	}
	return ir.NamedTypeID(t) == sigPkg+".SignatureData"
}

func membershipFact(id, field, what string) *fact {
	f := &fact{id: id, what: what}
	f.direct = func(c *Ctx, fn *ssa.Function, ce ir.CondEdge) bool { return equalityOver(c, ce, field) }
	f.undecided = func(c *Ctx, fn *ssa.Function) string {
		// the comparison is not in the predicate itself
		for _, ce := range ir.CondEdges(fn) {
			if equalityOver(c, ce, field) {
				return ""
			}
		}
		for _, g := range c.cone(fn) {
			if g == fn {
				continue
			}
			for _, h := range withAnon(g) {
				for _, ce := range ir.CondEdges(h) {
					if equalityOver(c, ce, field) {
						return "the comparison is made in " + name(h) + ", whose result reaches the predicate's answer in a way the path engine does not follow"
					}
				}
				for _, r := range ir.Returns(h) {
					for _, rv := range r.Results {
						// (a && b is returned as a phi of false and the last conjunct)
						vals := []ssa.Value{rv}
						if ph, isPhi := rv.(*ssa.Phi); isPhi {
							vals = ph.Edges
						}
						for _, v := range vals {
							core, neg := ir.Peel(v)
							if equalityOver(c, ir.CondEdge{Cond: core, Truth: !neg}, field) {
								return "the comparison is made in " + name(h) + ", whose result reaches the predicate's answer in a way the path engine does not follow"
							}
						}
					}
				}
			}
		}
		for _, h0 := range fn.AnonFuncs {
			for _, h := range withAnon(h0) {
				for _, ce := range ir.CondEdges(h) {
					if equalityOver(c, ce, field) {
						return "the comparison is made in a function literal"
					}
				}
				for _, r := range ir.Returns(h) {
					for _, rv := range r.Results {
						vals := []ssa.Value{rv}
						if ph, isPhi := rv.(*ssa.Phi); isPhi {
							vals = ph.Edges
						}
						for _, v := range vals {
							core, neg := ir.Peel(v)
							if equalityOver(c, ir.CondEdge{Cond: core, Truth: !neg}, field) {
								return "the comparison is made in a function literal"
							}
						}
					}
				}
			}
		}
		return ""
	}
	return f
}

var factOwnerEq = membershipFact("owner", sigPkg+".SignatureData.Owner", "the entry's owner equals the owner asked for (an exact comparison, for every owner value)")
var factDataEq = membershipFact("data", sigPkg+".SignatureData.Data", "the entry's data equals the data asked for")

// ruleExactMembership (K11.exact): the predicate on whose word the list-level
// append refuses a duplicate and the list-level removal picks the entry to
// delete says "found" only for an entry with the same owner AND the same data.
func (c *Ctx) ruleExactMembership(rule string) {
	preds := map[*ssa.Function]bool{}
	if ex := c.FnOpt("efi/signature.(*SignatureList).Exists"); ex != nil {
		preds[ex] = true
	}
	for _, spec := range []string{"efi/signature.(*SignatureList).AppendBytes", "efi/signature.(*SignatureList).RemoveBytes"} {
		fn := c.FnOpt(spec)
		if fn == nil {
			continue
		}
		for _, g := range c.cone(fn) {
			for _, ce := range ir.CondEdges(g) {
				if _, ok := c.membershipEdge(ce); !ok {
					continue
				}
				call := callOf(ce.Cond)
				if call == nil {
					if bo, isB := ce.Cond.(*ssa.BinOp); isB {
						if call = callOf(ir.StripConv(bo.X)); call == nil {
							call = callOf(ir.StripConv(bo.Y))
						}
					}
				}
				if call == nil {
					continue
				}
				if callee := ir.Callee(call); callee != nil && callee.Blocks != nil && c.P.InLib(callee) {
					preds[callee] = true
				}
			}
		}
	}
	var list []*ssa.Function
	for p := range preds {
		list = append(list, p)
	}
	sort.Slice(list, func(i, j int) bool { return name(list[i]) < name(list[j]) })
	if len(list) == 0 {
		c.R.Infof(rule, "-", "predicate", "-", "not decided for this shape: no membership predicate of the signature list found (the duplicate test and the removal lookup are written inline)")
		return
	}
	e := c.accept()
	for _, p := range list {
		rs := p.Signature.Results()
		verdict := rs.Len() > 0 && (isBoolType(rs.At(0).Type()) || rs.Len() > 1 && isBoolType(rs.At(rs.Len()-1).Type()))
		if !verdict {
			c.R.Infof(rule, name(p), "verdict", c.Pos(p.Pos()), "not decided for this shape: the membership predicate does not answer with a boolean (an index or a pointer stands for \"found\")")
			continue
		}
		e.Require(rule, p, []*fact{factOwnerEq, factDataEq})
	}
}

// ---------------------------------------------------------------- K0.atomic (loop)

// ruleRepeatedMutator extends K0.atomic. ruleErrorChangesNothing takes the
// failure of a later step on the receiver for that step's own atomicity; that
// holds for one step. A mutator that is called in a loop can succeed on one
// iteration and fail on a later one: if that failure fails the operation, the
// operation reports an error after it changed the collection.
func (c *Ctx) ruleRepeatedMutator(rule string, top *ssa.Function) {
	n := 0
	bad := ""
	for _, fn := range c.cone(top) {
		if fn != top && fn.Object() != nil && fn.Object().Exported() {
			continue // exported operations are judged on their own
		}
		if !hasErrorResult(fn) {
			continue
		}
		loops := naturalLoops(fn)
		if len(loops) == 0 {
			continue
		}
		for _, call := range c.mutatorCalls(fn) {
			var in []*natLoop
			for _, l := range loops {
				if l.body[call.Block().Index] {
					in = append(in, l)
				}
			}
			if len(in) == 0 {
				continue
			}
			n++
			e, kept := errValue(call)
			if !kept || e == nil {
				continue // dropped or returned as it is: no later iteration after a tail return
			}
			// edges on which the call is known to have succeeded / failed
			var succ []*ssa.BasicBlock
			fail, _, tested := failureEdges(fn, e)
			if !tested {
				continue
			}
			for _, b := range fn.Blocks {
				if len(b.Succs) != 2 {
					continue
				}
				ifi, isIf := b.Instrs[len(b.Instrs)-1].(*ssa.If)
				if !isIf {
					continue
				}
				if v, nilWhenTrue, isNil := ir.NilCheck(ifi.Cond); isNil && sameErrValue(v, e) {
					if nilWhenTrue {
						succ = append(succ, b.Succs[0])
					} else {
						succ = append(succ, b.Succs[1])
					}
				}
			}
			// can the call run again after it succeeded?
			again := false
			for _, st := range succ {
				seen, _ := ir.Reach(fn, st, nil)
				if seen[call.Block().Index] {
					for _, l := range in {
						if l.body[st.Index] || seen[l.header.Index] {
							again = true
						}
					}
				}
			}
			if !again {
				continue
			}
			// does its failure fail the operation?
			for _, fe := range fail {
				for r, cl := range retClassesFrom(fn, fn.Blocks[fe.To], fe.From) {
					if cl == "success" {
						continue
					}
					if cl == "maybe" && len(r.Results) > 0 && !derivesFromErr(r.Results[len(r.Results)-1], e, 0) {
						continue
					}
					bad = "the mutator " + name(ir.Callee(call)) + " is called in a loop at " + c.IPos(call) + ": after it succeeded on one iteration it can fail on a later one, and that failure is returned at " + c.IPos(r) + " with the earlier changes left in the collection"
				}
			}
		}
	}
	c.R.Check(bad == "", rule, name(top), "loop:error=>unchanged", c.Pos(top.Pos()),
		fmt.Sprintf("no mutator that can run more than once in one call of the operation can fail the operation after an earlier run succeeded (%d mutator call(s) in loops examined)", n), bad)
}

// ---------------------------------------------------------------- K2.decoded

// ruleDecodedEntriesKept (K2.decoded): the list decoder takes ListSize and
// SignatureSize from the stream, so the equation ListSize = 28 + n*Size holds for
// the list it hands out only if each of the n entries it reads in its entry
// loop is kept. (That a whole sub-decoder result is discarded is C07's G2.kept.)
func (c *Ctx) ruleDecodedEntriesKept(rule string, rl *ssa.Function, anchored ...*ssa.Function) {
	n := 0
	counts := map[string]int{}
	skip := map[*ssa.Function]bool{}
	for _, a := range anchored {
		if a != nil {
			skip[a] = true
		}
	}
	for _, g := range c.cone(rl) {
		if skip[g] || g != rl && g.Object() != nil && g.Object().Exported() {
			continue
		}
		for _, f := range withAnon(g) {
			f := f
			if skip[f] {
				continue
			}
			skip[f] = true
			instrsOf(f, func(i ssa.Instruction) {
				call, ok := i.(*ssa.Call)
				if !ok || !inLoop(f, call.Block()) {
					return
				}
				callee := calleeOrClosure(call)
				if callee == nil || !c.P.InLib(callee) || !c.readCone()[callee] {
					return
				}
				rs := callee.Signature.Results()
				if rs.Len() != 2 || !isErrorType(rs.At(1).Type()) {
					return
				}
				used := false
				for _, r := range *call.Referrers() {
					if ex, ok := r.(*ssa.Extract); ok && ex.Index == 0 && ex.Referrers() != nil && len(*ex.Referrers()) > 0 {
						used = true
					}
				}
				if !used {
					return
				}
				n++
				key := ordinalKey(counts, name(rl)+":"+name(callee))
				c.keptOnEveryIteration(rule, rl, f, call, strings.TrimPrefix(key, name(rl)+":"))
			})
		}
	}
	if n == 0 {
		c.R.Infof(rule, name(rl), "entry-loop", c.Pos(rl.Pos()), "not decided for this shape: no loop of the list decoder calls a sub-decoder whose value it uses")
	}
}
