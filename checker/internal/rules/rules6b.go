package rules

import (
	"go/constant"
	"go/token"
	"go/types"
	"sort"
	"strings"

	"golang.org/x/tools/go/ssa"

	"verif/checker/internal/ir"
)

// Rules of the sixth round for the pkcs7 / authenticode cluster.
//
//	R.recurse     no call cycle among the library functions the decoders reach (C13, C14)
//	B.selfformat  a String/Error/Format/GoString method does not format its own receiver with a verb that calls it again (C13, C14)
//	T12.rehash    a pass over the whole hashed stream inside a loop over input-controlled entries leaves the loop (C13)
//	J9.unbounded  no bounded view between the image reader and the hash (C02, C01, C05)
//	A.sig-exact   the signature verified is exactly the parsed encrypted digest (C04, C02)
//	N4.partial    a pointer field of a parsed structure is set on every successful path or tested before use (C13, C04)
//	L5.sid        the signer is named by issuer and serial number on every path of the emitter (C05)

var c13Pkgs = []string{"authenticode", "pkcs7"}
var c14Pkgs = []string{"efi/signature", "efi/device", "efi/util", "efivar", "efivarfs", "efivarfs/fswrapper", "efivarfs/testfs", "efi/attributes"}

func init() {
	Extras["C13"] = append(Extras["C13"], func(c *Ctx) {
		reach, _ := c.scope(c13Pkgs...)
		in := func(fn *ssa.Function) bool { return reach[fn] && c.P.InLib(fn) }
		c.ruleNoRecursion("R.recurse", in)
		c.ruleSelfFormat("B.selfformat", in)
		c.ruleRehash("T12.rehash", in)
	})
	for _, p := range []string{"C02", "C01", "C05"} {
		Extras[p] = append(Extras[p], func(c *Ctx) { c.ruleUnboundedHash("J9.unbounded") })
	}
	for _, p := range []string{"C04", "C02"} {
		Extras[p] = append(Extras[p], func(c *Ctx) { c.ruleSigExact("A.sig-exact") })
	}
	for _, p := range []string{"C13", "C04"} {
		Extras[p] = append(Extras[p], func(c *Ctx) { c.ruleNilPartial("N4.partial") })
	}
	Extras["C05"] = append(Extras["C05"], func(c *Ctx) { c.ruleSignerIdentifierShape("L5.sid") })
	Extras["C14"] = append(Extras["C14"], func(c *Ctx) {
		reach, _ := c.scope(c14Pkgs...)
		in := func(fn *ssa.Function) bool { return reach[fn] && c.P.InLib(fn) }
		c.ruleNoRecursion("R.recurse", in)
		c.ruleSelfFormat("B.selfformat", in)
	})
}

// ---------------------------------------------------------------- R.recurse

// ruleNoRecursion: the library functions in scope form no call cycle (closures
// count as part of the function that creates them; calls are the statically
// resolved ones - a call through an interface or an unresolved function value is
// not an edge). A cycle that carries an integer parameter which is compared with
// a constant and handed on changed is a depth-limited recursion: not decided.
func (c *Ctx) ruleNoRecursion(rule string, in func(*ssa.Function) bool) {
	what := "no library function reachable from the exported decoders takes part in a call cycle: the depth of a recursion is chosen by the input (nesting, a method that formats its own receiver), and a goroutine stack that outgrows its limit ends the process"
	var nodes []*ssa.Function
	idx := map[*ssa.Function]int{}
	for _, fn := range c.P.LibFunctions() {
		if fn.Parent() != nil || fn.Blocks == nil || !in(fn) {
			continue
		}
		for _, g := range withAnon(fn) {
			idx[g] = len(nodes)
			nodes = append(nodes, g)
		}
	}
	type edge struct {
		to   int
		call ssa.CallInstruction
	}
	adj := make([][]edge, len(nodes))
	for k, fn := range nodes {
		// a closure may be invoked by the function that creates it (or by whoever that hands it to)
		for _, an := range fn.AnonFuncs {
			if j, ok := idx[an]; ok {
				adj[k] = append(adj[k], edge{j, nil})
			}
		}
		k := k
		instrsOf(fn, func(i ssa.Instruction) {
			call, ok := i.(ssa.CallInstruction)
			if !ok {
				return
			}
			callee := ir.Callee(call)
			if callee == nil {
				return
			}
			if o := callee.Origin(); o != nil {
				callee = o
			}
			if j, ok := idx[callee]; ok {
				adj[k] = append(adj[k], edge{j, call})
			}
		})
	}
	// Tarjan
	n := len(nodes)
	index := make([]int, n)
	low := make([]int, n)
	on := make([]bool, n)
	for i := range index {
		index[i] = -1
	}
	var stack []int
	var sccs [][]int
	cnt := 0
	var strong func(v int)
	strong = func(v int) {
		index[v], low[v] = cnt, cnt
		cnt++
		stack = append(stack, v)
		on[v] = true
		for _, e := range adj[v] {
			if index[e.to] < 0 {
				strong(e.to)
				if low[e.to] < low[v] {
					low[v] = low[e.to]
				}
			} else if on[e.to] && index[e.to] < low[v] {
				low[v] = index[e.to]
			}
		}
		if low[v] == index[v] {
			var comp []int
			for {
				w := stack[len(stack)-1]
				stack = stack[:len(stack)-1]
				on[w] = false
				comp = append(comp, w)
				if w == v {
					break
				}
			}
			sccs = append(sccs, comp)
		}
	}
	for v := 0; v < n; v++ {
		if index[v] < 0 {
			strong(v)
		}
	}
	cycles := 0
	for _, comp := range sccs {
		inComp := map[int]bool{}
		for _, v := range comp {
			inComp[v] = true
		}
		var back []edge
		var from []int
		for _, v := range comp {
			for _, e := range adj[v] {
				if inComp[e.to] && (len(comp) > 1 || e.to == v) {
					back = append(back, e)
					from = append(from, v)
				}
			}
		}
		if len(back) == 0 {
			continue
		}
		cycles++
		var names []string
		seenName := map[string]bool{}
		for _, v := range comp {
			if nm := name(topFn(nodes[v])); !seenName[nm] {
				seenName[nm] = true
				names = append(names, nm)
			}
		}
		sort.Strings(names)
		construct := "cycle:" + strings.Join(names, ",")
		// a depth parameter: every call of the cycle hands on an integer derived from an integer parameter
		// of the calling function that this function compares with a constant
		limited := true
		var first ssa.CallInstruction
		for k, e := range back {
			if e.call == nil {
				continue
			}
			if first == nil {
				first = e.call
			}
			if !depthLimitedCall(nodes[from[k]], e.call) {
				limited = false
			}
		}
		if first == nil {
			continue
		}
		pos := c.IPos(first)
		// is the depth chosen by the data? some function of the cycle takes its input apart (a consuming read)
		parses := false
		for _, v := range comp {
			instrsOf(nodes[v], func(i ssa.Instruction) {
				if c.readOf(i) != nil {
					parses = true
				}
				if call, ok := i.(ssa.CallInstruction); ok && consumingIDs[ir.CallID(call)] {
					parses = true
				}
			})
		}
		if !parses {
			c.R.Infof(rule, names[0], construct, pos, "not decided for this shape: the functions call each other in a cycle, but none of them reads from the data being decoded; what bounds the depth (a list fixed by the program, a structure built earlier) is not evaluated")
			continue
		}
		if limited {
			c.R.Infof(rule, names[0], construct, pos, "not decided for this shape: the functions call each other in a cycle, and every call of the cycle hands on an integer that the caller compares with a constant (a depth limit); whether the limit is small enough is not evaluated")
			continue
		}
		c.R.Violf(rule, names[0], construct, pos, what,
			"call cycle "+strings.Join(names, " -> ")+" (call at "+pos+") without a depth parameter that is compared with a constant: how deep it goes is decided by the data being decoded")
	}
	c.R.Okf(rule, "-", "scope", "-", "the statically resolved calls among the library functions in scope were searched for cycles")
	_ = cycles
}

// depthLimitedCall: some argument of the call is an integer computed from an
// integer parameter of the calling function (p+1, p-1) and the calling function
// compares that parameter with a constant.
func depthLimitedCall(caller *ssa.Function, call ssa.CallInstruction) bool {
	for _, a := range call.Common().Args {
		b, ok := ir.StripConv(a).(*ssa.BinOp)
		if !ok || (b.Op != token.ADD && b.Op != token.SUB) {
			continue
		}
		p, ok := ir.StripConv(b.X).(*ssa.Parameter)
		if !ok {
			continue
		}
		if bt, isB := p.Type().Underlying().(*types.Basic); !isB || bt.Info()&types.IsInteger == 0 {
			continue
		}
		if _, isK := b.Y.(*ssa.Const); !isK {
			continue
		}
		for _, ce := range ir.CondEdges(topFn(caller)) {
			cmp, ok := ce.Cond.(*ssa.BinOp)
			if !ok {
				continue
			}
			switch cmp.Op {
			case token.LSS, token.LEQ, token.GTR, token.GEQ, token.EQL, token.NEQ:
			default:
				continue
			}
			x, y := ir.StripConv(cmp.X), ir.StripConv(cmp.Y)
			_, xk := x.(*ssa.Const)
			_, yk := y.(*ssa.Const)
			if x == ssa.Value(p) && yk || y == ssa.Value(p) && xk {
				return true
			}
		}
	}
	return false
}

// ---------------------------------------------------------------- B.selfformat

var fmtMethodNames = map[string]bool{"String": true, "Error": true, "Format": true, "GoString": true}

// formattingCall: the call formats its variadic operands with package fmt's
// machinery. Returns the format string operand (nil for the Print family) and
// the variadic slice.
func formattingCall(call ssa.CallInstruction) (format ssa.Value, hasFormat bool, variadic ssa.Value, ok bool) {
	callee := call.Common().StaticCallee()
	if callee == nil || callee.Pkg == nil || callee.Signature == nil || !callee.Signature.Variadic() {
		return nil, false, nil, false
	}
	switch callee.Pkg.Pkg.Path() {
	case "fmt", "log", "github.com/pkg/errors", "errors":
	default:
		return nil, false, nil, false
	}
	ps := callee.Signature.Params()
	last := ps.At(ps.Len() - 1)
	sl, isSl := last.Type().Underlying().(*types.Slice)
	if !isSl {
		return nil, false, nil, false
	}
	if it, isI := sl.Elem().Underlying().(*types.Interface); !isI || it.NumMethods() != 0 {
		return nil, false, nil, false
	}
	args := call.Common().Args
	off := len(args) - ps.Len() // receiver of a method (log.Logger)
	if off < 0 {
		return nil, false, nil, false
	}
	variadic = args[len(args)-1]
	if ps.Len() >= 2 && strings.HasSuffix(callee.Name(), "f") {
		f := ps.At(ps.Len() - 2)
		if bt, isB := f.Type().Underlying().(*types.Basic); isB && bt.Info()&types.IsString != 0 {
			return args[len(args)-2], true, variadic, true
		}
	}
	return nil, false, variadic, true
}

// verbsOf: the verb (with its flags) that consumes each operand of a format
// string; ok=false for formats with explicit argument indexes.
func verbsOf(format string) (verbs []string, ok bool) {
	for i := 0; i < len(format); i++ {
		if format[i] != '%' {
			continue
		}
		i++
		flags := ""
		for i < len(format) && strings.ContainsRune("+-# 0", rune(format[i])) {
			flags += string(format[i])
			i++
		}
		for i < len(format) {
			ch := format[i]
			if ch == '[' {
				return nil, false
			}
			if ch == '*' {
				verbs = append(verbs, "*")
				i++
				continue
			}
			if ch >= '0' && ch <= '9' || ch == '.' {
				i++
				continue
			}
			break
		}
		if i >= len(format) {
			break
		}
		if format[i] == '%' {
			continue
		}
		verbs = append(verbs, flags+string(format[i]))
	}
	return verbs, true
}

// verbCalls: formatting an operand that has method m with this verb calls m.
func verbCalls(verb, m string) bool {
	if verb == "*" {
		return false
	}
	v := verb[len(verb)-1]
	sharp := strings.Contains(verb, "#")
	switch m {
	case "Format":
		return true
	case "GoString":
		return v == 'v' && sharp
	case "String", "Error":
		if v == 'v' && sharp {
			return false
		}
		return strings.ContainsRune("vsqxX", rune(v))
	}
	return false
}

// fromReceiver: v is the method's receiver, a load of it or a value the receiver
// was converted to and back.
func fromReceiver(fn *ssa.Function, v ssa.Value, depth int) bool {
	if depth > 6 || len(fn.Params) == 0 {
		return false
	}
	recv := fn.Params[0]
	switch x := v.(type) {
	case *ssa.Parameter:
		return x == recv
	case *ssa.ChangeType:
		return fromReceiver(fn, x.X, depth+1)
	case *ssa.Convert:
		return fromReceiver(fn, x.X, depth+1)
	case *ssa.UnOp:
		if x.Op == token.MUL {
			if a, ok := x.X.(*ssa.Alloc); ok {
				// a local copy of the receiver
				for _, r := range *a.Referrers() {
					if st, isSt := r.(*ssa.Store); isSt && st.Addr == ssa.Value(a) && fromReceiver(fn, st.Val, depth+1) {
						return true
					}
				}
				return false
			}
			return fromReceiver(fn, x.X, depth+1)
		}
	case *ssa.Alloc:
		for _, r := range *x.Referrers() {
			if st, isSt := r.(*ssa.Store); isSt && st.Addr == ssa.Value(x) && fromReceiver(fn, st.Val, depth+1) {
				return true
			}
		}
	case *ssa.Phi:
		for _, e := range x.Edges {
			if fromReceiver(fn, e, depth+1) {
				return true
			}
		}
	}
	return false
}

// ruleSelfFormat: inside a String/Error/Format/GoString method the receiver is
// not handed to package fmt under a verb that calls the same method again.
func (c *Ctx) ruleSelfFormat(rule string, in func(*ssa.Function) bool) {
	what := "a String/Error/Format/GoString method does not hand its own receiver (at a type that still has the method) to package fmt under a verb that calls the method again: the call never returns and the stack overflow ends the process"
	n := 0
	for _, top := range c.P.LibFunctions() {
		if top.Parent() != nil || top.Blocks == nil || top.Signature.Recv() == nil || !fmtMethodNames[top.Name()] {
			continue
		}
		// in scope: the method of a type the decoders hand out may be called by anyone who prints a result or an error;
		// the methods of the packages in scope are taken, reached or not
		if !in(top) && !c.samePkgInScope(top, in) {
			continue
		}
		mobj, _ := top.Object().(*types.Func)
		if mobj == nil {
			continue
		}
		n++
		counts := map[string]int{}
		found := false
		for _, g := range withAnon(top) {
			g := g
			instrsOf(g, func(i ssa.Instruction) {
				call, ok := i.(ssa.CallInstruction)
				if !ok {
					return
				}
				format, hasFormat, variadic, ok := formattingCall(call)
				if !ok {
					return
				}
				ops, ok := variadicArgs(variadic)
				if !ok {
					return
				}
				var verbs []string
				verbsKnown := true
				if hasFormat {
					k, isK := format.(*ssa.Const)
					if !isK || k.Value == nil || k.Value.Kind() != constant.String {
						verbsKnown = false
					} else if verbs, verbsKnown = verbsOf(constant.StringVal(k.Value)); !verbsKnown {
						verbs = nil
					}
				}
				for k, op := range ops {
					// does the operand's type still have this very method?
					sel := c.P.SSA.MethodSets.MethodSet(op.Type()).Lookup(mobj.Pkg(), mobj.Name())
					if sel == nil || sel.Obj() != types.Object(mobj) {
						continue
					}
					if g != top || !fromReceiver(top, op, 0) {
						continue
					}
					key := ordinalKey(counts, "self:"+shortID(ir.CallID(call)))
					found = true
					switch {
					case !hasFormat:
						c.R.Violf(rule, name(top), key, c.IPos(call), what,
							"the receiver is an operand of "+shortID(ir.CallID(call))+", which calls "+top.Name()+" on it again")
					case !verbsKnown:
						c.R.Infof(rule, name(top), key, c.IPos(call), "not decided for this shape: the receiver is an operand of "+shortID(ir.CallID(call))+" and the format is not a constant")
					case k >= len(verbs):
						c.R.Okf(rule, name(top), key, c.IPos(call), "the receiver is an operand no verb consumes")
					case verbCalls(verbs[k], top.Name()):
						c.R.Violf(rule, name(top), key, c.IPos(call), what,
							"the receiver is formatted with %"+verbs[k]+" by "+shortID(ir.CallID(call))+": for that verb package fmt calls the operand's "+top.Name()+" method, which is this method (convert the receiver to its underlying type first)")
					default:
						c.R.Okf(rule, name(top), key, c.IPos(call), "the receiver is formatted with %"+verbs[k]+", which does not call "+top.Name())
					}
				}
			})
		}
		if !found {
			c.R.Okf(rule, name(top), "self", c.Pos(top.Pos()), "the method hands its receiver to no formatting call at a type that has the method")
		}
	}
	c.R.Okf(rule, "-", "scope", "-", "the formatting methods of the packages in scope were examined")
	_ = n
}

// samePkgInScope: some function of fn's package is in scope.
func (c *Ctx) samePkgInScope(fn *ssa.Function, in func(*ssa.Function) bool) bool {
	if fn.Pkg == nil {
		return false
	}
	for _, m := range fn.Pkg.Members {
		if f, ok := m.(*ssa.Function); ok && in(f) {
			return true
		}
	}
	return false
}

// ---------------------------------------------------------------- hashed stream helpers

// hasMethods: the method set of t holds all the named methods.
func (c *Ctx) hasMethods(t types.Type, names ...string) bool {
	ms := c.P.SSA.MethodSets.MethodSet(t)
	for _, n := range names {
		found := false
		for i := 0; i < ms.Len(); i++ {
			if ms.At(i).Obj().Name() == n {
				found = true
				break
			}
		}
		if !found {
			return false
		}
	}
	return true
}

// isHashValue: v is (an interface conversion of) a value whose type is a hash
// (hash.Hash or anything with Write, Sum and BlockSize).
func (c *Ctx) isHashValue(v ssa.Value) bool {
	for d := 0; d < 6 && v != nil; d++ {
		if c.hasMethods(v.Type(), "Write", "Sum", "BlockSize") {
			return true
		}
		switch x := v.(type) {
		case *ssa.ChangeInterface:
			v = x.X
		case *ssa.MakeInterface:
			v = x.X
		case *ssa.ChangeType:
			v = x.X
		case *ssa.TypeAssert:
			v = x.X
		default:
			return false
		}
	}
	return false
}

var copyIDs = map[string]bool{"io.Copy": true, "io.CopyBuffer": true, "io.CopyN": true}

// hashesStreamHere: fn itself feeds a stream into a hash: io.Copy* into a hash;
// a whole-stream read (io.ReadAll, (*bytes.Buffer).ReadFrom) next to a Write on
// a hash; or a loop that both reads from a reader and writes to a hash.
func (c *Ctx) hashesStreamHere(fn *ssa.Function) ssa.Instruction {
	var hit ssa.Instruction
	var readAll, hashWrite, loopRead, loopWrite ssa.Instruction
	for _, g := range withAnon(fn) {
		g := g
		instrsOf(g, func(i ssa.Instruction) {
			call, ok := i.(ssa.CallInstruction)
			if !ok {
				return
			}
			id := ir.CallID(call)
			args := ir.CallArgs(call)
			switch {
			case copyIDs[id] && len(args) >= 2 && c.isHashValue(args[0]):
				if hit == nil {
					hit = i
				}
			case id == "io.ReadAll" || id == "io/ioutil.ReadAll" || id == "bytes.Buffer.ReadFrom":
				readAll = i
			case strings.HasSuffix(id, ".Write") && len(args) >= 1 && c.isHashValue(args[0]):
				hashWrite = i
				if inLoop(g, i.Block()) {
					loopWrite = i
				}
			case (id == "io.Reader.Read" || id == "io.ReadFull" || id == "io.ReadAtLeast" || strings.HasSuffix(id, ".Read") && len(args) >= 1 && implementsReader(args[0].Type())) && inLoop(g, i.Block()):
				loopRead = i
			}
		})
	}
	if hit != nil {
		return hit
	}
	if readAll != nil && hashWrite != nil {
		return readAll
	}
	if loopRead != nil && loopWrite != nil {
		return loopRead
	}
	return nil
}

// coneAllLib6b: fn and every library function (of any library package) it reaches
// through statically resolved calls, closures included.
func (c *Ctx) coneAllLib6b(fn *ssa.Function) []*ssa.Function {
	seen := map[*ssa.Function]bool{}
	var out []*ssa.Function
	var walk func(f *ssa.Function, d int)
	walk = func(f *ssa.Function, d int) {
		if f == nil || seen[f] || d > 8 || f.Blocks == nil || !c.P.InLib(f) {
			return
		}
		seen[f] = true
		out = append(out, f)
		for _, an := range f.AnonFuncs {
			walk(an, d+1)
		}
		instrsOf(f, func(i ssa.Instruction) {
			if call, ok := i.(ssa.CallInstruction); ok {
				if callee := ir.Callee(call); callee != nil {
					walk(callee, d+1)
				}
			}
		})
	}
	walk(fn, 0)
	return out
}

// streamHashers: the library functions whose cone feeds a stream into a hash.
func (c *Ctx) streamHashers() map[*ssa.Function]bool {
	direct := map[*ssa.Function]bool{}
	for _, fn := range c.P.LibFunctions() {
		if fn.Parent() == nil && fn.Blocks != nil && c.hashesStreamHere(fn) != nil {
			direct[fn] = true
		}
	}
	out := map[*ssa.Function]bool{}
	for _, fn := range c.P.LibFunctions() {
		if fn.Parent() != nil || fn.Blocks == nil {
			continue
		}
		for _, g := range c.coneAllLib6b(fn) {
			if direct[topFn(g)] {
				out[fn] = true
				break
			}
		}
	}
	return out
}

// ---------------------------------------------------------------- T12.rehash

// constBoundedLoop: the loop is left by a comparison of a counter with a constant.
func constBoundedLoop(fn *ssa.Function, l *natLoop) bool {
	for _, ce := range ir.CondEdges(fn) {
		if ce.Edge.From != l.header.Index || l.body[ce.Edge.To] {
			continue
		}
		if b, ok := ce.Cond.(*ssa.BinOp); ok {
			_, xk := ir.ConstInt(ir.StripConv(b.X))
			_, yk := ir.ConstInt(ir.StripConv(b.Y))
			if xk || yk {
				return true
			}
		}
	}
	return false
}

// ruleRehash: a pass over the whole hashed stream made inside a loop over
// entries of the input is not repeated for the next entry: from the pass every
// path leaves the loop. One obligation per class of path that does go on (after
// an error, after a negative verdict, after success, unconditionally).
func (c *Ctx) ruleRehash(rule string, in func(*ssa.Function) bool) {
	what := "a pass over the whole hashed image made for one entry of an input-controlled list is not made again for the next entry: the work of one call stays proportional to the image, not to image size times the number of entries the file declares"
	hashers := c.streamHashers()
	n := 0
	for _, fn := range c.P.LibFunctions() {
		if fn.Blocks == nil || !in(topFn(fn)) {
			continue
		}
		loops := naturalLoops(fn)
		if len(loops) == 0 {
			continue
		}
		counts := map[string]int{}
		for _, b := range fn.Blocks {
			for _, i := range b.Instrs {
				call, ok := i.(ssa.CallInstruction)
				if !ok {
					continue
				}
				isPass := false
				id := ir.CallID(call)
				args := ir.CallArgs(call)
				if copyIDs[id] && len(args) >= 2 && c.isHashValue(args[0]) {
					isPass = true
				} else if callee := ir.Callee(call); callee != nil && c.P.InLib(callee) && hashers[topFn(callee)] {
					isPass = true
				}
				if !isPass {
					continue
				}
				// the innermost loop around the call
				var loop *natLoop
				for _, l := range loops {
					if l.body[b.Index] && (loop == nil || len(l.body) < len(loop.body)) {
						loop = l
					}
				}
				if loop == nil {
					continue
				}
				n++
				if constBoundedLoop(fn, loop) {
					c.R.Okf(rule, name(fn), ordinalKey(counts, "loop-rehash:bounded"), c.IPos(i), "the loop around the pass over the stream is bounded by a constant")
					continue
				}
				classes := c.continuingClasses(fn, loop, b)
				base := ordinalKey(counts, "loop-rehash")
				if len(classes) == 0 {
					c.R.Okf(rule, name(fn), base, c.IPos(i), "after the pass over the stream ("+shortID(calleeLabel(call))+") every path leaves the loop")
					continue
				}
				for _, cl := range classes {
					construct := base + ":after-" + cl
					detail := map[string]string{
						"error":    "after an error of a call made for this entry (the pass itself, or the parse of the entry) the loop goes on to the next entry",
						"negative": "after a negative verdict for this entry the loop goes on to the next entry",
						"success":  "after the calls made for this entry succeeded the loop goes on to the next entry",
						"always":   "the loop goes on to the next entry whatever the pass returned",
					}[cl]
					c.R.Violf(rule, name(fn), construct, c.IPos(i), what,
						shortID(calleeLabel(call))+" reads the whole hashed stream, and "+detail+" and reads it again: a certificate table with many entries multiplies the hashing work of one Verify call by their number")
				}
			}
		}
	}
	c.R.Okf(rule, "-", "scope", "-", "the loops of the library functions in scope were searched for passes over the hashed stream")
	_ = n
}

func calleeLabel(call ssa.CallInstruction) string {
	if id := ir.CallID(call); id != "" {
		return id
	}
	if f := ir.Callee(call); f != nil {
		return name(f)
	}
	return "call"
}

// continuingClasses: the classes of paths that lead from block `from` back to
// the head of the loop without leaving it. A path is classed by the tests it
// crosses after the pass: an error value found non-nil ("error"), else a boolean
// result of a call found false ("negative"), else some such test passed
// ("success"), else no test at all ("always").
func (c *Ctx) continuingClasses(fn *ssa.Function, l *natLoop, from *ssa.BasicBlock) []string {
	type edgeKind int
	const (
		kNone edgeKind = iota
		kErr
		kNeg
		kPass
	)
	kinds := map[ir.Edge]edgeKind{}
	for _, ce := range ir.CondEdges(fn) {
		if ev, isNil := errIsNil(ce.Cond, ce.Truth); ev != nil {
			if isNil {
				kinds[ce.Edge] = kPass
			} else {
				kinds[ce.Edge] = kErr
			}
			continue
		}
		v := ce.Cond
		if ex, ok := v.(*ssa.Extract); ok {
			v = ex.Tuple
		}
		if _, isCall := v.(*ssa.Call); isCall && isBoolType(ce.Cond.Type()) {
			if ce.Truth {
				kinds[ce.Edge] = kPass
			} else {
				kinds[ce.Edge] = kNeg
			}
		}
	}
	// states: 0 none, 1 pass, 2 neg, 3 err (the strongest seen so far)
	type st struct{ b, s int }
	seen := map[st]bool{{from.Index, 0}: true}
	q := []st{{from.Index, 0}}
	reached := map[int]bool{}
	for len(q) > 0 {
		cur := q[0]
		q = q[1:]
		for _, s := range fn.Blocks[cur.b].Succs {
			if !l.body[s.Index] {
				continue
			}
			ns := cur.s
			switch kinds[ir.Edge{From: cur.b, To: s.Index}] {
			case kErr:
				ns = 3
			case kNeg:
				if ns < 2 {
					ns = 2
				}
			case kPass:
				if ns < 1 {
					ns = 1
				}
			}
			if s == l.header {
				reached[ns] = true
				continue
			}
			n := st{s.Index, ns}
			if !seen[n] {
				seen[n] = true
				q = append(q, n)
			}
		}
	}
	var out []string
	for k, nm := range []string{"always", "success", "negative", "error"} {
		if reached[k] {
			out = append(out, nm)
		}
	}
	return out
}

// ---------------------------------------------------------------- J9.unbounded

// ruleUnboundedHash: whatever feeds the hash in the cone of the signing and
// verifying entry points reads its source to the end: no io.LimitReader,
// io.LimitedReader, io.CopyN or constant-length section reader stands between
// the image and the hash.
func (c *Ctx) ruleUnboundedHash(rule string) {
	what := "the digest that is signed and verified covers the image to its end: nothing between the image reader and the hash stops after a fixed number of bytes (bytes beyond the bound could be changed under a valid signature)"
	var roots []*ssa.Function
	for _, spec := range []string{"authenticode.(*Authenticode).Verify", "authenticode.SignAuthenticode"} {
		if fn := c.Fn(rule, spec); fn != nil {
			roots = append(roots, fn)
		}
	}
	for _, spec := range []string{"authenticode.(*PECOFFBinary).Hash", "authenticode.(*PECOFFBinary).Verify", "authenticode.(*PECOFFBinary).Sign"} {
		if fn := c.FnOpt(spec); fn != nil {
			roots = append(roots, fn)
		}
	}
	inCone := map[*ssa.Function]bool{}
	var cone []*ssa.Function
	for _, r := range roots {
		for _, f := range c.coneAllLib6b(r) {
			if !inCone[f] {
				inCone[f] = true
				cone = append(cone, f)
			}
		}
	}
	sort.Slice(cone, func(i, j int) bool { return name(cone[i]) < name(cone[j]) })
	feeds := 0
	counts := map[string]int{}
	for _, fn := range cone {
		fn := fn
		instrsOf(fn, func(i ssa.Instruction) {
			call, ok := i.(ssa.CallInstruction)
			if !ok {
				return
			}
			id := ir.CallID(call)
			args := ir.CallArgs(call)
			if !copyIDs[id] || len(args) < 2 || !c.isHashValue(args[0]) {
				return
			}
			feeds++
			construct := ordinalKey(counts, name(fn)+"|hash-feed")
			construct = strings.TrimPrefix(construct, name(fn)+"|")
			if id == "io.CopyN" {
				if inLoop(fn, i.Block()) {
					c.R.Infof(rule, name(fn), construct, c.IPos(i), "not decided for this shape: the hash is fed by io.CopyN in a loop; whether the loop runs to the end of the stream is not evaluated")
					return
				}
				c.R.Violf(rule, name(fn), construct, c.IPos(i), what, "the hash is fed by a single io.CopyN: at most the given number of bytes of the image are hashed, the rest is not covered by the digest")
				return
			}
			b := c.boundOnSource(args[1], fn, inCone, map[ssa.Value]bool{}, 0)
			switch b.kind {
			case "const":
				c.R.Violf(rule, name(fn), construct, c.IPos(i), what,
					"the source of "+id+" into the hash is "+b.how+" with a fixed length (at "+b.pos+"): bytes of the image beyond that length are not hashed, so they can be changed without invalidating the signature")
			case "dynamic":
				c.R.Infof(rule, name(fn), construct, c.IPos(i), "not decided for this shape: the source of "+id+" into the hash is "+b.how+" (at "+b.pos+") with a computed length; whether that is the length of the stream is not evaluated")
			default:
				c.R.Okf(rule, name(fn), construct, c.IPos(i), "the hash is fed by "+id+" from a source that no bounded view was put around")
			}
		})
	}
	if feeds == 0 && len(roots) > 0 {
		c.R.Infof(rule, name(roots[0]), "hash-feed", c.Pos(roots[0].Pos()), "not decided for this shape: no io.Copy into a hash found in the cone of the signing and verifying entry points (the stream is hashed some other way)")
	}
}

type srcBound struct{ kind, how, pos string }

// fixedLength: a constant, or a package-level variable (a configured limit), as
// opposed to a length computed from the stream.
func fixedLength(v ssa.Value) bool {
	v = ir.StripConv(v)
	if _, ok := v.(*ssa.Const); ok {
		return true
	}
	if ld, ok := v.(*ssa.UnOp); ok && ld.Op == token.MUL {
		if _, isG := ld.X.(*ssa.Global); isG {
			return true
		}
	}
	if b, ok := v.(*ssa.BinOp); ok {
		return fixedLength(b.X) && fixedLength(b.Y)
	}
	return false
}

// boundOnSource follows a reader value back to where it comes from and reports
// a bounded view met on the way.
func (c *Ctx) boundOnSource(v ssa.Value, fn *ssa.Function, inCone map[*ssa.Function]bool, seen map[ssa.Value]bool, depth int) srcBound {
	if v == nil || seen[v] || depth > 12 {
		return srcBound{}
	}
	seen[v] = true
	merge := func(a, b srcBound) srcBound {
		if a.kind == "const" || b.kind == "" {
			return a
		}
		if b.kind == "const" || a.kind == "" {
			return b
		}
		return a
	}
	switch x := v.(type) {
	case *ssa.MakeInterface:
		return c.boundOnSource(x.X, fn, inCone, seen, depth+1)
	case *ssa.ChangeInterface:
		return c.boundOnSource(x.X, fn, inCone, seen, depth+1)
	case *ssa.ChangeType:
		return c.boundOnSource(x.X, fn, inCone, seen, depth+1)
	case *ssa.TypeAssert:
		return c.boundOnSource(x.X, fn, inCone, seen, depth+1)
	case *ssa.Phi:
		var out srcBound
		for _, e := range x.Edges {
			out = merge(out, c.boundOnSource(e, fn, inCone, seen, depth+1))
		}
		return out
	case *ssa.Extract:
		return c.boundOnSource(x.Tuple, fn, inCone, seen, depth+1)
	case *ssa.UnOp:
		if x.Op == token.MUL {
			// a local variable: what is stored into it
			var out srcBound
			if a, ok := x.X.(*ssa.Alloc); ok {
				for _, r := range *a.Referrers() {
					if st, isSt := r.(*ssa.Store); isSt && st.Addr == ssa.Value(a) {
						out = merge(out, c.boundOnSource(st.Val, fn, inCone, seen, depth+1))
					}
				}
			}
			return out
		}
	case *ssa.Alloc:
		if ir.NamedTypeID(x.Type().Underlying().(*types.Pointer).Elem()) == "io.LimitedReader" {
			kind := "dynamic"
			var inner srcBound
			for _, r := range *x.Referrers() {
				fa, ok := r.(*ssa.FieldAddr)
				if !ok {
					continue
				}
				for _, rr := range *fa.Referrers() {
					st, isSt := rr.(*ssa.Store)
					if !isSt || st.Addr != ssa.Value(fa) {
						continue
					}
					if strings.HasSuffix(ir.FieldID(fa), ".N") && fixedLength(st.Val) {
						kind = "const"
					}
					if strings.HasSuffix(ir.FieldID(fa), ".R") {
						inner = c.boundOnSource(st.Val, fn, inCone, seen, depth+1)
					}
				}
			}
			return merge(srcBound{kind, "an io.LimitedReader", c.Pos(x.Pos())}, inner)
		}
	case *ssa.Parameter:
		// the arguments of the calls in the cone
		var out srcBound
		pf := x.Parent()
		k := -1
		for j, p := range pf.Params {
			if p == x {
				k = j
			}
		}
		if k < 0 {
			return out
		}
		for g := range inCone {
			instrsOf(g, func(i ssa.Instruction) {
				call, ok := i.(ssa.CallInstruction)
				if !ok || ir.Callee(call) != pf {
					return
				}
				if args := call.Common().Args; k < len(args) {
					out = merge(out, c.boundOnSource(args[k], g, inCone, seen, depth+1))
				}
			})
		}
		return out
	case *ssa.Call:
		id := ir.CallID(x)
		args := ir.CallArgs(x)
		switch id {
		case "io.LimitReader":
			kind := "dynamic"
			if len(args) == 2 && fixedLength(args[1]) {
				kind = "const"
			}
			return merge(srcBound{kind, "an io.LimitReader", c.IPos(x)}, c.boundOnSource(args[0], fn, inCone, seen, depth+1))
		case "io.NewSectionReader":
			if len(args) == 3 && fixedLength(args[2]) {
				return srcBound{"const", "an io.SectionReader", c.IPos(x)}
			}
			return c.boundOnSource(args[0], fn, inCone, seen, depth+1)
		case "io.TeeReader", "bufio.NewReader", "bufio.NewReaderSize", "io.NopCloser":
			if len(args) > 0 {
				return c.boundOnSource(args[0], fn, inCone, seen, depth+1)
			}
		case "io.MultiReader":
			var out srcBound
			if ops, ok := readerList(args); ok {
				for _, o := range ops {
					out = merge(out, c.boundOnSource(o, fn, inCone, seen, depth+1))
				}
			}
			return out
		}
		if callee := ir.Callee(x); callee != nil && callee.Blocks != nil && c.P.InLib(callee) {
			var out srcBound
			for _, r := range ir.Returns(callee) {
				for _, res := range r.Results {
					if implementsReader(res.Type()) {
						out = merge(out, c.boundOnSource(res, callee, inCone, seen, depth+1))
					}
				}
			}
			return out
		}
	}
	return srcBound{}
}

// readerList: the elements of a variadic list of readers.
func readerList(args []ssa.Value) ([]ssa.Value, bool) {
	if len(args) != 1 {
		return nil, false
	}
	sl, ok := args[0].(*ssa.Slice)
	if !ok {
		return nil, false
	}
	a, ok := sl.X.(*ssa.Alloc)
	if !ok {
		return nil, false
	}
	var out []ssa.Value
	for _, r := range *a.Referrers() {
		if ia, ok := r.(*ssa.IndexAddr); ok {
			for _, rr := range *ia.Referrers() {
				if st, ok := rr.(*ssa.Store); ok && st.Addr == ssa.Value(ia) {
					out = append(out, st.Val)
				}
			}
		}
	}
	return out, true
}

// ---------------------------------------------------------------- A.sig-exact

// sigSinkArg: the signature operand of a signature-verification primitive.
func sigSinkArg(call ssa.CallInstruction) (ssa.Value, bool) {
	args := ir.CallArgs(call)
	switch ir.CallID(call) {
	case "crypto/x509.Certificate.CheckSignature":
		if len(args) == 4 {
			return args[3], true
		}
	case "crypto/rsa.VerifyPKCS1v15":
		if len(args) == 4 {
			return args[3], true
		}
	case "crypto/rsa.VerifyPSS":
		if len(args) == 5 {
			return args[3], true
		}
	case "crypto/ecdsa.VerifyASN1", "crypto/ed25519.Verify":
		if len(args) == 3 {
			return args[2], true
		}
	}
	return nil, false
}

type exLeaf struct {
	kind string // field, read, built, unknown, nil
	what string
	pos  string
}

// reshaping: standard-library calls that produce a byte slice which is not the operand.
func reshapingCall(id string) bool {
	for _, p := range []string{"bytes.", "slices.", "math/big.Int.", "encoding/hex.", "encoding/base64.", "strings."} {
		if strings.HasPrefix(id, p) {
			return true
		}
	}
	return false
}

// exactLeaves follows a byte-slice value back through operations that keep it
// exactly (conversions, whole-slice expressions, copies, local variables,
// parameters, results of library helpers) and lists where it comes from.
func (c *Ctx) exactLeaves(v ssa.Value, fn *ssa.Function, scope map[*ssa.Function]bool, seen map[ssa.Value]bool, depth int, out *[]exLeaf) {
	add := func(kind, what string, pos token.Pos) {
		*out = append(*out, exLeaf{kind, what, c.Pos(pos)})
	}
	if v == nil {
		return
	}
	if seen[v] {
		return
	}
	seen[v] = true
	if depth > 14 {
		add("unknown", "the value is followed no further", v.Pos())
		return
	}
	viaCall := func(call *ssa.Call, idx int) {
		id := ir.CallID(call)
		args := ir.CallArgs(call)
		switch {
		case id == "builtin.append":
			// append(nil, x...) / append([]byte{}, x...): a copy of x
			if len(args) == 2 {
				base := ir.StripConv(args[0])
				if k, isK := base.(*ssa.Const); isK && k.Value == nil {
					c.exactLeaves(args[1], fn, scope, seen, depth+1, out)
					return
				}
				if sl, isSl := base.(*ssa.Slice); isSl {
					if _, isA := sl.X.(*ssa.Alloc); isA {
						if at, ok := sl.X.Type().Underlying().(*types.Pointer).Elem().Underlying().(*types.Array); ok && at.Len() == 0 {
							c.exactLeaves(args[1], fn, scope, seen, depth+1, out)
							return
						}
					}
				}
			}
			add("built", "put together by append", call.Pos())
		case id == "bytes.Clone" || id == "slices.Clone":
			if len(args) == 1 {
				c.exactLeaves(args[0], fn, scope, seen, depth+1, out)
				return
			}
			add("unknown", id, call.Pos())
		case reshapingCall(id):
			add("built", "the result of "+id, call.Pos())
		default:
			callee := ir.Callee(call)
			if callee == nil || callee.Blocks == nil || !c.P.InLib(callee) {
				add("unknown", "the result of "+calleeLabel(call), call.Pos())
				return
			}
			n := 0
			for _, r := range ir.Returns(callee) {
				if idx < len(r.Results) {
					if ir.IsNilConst(r.Results[idx]) {
						continue
					}
					n++
					c.exactLeaves(r.Results[idx], callee, scope, seen, depth+1, out)
				}
			}
			if n == 0 {
				add("unknown", "the result of "+name(callee), call.Pos())
			}
		}
	}
	switch x := v.(type) {
	case *ssa.Const:
		if x.Value == nil {
			add("nil", "nil", x.Pos())
			return
		}
		add("built", "a constant", x.Pos())
	case *ssa.ChangeType:
		c.exactLeaves(x.X, fn, scope, seen, depth+1, out)
	case *ssa.Convert:
		c.exactLeaves(x.X, fn, scope, seen, depth+1, out)
	case *ssa.Slice:
		if x.Low == nil && x.High == nil && x.Max == nil {
			if _, isPtr := x.X.Type().Underlying().(*types.Pointer); !isPtr {
				c.exactLeaves(x.X, fn, scope, seen, depth+1, out)
				return
			}
			add("built", "a local array", x.Pos())
			return
		}
		add("built", "a sub-slice (part of a value, or a value re-sliced to another length)", x.Pos())
	case *ssa.Phi:
		for _, e := range x.Edges {
			c.exactLeaves(e, fn, scope, seen, depth+1, out)
		}
	case *ssa.MakeSlice:
		add("built", "a newly allocated slice (make) that is filled afterwards", x.Pos())
	case *ssa.Extract:
		if call, ok := x.Tuple.(*ssa.Call); ok {
			viaCall(call, x.Index)
			return
		}
		add("unknown", "a component of "+x.Tuple.Name(), x.Pos())
	case *ssa.Call:
		viaCall(x, 0)
	case *ssa.Field:
		add("field", ir.FieldID(x), x.Pos())
	case *ssa.UnOp:
		if x.Op != token.MUL {
			add("unknown", "an operator result", x.Pos())
			return
		}
		switch a := x.X.(type) {
		case *ssa.FieldAddr:
			add("field", ir.FieldID(a), x.Pos())
		case *ssa.Alloc:
			// the out-parameter cell of a cryptobyte read, or a local variable
			nReads, nStores := 0, 0
			owner := a.Parent()
			instrsOf(owner, func(i ssa.Instruction) {
				if r := c.readOf(i); r != nil {
					for _, o := range r.outs {
						if o == ssa.Value(a) {
							nReads++
							add("read", r.method+" ("+r.kind()+")", r.call.Pos())
						}
					}
				}
				if st, ok := i.(*ssa.Store); ok && st.Addr == ssa.Value(a) {
					nStores++
					c.exactLeaves(st.Val, owner, scope, seen, depth+1, out)
				}
			})
			if nReads == 0 && nStores == 0 {
				add("unknown", "a local variable filled through its address", x.Pos())
			}
		default:
			add("unknown", "a value loaded through a pointer", x.Pos())
		}
	case *ssa.Parameter:
		pf := x.Parent()
		k := -1
		for j, p := range pf.Params {
			if p == x {
				k = j
			}
		}
		n := 0
		for g := range scope {
			g := g
			instrsOf(g, func(i ssa.Instruction) {
				call, ok := i.(ssa.CallInstruction)
				if !ok || ir.Callee(call) != pf {
					return
				}
				if args := call.Common().Args; k >= 0 && k < len(args) {
					n++
					c.exactLeaves(args[k], g, scope, seen, depth+1, out)
				}
			})
		}
		if n == 0 {
			add("unknown", "parameter "+x.Name()+" of "+name(pf)+" (no call found in the verifier's cone)", x.Pos())
		}
	default:
		add("unknown", "a value of a shape that is not followed", v.Pos())
	}
}

// ruleSigExact: the signature that is verified is the parsed one, octet for octet.
func (c *Ctx) ruleSigExact(rule string) {
	root := c.Fn(rule, "pkcs7.(*PKCS7).Verify")
	if root == nil {
		return
	}
	whatV := "the signature handed to the verification primitive is exactly the signer entry's parsed encrypted digest (no padding, trimming, re-slicing or rebuilding on the way): its length is part of what is verified, so a lengthened or shortened octet string is not a valid signature"
	whatP := "the parser keeps the encrypted digest exactly as the OCTET STRING read produced it"
	scope := map[*ssa.Function]bool{}
	for _, f := range c.cone(root) {
		for _, g := range withAnon(f) {
			scope[g] = true
		}
	}
	var fns []*ssa.Function
	for f := range scope {
		fns = append(fns, f)
	}
	sort.Slice(fns, func(i, j int) bool { return name(fns[i]) < name(fns[j]) })
	sigFields := map[string]bool{}
	sinks := 0
	counts := map[string]int{}
	for _, fn := range fns {
		fn := fn
		instrsOf(fn, func(i ssa.Instruction) {
			call, ok := i.(ssa.CallInstruction)
			if !ok {
				return
			}
			sig, ok := sigSinkArg(call)
			if !ok {
				return
			}
			sinks++
			construct := strings.TrimPrefix(ordinalKey(counts, name(fn)+"|signature:"+shortID(ir.CallID(call))), name(fn)+"|")
			var leaves []exLeaf
			c.exactLeaves(sig, fn, scope, map[ssa.Value]bool{}, 0, &leaves)
			var built, unknown []string
			fields := map[string]bool{}
			for _, l := range leaves {
				switch l.kind {
				case "field":
					fields[l.what] = true
				case "built", "read":
					built = append(built, l.what+" at "+l.pos)
				case "unknown":
					unknown = append(unknown, l.what+" at "+l.pos)
				}
			}
			for f := range fields {
				if strings.HasPrefix(f, pkcsPkg+".") {
					sigFields[f] = true
				}
			}
			switch {
			case len(built) > 0:
				sort.Strings(built)
				c.R.Violf(rule, name(fn), construct, c.IPos(i), whatV,
					"on some path the signature operand of "+shortID(ir.CallID(call))+" is "+strings.Join(built, "; ")+": octet strings other than the one that was signed (longer, shorter) are turned into the value the primitive accepts")
			case len(unknown) > 0 || len(fields) == 0:
				sort.Strings(unknown)
				c.R.Infof(rule, name(fn), construct, c.IPos(i), "not decided for this shape: the signature operand of "+shortID(ir.CallID(call))+" is not followed to a field of the parsed signer entry ("+strings.Join(unknown, "; ")+")")
			case len(fields) > 1:
				c.R.Infof(rule, name(fn), construct, c.IPos(i), "not decided for this shape: the signature operand comes from several fields ("+strings.Join(ir.SortedKeys(fields), ", ")+")")
			default:
				c.R.Okf(rule, name(fn), construct, c.IPos(i), "the signature operand is a load of "+shortID(ir.SortedKeys(fields)[0])+", through conversions only")
			}
		})
	}
	if sinks == 0 {
		c.R.Infof(rule, name(root), "signature", c.Pos(root.Pos()), "not decided for this shape: no signature-verification primitive (CheckSignature, rsa.VerifyPKCS1v15, ...) is called in the cone of (*PKCS7).Verify")
		return
	}
	// parser side: what is stored into the signature field
	if len(sigFields) == 0 {
		return
	}
	pscope := map[*ssa.Function]bool{}
	var pfns []*ssa.Function
	for _, fn := range c.P.LibFunctions() {
		if load_pkg(fn) == pkcsPkg {
			pscope[fn] = true
			pfns = append(pfns, fn)
		}
	}
	stores := 0
	pcounts := map[string]int{}
	for _, fn := range pfns {
		fn := fn
		instrsOf(fn, func(i ssa.Instruction) {
			st, ok := i.(*ssa.Store)
			if !ok {
				return
			}
			f := ir.FieldID(st.Addr)
			if _, isFA := st.Addr.(*ssa.FieldAddr); !isFA || !sigFields[f] {
				return
			}
			stores++
			construct := strings.TrimPrefix(ordinalKey(pcounts, name(fn)+"|store:"+f[strings.LastIndex(f, ".")+1:]), name(fn)+"|")
			var leaves []exLeaf
			c.exactLeaves(st.Val, fn, pscope, map[ssa.Value]bool{}, 0, &leaves)
			var built, unknown []string
			reads := 0
			for _, l := range leaves {
				switch l.kind {
				case "read":
					if strings.Contains(l.what, "(OCTET)") || strings.Contains(l.what, "(RAW)") {
						reads++
					} else {
						unknown = append(unknown, "a read of another kind: "+l.what+" at "+l.pos)
					}
				case "field":
					if sigFields[l.what] {
						reads++
					} else {
						unknown = append(unknown, "field "+shortID(l.what)+" at "+l.pos)
					}
				case "built":
					built = append(built, l.what+" at "+l.pos)
				case "unknown":
					unknown = append(unknown, l.what+" at "+l.pos)
				}
			}
			switch {
			case len(built) > 0:
				sort.Strings(built)
				c.R.Violf(rule, name(fn), construct, c.IPos(i), whatP,
					"what is stored into "+shortID(f)+" is "+strings.Join(built, "; ")+", not the octets that were read: different octet strings in the blob become the same stored signature")
			case len(unknown) > 0 || reads == 0:
				sort.Strings(unknown)
				c.R.Infof(rule, name(fn), construct, c.IPos(i), "not decided for this shape: the value stored into "+shortID(f)+" is not followed to an OCTET STRING read ("+strings.Join(unknown, "; ")+")")
			default:
				c.R.Okf(rule, name(fn), construct, c.IPos(i), "what is stored into "+shortID(f)+" is the out-parameter of an OCTET STRING read, through conversions only")
			}
		})
	}
	if stores == 0 {
		c.R.Infof(rule, name(root), "store", c.Pos(root.Pos()), "not decided for this shape: no store into the signature field found in package pkcs7")
	}
}

func load_pkg(fn *ssa.Function) string {
	fn = topFn(fn)
	if fn.Pkg != nil && fn.Pkg.Pkg != nil {
		return fn.Pkg.Pkg.Path()
	}
	return ""
}

// ---------------------------------------------------------------- N4.partial

// ruleNilPartial: a pointer field of a structure that a parser function builds
// and hands out is filled on every path to a successful return or on none; a
// field that is filled on some paths only must be tested before every
// dereference in the library.
func (c *Ctx) ruleNilPartial(rule string) {
	fns := c.pkcs7ParserFuncs(rule)
	if fns == nil {
		return
	}
	what := "a pointer field that the parser fills on some paths to a successful return and leaves nil on others is tested for nil before it is dereferenced (the paths are chosen by the blob, and the decoders never panic)"
	type partial struct {
		f     *types.Var
		id    string
		fn    *ssa.Function
		where string
	}
	var partials []partial
	seenF := map[*types.Var]bool{}
	examined := 0
	for _, fn := range fns {
		// the structures built here: local allocations of a named struct type of the package that the function returns
		resultHas := func(t types.Type) bool {
			rs := fn.Signature.Results()
			for k := 0; k < rs.Len(); k++ {
				if types.Identical(deref(rs.At(k).Type()), t) {
					return true
				}
			}
			return false
		}
		type fieldInfo struct {
			f      *types.Var
			id     string
			blocks map[int]bool
		}
		fields := map[*types.Var]*fieldInfo{}
		var order []*types.Var
		builds := false
		instrsOf(fn, func(i ssa.Instruction) {
			a, ok := i.(*ssa.Alloc)
			if !ok {
				return
			}
			t := deref(a.Type())
			st, isStruct := t.Underlying().(*types.Struct)
			if !isStruct || !strings.HasPrefix(ir.NamedTypeID(t), pkcsPkg+".") || !resultHas(t) {
				return
			}
			builds = true
			for k := 0; k < st.NumFields(); k++ {
				f := st.Field(k)
				if _, isPtr := f.Type().Underlying().(*types.Pointer); !isPtr {
					continue
				}
				if fields[f] == nil {
					fields[f] = &fieldInfo{f: f, id: ir.NamedTypeID(t) + "." + f.Name(), blocks: map[int]bool{}}
					order = append(order, f)
				}
			}
			for _, r := range *a.Referrers() {
				switch x := r.(type) {
				case *ssa.FieldAddr:
					f := ir.FieldOf(x)
					fi := fields[f]
					if fi == nil {
						continue
					}
					for _, rr := range *x.Referrers() {
						switch y := rr.(type) {
						case *ssa.Store:
							if y.Addr == ssa.Value(x) && !ir.IsNilConst(y.Val) {
								fi.blocks[y.Block().Index] = true
							}
						case ssa.CallInstruction:
							fi.blocks[y.Block().Index] = true // filled through its address
						}
					}
				case ssa.CallInstruction:
					// the structure handed to a helper that may fill it
					if _, isRet := r.(*ssa.Return); !isRet {
						for _, fi := range fields {
							if types.Identical(deref(a.Type()), deref(a.Type())) {
								fi.blocks[x.Block().Index] = true
							}
						}
					}
				case *ssa.Store:
					// a whole-structure store into the allocation: every field is written
					if x.Addr == ssa.Value(a) {
						for _, fi := range fields {
							fi.blocks[x.Block().Index] = true
						}
					}
				}
			}
		})
		if !builds {
			continue
		}
		acc := acceptingReturnsMode(fn, true)
		for _, f := range order {
			fi := fields[f]
			examined++
			construct := "fill:" + shortID(fi.id)
			if len(fi.blocks) == 0 {
				c.R.Okf(rule, name(fn), construct, c.Pos(fn.Pos()), "the field is filled on no path of this function")
				continue
			}
			if fi.blocks[0] {
				c.R.Okf(rule, name(fn), construct, c.Pos(fn.Pos()), "the field is filled on every path")
				continue
			}
			cut := map[ir.Edge]bool{}
			for bi := range fi.blocks {
				for _, p := range fn.Blocks[bi].Preds {
					cut[ir.Edge{From: p.Index, To: bi}] = true
				}
			}
			seen, _ := ir.Reach(fn, fn.Blocks[0], cut)
			where := ""
			for _, r := range acc {
				if seen[r.Block().Index] {
					where = c.IPos(r)
				}
			}
			if where == "" {
				c.R.Okf(rule, name(fn), construct, c.Pos(fn.Pos()), "the field is filled on every path to a successful return")
				continue
			}
			c.R.Infof(rule, name(fn), construct, c.Pos(fn.Pos()), "the field "+shortID(fi.id)+" is filled on some paths only: the successful return at "+where+" is reached without a store into it; its dereferences are examined")
			if !seenF[f] {
				seenF[f] = true
				partials = append(partials, partial{f, fi.id, fn, where})
			}
		}
	}
	if examined == 0 {
		if root := c.FnOpt("pkcs7.ParsePKCS7"); root != nil {
			c.R.Infof(rule, name(root), "fill", c.Pos(root.Pos()), "not decided for this shape: no function the parser reaches builds a structure of the package in a local variable and returns it")
		}
		return
	}
	// the dereferences of the partially filled fields
	counts := map[string]int{}
	for _, p := range partials {
		for _, fn := range c.P.LibFunctions() {
			fn := fn
			instrsOf(fn, func(i ssa.Instruction) {
				ld, ok := i.(*ssa.UnOp)
				if !ok || ld.Op != token.MUL || ir.FieldOf(ld.X) != p.f {
					return
				}
				if _, isFA := ld.X.(*ssa.FieldAddr); !isFA {
					return
				}
				for _, u := range derefUses(ld) {
					key := strings.TrimPrefix(ordinalKey(counts, name(fn)+"|deref:"+shortID(p.id)), name(fn)+"|")
					ok := fieldNilGuarded(fn, u.Block(), ld, p.f) || c.guardedAtCallers(topFn(fn), p.f, 0)
					if !ok && fn.Parent() != nil {
						// a closure: the test may stand in front of the place that creates it
						ok = closureGuarded(fn, p.f)
					}
					c.R.Check(ok, rule, name(fn), key, c.IPos(u), what,
						"the parser ("+name(p.fn)+") reaches the successful return at "+p.where+" without filling "+shortID(p.id)+", and this dereference of the field is not dominated by a nil test of it: a blob that takes that path makes the decoder panic with a nil pointer dereference")
				}
			})
		}
	}
}

// fieldNilGuarded: block b is dominated by an edge on which a load of field f
// (the value ld itself, or another load of the same field) is known non-nil.
func fieldNilGuarded(fn *ssa.Function, b *ssa.BasicBlock, ld ssa.Value, f *types.Var) bool {
	for _, ce := range ir.DominatingConds(fn, b) {
		x, nilWhenTrue, ok := ir.NilCheck(ce.RawCond)
		if !ok || ce.RawTruth == nilWhenTrue {
			continue
		}
		if x == ld {
			return true
		}
		if l2, isLd := x.(*ssa.UnOp); isLd && l2.Op == token.MUL && ir.FieldOf(l2.X) == f {
			return true
		}
	}
	return false
}

// closureGuarded: every place that creates closure g is dominated by a non-nil test of field f.
func closureGuarded(g *ssa.Function, f *types.Var) bool {
	parent := g.Parent()
	if parent == nil {
		return false
	}
	n := 0
	ok := true
	instrsOf(parent, func(i ssa.Instruction) {
		mc, isMC := i.(*ssa.MakeClosure)
		if !isMC || mc.Fn != ssa.Value(g) {
			return
		}
		n++
		if !fieldNilGuarded(parent, mc.Block(), nil, f) {
			ok = false
		}
	})
	if n == 0 {
		return false
	}
	if !ok && parent.Parent() != nil {
		return closureGuarded(parent, f)
	}
	return ok
}

// ---------------------------------------------------------------- L5.sid

// ruleSignerIdentifierShape: every SignerInfo the emitter writes names the
// signer by issuerAndSerialNumber, unconditionally. L5.schema compares the whole
// emitter shape and gives up when any part of it is not resolved (a version
// number computed by a helper); this rule looks only at the elements between the
// SignerInfo's version and its digest algorithm, which it decides on their own.
func (c *Ctx) ruleSignerIdentifierShape(rule string) {
	fn := c.Fn(rule, "pkcs7.SignPKCS7")
	if fn == nil {
		return
	}
	what := "every SignerInfo the emitter writes names the signing certificate by issuerAndSerialNumber (RFC 2315 9.2: SEQUENCE{issuer Name, serialNumber}), whatever the certificate carries: the verifiers the blob is made for (firmware, sbverify) match the signer by issuer and serial"
	dv := c.deepViewOf(fn, 6)
	shape := normaliseShape(c.topBuilderShape(dv))
	nodes := parseShape(shape)
	// the SignerInfo structures: SEQUENCEs inside a SET whose first element is an INTEGER and whose last is an OCTET STRING
	var infos []shapeNode
	var walk func(ns []shapeNode, parent string)
	walk = func(ns []shapeNode, parent string) {
		for _, n := range ns {
			h := strings.TrimPrefix(n.head, "?")
			if n.comp && h == "T0x30" && strings.TrimPrefix(parent, "?") == "T0x31" && len(n.kids) >= 3 &&
				strings.HasPrefix(n.kids[0].head, "INT(") && strings.HasPrefix(strings.TrimPrefix(n.kids[len(n.kids)-1].head, "?"), "OCTET(") {
				infos = append(infos, n)
			}
			walk(n.kids, n.head)
		}
	}
	walk(nodes, "")
	if len(infos) == 0 {
		c.R.Infof(rule, name(fn), "signer-identifier", c.Pos(fn.Pos()), "not decided for this shape: no SignerInfo (a SEQUENCE in a SET that starts with an INTEGER and ends with an OCTET STRING) found in the resolved emitter shape ("+shape+")")
		return
	}
	var render func(n shapeNode) string
	render = func(n shapeNode) string {
		if !n.comp {
			return n.head
		}
		var ks []string
		for _, k := range n.kids {
			ks = append(ks, render(k))
		}
		return n.head + "{" + strings.Join(ks, " ") + "}"
	}
	isAlg := func(n shapeNode) bool {
		return n.comp && strings.TrimPrefix(n.head, "?") == "T0x30" && len(n.kids) >= 1 && strings.HasPrefix(n.kids[0].head, "OID(")
	}
	for k, si := range infos {
		construct := "signer-identifier"
		if k > 0 {
			construct += "#" + string(rune('1'+k))
		}
		var sid []shapeNode
		for _, e := range si.kids[1:] {
			if isAlg(e) {
				break
			}
			sid = append(sid, e)
		}
		var texts []string
		for _, e := range sid {
			texts = append(texts, render(e))
		}
		got := strings.Join(texts, " ")
		const want = "T0x30{BYTES(RawIssuer) BIGINT(SerialNumber)}"
		switch {
		case got == want:
			c.R.Okf(rule, name(fn), construct, c.Pos(fn.Pos()), "the element between the SignerInfo's version and its digest algorithm is SEQUENCE{cert.RawIssuer, cert.SerialNumber}, unconditionally")
		case strings.Contains(got, unknownShape) || strings.Contains(got, "BYTES(·)") || got == "":
			c.R.Infof(rule, name(fn), construct, c.Pos(fn.Pos()), "not decided for this shape: the signer identifier the emitter writes is not resolved ("+got+")")
		default:
			c.R.Violf(rule, name(fn), construct, c.Pos(fn.Pos()), what,
				"between the SignerInfo's version and its digest algorithm the emitter writes\n      "+got+"\n   want\n      "+want+"\n   ('?' marks an element written under a condition): for some certificates the signer is named in another form, or not by issuer and serial number at all, and a verifier that matches by issuer and serial does not find the signer")
		}
	}
}
