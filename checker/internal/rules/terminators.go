package rules

import (
	"fmt"
	"go/token"
	"go/types"
	"sort"
	"strings"

	"golang.org/x/tools/go/ssa"

	"verif/checker/internal/ir"
	"verif/checker/internal/report"
)

// Rule family B: process terminators in library code.

var terminatorIDs = map[string]string{
	"log.Fatal": "log.Fatal", "log.Fatalf": "log.Fatalf", "log.Fatalln": "log.Fatalln",
	"log.Panic": "log.Panic", "log.Panicf": "log.Panicf", "log.Panicln": "log.Panicln",
	"log.Logger.Fatal": "Logger.Fatal", "log.Logger.Fatalf": "Logger.Fatalf", "log.Logger.Fatalln": "Logger.Fatalln",
	"log.Logger.Panic": "Logger.Panic", "log.Logger.Panicf": "Logger.Panicf", "log.Logger.Panicln": "Logger.Panicln",
	"os.Exit": "os.Exit", "syscall.Exit": "syscall.Exit", "runtime.Goexit": "runtime.Goexit",
	// curated must-style library calls that panic on bad (possibly input-derived) data
	"golang.org/x/crypto/cryptobyte.Builder.BytesOrPanic": "Builder.BytesOrPanic",
	"regexp.MustCompile":     "regexp.MustCompile",
	"text/template.Must":     "template.Must",
	"html/template.Must":     "template.Must",
	"log/slog.Logger.Fatal":  "slog.Fatal",
	"testing.common.Fatal":   "testing.Fatal",
	"testing.common.Fatalf":  "testing.Fatalf",
	"testing.common.FailNow": "testing.FailNow",
}

type termSite struct {
	fn      *ssa.Function
	instr   ssa.Instruction
	term    string // which terminator
	class   string // INPUT DEPENDENCY WRITER INFEASIBLE UNKNOWN
	trigger string // resolved id of the call whose failure triggers it ("" if none)
	why     string
}

// terminatorSites enumerates every terminator call site in library functions.
func (c *Ctx) terminatorSites() []*termSite {
	var out []*termSite
	for _, fn := range c.P.LibFunctions() {
		instrsOf(fn, func(i ssa.Instruction) {
			switch x := i.(type) {
			case *ssa.Panic:
				// explicit panic(...) statement. go/ssa also emits Panic for
				// failed type assertions? No: those are TypeAssert without CommaOk.
				out = append(out, &termSite{fn: fn, instr: i, term: "panic"})
				_ = x
			case ssa.CallInstruction:
				if _, isGo := i.(*ssa.Go); isGo {
					return
				}
				id := ir.CallID(x)
				if t, ok := terminatorIDs[id]; ok {
					out = append(out, &termSite{fn: fn, instr: i, term: t})
				}
			}
		})
	}
	sort.SliceStable(out, func(i, j int) bool {
		if name(out[i].fn) != name(out[j].fn) {
			return name(out[i].fn) < name(out[j].fn)
		}
		return ir.InstrPos(out[i].instr) < ir.InstrPos(out[j].instr)
	})
	for _, s := range out {
		c.classifyTerm(s)
	}
	return out
}

func domDepth(b *ssa.BasicBlock) int {
	d := 0
	for x := b.Idom(); x != nil; x = x.Idom() {
		d++
	}
	return d
}

// innermostCond returns the dominating conditional edge closest to block b.
func innermostCond(fn *ssa.Function, b *ssa.BasicBlock) (ir.CondEdge, bool) {
	conds := ir.DominatingConds(fn, b)
	if len(conds) == 0 {
		return ir.CondEdge{}, false
	}
	best := conds[0]
	for _, ce := range conds[1:] {
		if domDepth(fn.Blocks[ce.Edge.From]) > domDepth(fn.Blocks[best.Edge.From]) {
			best = ce
		}
	}
	return best, true
}

// errorOrigins resolves an error value to the call(s) that produced it.
func errorOrigins(v ssa.Value, seen map[ssa.Value]bool) []*ssa.Call {
	if v == nil || seen[v] {
		return nil
	}
	seen[v] = true
	switch x := v.(type) {
	case *ssa.Call:
		return []*ssa.Call{x}
	case *ssa.Extract:
		if c, ok := x.Tuple.(*ssa.Call); ok {
			return []*ssa.Call{c}
		}
	case *ssa.Phi:
		var out []*ssa.Call
		for _, e := range x.Edges {
			out = append(out, errorOrigins(e, seen)...)
		}
		return out
	case *ssa.UnOp:
		// load of a spilled variable: the stores into it
		if a, ok := x.X.(*ssa.Alloc); ok {
			var out []*ssa.Call
			for _, r := range *a.Referrers() {
				if st, ok := r.(*ssa.Store); ok && st.Addr == a {
					out = append(out, errorOrigins(st.Val, seen)...)
				}
			}
			return out
		}
		// load of a variable of the enclosing function that this function literal
		// captured: the stores into its cell, wherever they are
		if fv, ok := x.X.(*ssa.FreeVar); ok && x.Op == token.MUL {
			if a, isA := cellOf(fv).(*ssa.Alloc); isA && a.Parent() != nil {
				var out []*ssa.Call
				for _, f := range withAnon(topFn(a.Parent())) {
					instrsOf(f, func(i ssa.Instruction) {
						if st, ok := i.(*ssa.Store); ok && cellOf(st.Addr) == ssa.Value(a) {
							out = append(out, errorOrigins(st.Val, seen)...)
						}
					})
				}
				return out
			}
		}
	}
	return nil
}

// binaryFixed reports whether encoding/binary can always encode a value of
// dynamic type t (binary.Write never fails on it for an infallible writer).
func binaryFixed(t types.Type, top bool) bool {
	switch u := t.Underlying().(type) {
	case *types.Basic:
		switch u.Kind() {
		case types.Bool, types.Int8, types.Int16, types.Int32, types.Int64,
			types.Uint8, types.Uint16, types.Uint32, types.Uint64,
			types.Float32, types.Float64, types.Complex64, types.Complex128:
			return true
		}
		return false
	case *types.Array:
		return binaryFixed(u.Elem(), false)
	case *types.Struct:
		for i := 0; i < u.NumFields(); i++ {
			if !binaryFixed(u.Field(i).Type(), false) {
				return false
			}
		}
		return true
	case *types.Slice:
		return top && binaryFixed(u.Elem(), false)
	case *types.Pointer:
		return top && binaryFixed(u.Elem(), false)
	}
	return false
}

// dynamicTypes returns the concrete types that may be boxed in interface value
// v. It follows phis, loads of locals and the slice-literal idiom
// `for _, d := range []interface{}{a, b, c}`; anything else is incomplete.
func (c *Ctx) dynamicTypes(v ssa.Value) ([]types.Type, bool) {
	if _, ok := v.Type().Underlying().(*types.Interface); !ok {
		return []types.Type{v.Type()}, true
	}
	var out []types.Type
	complete := true
	seen := map[ssa.Value]bool{}
	var visit func(v ssa.Value)
	storesTo := func(fn *ssa.Function, match func(addr ssa.Value) bool) int {
		n := 0
		for _, f := range withAnon(topFn(fn)) {
			instrsOf(f, func(i ssa.Instruction) {
				if st, ok := i.(*ssa.Store); ok && match(st.Addr) {
					n++
					visit(st.Val)
				}
			})
		}
		return n
	}
	visit = func(v ssa.Value) {
		if v == nil || seen[v] {
			return
		}
		seen[v] = true
		switch x := v.(type) {
		case *ssa.MakeInterface:
			out = append(out, x.X.Type())
		case *ssa.Phi:
			for _, e := range x.Edges {
				visit(e)
			}
		case *ssa.ChangeInterface:
			visit(x.X)
		case *ssa.Const:
			if x.Value == nil {
				return // nil interface: binary.Write fails, but that is a constant programming error
			}
			complete = false
		case *ssa.Parameter:
			// an interface parameter of an unexported helper: the union over its library call sites
			fn := x.Parent()
			if fn.Object() != nil && fn.Object().Exported() {
				complete = false
				return
			}
			n := c.P.CallGraph().Nodes[fn]
			idx := -1
			for k, p := range fn.Params {
				if p == x {
					idx = k
				}
			}
			if n == nil || len(n.In) == 0 || idx < 0 {
				complete = false
				return
			}
			for _, e := range n.In {
				if e.Site == nil || !c.P.InLib(e.Caller.Func) {
					complete = false
					continue
				}
				args := ir.CallArgs(e.Site)
				if idx >= len(args) {
					complete = false
					continue
				}
				ts, ok := c.dynamicTypes(args[idx])
				if !ok {
					complete = false
				}
				out = append(out, ts...)
			}
		case *ssa.UnOp:
			if x.Op != token.MUL {
				complete = false
				return
			}
			switch a := x.X.(type) {
			case *ssa.Alloc:
				if storesTo(a.Parent(), func(addr ssa.Value) bool { return addr == a }) == 0 {
					complete = false
				}
			case *ssa.IndexAddr:
				root := ir.RootOf(a.X)
				if p, isParam := root.(*ssa.Parameter); isParam && a.X == ssa.Value(p) {
					// element of a variadic/slice parameter: the literals at the library call sites
					fn := p.Parent()
					n := c.P.CallGraph().Nodes[fn]
					idx := -1
					for k, q := range fn.Params {
						if q == p {
							idx = k
						}
					}
					if n == nil || len(n.In) == 0 || idx < 0 || fn.Object() != nil && fn.Object().Exported() {
						complete = false
						return
					}
					for _, e := range n.In {
						if e.Site == nil || !c.P.InLib(e.Caller.Func) {
							complete = false
							continue
						}
						args := ir.CallArgs(e.Site)
						elems := orderedVariadic(args[idx])
						if elems == nil {
							complete = false
							continue
						}
						for _, el := range elems {
							visit(el)
						}
					}
					return
				}
				if _, isAlloc := root.(*ssa.Alloc); !isAlloc {
					complete = false
					return
				}
				n := storesTo(a.Parent(), func(addr ssa.Value) bool {
					ia, ok := addr.(*ssa.IndexAddr)
					return ok && ir.RootOf(ia.X) == root
				})
				if n == 0 {
					complete = false
				}
			default:
				complete = false
			}
		default:
			complete = false
		}
	}
	visit(v)
	if len(out) == 0 {
		complete = false
	}
	return out, complete
}

func topFn(fn *ssa.Function) *ssa.Function {
	for fn.Parent() != nil {
		fn = fn.Parent()
	}
	return fn
}

// writerKind classifies the writer argument of a binary.Write / Write call.
func (c *Ctx) writerKind(w ssa.Value) string { return c.writerKindD(w, 0) }

func (c *Ctx) writerKindD(w ssa.Value, depth int) string {
	if depth > 6 {
		return "other"
	}
	// look through closure captures, single-assignment cells and writer fields of
	// small encoder structs
	switch x := w.(type) {
	case *ssa.ChangeInterface:
		return c.writerKindD(x.X, depth+1)
	case *ssa.FreeVar:
		if b := ir.FreeVarBinding(x); b != nil {
			return c.writerKindD(b, depth+1)
		}
	case *ssa.UnOp:
		if x.Op == token.MUL {
			if r := resolveCell(x); r != ssa.Value(x) {
				return c.writerKindD(r, depth+1)
			}
			if id := ir.FieldID(x.X); id != "" {
				// every store into that field anywhere in the library
				kinds := map[string]bool{}
				for _, fn := range c.P.LibFunctions() {
					instrsOf(fn, func(i ssa.Instruction) {
						if st, ok := i.(*ssa.Store); ok && ir.FieldID(st.Addr) == id {
							kinds[c.writerKindD(st.Val, depth+1)] = true
						}
					})
				}
				switch {
				case len(kinds) == 1 && kinds["buffer"]:
					return "buffer"
				case len(kinds) > 0 && !kinds["other"]:
					return "param-writer"
				}
			}
		}
	}
	w0 := w
	if mi, ok := w.(*ssa.MakeInterface); ok {
		w = mi.X
	}
	if ir.NamedTypeID(w.Type()) == "bytes.Buffer" {
		if _, isPtr := w.Type().Underlying().(*types.Pointer); isPtr {
			return "buffer"
		}
	}
	if p, ok := w0.(*ssa.Parameter); ok {
		if _, isI := p.Type().Underlying().(*types.Interface); isI {
			fn := p.Parent()
			if fn.Object() != nil && fn.Object().Exported() {
				return "param-writer"
			}
			// unexported helper: all in-repo call sites must pass a buffer
			n := c.P.CallGraph().Nodes[fn]
			if n != nil && len(n.In) > 0 {
				idx := -1
				for i, q := range fn.Params {
					if q == p {
						idx = i
					}
				}
				all := true
				for _, e := range n.In {
					if e.Site == nil {
						all = false
						break
					}
					args := ir.CallArgs(e.Site)
					if idx < 0 || idx >= len(args) || c.writerKindD(args[idx], depth+1) != "buffer" {
						all = false
					}
				}
				if all {
					return "buffer"
				}
			}
			return "param-writer"
		}
	}
	return "other"
}

var inputReadIDs = map[string]bool{
	"encoding/binary.Read": true, "io.ReadFull": true, "io.ReadAll": true, "io.ReadAtLeast": true,
	"io.(interface).Read": true, "io.Reader.Read": true, "bytes.Buffer.Read": true, "bytes.Reader.Read": true,
	"bytes.Buffer.ReadByte": true, "bytes.Reader.ReadByte": true,
	"encoding/pem.Decode": true, "crypto/x509.ParseCertificate": true, "crypto/x509.ParseCertificates": true,
	"crypto/x509.ParsePKCS8PrivateKey": true, "encoding/hex.DecodeString": true,
}

func (c *Ctx) classifyTerm(s *termSite) {
	fn := s.fn
	b := s.instr.Block()
	ce, ok := innermostCond(fn, b)
	if !ok && c.initOnly(fn, map[*ssa.Function]bool{}, 0) {
		// runs once, when the package is initialised, on data fixed in the source: no caller input reaches it
		s.class, s.why = "INFEASIBLE", "the function is only called from the package initialiser (no caller input)"
		return
	}
	if !ok {
		s.class, s.why = "UNKNOWN", "unconditional in its function (reached whenever the function is entered on this path)"
		// dispatch on an input value in the callers? classify as INPUT when the
		// function has a reader parameter (it decodes caller data)
		for _, p := range fn.Params {
			if implementsReader(p.Type()) {
				s.class, s.why = "INPUT", "unconditional on a path of a decoder (function takes a reader); selected by an input-derived switch"
			}
		}
		return
	}
	if v, nilWhenTrue, isNil := ir.NilCheck(ce.RawCond); isNil && isErrorType(v.Type()) {
		// which truth value of the If condition does this edge carry?
		succTrue := ce.RawTruth
		errNonNil := (succTrue && !nilWhenTrue) || (!succTrue && nilWhenTrue)
		if errNonNil {
			origins := errorOrigins(v, map[ssa.Value]bool{})
			if len(origins) == 0 {
				s.class, s.why = "UNKNOWN", "error value of unknown origin"
				return
			}
			worst := ""
			for _, oc := range origins {
				cl, trig, why := c.classifyErrCall(oc)
				if rank(cl) > rank(worst) {
					worst, s.trigger, s.why = cl, trig, why
				}
			}
			s.class = worst
			return
		}
	}
	// some other condition
	s.class = "UNKNOWN"
	s.why = "guarded by a non-error condition: " + condString(ce)
	sl := c.Slicer().Slice(ce.Cond)
	for v := range sl {
		if cl, ok := v.(*ssa.Call); ok && inputReadIDs[ir.CallID(cl)] {
			s.class, s.why = "INPUT", "condition depends on data read from the input ("+ir.CallID(cl)+")"
		}
		if p, ok := v.(*ssa.Parameter); ok && p.Parent() == fn {
			if s.class == "UNKNOWN" {
				s.class, s.why = "INPUT", "condition depends on parameter "+p.Name()+" of "+name(fn)
			}
		}
	}
}

func condString(ce ir.CondEdge) string {
	return fmt.Sprintf("%s is %v", ce.Cond.String(), ce.Truth)
}

func rank(class string) int {
	switch class {
	case "INFEASIBLE":
		return 1
	case "WRITER":
		return 2
	case "INPUT", "DEPENDENCY", "UNKNOWN":
		return 3
	}
	return 0
}

func implementsReader(t types.Type) bool {
	switch ir.NamedTypeID(t) {
	case "io.Reader", "io.ReaderAt", "bytes.Buffer", "bytes.Reader", "io.SectionReader":
		return true
	}
	if it, ok := t.Underlying().(*types.Interface); ok {
		for i := 0; i < it.NumMethods(); i++ {
			if n := it.Method(i).Name(); n == "Read" || n == "ReadAt" {
				return true
			}
		}
	}
	return false
}

// dependencyKind names the caller-supplied dependency an interface/concrete
// type stands for ("" if none).
func dependencyKind(t types.Type) string {
	switch ir.NamedTypeID(t) {
	case "crypto.Signer":
		return "signer"
	case "github.com/spf13/afero.Fs", "github.com/spf13/afero.File", "io/fs.File", "io/fs.FS", M + "/efivarfs.EFIVars":
		return "filesystem"
	case "io.ReaderAt":
		return "image reader"
	case M + "/authenticode.SizeReaderAt":
		return "image reader"
	}
	// an interface of the library's own that shows only part of such a dependency
	return narrowedDependency(t)
}

// classifyErrCall classifies the call whose error result guards a terminator.
func (c *Ctx) classifyErrCall(call *ssa.Call) (class, trigger, why string) {
	id := ir.CallID(call)
	trigger = id
	cc := call.Common()
	switch {
	case id == "encoding/binary.Write":
		w, data := cc.Args[0], cc.Args[2]
		wk := c.writerKind(w)
		tys, complete := c.dynamicTypes(data)
		fixed := complete
		var bad []string
		for _, t := range tys {
			if !binaryFixed(t, true) {
				fixed = false
				bad = append(bad, t.String())
			}
		}
		switch {
		case !fixed:
			return "UNKNOWN", trigger, "binary.Write of data that encoding/binary may reject (" + strings.Join(bad, ",") + " / unresolved)"
		case wk == "buffer":
			return "INFEASIBLE", trigger, "binary.Write of fixed-size data into *bytes.Buffer cannot fail"
		case wk == "param-writer":
			return "WRITER", trigger, "binary.Write to the io.Writer supplied by the caller of an exported writer function; no property quantifies over failing writers"
		}
		return "UNKNOWN", trigger, "binary.Write to a writer of unknown kind"
	case cc.IsInvoke() && cc.Method.Name() == "Write" && ir.NamedTypeID(cc.Value.Type()) == "io.Writer":
		switch c.writerKind(cc.Value) {
		case "param-writer":
			return "WRITER", trigger, "Write on the caller-supplied io.Writer of an exported writer function"
		case "buffer":
			return "INFEASIBLE", trigger, "Write on a *bytes.Buffer cannot fail"
		}
		return "UNKNOWN", trigger, "Write on a writer of unknown kind"
	case cc.IsInvoke():
		if k := dependencyKind(cc.Value.Type()); k != "" {
			return "DEPENDENCY", trigger, "error of the caller-supplied " + k
		}
		if implementsReader(cc.Value.Type()) {
			return "INPUT", trigger, "error of reading caller data"
		}
		return "UNKNOWN", trigger, "error of an interface call of unknown kind"
	case inputReadIDs[id]:
		return "INPUT", trigger, "error of reading/parsing caller data"
	}
	if callee := ir.Callee(call); callee != nil && c.P.InModule(callee) {
		// a repo function: input if it takes a reader or bytes, dependency if
		// it takes a dependency kind
		for _, p := range callee.Params {
			if k := dependencyKind(p.Type()); k != "" {
				return "DEPENDENCY", trigger, "error of a repo function using the caller-supplied " + k
			}
		}
		return "INPUT", trigger, "error of a repo decoder/helper"
	}
	for _, a := range cc.Args {
		if k := dependencyKind(a.Type()); k != "" {
			return "DEPENDENCY", trigger, "error of a library call on the caller-supplied " + k
		}
	}
	return "UNKNOWN", trigger, "error of " + id
}

// RuleB reports terminator sites. scope selects which sites belong to the
// property: reach == nil means every library site (C14's static quantifier).
func (c *Ctx) RuleB(rule string, reach map[*ssa.Function]bool, chain func(*ssa.Function) string, classes map[string]bool) {
	sites := c.terminatorSites()
	counts := map[string]int{}
	sameSite := map[string]string{}
	classified := 0
	for _, s := range sites {
		if reach != nil && !reach[s.fn] {
			continue
		}
		classified++
		trig := shortID(s.trigger)
		if trig == "" {
			trig = "cond"
		}
		// the identity of a site does not depend on which read helper reported the
		// malformed input
		if s.class == "INPUT" && trig != "cond" {
			trig = "decode-error"
		}
		base := fmt.Sprintf("%s<-%s", s.term, trig)
		what := fmt.Sprintf("terminator %s must not be reachable with a feasible trigger", s.term)
		detail := fmt.Sprintf("class=%s: %s", s.class, s.why)
		if chain != nil {
			detail += "; reached via " + chain(s.fn)
		}
		// a site in an unexported helper is attributed to the exported library
		// functions that reach it, so that extracting a helper around a known
		// site does not change its identity
		owners := c.exportedOwners(s.fn)
		if name(s.fn) != name(owners[0]) || len(owners) > 1 {
			detail += "; site is in helper " + name(s.fn)
		}
		for _, owner := range owners {
			// the same terminator statement written out more than once (an unrolled loop, a
			// branch copied into each arm): same terminator, same trigger and class, same
			// constant message - one site, whatever the number of copies
			var key string
			if msg := constMessageOf(s.instr); msg != "" {
				same := name(owner) + ":" + base + "|" + s.class + "|" + msg
				if k, seen := sameSite[same]; seen {
					key = k
				} else {
					key = ordinalKey(counts, name(owner)+":"+base)
					sameSite[same] = key
				}
			} else {
				key = ordinalKey(counts, name(owner)+":"+base)
			}
			construct := strings.TrimPrefix(key, name(owner)+":")
			switch {
			case s.class == "INFEASIBLE" || s.class == "WRITER":
				c.R.Add(reportObl(rule, name(owner), construct, c.IPos(s.instr), what+" ["+detail+"]", "ok"))
			case classes != nil && !classes[s.class]:
				c.R.Infof(rule, name(owner), construct, c.IPos(s.instr), "site of another property's class: "+detail)
			default:
				// a must-style call that panics on the data it was fed sits in a function
				// reachable from the entry points: how the surrounding code is written
				// does not change that
				hard := s.term == "Builder.BytesOrPanic" && reach != nil && reach[s.fn]
				c.R.Add(report.Obligation{Rule: rule, Key: rule + "@" + name(owner) + ":" + construct, Func: name(owner), Pos: c.IPos(s.instr), What: what, Status: report.Violation, Detail: detail, Hard: hard})
			}
		}
	}
	c.R.Extra["terminator_sites_in_library"] = len(sites)
	c.R.Extra["terminator_sites_in_scope"] = classified
}

// constMessageOf: the constant format/message string a terminator call is given
// as its first argument ("" if it has none).
func constMessageOf(i ssa.Instruction) string {
	call, ok := i.(ssa.CallInstruction)
	if !ok || len(call.Common().Args) == 0 {
		return ""
	}
	if k, isK := call.Common().Args[0].(*ssa.Const); isK && k.Value != nil && types.Identical(k.Type().Underlying(), types.Typ[types.String]) {
		return k.Value.ExactString()
	}
	return ""
}

// exportedOwners returns the exported library functions/methods from which fn
// is reached without passing through another exported function (fn itself if
// it is exported or has no library callers).
func (c *Ctx) exportedOwners(fn *ssa.Function) []*ssa.Function {
	isExported := func(f *ssa.Function) bool {
		return f.Parent() == nil && f.Object() != nil && f.Object().Exported()
	}
	top := fn
	for top.Parent() != nil {
		top = top.Parent()
	}
	if isExported(top) {
		return []*ssa.Function{top}
	}
	cg := c.P.CallGraph()
	seen := map[*ssa.Function]bool{top: true}
	queue := []*ssa.Function{top}
	var out []*ssa.Function
	for len(queue) > 0 {
		f := queue[0]
		queue = queue[1:]
		n := cg.Nodes[f]
		if n == nil {
			continue
		}
		for _, e := range n.In {
			g := e.Caller.Func
			for g.Parent() != nil {
				g = g.Parent()
			}
			if !c.P.InLib(g) || seen[g] {
				continue
			}
			seen[g] = true
			if isExported(g) {
				out = append(out, g)
			} else {
				queue = append(queue, g)
			}
		}
	}
	if len(out) == 0 {
		return []*ssa.Function{top}
	}
	sort.Slice(out, func(i, j int) bool { return name(out[i]) < name(out[j]) })
	return out
}

// initOnly: every call of fn comes from a package initialiser (directly or
// through functions that are themselves only called from one), and fn takes no
// parameters that could carry caller input.
func (c *Ctx) initOnly(fn *ssa.Function, seen map[*ssa.Function]bool, depth int) bool {
	if depth > 4 || seen[fn] {
		return false
	}
	seen[fn] = true
	if fn.Object() != nil && fn.Object().Exported() {
		return false
	}
	node := c.P.CallGraph().Nodes[fn]
	if node == nil || len(node.In) == 0 {
		return false
	}
	for _, in := range node.In {
		caller := in.Caller.Func
		if caller.Name() == "init" || strings.HasPrefix(caller.Name(), "init#") {
			continue
		}
		if !c.P.InLib(caller) || !c.initOnly(caller, seen, depth+1) {
			return false
		}
	}
	return true
}

// ruleAssert (B.assert): x.(T) without the comma-ok form panics when the
// dynamic type is not T. Where the interface value comes out of a standard
// library parser (a PKCS#8 key, an optional header of a PE file) the input
// chooses the dynamic type.
func (c *Ctx) ruleAssert(rule string, in func(*ssa.Function) bool) int {
	n := 0
	counts := map[string]int{}
	for _, fn := range c.P.LibFunctions() {
		if in != nil && !in(fn) {
			continue
		}
		fn := fn
		instrsOf(fn, func(i ssa.Instruction) {
			ta, ok := i.(*ssa.TypeAssert)
			if !ok || ta.CommaOk {
				return
			}
			n++
			key := ordinalKey(counts, name(fn)+":assert")
			construct := strings.TrimPrefix(key, name(fn)+":")
			foreign, mismatch, param := "", "", false
			makes := 0
			for v := range c.sliceOf(ta.X) {
				switch x := v.(type) {
				case *ssa.MakeInterface:
					makes++
					if !types.Identical(x.X.Type(), ta.AssertedType) {
						if _, isIface := ta.AssertedType.Underlying().(*types.Interface); !isIface {
							mismatch = x.X.Type().String()
						}
					}
				case *ssa.Call:
					if _, isIface := x.Type().Underlying().(*types.Interface); !isIface {
						if tp, isT := x.Type().(*types.Tuple); !isT || tp.Len() == 0 {
							continue
						} else if _, isI := tp.At(0).Type().Underlying().(*types.Interface); !isI {
							continue
						}
					}
					id := ir.CallID(x)
					callee := ir.Callee(x)
					if id == "sync.Pool.Get" || callee != nil && c.P.InLib(callee) {
						continue
					}
					foreign = id
				case *ssa.FieldAddr:
					if f := ir.FieldOf(x); f != nil && f.Pkg() != nil && !strings.HasPrefix(f.Pkg().Path(), M) {
						if _, isIface := f.Type().Underlying().(*types.Interface); isIface {
							foreign = "field " + ir.FieldID(x)
						}
					}
				case *ssa.Parameter:
					if _, isIface := x.Type().Underlying().(*types.Interface); isIface {
						param = true
					}
				}
			}
			what := "a type assertion without the comma-ok form is made only on values whose dynamic type the code fixes"
			switch {
			case foreign != "":
				c.R.Violf(rule, name(fn), construct, c.IPos(i), what, "the value asserted to be "+ta.AssertedType.String()+" comes from "+foreign+": the input selects its dynamic type, any other type panics (interface conversion)")
			case mismatch != "":
				c.R.Violf(rule, name(fn), construct, c.IPos(i), what, "a value of type "+mismatch+" can reach the assertion to "+ta.AssertedType.String())
			case param && makes == 0:
				c.R.Infof(rule, name(fn), construct, c.IPos(i), "not decided for this shape: the asserted value is a caller-supplied interface")
			default:
				c.R.Okf(rule, name(fn), construct, c.IPos(i), what)
			}
		})
	}
	return n
}

// ruleHashAvailable (B.hash): crypto.Hash.New / Size panic for a value that is
// not a linked hash function (0, an unknown identifier). A hash chosen from
// input (a lookup by OID that falls back to the zero value) needs a test of
// the value before it is used.
func (c *Ctx) ruleHashAvailable(rule string, in func(*ssa.Function) bool) int {
	n := 0
	counts := map[string]int{}
	for _, fn := range c.P.LibFunctions() {
		if in != nil && !in(fn) {
			continue
		}
		fn := fn
		instrsOf(fn, func(i ssa.Instruction) {
			call, ok := i.(*ssa.Call)
			if !ok {
				return
			}
			id := ir.CallID(call)
			if id != "crypto.Hash.New" && id != "crypto.Hash.Size" {
				return
			}
			recv := ir.StripConv(ir.CallArgs(call)[0])
			if _, isK := recv.(*ssa.Const); isK {
				return
			}
			if _, isP := recv.(*ssa.Parameter); isP {
				return // the caller names the algorithm
			}
			n++
			key := ordinalKey(counts, name(fn)+":hash")
			construct := strings.TrimPrefix(key, name(fn)+":")
			// sources of the value
			zero, chosen := false, false
			srcs := c.sliceOf(recv)
			srcs[recv] = true
			for v := range srcs {
				switch x := v.(type) {
				case *ssa.Const:
					if ir.NamedTypeID(x.Type()) == "crypto.Hash" && isZeroConst(x) {
						zero = true
					}
				case *ssa.Call:
					if callee := ir.Callee(x); callee != nil && c.P.InLib(callee) && ir.NamedTypeID(callee.Signature.Results().At(0).Type()) == "crypto.Hash" {
						chosen = true
						for _, r := range ir.Returns(callee) {
							if k, isK := r.Results[0].(*ssa.Const); isK && isZeroConst(k) {
								zero = true
							}
						}
					}
				case *ssa.Lookup:
					chosen = true
				case *ssa.Index:
					if _, local := ir.RootOf(x.X).(*ssa.Alloc); !local {
						chosen = true
					}
				case *ssa.IndexAddr:
					// a literal table built in this function: its entries are the constants in the slice
					if _, local := ir.RootOf(x.X).(*ssa.Alloc); !local {
						chosen = true
					}
				}
			}
			if !chosen && !zero {
				c.R.Okf(rule, name(fn), construct, c.IPos(call), "the hash function is fixed by the code or named by the caller")
				return
			}
			// a dominating test of the value
			guarded := false
			for _, ce := range ir.DominatingConds(fn, call.Block()) {
				for v := range c.sliceOf(ce.Cond) {
					if v == recv {
						guarded = true
					}
					if cc, isC := v.(*ssa.Call); isC && ir.CallID(cc) == "crypto.Hash.Available" {
						guarded = true
					}
				}
			}
			if !guarded && c.hashFoundFlagTested(fn, call.Block(), recv) {
				// the lookup reports "found" next to the value and the flag is tested
				guarded = true
			}
			if guarded {
				c.R.Okf(rule, name(fn), construct, c.IPos(call), "a hash function selected from input is tested before New/Size is called on it")
				return
			}
			// value, found := table[key] on a package-level map that only the initialiser
			// fills, used behind a test that found is true: the value is one the
			// initialiser entered; which values it enters is not evaluated
			if ex, isEx := recv.(*ssa.Extract); isEx && ex.Index == 0 {
				if lk, isLk := ex.Tuple.(*ssa.Lookup); isLk && lk.CommaOk {
					if gl, initOnly := c.initOnlyMap(lk); initOnly {
						found := false
						for _, ce := range ir.DominatingConds(fn, call.Block()) {
							if fe, isF := ce.Cond.(*ssa.Extract); isF && fe.Tuple == ssa.Value(lk) && fe.Index == 1 && ce.Truth {
								found = true
							}
						}
						if found {
							c.R.Infof(rule, name(fn), construct, c.IPos(call), "not decided for this shape: the hash function is an entry of the package-level map "+gl.Name()+" that only the initialiser fills, used behind a test that the key was found; that every entry the initialiser makes is a linked hash function is not evaluated")
							return
						}
					}
				}
			}
			c.R.Add(report.Obligation{Rule: rule, Key: rule + "@" + name(fn) + ":" + construct, Func: name(fn), Pos: c.IPos(call), Status: report.Violation, Hard: zero,
				What:   "a hash function selected from input is tested before New/Size is called on it",
				Detail: "the crypto.Hash on which " + strings.TrimPrefix(id, "crypto.Hash.") + " is called is looked up from input and may be the zero value (unknown identifier): crypto.Hash panics for an unavailable function"})
		})
	}
	return n
}

// ruleNoMaterialise (T1.stream): the stream of hashed bytes is the
// concatenation of the sections the headers declare; sections may overlap, so
// its length is not bounded by the size of the file. It is consumed by
// streaming (io.Copy into a hash); reading it whole into memory lets a small
// file demand memory proportional to sections x size.
func (c *Ctx) ruleNoMaterialise(rule string, in func(*ssa.Function) bool) int {
	n := 0
	counts := map[string]int{}
	field := M + "/authenticode.PECOFFBinary.hashContent"
	for _, fn := range c.P.LibFunctions() {
		if in != nil && !in(fn) {
			continue
		}
		fn := fn
		instrsOf(fn, func(i ssa.Instruction) {
			call, ok := i.(*ssa.Call)
			if !ok {
				return
			}
			id := ir.CallID(call)
			args := ir.CallArgs(call)
			var src ssa.Value
			switch id {
			case "io.ReadAll":
				src = args[0]
			case "bytes.Buffer.ReadFrom":
				src = args[1]
			case "io.Copy":
				if ir.NamedTypeID(ir.StripIface(args[0]).Type()) == "bytes.Buffer" {
					src = args[1]
				}
			}
			if src == nil || !ir.HasField(c.sliceOf(src), field) {
				return
			}
			n++
			key := ordinalKey(counts, name(fn)+":materialise")
			c.R.Violf(rule, name(fn), strings.TrimPrefix(key, name(fn)+":"), c.IPos(call), "the hashed stream is consumed by streaming, never read whole into memory",
				id+" reads the whole hashed stream into memory: its length is the sum of the section sizes the headers declare (sections may overlap), not the size of the file")
		})
	}
	return n
}
